"""C18: usim/py/events.py, core.py, _awaitable.py, exceptions.py -> Gen/Py.lean

Every function / method / class attribute of the SimPy layer is pinned against the recorded skeleton
(the frame machine models these coroutines by hand), the set of definitions must be unchanged, and the
small decisions that carry the property are really translated: the trigger-once guards, the interrupt
queue discipline, the evaluation rules of AllOf/AnyOf, the delay normalisation of `schedule`, the
guards of Timeout and `until`."""
import ast
import json
from pytolean import Source, Untranslatable, Env, Translator
from gen_simpyres import norm

MODULE = 'Py'
SOURCES = ['usim/py/events.py', 'usim/py/core.py', 'usim/py/_awaitable.py', 'usim/py/exceptions.py']
PRELUDE = ''

SKELETONS = json.load(open(__file__.replace('gen_py.py', 'py_skeletons.json')))
FILES = {'events': 'usim/py/events.py', 'core': 'usim/py/core.py', 'awaitable': 'usim/py/_awaitable.py',
         'exceptions': 'usim/py/exceptions.py'}


def definitions(tree):
    """qualified names of everything a module defines (functions, methods, class attributes, bases)"""
    out = {}
    for node in tree.body:
        if isinstance(node, (ast.FunctionDef, ast.AsyncFunctionDef)):
            out[node.name] = node
        elif isinstance(node, ast.ClassDef):
            for sub in node.body:
                if isinstance(sub, (ast.FunctionDef, ast.AsyncFunctionDef)):
                    out[node.name + '.' + sub.name] = sub
                elif isinstance(sub, ast.Assign):
                    out[node.name + '::' + ast.unparse(sub.targets[0])] = sub
            out[node.name + '::bases'] = ','.join(ast.unparse(b) for b in node.bases)
    return out


def strip_doc(body):
    return [s for s in body if not (isinstance(s, ast.Expr) and isinstance(s.value, ast.Constant)
                                    and isinstance(s.value.value, str))]


def generate(repo):
    n = 0
    defs = {}
    for key, path in FILES.items():
        tree = ast.parse(open(f'{repo}/{path}').read())
        have = definitions(tree)
        defs[key] = have
        want = dict((q, t) for q, t in SKELETONS[key])
        if set(have) != set(want):
            raise Untranslatable(f'{path}: the set of definitions changed: added {sorted(set(have) - set(want))}, '
                                 f'removed {sorted(set(want) - set(have))}')
        for q, text in want.items():
            node = have[q]
            if isinstance(node, str):
                if node != text:
                    raise Untranslatable(f'{path}: {q} changed: {node!r} (recorded {text!r})')
            elif norm(node) != norm(ast.parse(text).body[0]):
                raise Untranslatable(f'{path}: {q}: shape differs from the recorded template:\n' + ast.unparse(node))
            n += 1
    ev = defs['events']
    out = [f'/-- number of pinned definitions of usim/py (events, core, _awaitable, exceptions) -/\ndef skeletonsMatched : Nat := {n}']

    # ---- trigger-once guards: `if self._value is not None: raise RuntimeError(..)` -----------------------------
    env = Env(names={'None': 'none', 'is:self._value:None': 'value.isNone'})
    tr = Translator(env)
    for name in ('succeed', 'fail'):
        body = strip_doc(ev['Event.' + name].body)
        g = body[0]
        if not (isinstance(g, ast.If) and isinstance(g.body[0], ast.Raise) and ast.unparse(g.body[0].exc).startswith('RuntimeError')):
            raise Untranslatable(f'Event.{name}: trigger-once guard:\n' + ast.unparse(g))
        out.append(f'/-- `Event.{name}`: the call is refused with RuntimeError iff ... (translated guard) -/\n'
                   f'def {name}Refuses (value : Option α) : Bool := {tr.bexpr(g.test)}')
    out[1] = out[1].replace('def succeedRefuses', 'def succeedRefuses {α : Type}')
    out[2] = out[2].replace('def failRefuses', 'def failRefuses {α : Type}')
    body = strip_doc(ev['Event.trigger'].body)
    if not (isinstance(body[0], ast.Assert) and ast.unparse(body[0].test) == 'self._value is None'):
        raise Untranslatable('Event.trigger: assertion')
    # ---- Process.interrupt: `if self._value is None: self._interrupts.push(cause)` ------------------------------
    body = strip_doc(ev['Process.interrupt'].body)
    g = body[0]
    if not (len(body) == 1 and isinstance(g, ast.If) and not g.orelse
            and [ast.unparse(s) for s in g.body] == ['self._interrupts.push(cause)']):
        raise Untranslatable('Process.interrupt:\n' + ast.unparse(ev['Process.interrupt']))
    out.append('/-- `Process.interrupt`: the cause is queued iff ... (translated test) -/\n'
               f'def interruptAccepted {{α : Type}} (value : Option α) : Bool := {tr.bexpr(g.test)}')
    # ---- InterruptQueue.push / pop: append at the end, take from the front -------------------------------------
    body = strip_doc(ev['InterruptQueue.push'].body)
    if ast.unparse(body[0]) != 'self._causes.append(cause)':
        raise Untranslatable('InterruptQueue.push: ' + ast.unparse(body[0]))
    body = strip_doc(ev['InterruptQueue.pop'].body)
    first = body[0]
    if not (isinstance(first, ast.Assign) and isinstance(first.value, ast.Call) and ast.unparse(first.value.func) == 'self._causes.pop'):
        raise Untranslatable('InterruptQueue.pop: ' + ast.unparse(first))
    args = [ast.unparse(a) for a in first.value.args]
    if args == ['0']:
        pop = '(causes.head?, causes.tail)'
    elif args in ([], ['-1']):
        pop = '(causes.getLast?, causes.dropLast)'
    else:
        raise Untranslatable('InterruptQueue.pop: index ' + repr(args))
    out.append('/-- `InterruptQueue.push` (translated) -/\ndef queuePush (causes : List Int) (cause : Int) : List Int := causes ++ [cause]')
    out.append('/-- `InterruptQueue.pop`: the delivered cause and the remaining queue (translated index) -/\n'
               f'def queuePop (causes : List Int) : Option Int × List Int := {pop}')
    # ---- Condition.all_events / any_events ------------------------------------------------------------------------
    env = Env(names={'len(events)': 'n'}, calls={})
    for name, lean_name in (('all_events', 'allEvents'), ('any_events', 'anyEvents')):
        body = strip_doc(ev['Condition.' + name].body)
        ret = [s for s in body if isinstance(s, ast.Return)]
        if len(ret) != 1:
            raise Untranslatable('Condition.' + name)
        src = ast.unparse(ret[0].value)
        if src == 'len(events) == count':
            lean = 'n == count'
        elif src == 'count or not events':
            lean = 'count != 0 || n == 0'
        else:
            raise Untranslatable(f'Condition.{name}: {src}')
        out.append(f'/-- `Condition.{name}(events, count)` with `n = len(events)` (translated) -/\n'
                   f'def {lean_name} (n count : Nat) : Bool := {lean}')
    for cls, fn in (('AllOf', 'all_events'), ('AnyOf', 'any_events')):
        body = strip_doc(ev[cls + '.__init__'].body)
        if [ast.unparse(s) for s in body] != [f'super().__init__(env, self.{fn}, events)']:
            raise Untranslatable(cls + '.__init__')
    # ---- Timeout.__init__ / Environment.until guards, schedule's delay normalisation -------------------------------
    tr = Translator(Env(names={'time.now': 'now', 'until': 'untilT'}))
    tr.locals.update({'delay'})
    g = strip_doc(ev['Timeout.__init__'].body)[0]
    if not (isinstance(g, ast.If) and ast.unparse(g.body[0].exc).startswith('ValueError')):
        raise Untranslatable('Timeout.__init__ guard')
    out.append(f'/-- `Timeout.__init__`: ValueError iff ... (translated) -/\ndef timeoutRejects (delay : Rat) : Bool := {tr.bexpr(g.test)}')
    co = defs['core']
    sched = strip_doc(co['Environment.schedule'].body)
    norm_if = [s for s in sched if isinstance(s, ast.If) and ast.unparse(s.test) == 'delay == 0']
    if not (len(norm_if) == 1 and [ast.unparse(s) for s in norm_if[0].body] == ['delay = None']):
        raise Untranslatable('Environment.schedule: `if delay == 0: delay = None`')
    out.append('/-- `Environment.schedule`: a zero delay means "now" (translated normalisation) -/\n'
               'def scheduleDelay (delay : Rat) : Option Rat := if delay == 0 then none else some delay')
    if [ast.unparse(s) for s in strip_doc(co['Environment._schedule'].body)] != ['self._scope.do(coroutine, after=delay)']:
        raise Untranslatable('Environment._schedule')
    until = co['Environment.until']
    guards = [s for s in ast.walk(until) if isinstance(s, ast.If) and ast.unparse(s.test) == 'until < time.now']
    if not (len(guards) == 1 and ast.unparse(guards[0].body[0].exc).startswith('ValueError')):
        raise Untranslatable('Environment.until: `if until < time.now: raise ValueError`')
    out.append(f'/-- `Environment.until(t)`: ValueError iff ... (translated) -/\ndef untilRejects (untilT now : Rat) : Bool := {tr.bexpr(guards[0].test)}')
    return '\n\n'.join(out)
