"""C16: usim/_concurrent/basics.py -> Gen/Flow.lean

Real translation of the decisions of `first` (effective count, the ValueError guard, how the
monitors are spawned, the slice) and `collect` (how the tasks are spawned, the order in which their
results are read); the coroutine skeletons themselves are pinned by gen_scope.py."""
import ast
from pytolean import Source, Untranslatable, Env, Translator

MODULE = 'Flow'
SOURCES = ['usim/_concurrent/basics.py']
PRELUDE = ''


def strip_doc(body):
    return [s for s in body if not (isinstance(s, ast.Expr) and isinstance(s.value, ast.Constant)
                                    and isinstance(s.value.value, str))]


def generate(repo):
    src = Source(f'{repo}/usim/_concurrent/basics.py')
    fn = src.find('first')
    body = strip_doc(fn.body)
    if not (len(body) == 4 and ast.unparse(body[0]).startswith('results: Queue[RT] = Queue()')
            and isinstance(body[1], ast.Assign) and ast.unparse(body[1].targets[0]) == 'count'
            and isinstance(body[2], ast.If) and not body[2].orelse and isinstance(body[2].body[0], ast.Raise)
            and isinstance(body[3], ast.AsyncWith)):
        raise Untranslatable('first: outer shape:\n' + ast.unparse(fn))
    env = Env(names={'len(activities)': 'n', 'None': 'none', 'is:count:None': 'count.isNone'},
              calls={'len': lambda tr, n: 'n' if ast.unparse(n) == 'len(activities)' else (_ for _ in ()).throw(Untranslatable('len'))})
    tr = Translator(env)
    # count = count if count is not None else len(activities)
    v = body[1].value
    if not (isinstance(v, ast.IfExp) and ast.unparse(v.test) == 'count is not None' and ast.unparse(v.body) == 'count'
            and ast.unparse(v.orelse) == 'len(activities)'):
        raise Untranslatable('first: effective count: ' + ast.unparse(body[1]))
    # if count > len(activities): raise ValueError
    g = body[2]
    if not (isinstance(g.test, ast.Compare) and ast.unparse(g.test.left) == 'count' and len(g.test.ops) == 1
            and ast.unparse(g.test.comparators[0]) == 'len(activities)'):
        raise Untranslatable('first: guard: ' + ast.unparse(g.test))
    op = {ast.Gt: '>', ast.GtE: '≥', ast.Lt: '<', ast.LtE: '≤', ast.NotEq: '≠', ast.Eq: '='}.get(type(g.test.ops[0]))
    if op is None or not ast.unparse(g.body[0].exc).startswith('ValueError'):
        raise Untranslatable('first: guard: ' + ast.unparse(g))
    w = body[3]
    if not (ast.unparse(w.items[0].context_expr) == 'Scope()' and ast.unparse(w.items[0].optional_vars) == 'scope'
            and len(w.body) == 2 and isinstance(w.body[0], ast.For) and isinstance(w.body[1], ast.AsyncFor)):
        raise Untranslatable('first: scope block:\n' + ast.unparse(w))
    spawn = w.body[0]
    call = spawn.body[0].value if len(spawn.body) == 1 and isinstance(spawn.body[0], ast.Expr) else None
    if not (ast.unparse(spawn.target) == 'activity' and ast.unparse(spawn.iter) == 'activities' and isinstance(call, ast.Call)
            and ast.unparse(call.func) == 'scope.do' and len(call.args) == 1
            and ast.unparse(call.args[0]) == '_first_monitor(activity, queue=results)'):
        raise Untranslatable('first: spawning of the monitors:\n' + ast.unparse(spawn))
    kw = {k.arg: ast.unparse(k.value) for k in call.keywords}
    if set(kw) - {'volatile'}:
        raise Untranslatable('first: spawn keywords ' + repr(kw))
    volatile = {'True': 'true', 'False': 'false'}.get(kw.get('volatile', 'False'))
    if volatile is None:
        raise Untranslatable('first: volatile=' + kw['volatile'])
    loop = w.body[1]
    it = loop.iter
    if not (isinstance(it, ast.Call) and ast.unparse(it.func) == 'a.islice' and [ast.unparse(x) for x in it.args] == ['results', 'count']
            and [ast.unparse(s) for s in loop.body] == ['yield winner'] and ast.unparse(loop.target) == 'winner'):
        raise Untranslatable('first: result loop:\n' + ast.unparse(loop))
    mon = strip_doc(src.find('_first_monitor').body)
    if [ast.unparse(s) for s in mon] != ['result = await contestant', 'await queue.put(result)']:
        raise Untranslatable('_first_monitor:\n' + ast.unparse(src.find('_first_monitor')))
    out = ['/-- `count = count if count is not None else len(activities)` (translated) -/\n'
           'def firstCount (count : Option Nat) (n : Nat) : Nat := match count with | some c => c | none => n',
           '/-- `if count > len(activities): raise ValueError` (translated guard) -/\n'
           f'def firstRejects (count n : Nat) : Bool := decide (count {op} n)',
           '/-- the `volatile=` argument with which `first` spawns its monitors (translated) -/\n'
           f'def firstMonitorsVolatile : Bool := {volatile}',
           '/-- `a.islice(results, count)`: how many results the loop takes from the queue (translated argument) -/\n'
           'def firstSlice (count : Nat) : Nat := count']
    # collect
    fn = src.find('collect')
    body = strip_doc(fn.body)
    expected = ['async with Scope() as scope:\n    tasks = [scope.do(activity) for activity in activities]',
                'return [await task for task in tasks]']
    if [ast.unparse(s) for s in body] != expected:
        raise Untranslatable('collect: shape:\n' + ast.unparse(fn))
    out.append('/-- `collect`: `scope.do(activity)` without keywords - plain (non-volatile) children, spawned and read in argument order -/\n'
               'def collectSpawnsVolatile : Bool := false')
    return '\n\n'.join(out)
