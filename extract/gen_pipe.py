"""C13: usim/_basics/pipe.py -> Gen/Pipe.lean

Real translation of the arithmetic and decisions of Pipe.transfer / Pipe._throttle_subscribers /
UnboundedPipe.transfer (over exact rationals), plus a statement-skeleton check of the control
structure around them (zero-volume guard, try/finally that frees the share, the subscription to the
congestion notification)."""
import ast
from pytolean import Source, Untranslatable, Env, Translator
from gen_simpyres import norm

MODULE = 'Pipe'
SOURCES = ['usim/_basics/pipe.py']
PRELUDE = ''


def strip_doc(body):
    return [s for s in body if not (isinstance(s, ast.Expr) and isinstance(s.value, ast.Constant)
                                    and isinstance(s.value.value, str))]


def is_assert(s):
    return isinstance(s, ast.Assert)


def wait_arm(stmts, delay_name):
    if len(stmts) != 1 or not (isinstance(stmts[0], ast.Expr) and isinstance(stmts[0].value, ast.Await)):
        raise Untranslatable('pipe: wait arm ' + ' ; '.join(ast.unparse(s) for s in stmts))
    call = ast.unparse(stmts[0].value.value)
    if call == f'suspend(delay={delay_name}, until=None)':
        return f'.suspend {delay_name}'
    if call == 'postpone()':
        return '.postpone'
    raise Untranslatable('pipe: wait arm ' + call)


def generate(repo):
    src = Source(f'{repo}/usim/_basics/pipe.py')
    out = ['inductive Wait where\n  | suspend (d : Rat) | postpone\n  deriving Repr, DecidableEq']

    # ---- Pipe._throttle_subscribers -------------------------------------------------------------
    fn = src.find('Pipe._throttle_subscribers')
    body = strip_doc(fn.body)
    if not (len(body) == 2 and ast.unparse(body[0]) == 'desired_throughput = sum(self._subscriptions.values())'
            and isinstance(body[1], ast.If) and len(body[1].orelse) == 1 and isinstance(body[1].orelse[0], ast.If)
            and not body[1].orelse[0].orelse):
        raise Untranslatable('_throttle_subscribers: shape:\n' + ast.unparse(fn))
    env = Env(names={'self.throughput': 'throughput', 'self._throughput_scale': 'scale'})
    tr = Translator(env)
    tr.locals.add('desired_throughput')

    def arm(stmts):
        if not (len(stmts) == 2 and isinstance(stmts[0], ast.Assign)
                and ast.unparse(stmts[0].targets[0]) == 'self._throughput_scale'
                and ast.unparse(stmts[1]) == 'self._congested.__awake_all__()'):
            raise Untranslatable('_throttle_subscribers: arm:\n' + '\n'.join(ast.unparse(s) for s in stmts))
        return f'({tr.expr(stmts[0].value)}, true)'
    c1 = tr.bexpr(body[1].test)
    c2 = tr.bexpr(body[1].orelse[0].test)
    out.append('/-- `Pipe._throttle_subscribers` (translated): the new common scale and whether every transfer is\n'
               'woken to re-plan; `subs` are the limits of the active transfers -/\n'
               'def throttle (throughput scale : Rat) (subs : List Rat) : Rat × Bool :=\n'
               '  let desired_throughput := subs.foldl (· + ·) 0\n'
               f'  if {c1} then {arm(body[1].body)}\n'
               f'  else if {c2} then {arm(body[1].orelse[0].body)}\n'
               '  else (scale, false)')
    for name, expected in (('Pipe._add_subscriber', 'self._subscriptions[identifier] = throughput'),
                           ('Pipe._del_subscriber', 'del self._subscriptions[identifier]')):
        b = strip_doc(src.find(name).body)
        if [ast.unparse(s) for s in b] != [expected, 'self._throttle_subscribers()']:
            raise Untranslatable(name + ': shape:\n' + ast.unparse(src.find(name)))

    # ---- Pipe.transfer ---------------------------------------------------------------------------
    fn = src.find('Pipe.transfer')
    body = strip_doc(fn.body)
    i = 0
    asserts = []
    while is_assert(body[i]):
        asserts.append(body[i])
        i += 1
    rest = body[i:]
    env = Env(names={'self.throughput': 'pipeThroughput', 'self._throughput_scale': 'scale', 'time.now': 'now',
                     'None': 'none', 'is:throughput:None': 'limit.isNone'})
    tr = Translator(env)
    tr.locals.update({'total', 'transferred'})
    if [ast.unparse(a.test) for a in asserts] != ['total >= 0', 'throughput is None or throughput > 0']:
        raise Untranslatable('transfer: assertions: ' + '; '.join(ast.unparse(a) for a in asserts))
    # zero-volume guard
    g = rest[0]
    if not (isinstance(g, ast.If) and not g.orelse and [ast.unparse(s) for s in g.body] == ['await postpone()', 'return']):
        raise Untranslatable('transfer: zero-volume guard:\n' + ast.unparse(g))
    zero_guard = tr.bexpr(g.test)
    expected_setup = ['transferred = 0', 'identifier = object()',
                      'throughput = throughput if throughput is not None else self.throughput',
                      'self._add_subscriber(identifier, throughput)']
    if [ast.unparse(s) for s in rest[1:5]] != expected_setup:
        raise Untranslatable('transfer: setup:\n' + '\n'.join(ast.unparse(s) for s in rest[1:5]))
    t = rest[5] if len(rest) == 6 else None
    if not (isinstance(t, ast.Try) and not t.handlers and not t.orelse
            and [ast.unparse(s) for s in t.finalbody] == ['self._del_subscriber(identifier)']
            and len(t.body) == 1 and isinstance(t.body[0], ast.While)):
        raise Untranslatable('transfer: try/finally that frees the share:\n' + ast.unparse(rest[5]) if len(rest) > 5 else 'missing')
    loop = t.body[0]
    tr.locals.update({'throughput'})
    cont = tr.bexpr(loop.test)
    lb = loop.body
    if not (len(lb) == 5 and ast.unparse(lb[0]) == 'window_start = time.now'
            and isinstance(lb[1], ast.Assign) and ast.unparse(lb[1].targets[0]) == 'window_throughput'
            and isinstance(lb[2], ast.With) and ast.unparse(lb[2].items[0].context_expr) == 'self._congested.__subscription__()'
            and ast.unparse(lb[3]) == 'window_end = time.now'
            and isinstance(lb[4], ast.AugAssign) and isinstance(lb[4].op, ast.Add) and ast.unparse(lb[4].target) == 'transferred'):
        raise Untranslatable('transfer: loop body:\n' + ast.unparse(loop))
    rate = tr.expr(lb[1].value)
    tr.locals.update({'window_throughput', 'window_start', 'window_end'})
    wb = lb[2].body
    if not (len(wb) == 3 and isinstance(wb[0], ast.Assign) and ast.unparse(wb[0].targets[0]) == 'delay'
            and isinstance(wb[1], ast.If) and ast.unparse(wb[2]) == 'transferred = total'):
        raise Untranslatable('transfer: window body:\n' + ast.unparse(lb[2]))
    delay = tr.expr(wb[0].value)
    tr.locals.add('delay')
    dcond = tr.bexpr(wb[1].test)
    a1, a2 = wait_arm(wb[1].body, 'delay'), wait_arm(wb[1].orelse, 'delay')
    incr = tr.expr(lb[4].value)
    out += [
        '/-- `if total == 0: await postpone(); return` (translated guard) -/\n'
        f'def zeroGuard (total : Rat) : Bool := {zero_guard}',
        '/-- `while transferred < total` (translated) -/\n'
        f'def continues (transferred total : Rat) : Bool := {cont}',
        '/-- `window_throughput = throughput * self._throughput_scale` (translated) -/\n'
        f'def windowRate (throughput scale : Rat) : Rat := {rate}',
        '/-- the wait of one window (translated): `delay = (total - transferred) / window_throughput` -/\n'
        'def windowWait (total transferred window_throughput : Rat) : Wait :=\n'
        f'  let delay := {delay}\n'
        f'  if {dcond} then {a1} else {a2}',
        '/-- `transferred` after a window that was interrupted by a congestion change (translated `+=`) -/\n'
        'def afterInterrupted (transferred window_start window_end window_throughput : Rat) : Rat :=\n'
        f'  transferred + {incr}',
        '/-- `transferred` after a window whose wait returned normally: `transferred = total`, then the `+=` -/\n'
        'def afterCompleted (total window_start window_end window_throughput : Rat) : Rat :=\n'
        f'  let transferred := total\n  transferred + {incr}',
    ]

    # ---- UnboundedPipe.transfer ------------------------------------------------------------------
    fn = src.find('UnboundedPipe.transfer')
    body = strip_doc(fn.body)
    asserts = [s for s in body if is_assert(s)]
    rest = [s for s in body if not is_assert(s)]
    if [ast.unparse(a.test) for a in asserts] != ['total >= 0', 'throughput is None or throughput > 0']:
        raise Untranslatable('UnboundedPipe.transfer: assertions')
    expected = '''
if throughput is None or throughput == float('inf'):
    await postpone()
else:
    delay = total / throughput
    if delay > 0:
        await suspend(delay=delay, until=None)
    else:
        await postpone()
'''
    if not (len(rest) == 1 and norm(rest[0]) == norm(ast.parse(expected).body[0])):
        raise Untranslatable('UnboundedPipe.transfer: shape:\n' + ast.unparse(fn))
    env = Env(names={})
    tr = Translator(env)
    tr.locals.update({'total', 'throughput'})
    inner = rest[0].orelse
    d = tr.expr(inner[0].value)
    tr.locals.add('delay')
    out.append('/-- `UnboundedPipe.transfer` with a finite limit (translated): `delay = total / throughput` -/\n'
               'def unboundedWait (total throughput : Rat) : Wait :=\n'
               f'  let delay := {d}\n'
               f'  if {tr.bexpr(inner[1].test)} then {wait_arm(inner[1].body, "delay")} else {wait_arm(inner[1].orelse, "delay")}')
    # UnboundedPipe.__init__ insists on infinite throughput
    init = strip_doc(src.find('UnboundedPipe.__init__').body)
    if not (is_assert(init[0]) and ast.unparse(init[0].test) == "throughput == float('inf')"):
        raise Untranslatable('UnboundedPipe.__init__: infinite-throughput assertion')
    init = strip_doc(src.find('Pipe.__init__').body)
    text = [ast.unparse(s) for s in init]
    for needed in ('assert throughput > 0, \'throughput must be positive\'', 'self._throughput_scale = 1.0', 'self._subscriptions: Dict[object, float] = {}'):
        if needed not in text:
            raise Untranslatable('Pipe.__init__: missing `%s`:\n%s' % (needed, '\n'.join(text)))
    return '\n\n'.join(out)
