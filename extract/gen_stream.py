"""C10/C11: usim/_basics/streams.py -> Gen/Stream.lean (shape templates of every method)"""
import ast
from pytolean import Source, Untranslatable
from gen_simpyres import norm

MODULE = 'Stream'
SOURCES = ['usim/_basics/streams.py']
PRELUDE = 'import USimModel.Prim.Stream\nopen USim.Prim.Stream\n'


def template(src, qualname, expected_src, lean):
    node = src.find(qualname)
    if norm(node) != norm(ast.parse(expected_src).body[0]):
        raise Untranslatable(f'{qualname}: shape differs from the recorded template:\n' + ast.unparse(node))
    return lean


def generate(repo):
    st = Source(f'{repo}/usim/_basics/streams.py')
    out = []
    out.append(template(st, 'Queue.put', '''
async def put(self, item: ST):
    if self._closed:
        raise StreamClosed(self)
    self._buffer.append(item)
    try:
        self._notification.__awake_next__()
    except NoSubscribers:
        pass
    await postpone()
''', '''/-- `Queue.put` up to its trailing postpone -/
def queuePut (s : QSt) (item : Int) : QSt :=
  if s.closed then { s with rejected := s.rejected ++ [item] }
  else { s with buffer := s.buffer ++ [item], accepted := s.accepted ++ [item] }'''))
    out.append(template(st, 'Queue._await_message', '''
async def _await_message(self):
    async with self._read_mutex:
        if self._buffer:
            await postpone()
            return self._buffer.popleft()
        elif self._closed:
            raise StreamClosed(self)
        await self._notification
        try:
            return self._buffer.popleft()
        except IndexError:
            assert self._closed  # on failure, report this as a usim bug
            raise StreamClosed(self)
''', '''/-- `Queue._await_message`: the only places that take an item are the two `popleft()` calls, each in
the last synchronous segment of the receive (after the postpone / after the notification) -/
def queuePop (s : QSt) : QSt :=
  match s.buffer with
  | [] => s
  | x :: rest => { s with buffer := rest, received := s.received ++ [x] }'''))
    out.append(template(st, 'Queue.close', '''
async def close(self):
    if not self._closed:
        self._closed = True
        self._notification.__awake_all__()
    await postpone()
''', '''/-- `Queue.close` -/
def queueClose (s : QSt) : QSt := { s with closed := true }'''))
    out.append(template(st, 'Queue.__aiter__', '''
async def __aiter__(self):
    while True:
        try:
            result = await self
        except StreamClosed:
            break
        else:
            yield result
''', '-- `Queue.__aiter__`: repeated `await self` until StreamClosed (template matched)'))
    out.append(template(st, 'Queue.__await__', '''
def __await__(self) -> Generator[Any, None, ST]:
    return (yield from self._await_message().__await__())  # noqa: B901
''', '-- `Queue.__await__` delegates to `_await_message` (template matched)'))
    out.append(template(st, 'Channel.put', '''
async def put(self, item: ST):
    if self._closed:
        raise StreamClosed(self)
    for buffer in self._consumer_buffers.values():
        buffer.append(item)
    self._notification.__awake_all__()
    await postpone()
''', '''/-- `Channel.put` up to its trailing postpone -/
def channelPut (s : CSt) (item : Int) : CSt :=
  if s.closed then s
  else { s with consumers := s.consumers.map (fun c => { c with buffer := c.buffer ++ [item], since := c.since ++ [item] }) }'''))
    out.append(template(st, 'Channel.__await__', '''
def __await__(self) -> Generator[Any, None, ST]:
    if self._closed:
        raise StreamClosed(self)
    sentinel = object()
    self._consumer_buffers[sentinel] = buffer = []  # type: List[ST]
    try:
        yield from self._notification.__await__()
    finally:
        del self._consumer_buffers[sentinel]
    if not buffer and self._closed:
        raise StreamClosed(self)
    return buffer[0]  # noqa: B901
''', '-- `Channel.__await__`: register, wait, deregister in `finally`, first buffered message (template matched)'))
    out.append(template(st, 'Channel.__aiter__', '''
async def __aiter__(self):
    sentinel = object()
    self._consumer_buffers[sentinel] = buffer = deque()  # type: Deque[ST]
    try:
        while True:
            while buffer:
                yield buffer.popleft()
            if self._closed:
                break
            await self._notification
    finally:
        del self._consumer_buffers[sentinel]
''', '''/-- `Channel.__aiter__`: `yield buffer.popleft()` for consumer `k` -/
def channelDeliver (s : CSt) (k : Nat) : CSt :=
  { s with consumers := s.consumers.map (fun c =>
      if c.key == k then (match c.buffer with
        | [] => c
        | x :: rest => { c with buffer := rest, delivered := c.delivered ++ [x] }) else c) }
/-- `finally: del self._consumer_buffers[sentinel]` -/
def channelLeave (s : CSt) (k : Nat) : CSt := { s with consumers := s.consumers.filter (fun c => c.key != k) }'''))
    out.append(template(st, 'Channel.close', '''
async def close(self):
    if not self._closed:
        self._closed = True
        self._notification.__awake_all__()
    await postpone()
''', '''/-- `Channel.close` -/
def channelClose (s : CSt) : CSt := { s with closed := true }'''))
    return '\n\n'.join(out)
