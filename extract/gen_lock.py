"""C09: usim/_primitives/locks.py -> Gen/Lock.lean (shape templates: the coroutine skeletons of
`__aenter__`/`__aexit__` are hand-modelled; their synchronous decision logic is pinned here)"""
import ast
from pytolean import Source, Untranslatable
from gen_simpyres import norm

MODULE = 'Lock'
SOURCES = ['usim/_primitives/locks.py', 'usim/_primitives/notification.py']
PRELUDE = 'import USimModel.Prim.Lock\nopen USim.Prim.Lock\n'


def template(src, qualname, expected_src, lean):
    node = src.find(qualname)
    if norm(node) != norm(ast.parse(expected_src).body[0]):
        raise Untranslatable(f'{qualname}: shape differs from the recorded template:\n' + ast.unparse(node))
    return lean


def generate(repo):
    lk = Source(f'{repo}/usim/_primitives/locks.py')
    nt = Source(f'{repo}/usim/_primitives/notification.py')
    out = []
    out.append(template(lk, 'Lock.available', '''
@property
def available(self) -> bool:
    if self._owner is None:
        return True
    else:
        return self._owner is __USIM_STATE__.loop.activity
''', '''/-- `Lock.available` -/
def available (s : LockSt) (activity : Nat) : Bool :=
  match s.owner with
  | none => true
  | some o => o == activity'''))
    out.append(template(lk, 'Lock.__release__', '''
def __release__(self):
    try:
        candidate, signal = self._notification.__awake_next__()
    except NoSubscribers:
        self._owner = None
    else:
        self._owner = candidate
''', '''/-- `Lock.__release__` with `Notification.__awake_next__` (oldest waiter first) -/
def release (s : LockSt) : LockSt :=
  match s.waiting with
  | [] => { s with owner := none }
  | candidate :: rest => { s with owner := some candidate, waiting := rest, woken := s.woken ++ [candidate] }'''))
    out.append(template(nt, 'Notification.__awake_next__', '''
def __awake_next__(self) -> Tuple[Coroutine, Interrupt]:
    try:
        waiter, interrupt = self._waiting.pop(0)
    except IndexError:
        raise NoSubscribers
    else:
        __USIM_STATE__.loop.schedule(waiter, signal=interrupt)
        return waiter, interrupt
''', '-- `Notification.__awake_next__`: pop(0) + schedule (template matched)'))
    out.append(template(nt, 'Notification.__subscribe__', '''
def __subscribe__(self, waiter: Coroutine, interrupt: Interrupt):
    self._waiting.append((waiter, interrupt))
''', '-- `Notification.__subscribe__`: append (template matched)'))
    out.append(template(nt, 'Notification.__unsubscribe__', '''
def __unsubscribe__(self, waiter: Coroutine, interrupt: Interrupt):
    if interrupt.scheduled:
        interrupt.revoke()
    else:
        self._waiting.remove((waiter, interrupt))
''', '-- `Notification.__unsubscribe__`: revoke if scheduled, else remove (template matched)'))
    out.append(template(lk, 'Lock.__aenter__', '''
async def __aenter__(self):
    current_activity = __USIM_STATE__.loop.activity
    if self._owner is None:
        self._owner = current_activity
    elif self._owner is not current_activity:
        try:
            await self._notification
        except BaseException:
            # we are the designated owner, pass on ownership
            if self._owner == current_activity:
                self.__release__()
            raise
    self._depth += 1
    return self
''', '''/-- `Lock.__aenter__` up to its suspension (`enter`), its completion after the wake-up (`resume`)
and its `except BaseException` clause together with the unsubscription (`abort`) -/
def aenterStart (s : LockSt) (a : Nat) : LockSt :=
  match s.owner with
  | none => { s with owner := some a, depth := s.depth + 1 }
  | some o => if o == a then { s with depth := s.depth + 1 } else { s with waiting := s.waiting ++ [a] }
def aenterResume (s : LockSt) (a : Nat) : LockSt := { s with woken := s.woken.erase a, depth := s.depth + 1 }
def aenterAbort (s : LockSt) (a : Nat) : LockSt :=
  if s.waiting.contains a then { s with waiting := s.waiting.erase a }
  else
    let s := { s with woken := s.woken.erase a }
    if s.owner == some a then release s else s'''))
    out.append(template(lk, 'Lock.__aexit__', '''
async def __aexit__(self, exc_type, exc_val, exc_tb):
    assert exc_type is GeneratorExit or self._owner == __USIM_STATE__.loop.activity
    self._depth -= 1
    if self._depth == 0:
        self.__release__()
    return False
''', '''/-- `Lock.__aexit__` -/
def aexit (s : LockSt) : LockSt :=
  let s := { s with depth := s.depth - 1 }
  if s.depth == 0 then release s else s'''))
    return '\n\n'.join(out)
