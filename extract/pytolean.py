"""Small Python-AST -> Lean 4 translator for the decision logic of usim.

Only a documented subset of Python is accepted; anything else raises
`Untranslatable`, which the caller turns into a *broken proof obligation*
(never into a verdict by itself).

Statements: `x = e`, `self.f = e`, `self.f += e`, `self.f -= e`, `if/elif/else`, `return e`,
`raise E(...)`, `assert`, expression statements that are registered *effects*
(e.g. `event.succeed()`), `for x in xs:` via registered loop schemas, `pass`.
Expressions: names, attributes (through an environment), constants, bool ops,
comparisons (also chained), arithmetic, `not`, `a if c else b`,
`all/any/sum/len/min/max`, generator expressions over one iterable (with
optional `if`), tuples, calls registered in the environment.
"""
import ast
import hashlib
import textwrap


class Untranslatable(Exception):
    pass


LEAN_KEYWORDS = {'instance', 'end', 'at', 'from', 'then', 'else', 'if', 'let', 'fun', 'do', 'in', 'have',
                 'show', 'match', 'with', 'def', 'theorem', 'open', 'namespace', 'section', 'variable',
                 'universe', 'structure', 'class', 'where', 'by', 'Type', 'Prop', 'Sort', 'import',
                 'export', 'private', 'protected', 'mutual', 'inductive', 'deriving', 'extends', 'for',
                 'return', 'mut', 'unless', 'try', 'catch', 'finally', 'some', 'none', 'true', 'false',
                 'using', 'local', 'nomatch', 'macro', 'syntax', 'axiom', 'example', 'abbrev', 'notation'}


def lname(name: str) -> str:
    """python local name -> lean identifier"""
    name = name.replace('.', '_')
    if name in LEAN_KEYWORDS:
        return name + '_'
    if name.startswith('_'):
        return 'u' + name
    return name


def dotted(node):
    """`a.b.c` -> 'a.b.c' or None"""
    if isinstance(node, ast.Name):
        return node.id
    if isinstance(node, ast.Attribute):
        base = dotted(node.value)
        if base is not None:
            return base + '.' + node.attr
    return None


class Env:
    """Translation environment.

    names : python dotted name -> lean term
    calls : python dotted callee -> function(translator, call_node) -> lean term
    state : name of the lean state variable for state-passing translation (or None)
    fields: python dotted name (e.g. 'self._level') -> lean field name of the state record
    effects: python dotted callee -> function(translator, call_node, state_var) -> new-state lean term
    """
    def __init__(self, names=None, calls=None, fields=None, effects=None,
                 state=None, ret=None, raises=None, ops=None):
        self.names = dict(names or {})
        self.calls = dict(calls or {})
        self.fields = dict(fields or {})
        self.effects = dict(effects or {})
        self.state = state
        #: how `return e` is rendered: function(lean_expr or None, state_var) -> lean term
        self.ret = ret or (lambda e, s: e if e is not None else '()')
        #: how `raise X` is rendered: function(exception_name, state_var) -> lean term
        self.raises = raises
        #: overrides for binary/compare operators: python op class name -> lean infix/func
        self.ops = dict(ops or {})


CMP = {ast.Lt: '<', ast.LtE: '≤', ast.Gt: '>', ast.GtE: '≥', ast.Eq: '==', ast.NotEq: '!='}
BIN = {ast.Add: '+', ast.Sub: '-', ast.Mult: '*', ast.Div: '/', ast.Mod: '%', ast.FloorDiv: '/'}


class Translator:
    def __init__(self, env: Env):
        self.env = env
        self.locals = set()
        self.fresh = 0

    # ---------------------------------------------------------------- expressions
    def expr(self, n) -> str:
        env = self.env
        d = dotted(n)
        if d is not None:
            if d in self.locals:
                return lname(d)
            if d in env.fields and env.state:
                return f'{self.cur_state}.{env.fields[d]}'
            if d in env.names:
                return env.names[d]
            raise Untranslatable(f'unknown name {d!r} (line {getattr(n, "lineno", "?")})')
        if isinstance(n, ast.Constant):
            v = n.value
            if v is True:
                return 'true'
            if v is False:
                return 'false'
            if v is None:
                if 'None' in env.names:
                    return env.names['None']
                raise Untranslatable('None constant')
            if isinstance(v, int):
                return str(v) if v >= 0 else f'({v})'
            if isinstance(v, float) and v == int(v):
                return str(int(v))
            if isinstance(v, str):
                if ('str:' + v) in env.names:
                    return env.names['str:' + v]
            raise Untranslatable(f'constant {v!r}')
        if isinstance(n, ast.BoolOp):
            op = ' && ' if isinstance(n.op, ast.And) else ' || '
            return '(' + op.join(self.bexpr(v) for v in n.values) + ')'
        if isinstance(n, ast.UnaryOp):
            if isinstance(n.op, ast.Not):
                return f'(!{self.bexpr(n.operand)})'
            if isinstance(n.op, ast.USub):
                return f'(-{self.expr(n.operand)})'
            raise Untranslatable('unary op')
        if isinstance(n, ast.Compare):
            parts = []
            left = n.left
            for op, right in zip(n.ops, n.comparators):
                parts.append(self.compare(left, op, right))
                left = right
            return parts[0] if len(parts) == 1 else '(' + ' && '.join(parts) + ')'
        if isinstance(n, ast.BinOp):
            name = type(n.op).__name__
            if name in env.ops:
                return env.ops[name](self.expr(n.left), self.expr(n.right))
            if type(n.op) in BIN:
                return f'({self.expr(n.left)} {BIN[type(n.op)]} {self.expr(n.right)})'
            raise Untranslatable(f'binary op {name}')
        if isinstance(n, ast.IfExp):
            return f'(if {self.bexpr(n.test)} then {self.expr(n.body)} else {self.expr(n.orelse)})'
        if isinstance(n, ast.Tuple):
            return '(' + ', '.join(self.expr(e) for e in n.elts) + ')'
        if isinstance(n, ast.Call):
            return self.call(n)
        if isinstance(n, ast.Subscript):
            key = 'subscript:' + (dotted(n.value) or '?')
            if key in env.calls:
                return env.calls[key](self, n)
            raise Untranslatable(f'subscript {ast.unparse(n)}')
        raise Untranslatable(f'expression {ast.unparse(n)!r}')

    def bexpr(self, n) -> str:
        """expression in boolean position (python truthiness)"""
        d = dotted(n)
        if d is not None and ('truth:' + d) in self.env.names:
            return self.env.names['truth:' + d]
        if isinstance(n, ast.Call) and dotted(n.func) and ('truth:' + dotted(n.func)) in self.env.calls:
            return self.env.calls['truth:' + dotted(n.func)](self, n)
        return self.expr(n)

    def compare(self, left, op, right) -> str:
        env = self.env
        if isinstance(op, (ast.Is, ast.IsNot)):
            key = 'is:' + (dotted(left) or ast.unparse(left)) + ':' + (dotted(right) or ast.unparse(right))
            if key in env.names:
                r = env.names[key]
                return r if isinstance(op, ast.Is) else f'(!{r})'
            raise Untranslatable(f'identity test {key}')
        if isinstance(op, (ast.In, ast.NotIn)):
            r = f'({self.expr(right)}).contains {self.expr(left)}'
            return f'({r})' if isinstance(op, ast.In) else f'(!({r}))'
        name = type(op).__name__
        if name in env.ops:
            return env.ops[name](self.expr(left), self.expr(right))
        if type(op) in CMP:
            return f'(decide ({self.expr(left)} {CMP[type(op)]} {self.expr(right)}))' \
                if type(op) in (ast.Lt, ast.LtE, ast.Gt, ast.GtE) \
                else f'({self.expr(left)} {CMP[type(op)]} {self.expr(right)})'
        raise Untranslatable(f'comparison {name}')

    def comprehension(self, gen: ast.GeneratorExp):
        if len(gen.generators) != 1:
            raise Untranslatable('nested generators')
        g = gen.generators[0]
        if not isinstance(g.target, ast.Name):
            raise Untranslatable('generator target')
        pvar = g.target.id
        var = lname(pvar)
        src = self.expr(g.iter)
        self.locals.add(pvar)
        try:
            for cond in g.ifs:
                src = f'({src}.filter (fun {var} => {self.bexpr(cond)}))'
            body = self.expr(gen.elt)
        finally:
            self.locals.discard(pvar)
        return src, var, body

    def call(self, n: ast.Call) -> str:
        env = self.env
        f = dotted(n.func)
        if f in env.calls:
            return env.calls[f](self, n)
        if f in ('all', 'any') and len(n.args) == 1:
            a = n.args[0]
            if isinstance(a, ast.GeneratorExp):
                src, var, body = self.comprehension(a)
                return f'({src}.{f} (fun {var} => {body}))'
            return f'({self.expr(a)}.{f} (fun x => x))'
        if f == 'sum' and len(n.args) == 1:
            a = n.args[0]
            if isinstance(a, ast.GeneratorExp):
                src, var, body = self.comprehension(a)
                return f'(({src}.map (fun {var} => {body})).sum)'
            return f'({self.expr(a)}.sum)'
        if f == 'len' and len(n.args) == 1:
            return f'({self.expr(n.args[0])}.length)'
        if f in ('min', 'max') and len(n.args) == 2:
            return f'({f} {self.expr(n.args[0])} {self.expr(n.args[1])})'
        raise Untranslatable(f'call {ast.unparse(n)!r}')

    # ---------------------------------------------------------------- statements
    @property
    def cur_state(self):
        return self._state_var

    def function(self, fn, state_var='s') -> str:
        """Translate a function body to a Lean term (state passing if env.state)."""
        self._state_var = state_var
        body = [s for s in fn.body
                if not (isinstance(s, ast.Expr) and isinstance(s.value, ast.Constant)
                        and isinstance(s.value.value, str))]
        return self.block(body, None)

    def block(self, stmts, cont) -> str:
        """Translate statements; `cont` is a thunk giving the Lean term for falling off the end."""
        if not stmts:
            if cont is None:
                return self.env.ret(None, self._state_var)
            return cont()
        s, rest = stmts[0], stmts[1:]
        nxt = lambda: self.block(rest, cont)  # noqa: E731
        env = self.env
        if isinstance(s, ast.Pass):
            return nxt()
        if isinstance(s, ast.Return):
            val = None if s.value is None else self.expr(s.value)
            return env.ret(val, self._state_var)
        if isinstance(s, ast.Raise):
            if env.raises is None:
                raise Untranslatable('raise')
            exc = s.exc
            name = dotted(exc.func) if isinstance(exc, ast.Call) else dotted(exc)
            return env.raises(name, self._state_var)
        if isinstance(s, ast.Assert):
            if env.raises is None:
                return nxt()
            return f'if !{self.bexpr(s.test)} then {env.raises("AssertionError", self._state_var)} else\n{nxt()}'
        if isinstance(s, ast.If):
            # the continuation is duplicated into both branches (functions here are small);
            # this keeps state threading and local bindings trivially right
            test = self.bexpr(s.test)
            return self._if_dup(s, test, rest, cont, self._state_var, set(self.locals))
        if isinstance(s, ast.Assign) and len(s.targets) == 1:
            return self.assign(s.targets[0], self.expr_or_effect(s.value), nxt)
        if isinstance(s, ast.AugAssign):
            op = BIN.get(type(s.op))
            if op is None:
                raise Untranslatable('augmented op')
            cur = self.expr(s.target)
            return self.assign(s.target, f'({cur} {op} {self.expr(s.value)})', nxt)
        if isinstance(s, ast.Expr) and isinstance(s.value, ast.Call):
            f = dotted(s.value.func)
            if f in env.effects:
                self.fresh += 1
                new = f's{self.fresh}'
                val = env.effects[f](self, s.value, self._state_var)
                self._state_var = new
                return f'let {new} := {val}\n{nxt()}'
            raise Untranslatable(f'statement call {ast.unparse(s)!r}')
        key = 'stmt:' + type(s).__name__
        if key in env.calls:
            return env.calls[key](self, s, nxt)
        raise Untranslatable(f'statement {ast.unparse(s)!r}')

    def _if_dup(self, s, test, rest, cont, saved_state, saved_locals):
        full_cont = (lambda: self.block(rest, cont))
        a = self.block(s.body, full_cont)
        self._state_var = saved_state
        self.locals = set(saved_locals)
        b = self.block(s.orelse, full_cont)
        return f'if {test} then\n{textwrap.indent(a, "  ")}\nelse\n{textwrap.indent(b, "  ")}'

    def expr_or_effect(self, v):
        return self.expr(v)

    def assign(self, target, val, nxt):
        d = dotted(target)
        if d is None:
            raise Untranslatable('assignment target')
        env = self.env
        if d in env.fields and env.state:
            self.fresh += 1
            new = f's{self.fresh}'
            out = f'let {new} := {{ {self._state_var} with {env.fields[d]} := {val} }}\n'
            self._state_var = new
            return out + nxt()
        if '.' in d:
            raise Untranslatable(f'assignment to {d}')
        self.locals.add(d)
        return f'let {lname(d)} := {val}\n{nxt()}'


# ------------------------------------------------------------------- source access
class Source:
    def __init__(self, path):
        self.path = path
        self.text = open(path).read()
        self.tree = ast.parse(self.text)

    def find(self, qualname):
        """find `Class.method`, `Class` or `function`"""
        parts = qualname.split('.')
        body = self.tree.body
        node = None
        for p in parts:
            node = None
            for n in body:
                if isinstance(n, (ast.ClassDef, ast.FunctionDef, ast.AsyncFunctionDef)) and n.name == p:
                    node = n
                    break
                if isinstance(n, ast.If):  # `if __debug__:` blocks
                    for m in n.body:
                        if isinstance(m, (ast.ClassDef, ast.FunctionDef, ast.AsyncFunctionDef)) and m.name == p:
                            node = m
                if isinstance(n, ast.Assign) and any(dotted(t) == p for t in n.targets):
                    node = n
                    break
            if node is None:
                raise Untranslatable(f'{qualname} not found in {self.path}')
            body = getattr(node, 'body', [])
        return node

    def fingerprint(self, qualname):
        node = self.find(qualname)
        return hashlib.sha256(ast.dump(node).encode()).hexdigest()[:16]
