"""C19: usim/py/resources/*.py -> Gen/SimPyRes.lean

Real translation for the arithmetic guards and state updates (`Container`, `Store._do_put`,
`PriorityStore._do_put`, `PreemptiveResource._do_put`); *shape templates* for the methods whose
Python idiom (try/except around pop/remove, `next(... enumerate ...)`, aliasing through
`users.append(event); event.usage_since = ...`, `takewhile` + `del q[:n]`) is outside the subset:
there the generator checks that the method's AST is exactly the recorded one and emits the recorded
Lean rendering; any edit makes the obligation *broken* (decided by correspondence + search).
"""
import ast
from pytolean import Env, Translator, Source, Untranslatable, dotted

MODULE = 'SimPyRes'
SOURCES = ['usim/py/resources/base.py', 'usim/py/resources/container.py', 'usim/py/resources/store.py',
           'usim/py/resources/resource.py']

PRELUDE = '''import USimModel.SimPyRes
open USim.SimPyRes
'''


def norm(node):
    """AST dump without docstrings / positions"""
    node = ast.parse(ast.unparse(node))
    for n in ast.walk(node):
        body = getattr(n, 'body', None)
        if isinstance(body, list) and body and isinstance(body[0], ast.Expr) and \
                isinstance(getattr(body[0], 'value', None), ast.Constant) and isinstance(body[0].value.value, str):
            n.body = body[1:] or [ast.Pass()]
    return ast.dump(node)


def template(src, qualname, expected_src, lean):
    node = src.find(qualname)
    if norm(node) != norm(ast.parse(expected_src).body[0]):
        raise Untranslatable(f'{qualname}: shape differs from the recorded template; not translatable:\n'
                             + ast.unparse(node))
    return lean


def ext(op):
    return lambda l, r: f'({op} {l} {r})'


def generate(repo):
    out = []
    cont = Source(f'{repo}/usim/py/resources/container.py')
    store = Source(f'{repo}/usim/py/resources/store.py')
    resrc = Source(f'{repo}/usim/py/resources/resource.py')
    base = Source(f'{repo}/usim/py/resources/base.py')

    def ret(val, s):
        if val == 'true':
            return f'some {s}'
        if val == 'false':
            return 'none'
        if val is None:
            raise Untranslatable('bare return')
        return val
    OPS = {'GtE': ext('extGe'), 'Lt': ext('extLt'), 'Sub': ext('extSub'), 'Gt': ext('extGt'), 'LtE': ext('extLe')}

    def do_fn(src, qual, kind, name, extra_effects=None, extra_names=None, extra_calls=None):
        fn = src.find(qual)
        ev = fn.args.args[1].arg
        names = {f'{ev}.amount': 'event.amount', f'{ev}.item': 'event.amount', f'{ev}.preempt': 'event.preempt',
                 f'{ev}.key': 'event.key', f'{ev}': 'event', 'self.capacity': 's_CUR.capacity'}
        names.update(extra_names or {})
        succ = 'succeedPut' if kind == 'put' else 'succeedGet'
        effects = {
            f'{ev}.succeed': (lambda tr, n, s: f'{succ} {s} event' if kind == 'put' else
                              f'{succ} {s} event ' + (tr.expr(n.args[0]) if n.args else '0')),
            'self._items.append': lambda tr, n, s: f'{{ {s} with items := {s}.items ++ [{tr.expr(n.args[0])}] }}',
            'self._items.add': lambda tr, n, s: f'{{ {s} with items := insertBy (fun a b => decide (a ≤ b)) {tr.expr(n.args[0])} {s}.items }}',
        }
        effects.update(extra_effects or {})
        env = Env(names=names, fields={'self._level': 'level', 'self._capacity': 'capacity', 'self._items': 'items',
                                       'self.users': 'users'},
                  effects=effects, calls=extra_calls or {}, state='s', ret=ret, ops=OPS)
        tr = Translator(env)
        body = tr.function(fn)
        argty = 'PutReq' if kind == 'put' else 'GetReq'
        return (f'/-- `{qual}` (translated) -/\n'
                f'def {name} (s : Core) (event : {argty}) : Option Core :=\n' + indent(body))

    out.append(do_fn(cont, 'Container._do_put', 'put', 'containerDoPut'))
    out.append(do_fn(cont, 'Container._do_get', 'get', 'containerDoGet',
                     extra_effects={'event.succeed': lambda tr, n, s: f'succeedGet {s} event event.amount'}))
    out.append(do_fn(store, 'Store._do_put', 'put', 'storeDoPut'))
    out.append(do_fn(store, 'PriorityStore._do_put', 'put', 'priorityStoreDoPut'))

    # ---- templates -----------------------------------------------------------------------------
    out.append(template(store, 'Store._do_get', '''
def _do_get(self, event: StoreGet):
    try:
        item = self._items.popleft()
    except IndexError:
        return False
    else:
        event.succeed(item)
        return True
''', '''/-- `Store._do_get` (template) -/
def storeDoGet (s : Core) (event : GetReq) : Option Core :=
  match s.items with
  | [] => none
  | item :: rest => some (succeedGet { s with items := rest } event item)'''))
    out.append(template(store, 'PriorityStore._do_get', '''
def _do_get(self, event):
    try:
        item = self._items.pop(0)
    except IndexError:
        return False
    else:
        event.succeed(item)
        return True
''', '''/-- `PriorityStore._do_get` (template) -/
def priorityStoreDoGet (s : Core) (event : GetReq) : Option Core :=
  match s.items with
  | [] => none
  | item :: rest => some (succeedGet { s with items := rest } event item)'''))
    out.append(template(store, 'FilterStore._do_get', '''
def _do_get(self, event: FilterStoreGet):
    event_filter = event.filter
    try:
        index = next(
            index for index, item in enumerate(self._items) if event_filter(item)
        )
    except StopIteration:
        return False
    else:
        event.succeed(self._items.pop(index))
        return True
''', '''/-- `FilterStore._do_get` (template): first item accepted by the filter -/
def filterStoreDoGet (s : Core) (event : GetReq) : Option Core :=
  match s.items.find? event.filter with
  | none => none
  | some item => some (succeedGet { s with items := removeFirst event.filter s.items } event item)'''))
    out.append(template(store, 'FilterStore._trigger_get', '''
def _trigger_get(self, put_event):
    self.get_queue = [
        event for event in self.get_queue if not self._do_get(event)
    ]
''', '''/-- `FilterStore._trigger_get` (template): every request is tried once, unserved ones stay -/
def filterStoreTriggerGet (doGet : Core → GetReq → Option Core) (c : Core) (q : List GetReq) : Core × List GetReq :=
  serveAll doGet c q'''))
    out.append(template(base, 'BaseResource._trigger_put', '''
def _trigger_put(self, get_event: Get):
    triggered = list(takewhile(self._do_put, self.put_queue))
    del self.put_queue[:len(triggered)]
''', '''/-- `BaseResource._trigger_put` (template): `takewhile` and deletion of the served prefix -/
def baseTriggerPut (doPut : Core → PutReq → Option Core) (c : Core) (q : List PutReq) : Core × List PutReq :=
  serve doPut c q'''))
    out.append(template(base, 'BaseResource._trigger_get', '''
def _trigger_get(self, put_event: Put):
    triggered = list(takewhile(self._do_get, self.get_queue))
    del self.get_queue[:len(triggered)]
''', '''/-- `BaseResource._trigger_get` (template) -/
def baseTriggerGet (doGet : Core → GetReq → Option Core) (c : Core) (q : List GetReq) : Core × List GetReq :=
  serve doGet c q'''))
    out.append(template(resrc, 'Resource._do_put', '''
def _do_put(self, event: Request) -> bool:
    if len(self.users) < self._capacity:
        self.users.append(event)
        event.usage_since = self._env.now
        event.succeed()
        return True
    return False
''', '''/-- `Resource._do_put` (template; `users.append` is `SortedQueue.add` for a PreemptiveResource) -/
def resourceDoPutGen (s : Core) (event : PutReq) : Option Core :=
  if extLt s.users.length s.capacity then
    let event' := { event with usageSince := s.now }
    let users := if s.kind = .preemptive then insertBy (fun a b => Key.le a.key b.key) event' s.users
                 else s.users ++ [event']
    some (succeedPut { s with users := users } event)
  else none'''))
    out.append(template(resrc, 'Resource._do_get', '''
def _do_get(self, event: Release) -> bool:
    try:
        self.users.remove(event.request)
    except ValueError:
        pass
    event.succeed()
    return True
''', '''/-- `Resource._do_get` (template) -/
def resourceDoGetGen (s : Core) (event : GetReq) : Option Core :=
  some (succeedGet { s with users := removeFirst (fun u => u.id == event.request) s.users } event 0)'''))
    out.append(template(resrc, 'PreemptiveResource._do_put', '''
def _do_put(self, event: PriorityRequest):
    if len(self.users) >= self.capacity and event.preempt:
        preempt_candidate = self.users[-1]
        if event.key < preempt_candidate.key:
            self.users.remove(preempt_candidate)
            preempt_candidate.proc.interrupt(
                Preempted(
                    by=event.proc,
                    usage_since=preempt_candidate.usage_since,
                    resource=self,
                )
            )
    return super(PreemptiveResource, self)._do_put(event)
''', '''/-- `PreemptiveResource._do_put` (template) -/
def preemptiveDoPutGen (s : Core) (event : PutReq) : Option Core :=
  let s1 :=
    if extGe s.users.length s.capacity && event.preempt then
      match s.users.getLast? with
      | some cand =>
        if Key.lt event.key cand.key then
          { s with users := s.users.dropLast,
                   log := s.log ++ [.preempted cand.id cand.proc event.proc cand.usageSince] }
        else s
      | none => s
    else s
  resourceDoPutGen s1 event'''))
    out.append(template(resrc, 'PriorityRequest.__init__', '''
def __init__(self, resource, priority: float = 0, preempt=True):
    self.priority = priority
    self.preempt = preempt
    self.time = resource._env.now
    self.usage_since = None
    self.key = (self.priority, self.time, not self.preempt)
    super(PriorityRequest, self).__init__(resource)
''', '''/-- `PriorityRequest.__init__` (template): the sort key -/
def requestKey (priority now : Int) (preempt : Bool) : Key := ⟨priority, now, !preempt⟩'''))
    out.append(template(base, 'Put.__init__', '''
def __init__(self, resource: 'BaseResource'):
    super().__init__(resource)
    resource.put_queue.append(self)
    self.callbacks.append(resource._trigger_get)
    resource._trigger_put(None)
''', '''/-- `Put.__init__` (template): enqueue, register `_trigger_get` as callback, process the put queue -/
def putInit (enqueue : PutReq → List PutReq → List PutReq) (trigger : RState → RState) (s : RState) (r : PutReq) : RState :=
  trigger { s with putQ := enqueue r s.putQ }'''))
    out.append(template(base, 'Get.__init__', '''
def __init__(self, resource: 'BaseResource'):
    super().__init__(resource)
    resource.get_queue.append(self)
    self.callbacks.append(resource._trigger_put)
    resource._trigger_get(None)
''', '''/-- `Get.__init__` (template) -/
def getInit (trigger : RState → RState) (s : RState) (g : GetReq) : RState :=
  trigger { s with getQ := s.getQ ++ [g] }'''))
    out.append(template(base, 'Put.cancel', '''
def cancel(self):
    if not self.triggered:
        self.resource.put_queue.remove(self)
''', '''/-- `Put.cancel` (template) -/
def putCancel (s : RState) (id : Nat) : RState := { s with putQ := removeFirst (fun r => r.id == id) s.putQ }'''))
    out.append(template(base, 'Get.cancel', '''
def cancel(self):
    if not self.triggered:
        self.resource.get_queue.remove(self)
''', '''/-- `Get.cancel` (template) -/
def getCancel (s : RState) (id : Nat) : RState := { s with getQ := removeFirst (fun g => g.id == id) s.getQ }'''))
    out.append(template(resrc, 'Request.__exit__', '''
def __exit__(self, exc_type, value, traceback):
    if self.triggered:
        self.resource.release(self)
    super().__exit__(exc_type, value, traceback)
''', '-- `Request.__exit__` (template): release if granted, then cancel (a no-op once granted)'))
    out.append(template(resrc, 'SortedQueue', '''
class SortedQueue(SortedKeyList):
    def __init__(self, maxlen=None):
        if maxlen is not None:
            raise NotImplementedError(
                "'SortedQueue.maxlen' is not implemented by the μSim compatibility layer"
            )
        super().__init__(key=lambda p_request: p_request.key)

    def append(self, value):
        self.add(value)
''', '''/-- `SortedQueue.append` (template): insertion sorted by `key`, after equal keys -/
def sortedEnqueue (r : PutReq) (q : List PutReq) : List PutReq := insertBy (fun a b => Key.le a.key b.key) r q'''))
    return PRELUDE_MARK + '\n\n'.join(out)


PRELUDE_MARK = ''


def indent(s, n=2):
    import textwrap
    return textwrap.indent(s, ' ' * n)
