"""C02/C08: usim/_basics/tracked.py -> Gen/Tracked.lean: skeleton templates + the operator inverse table"""
import ast
from pytolean import Source, Untranslatable, dotted
from gen_simpyres import norm

MODULE = 'Tracked'
SOURCES = ['usim/_basics/tracked.py']
PRELUDE = ''

TEMPLATES = [['AsyncComparison.__bool__', 'def __bool__(self):\n    return self._test()'], ['AsyncComparison.__invert__', 'def __invert__(self):\n    return AsyncComparison(self._left, self._operator_inverse[self._condition], self._right)'], ['AsyncComparison.__init__', "def __init__(self, left: 'Tracked', condition: Callable[[Any, Any], bool], right: Union[object, 'Tracked']):\n    super().__init__()\n    self._condition = condition\n    self._left = left\n    self._right = right\n    if isinstance(left, Tracked):\n        if isinstance(right, Tracked):\n            self._test = lambda: condition(left.value, right.value)\n            right.__add_listener__(self)\n        else:\n            self._test = lambda: condition(left.value, right)\n        left.__add_listener__(self)\n    else:\n        raise TypeError('the left-hand-side in a %s must be of type %s' % (self.__class__.__name__, Tracked.__name__))"], ['AsyncComparison.__on_changed__', 'def __on_changed__(self):\n    if self._test():\n        self.__trigger__()'], ['Tracked.__init__', 'def __init__(self, value: V):\n    self._value = value\n    self._listeners = WeakKeyDictionary()'], ['Tracked.__add_listener__', 'def __add_listener__(self, listener: AsyncComparison):\n    self._listeners[listener] = None'], ['Tracked.set', 'async def set(self, to: V):\n    self._value = to\n    for listener in list(self._listeners):\n        listener.__on_changed__()\n    await postpone()'], ['Tracked.__lt__', 'def __lt__(self, other):\n    return AsyncComparison(self, operator.lt, other)'], ['Tracked.__ge__', 'def __ge__(self, other):\n    return AsyncComparison(self, operator.ge, other)'], ['AsyncOperation.__await__', 'def __await__(self) -> Generator[Any, None, None]:\n    base = self._base\n    yield from base.set(self._operator(base.value, self._rhs)).__await__()']]

OPS = {'lt': 0, 'le': 1, 'eq': 2, 'ne': 3, 'ge': 4, 'gt': 5}


def generate(repo):
    tr = Source(f'{repo}/usim/_basics/tracked.py')
    for qual, text in TEMPLATES:
        node = tr.find(qual)
        if norm(node) != norm(ast.parse(text).body[0]):
            raise Untranslatable(f'{qual}: shape differs from the recorded template:\n' + ast.unparse(node))
    # AsyncComparison._operator_inverse: a dict literal {operator.lt: operator.ge, ...}
    cls = tr.find('AsyncComparison')
    table = None
    for n in cls.body:
        if isinstance(n, ast.Assign) and dotted(n.targets[0]) == '_operator_inverse':
            table = n.value
    if not isinstance(table, ast.Dict):
        raise Untranslatable('AsyncComparison._operator_inverse is not a dict literal')
    pairs = []
    for k, v in zip(table.keys, table.values):
        a, b = dotted(k), dotted(v)
        if not (a and b and a.startswith('operator.') and b.startswith('operator.')):
            raise Untranslatable('unexpected entry in _operator_inverse')
        pairs.append((OPS[a.split('.')[1]], OPS[b.split('.')[1]]))
    arms = '\n'.join('  | %d => %d' % p for p in sorted(pairs))
    return ('/-- `AsyncComparison._operator_inverse` (translated; 0 <, 1 <=, 2 ==, 3 !=, 4 >=, 5 >) -/\n'
            'def operatorInverse : Nat → Nat\n' + arms + '\n  | n => n\n\n'
            '/-- number of pinned skeletons of tracked.py -/\ndef skeletonsMatched : Nat := %d' % len(TEMPLATES))
