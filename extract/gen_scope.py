"""C03-C07/C16: usim/_primitives/context.py, task.py, _concurrent/basics.py -> Gen/Scope.lean

Real translation of the exception decision logic (`_collect_exceptions`, `_propagate_exceptions`,
the SUPPRESS/PROMOTE tuples, `Task.status`); skeleton templates for the coroutine code."""
import ast
import json
from pytolean import Source, Untranslatable, dotted, Env, Translator
from gen_simpyres import norm

MODULE = 'Scope'
SOURCES = ['usim/_primitives/context.py', 'usim/_primitives/task.py', 'usim/_concurrent/basics.py']
PRELUDE = ''

#: class names as they appear in the tuples -> constructor of `ExcKind`
KINDS = {'TaskCancelled': 'taskCancelled', 'TaskClosed': 'taskClosed', 'GeneratorExit': 'generatorExit',
         'SystemExit': 'systemExit', 'KeyboardInterrupt': 'keyboardInterrupt', 'AssertionError': 'assertionError'}

SKELETONS = json.load(open(__file__.replace('gen_scope.py', 'scope_skeletons.json')))


def tuple_names(cls, name):
    for n in cls.body:
        if isinstance(n, ast.Assign) and dotted(n.targets[0]) == name:
            if not isinstance(n.value, ast.Tuple):
                raise Untranslatable(f'{name} is not a tuple literal')
            out = []
            for e in n.value.elts:
                d = dotted(e)
                if d not in KINDS:
                    raise Untranslatable(f'{name}: unknown class {d}')
                out.append(KINDS[d])
            return out
    raise Untranslatable(f'{name} not found')


def generate(repo):
    cx = Source(f'{repo}/usim/_primitives/context.py')
    tk = Source(f'{repo}/usim/_primitives/task.py')
    bs = Source(f'{repo}/usim/_concurrent/basics.py')
    for path, table in SKELETONS.items():
        src = {'context': cx, 'task': tk, 'basics': bs}[path]
        for qual, text in table:
            node = src.find(qual)
            if norm(node) != norm(ast.parse(text).body[0]):
                raise Untranslatable(f'{qual}: shape differs from the recorded template:\n' + ast.unparse(node))
    n_skel = sum(len(t) for t in SKELETONS.values())
    scope = cx.find('Scope')
    suppress = tuple_names(scope, 'SUPPRESS_CONCURRENT')
    promote = tuple_names(scope, 'PROMOTE_CONCURRENT')
    out = []
    out.append('/-- exception classes the scope logic distinguishes (`isinstance` against the tuples) -/\n'
               'inductive ExcKind where\n  | taskCancelled | taskClosed | generatorExit | systemExit | keyboardInterrupt\n'
               '  | assertionError | signal | other\n  deriving DecidableEq, Repr')
    out.append('/-- `Scope.SUPPRESS_CONCURRENT` (translated) -/\ndef suppressConcurrent : List ExcKind := ['
               + ', '.join('.' + k for k in suppress) + ']')
    out.append('/-- `Scope.PROMOTE_CONCURRENT` (translated) -/\ndef promoteConcurrent : List ExcKind := ['
               + ', '.join('.' + k for k in promote) + ']')

    # ---- _collect_exceptions: for exc in failures: if promote: return (exc, None); if not suppress: concurrent.append
    fn = cx.find('Scope._collect_exceptions')
    stmts = [s for s in fn.body if not (isinstance(s, ast.Expr) and isinstance(s.value, ast.Constant))]
    shape = [type(s).__name__ for s in stmts]
    if shape != ['Assign', 'Assign', 'Assign', 'For', 'If', 'Return']:
        raise Untranslatable('_collect_exceptions: statement shape ' + str(shape))
    loop = stmts[3]
    if not (dotted(loop.iter) == 'self._child_failures' and len(loop.body) == 2
            and ast.unparse(loop.body[0]) == 'if isinstance(exc, promote):\n    return (exc, None)'
            and ast.unparse(loop.body[1]) == 'if not isinstance(exc, suppress):\n    concurrent.append(exc)'):
        raise Untranslatable('_collect_exceptions: loop body:\n' + ast.unparse(loop))
    tail = stmts[4]
    if not (ast.unparse(tail.test) == 'concurrent' and isinstance(tail.body[-1], ast.Return)
            and ast.unparse(tail.body[-1]) == 'return (None, exc)' and ast.unparse(stmts[5]) == 'return (None, None)'):
        raise Untranslatable('_collect_exceptions: tail')
    out.append('''/-- `Scope._collect_exceptions` (translated): `(privileged, children of the Concurrent)` -/
def collectExceptions {ε : Type} (kind : ε → ExcKind) (failures : List ε) : Option ε × List ε :=
  let rec go : List ε → List ε → Option ε × List ε
    | [], concurrent => (none, concurrent.reverse)
    | exc :: rest, concurrent =>
      if promoteConcurrent.contains (kind exc) then (some exc, [])
      else if !(suppressConcurrent.contains (kind exc)) then go rest (exc :: concurrent)
      else go rest concurrent
  go failures []''')

    # ---- _propagate_exceptions
    fn = cx.find('Scope._propagate_exceptions')
    expected = '''
def _propagate_exceptions(self, exc_type, exc_val) -> bool:
    if exc_type in self.PROMOTE_CONCURRENT:
        return True
    elif self._is_suppressed(exc_val) or exc_type is None:
        privileged, concurrent = self._collect_exceptions()
        if privileged is not None or concurrent is not None:
            raise privileged or concurrent
        return False
    else:
        privileged, _ = self._collect_exceptions()
        if privileged is not None:
            raise privileged
        return True
'''
    if norm(fn) != norm(ast.parse(expected).body[0]):
        raise Untranslatable('_propagate_exceptions: shape differs:\n' + ast.unparse(fn))
    out.append('''inductive Outcome (ε : Type) where
  | swallow                      -- `__aexit__` returns True / the block ends without exception
  | reraise                      -- the exception `__aexit__` was handling propagates
  | raisePrivileged (e : ε)      -- an unwrapped privileged child exception
  | raiseConcurrent (children : List ε)

/-- `Scope._propagate_exceptions` (translated).  `exc = none`: no exception is being handled;
`isOwnSignal`: `_is_suppressed(exc_val)` -/
def propagateExceptions {ε : Type} (kind : ε → ExcKind) (failures : List ε) (exc : Option ε) (isOwnSignal : Bool) : Outcome ε :=
  if (match exc with | some e => promoteConcurrent.contains (kind e) | none => false) then .reraise
  else if isOwnSignal || exc.isNone then
    match collectExceptions kind failures with
    | (some p, _) => .raisePrivileged p
    | (none, []) => .swallow
    | (none, cs) => .raiseConcurrent cs
  else
    match collectExceptions kind failures with
    | (some p, _) => .raisePrivileged p
    | (none, _) => .reraise''')
    out.append(f'/-- number of pinned coroutine skeletons of context.py / task.py / basics.py -/\ndef skeletonsMatched : Nat := {n_skel}')
    return '\n\n'.join(out)
