"""C17: usim/_primitives/concurrent_exception.py -> Gen/Concurrent.lean"""
import ast
from pytolean import Env, Translator, Source, Untranslatable, dotted

MODULE = 'Concurrent'
SOURCES = ['usim/_primitives/concurrent_exception.py']


def generate(repo):
    src = Source(f'{repo}/usim/_primitives/concurrent_exception.py')
    out = []

    # ---- MetaConcurrent._subclasscheck_specialisation
    fn = src.find('MetaConcurrent._subclasscheck_specialisation')

    def issubclass_call(tr, n):
        a, b = n.args
        if dotted(b) == 'cls.specialisations':      # issubclass(x, tuple) = any over the tuple
            return f'(clsSpecs.any (fun s_ => issub {tr.expr(a)} s_))'
        return f'(issub {tr.expr(a)} {tr.expr(b)})'
    env = Env(names={'cls.specialisations': 'clsSpecs', 'cls.inclusive': 'clsInclusive',
                     'subclass.specialisations': 'subSpecs'},
              calls={'issubclass': issubclass_call})
    body = Translator(env).function(fn)
    out.append('/-- `MetaConcurrent._subclasscheck_specialisation` (translated) -/\n'
               'def subclasscheckSpecialisation {α β : Type} (issub : α → β → Bool)\n'
               '    (clsSpecs : List β) (clsInclusive : Bool) (subSpecs : List α) : Bool :=\n'
               + indent(body))

    # ---- MetaConcurrent.__subclasscheck__
    fn = src.find('MetaConcurrent.__subclasscheck__')

    def try_stmt(tr, s, nxt):
        # try: template = subclass.template / except AttributeError: <handler> / else: <orelse>
        if not (len(s.body) == 1 and isinstance(s.body[0], ast.Assign)
                and dotted(s.body[0].value) == 'subclass.template'
                and len(s.handlers) == 1 and dotted(s.handlers[0].type) == 'AttributeError'
                and not s.finalbody):
            raise Untranslatable('try statement shape in __subclasscheck__')
        var = dotted(s.body[0].targets[0])
        handler = tr.block(s.handlers[0].body, None)
        tr.locals.add(var)
        orelse = tr.block(s.orelse, nxt)
        return (f'match subTemplate with\n| none => {handler}\n| some {var} =>\n' + indent(orelse))
    env = Env(names={'is:cls:subclass': 'clsIsSub', 'cls.template': 'clsTemplate',
                     'is:cls.specialisations:None': 'clsBare'},
              calls={'stmt:Try': try_stmt,
                     'cls._subclasscheck_specialisation': lambda tr, n: 'specialisationCheck'})
    body = Translator(env).function(fn)
    out.append('/-- `MetaConcurrent.__subclasscheck__` (translated); `subTemplate = none` models the\n'
               '`AttributeError` of a class without `.template` -/\n'
               'def subclasscheck (clsIsSub : Bool) (subTemplate : Option Nat) (clsTemplate : Nat)\n'
               '    (clsBare : Bool) (specialisationCheck : Bool) : Bool :=\n' + indent(body))

    # ---- MetaConcurrent.__instancecheck__ : must delegate to __subclasscheck__(type(instance))
    fn = src.find('MetaConcurrent.__instancecheck__')
    env = Env(calls={'cls.__subclasscheck__': lambda tr, n: f'(subclasscheck {tr.expr(n.args[0])})',
                     'type': lambda tr, n: f'(typeOf {tr.expr(n.args[0])})'},
              names={'instance': 'inst'})
    body = Translator(env).function(fn)
    out.append('/-- `MetaConcurrent.__instancecheck__` (translated) -/\n'
               'def instancecheck {ι τ : Type} (typeOf : ι → τ) (subclasscheck : τ → Bool) (inst : ι) : Bool :=\n'
               + indent(body))

    # ---- Concurrent.flattened
    fn = src.find('Concurrent.flattened')
    stmts = [s for s in fn.body if not (isinstance(s, ast.Expr) and isinstance(s.value, ast.Constant))]
    # shape: if not any(isinstance(exc, Concurrent) for exc in self.children): return self
    #        leafs = [] ; for child in self.children: if isinstance(child, Concurrent): leafs.extend(child.flattened().children) else: leafs.append(child)
    #        flat = Concurrent(*leafs) ; <cause/context copies> ; return flat
    env = Env(names={'self.children': 'children', 'self': 'none'},
              calls={'isinstance': lambda tr, n: f'(isConc {tr.expr(n.args[0])})'})
    tr = Translator(env)
    if not (isinstance(stmts[0], ast.If) and isinstance(stmts[0].body[0], ast.Return)
            and dotted(stmts[0].body[0].value) == 'self' and not stmts[0].orelse):
        raise Untranslatable('flattened: early return shape')
    guard = tr.bexpr(stmts[0].test)
    if not (isinstance(stmts[1], ast.Assign) and dotted(stmts[1].targets[0]) == 'leafs'
            and isinstance(stmts[1].value, ast.List) and not stmts[1].value.elts):
        raise Untranslatable('flattened: accumulator')
    loop = stmts[2]
    if not (isinstance(loop, ast.For) and dotted(loop.iter) == 'self.children'
            and isinstance(loop.target, ast.Name) and len(loop.body) == 1
            and isinstance(loop.body[0], ast.If)):
        raise Untranslatable('flattened: loop shape')
    var = loop.target.id
    tr.locals.add(var)
    cond = tr.bexpr(loop.body[0].test)

    def acc(stmts_):
        if len(stmts_) != 1 or not isinstance(stmts_[0], ast.Expr) or not isinstance(stmts_[0].value, ast.Call):
            raise Untranslatable('flattened: branch shape')
        c = stmts_[0].value
        f = dotted(c.func)
        if f == 'leafs.append' and dotted(c.args[0]) == var:
            return f'[{var}]'
        if f == 'leafs.extend' and ast.unparse(c.args[0]) == f'{var}.flattened().children':
            return f'(recChildren {var})'
        raise Untranslatable(f'flattened: accumulation {ast.unparse(c)}')
    a, b = acc(loop.body[0].body), acc(loop.body[0].orelse)
    ret = stmts[-1]
    mk = stmts[3]
    if not (isinstance(mk, ast.Assign) and ast.unparse(mk.value) == 'Concurrent(*leafs)'
            and isinstance(ret, ast.Return) and dotted(ret.value) == dotted(mk.targets[0])):
        raise Untranslatable('flattened: result shape')
    out.append('/-- `Concurrent.flattened` (translated): `none` = "return self", `some cs` = a new\n'
               '`Concurrent(*cs)`; `recChildren c` stands for `c.flattened().children` -/\n'
               'def flattened {ε : Type} (isConc : ε → Bool) (recChildren : ε → List ε) (children : List ε) :\n'
               '    Option (List ε) :=\n'
               f'  if {guard} then none\n'
               f'  else some ((children.map (fun {var} => if {cond} then {a} else {b})).flatten)')
    return '\n\n'.join(out)


def indent(s, n=2):
    import textwrap
    return textwrap.indent(s, ' ' * n)
