"""C12: usim/_basics/resource.py, _resource_level.py -> Gen/Resources.lean (shape templates)"""
import ast
from pytolean import Source, Untranslatable
from gen_simpyres import norm

MODULE = 'Resources'
SOURCES = ['usim/_basics/resource.py', 'usim/_basics/_resource_level.py', 'usim/_basics/tracked.py']
PRELUDE = 'import USimModel.Prim.Resources\nopen USim.Prim.Resources\n'


def template(src, qualname, expected_src, lean):
    node = src.find(qualname)
    if norm(node) != norm(ast.parse(expected_src).body[0]):
        raise Untranslatable(f'{qualname}: shape differs from the recorded template:\n' + ast.unparse(node))
    return lean


def generate(repo):
    rs = Source(f'{repo}/usim/_basics/resource.py')
    lv = Source(f'{repo}/usim/_basics/_resource_level.py')
    tr = Source(f'{repo}/usim/_basics/tracked.py')
    out = []
    out.append(template(rs, 'BorrowedResources.__aenter__', '''
async def __aenter__(self):
    # do not postpone if we can resume immediately
    if not self._resources._available >= self._debits:
        await (self._resources._available >= self._debits)
    await self._resources.__remove_resources__(self._debits)
    await self.__insert_resources__(self._debits)
    return self
''', '''/-- the availability test of `BorrowedResources.__aenter__` (`available >= debits`, every component) -/
def available (avail debits : Vec) : Bool := (avail.zip debits).all (fun p => p.1 ≥ p.2)'''))
    out.append(template(rs, 'BorrowedResources.__aexit__', '''
async def __aexit__(self, exc_type, exc_val, exc_tb):
    if exc_type is GeneratorExit:
        # we are killed forcefully and cannot perform async operations
        # dispatch a new activity to release our resources eventually
        __USIM_STATE__.loop.schedule(
            self.__remove_resources__(self._debits)
        )
        __USIM_STATE__.loop.schedule(
            self._resources.__insert_resources__(self._debits)
        )
    else:
        await self.__remove_resources__(self._debits)
        await self._resources.__insert_resources__(self._debits)
        # TODO: forcefully kill off anyone holding our resources?
''', '-- `BorrowedResources.__aexit__`: remove from the share, then insert into the supply (template matched)'))
    out.append(template(rs, 'ClaimedResources.__aenter__', '''
async def __aenter__(self):
    # do not postpone if we can resume immediately
    if not self._resources._available >= self._debits:
        raise ResourcesUnavailable(self)
    return await super().__aenter__()
''', '-- `ClaimedResources.__aenter__`: raise unless available, then the ordinary acquisition (template matched)'))
    out.append(template(rs, 'BaseResources.__remove_resources__', '''
async def __remove_resources__(self, amounts: ResourceLevels):
    new_levels = self._available.value - amounts
    await self._available.set(new_levels)
''', '''/-- `__remove_resources__`: elementwise subtraction, stored before the first suspension -/
def removeResources (avail amounts : Vec) : Vec := (avail.zip amounts).map (fun p => p.1 - p.2)'''))
    out.append(template(rs, 'BaseResources.__insert_resources__', '''
async def __insert_resources__(self, amounts: ResourceLevels):
    new_levels = self._available.value + amounts
    await self._available.set(new_levels)
''', '''/-- `__insert_resources__` -/
def insertResources (avail amounts : Vec) : Vec := (avail.zip amounts).map (fun p => p.1 + p.2)'''))
    out.append(template(tr, 'Tracked.set', '''
async def set(self, to: V):
    """Set the value"""
    self._value = to
    for listener in list(self._listeners):
        listener.__on_changed__()
    await postpone()
''', '-- `Tracked.set`: store, notify listeners, then postpone (template matched)'))
    out.append(template(lv, '__comparison_op__', '''
def __comparison_op__(op_name: str, op_symbol: str, names: Tuple[str]):
    namespace = {}
    exec(
        '\\n'.join(
            [
                f"""def {op_name}(self, other):""",
                """    assert type(self) is type(other),\\\\""",
                """        'resource levels specialisations cannot be mixed'""",
                """    return (""",
                f"""        self.{names[0]} {op_symbol} other.{names[0]}"""
            ] + [
                f"""        and self.{name} {op_symbol} other.{name}"""
                for name in names[1:]
            ] + [
                """           )"""
            ]
        ),
        namespace
    )
    return namespace[op_name]
''', '-- `_resource_level.__comparison_op__`: conjunction over all fields (template matched)'))
    return '\n\n'.join(out)
