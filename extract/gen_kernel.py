"""C01/C02/C15: usim/_core/loop.py, waitq.py, handler.py, usim/__init__.py -> Gen/Kernel.lean"""
import ast
from pytolean import Source, Untranslatable
from gen_simpyres import norm

MODULE = 'Kernel'
SOURCES = ['usim/_core/loop.py', 'usim/_core/waitq.py', 'usim/_core/handler.py', 'usim/__init__.py']
PRELUDE = 'import USimModel.Prim.KernelModel\nopen USim.Prim.Kernel USim.Machine\n'


def template(src, qualname, expected_src, lean):
    node = src.find(qualname)
    if norm(node) != norm(ast.parse(expected_src).body[0]):
        raise Untranslatable(f'{qualname}: shape differs from the recorded template:\n' + ast.unparse(node))
    return lean


def generate(repo):
    lp = Source(f'{repo}/usim/_core/loop.py')
    wq = Source(f'{repo}/usim/_core/waitq.py')
    hd = Source(f'{repo}/usim/_core/handler.py')
    init = Source(f'{repo}/usim/__init__.py')
    out = []
    out.append(template(lp, 'Loop.schedule', '''
def schedule(
        self,
        target: Coroutine,
        signal: 'Interrupt' = None, *,
        delay: float = None,
        at: float = None
):
    assert (
        delay is None or at is None
    ), "schedule date must be either absolute or relative"
    if delay is None and at is None:
        self._pending.append(Activation(target, signal))
    elif delay is not None:
        assert delay > 0, "schedule date must not be in the past"
        self._activations.push(self.time + delay, Activation(target, signal))
    elif at is not None:
        assert at > self.time, "schedule date must not be in the past"
        self._activations.push(at, Activation(target, signal))
    if signal is not None:
        signal.scheduled = True
''', '''/-- `Loop.schedule`: where the activation goes.  `none` = an assertion fails;
`some none` = end of the current time step; `some (some key)` = bucket `key` of the wait queue -/
def scheduleTarget (time : Rat) (delay at_ : Option Rat) : Option (Option Rat) :=
  if delay.isSome && at_.isSome then none
  else match delay, at_ with
    | none, none => some none
    | some d, _ => if d > 0 then some (some (time + d)) else none
    | none, some t => if t > time then some (some t) else none'''))
    out.append(template(lp, 'Loop._run_events', '''
def _run_events(self):
    activations = self._activations
    while activations:
        now, pending = activations.pop()
        self.time = now
        self.turn = 0
        self._pending = pending
        while pending:
            activation = pending.popleft()
            if activation:
                self.turn += 1
                self.activity = activation.target
                self._run_coroutine(activation.target, activation.signal)
                self.activity = None
''', '''/-- `Loop._run_events`: which activation is next -/
def runEventsNext (k : K) : Next :=
  match k.pending with
  | a :: rest => .run a { k with pending := rest }
  | [] => match k.queue with
    | (now, pending) :: q => .advance { time := now, pending := pending, queue := q }
    | [] => .quiescent'''))
    out.append(template(lp, 'Loop._run_coroutine', '''
def _run_coroutine(self, target: Coroutine, signal: BaseException = None):
    try:
        if signal is not None:
            reply = target.throw(signal)
        else:
            reply = target.send(None)
        assert (
            type(reply) is Hibernate
        ), '%s received %s but only supports the Hibernate command' % (
            self.__class__.__name__, reply
        )
    except StopIteration as err:
        if err.args:
            # async def ... return foo -> StopIteration.args == (foo,)
            raise ActivityLeak(target, signal, err.args[0]) from err
''', '''/-- `Loop._run_coroutine`: a coroutine that ends with `return value` (`StopIteration.args` non-empty,
i.e. any value other than a bare `return`/`None`) is an `ActivityLeak` -/
def leaks (returnedValue : Option Int) : Bool := returnedValue.isSome'''))
    out.append(template(lp, 'Activation.__bool__', '''
def __bool__(self) -> bool:
    return self.signal is None or not self.signal._revoked
''', '''/-- `Activation.__bool__` -/
def activationValid (signal : Option Bool) : Bool :=
  match signal with
  | none => true
  | some revoked => !revoked'''))
    out.append(template(wq, 'HQWaitQueue.push', '''
def push(self, key: K, item: V):
    try:
        self._data[key].append(item)
    except KeyError:
        self._data[key] = elements = deque()  # type: deque[V]
        elements.append(item)
        heappush(self._keys, key)
''', '''/-- `HQWaitQueue.push` -/
def hqPush (h : HQ) (key : Rat) (a : Activation) : HQ :=
  if h.data.any (·.1 == key) then
    { h with data := h.data.map (fun p => if p.1 == key then (p.1, p.2 ++ [a]) else p) }
  else { keys := key :: h.keys, data := h.data ++ [(key, [a])] }'''))
    out.append(template(wq, 'HQWaitQueue.pop', '''
def pop(self) -> 'Tuple[K, deque[V]]':
    key = heappop(self._keys)
    return key, self._data.pop(key)
''', '-- `HQWaitQueue.pop`: heappop + dict pop (template matched)'))
    out.append(template(wq, 'SDWaitQueue.push', '''
def push(self, key: K, item: V):
    try:
        self._data[key].append(item)
    except KeyError:
        self._data[key] = elements = deque()  # type: deque[V]
        elements.append(item)
''', '''/-- `SDWaitQueue.push` on the sorted-dict view -/
def sdPush (key : Rat) (a : Activation) (q : List (Rat × List Activation)) : List (Rat × List Activation) :=
  pushBucket key a q'''))
    out.append(template(wq, 'SDWaitQueue.pop', '''
def pop(self) -> 'Tuple[K, deque[V]]':
    return self._data.popitem(0)
''', '-- `SDWaitQueue.pop`: popitem(0) = smallest key (template matched)'))
    out.append(template(hd, 'StateHandler.assign', '''
@contextlib.contextmanager
def assign(self, loop: AbstractLoop):
    """Temporarily set a ``loop`` as the "current" loop of this thread"""
    outer_loop, self.loop = self.loop, loop
    try:
        yield
    finally:
        self.loop = outer_loop
''', '''/-- `StateHandler.assign`: the per-thread stack of active loops: push on entry, pop in `finally` -/
def assignEnter (stack : List Nat) (loop : Nat) : List Nat := loop :: stack
def assignExit (stack : List Nat) : List Nat := stack.drop 1'''))
    out.append(template(lp, 'Loop.run', '''
def run(self):
    with __LOOP_STATE__.assign(self):
        self._run_events()
''', '-- `Loop.run`: run the events inside `assign(self)` (template matched)'))
    out.append(template(init, 'run', '''
def run(*activities: Coroutine, start: float = 0, till: float = None):
    if till is not None:
        async def root(_activities=activities, _till=till):
            async with until(time == _till) as scope:
                for activity in _activities:
                    scope.do(activity)
        activities = root(_activities=activities, _till=till),
    loop = _Loop(*activities, start=start)
    loop.run()
''', '-- `usim.run`: with `till`, a root `until(time == till)` scope that spawns the activities (template matched)'))
    out.append(template(lp, 'Loop.__init__', '''
def __init__(self, *coroutines: Coroutine, start: float = 0):
    self.time = start
    self.turn = 0
    self._activations = WaitQueue()  # type: WaitQueue[float, Activation]
    self.activity = None  # type: Coroutine
    for coroutine in coroutines:
        self._activations.push(self.time, Activation(coroutine))
    self._pending = None  # type: collections.deque[Activation]
''', '-- `Loop.__init__`: the root activations form the bucket of `start`, in argument order (template matched)'))
    return '\n\n'.join(out)
