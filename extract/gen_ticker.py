"""C14: usim/_primitives/timing.py interval()/delay() -> Gen/Ticker.lean (real translation of the step arithmetic)"""
import ast
from pytolean import Source, Untranslatable, Env, Translator
from gen_simpyres import norm

MODULE = 'Ticker'
SOURCES = ['usim/_primitives/timing.py']
PRELUDE = ''


def generate(repo):
    tm = Source(f'{repo}/usim/_primitives/timing.py')
    fn = tm.find('interval')
    body = [s for s in fn.body if not (isinstance(s, ast.Expr) and isinstance(s.value, ast.Constant))]
    # shape: if period < 0: raise ValueError ; last_time = time.now ; while True: <step> ; last_time = time.now ; yield last_time
    if not (isinstance(body[0], ast.If) and ast.unparse(body[0].test) == 'period < 0'
            and isinstance(body[0].body[0], ast.Raise) and ast.unparse(body[1]) == 'last_time = time.now'
            and isinstance(body[2], ast.While) and ast.unparse(body[2].test) == 'True'):
        raise Untranslatable('interval: outer shape:\n' + ast.unparse(fn))
    loop = body[2].body
    if not (len(loop) == 4 and ast.unparse(loop[2]) == 'last_time = time.now' and ast.unparse(loop[3]) == 'yield last_time'):
        raise Untranslatable('interval: loop shape:\n' + ast.unparse(body[2]))
    # translate `remaining_delay = last_time + period - time.now` and the if/elif/else on it
    env = Env(names={'last_time': 'last', 'period': 'period', 'time.now': 'now'})
    tr = Translator(env)
    assign, branch = loop[0], loop[1]
    if not (isinstance(assign, ast.Assign) and ast.unparse(assign.targets[0]) == 'remaining_delay'):
        raise Untranslatable('interval: remaining_delay')
    rem = tr.expr(assign.value)
    tr.locals.add('remaining_delay')

    def arm(stmts):
        s = stmts[0]
        if isinstance(s, ast.Raise):
            name = ast.unparse(s.exc)
            if name.startswith('IntervalExceeded'):
                return '.exceeded'
            raise Untranslatable('interval: raise ' + name)
        if isinstance(s, ast.Expr) and isinstance(s.value, ast.Await):
            call = ast.unparse(s.value.value)
            if call == 'suspend(delay=remaining_delay, until=None)':
                return '.suspend remaining_delay'
            if call == 'postpone()':
                return '.postpone'
        raise Untranslatable('interval: branch body ' + ast.unparse(s))
    if not (isinstance(branch, ast.If) and len(branch.orelse) == 1 and isinstance(branch.orelse[0], ast.If)):
        raise Untranslatable('interval: if/elif/else')
    c1, c2 = tr.bexpr(branch.test), tr.bexpr(branch.orelse[0].test)
    a1, a2, a3 = arm(branch.body), arm(branch.orelse[0].body), arm(branch.orelse[0].orelse)
    out = ['inductive Wait where\n  | exceeded | suspend (d : Rat) | postpone\n  deriving Repr, DecidableEq',
           '/-- one step of `interval(period)` (translated): what the iterator does before yielding again -/\n'
           'def intervalStep (period last now : Rat) : Wait :=\n'
           f'  let remaining_delay := {rem}\n'
           f'  if {c1} then {a1}\n  else if {c2} then {a2}\n  else {a3}',
           '/-- `interval(period)` rejects negative periods (translated guard) -/\n'
           f'def intervalRejects (period : Rat) : Bool := {tr.bexpr(body[0].test)}']
    # delay()
    fn = tm.find('delay')
    expected = '''
async def delay(period) -> AsyncIterable[float]:
    if period < 0:
        raise ValueError('period must not be negative')
    if period > 0:
        while True:
            await suspend(delay=period, until=None)
            yield time.now
    else:
        while True:
            await postpone()
            yield time.now
'''
    if norm(fn) != norm(ast.parse(expected).body[0]):
        raise Untranslatable('delay: shape differs from the recorded template:\n' + ast.unparse(fn))
    out.append('/-- one step of `delay(period)` (template) -/\n'
               'def delayStep (period : Rat) : Wait := if decide (period > 0) then .suspend period else .postpone\n'
               'def delayRejects (period : Rat) : Bool := decide (period < 0)')
    return '\n\n'.join(out)
