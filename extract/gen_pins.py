"""Every definition of every source file a property is anchored in -> Gen/Pins.lean

The frame machine and the stand-alone models are written by hand against the code as it was read.
Besides the translated decisions and the skeleton pins of the individual generators, this generator
compares *every* function, method, class attribute and base-class list of the anchored files with the
recorded normalised source (docstrings, comments and formatting do not count) and emits, per file, the
list of definitions that differ.  `Props/Pin_<file>.lean` states that the list is empty; a property's
obligations include the pins of the files it is anchored in (harness/registry.py).  A changed
definition therefore breaks an obligation - which starts the search for a failing input, it is not a
verdict by itself."""
import ast
import json
import os
from gen_simpyres import norm

MODULE = 'Pins'
PRELUDE = ''
RECORD = os.path.join(os.path.dirname(os.path.abspath(__file__)), 'all_pins.json')
FILES = {
    'init': 'usim/__init__.py', 'loop': 'usim/_core/loop.py', 'waitq': 'usim/_core/waitq.py', 'handler': 'usim/_core/handler.py',
    'timing': 'usim/_primitives/timing.py', 'notification': 'usim/_primitives/notification.py',
    'condition': 'usim/_primitives/condition.py', 'flag': 'usim/_primitives/flag.py', 'context': 'usim/_primitives/context.py',
    'task': 'usim/_primitives/task.py', 'concurrent_exception': 'usim/_primitives/concurrent_exception.py',
    'locks': 'usim/_primitives/locks.py', 'streams': 'usim/_basics/streams.py', 'tracked': 'usim/_basics/tracked.py',
    'resource': 'usim/_basics/resource.py', 'resource_level': 'usim/_basics/_resource_level.py', 'pipe': 'usim/_basics/pipe.py',
    'basics': 'usim/_concurrent/basics.py', 'py_core': 'usim/py/core.py', 'py_events': 'usim/py/events.py',
    'py_awaitable': 'usim/py/_awaitable.py', 'py_exceptions': 'usim/py/exceptions.py', 'py_res_base': 'usim/py/resources/base.py',
    'py_res_container': 'usim/py/resources/container.py', 'py_res_resource': 'usim/py/resources/resource.py',
    'py_res_store': 'usim/py/resources/store.py',
}
SOURCES = sorted(FILES.values())


def definitions(tree):
    """qualified name -> source text (as unparsed by the running interpreter) of everything a module defines"""
    out = {}

    def walk(body, prefix):
        for node in body:
            if isinstance(node, (ast.FunctionDef, ast.AsyncFunctionDef)):
                out[prefix + node.name] = ast.unparse(node)
            elif isinstance(node, ast.ClassDef):
                out[prefix + node.name + '::bases'] = 'class _(' + ', '.join(
                    [ast.unparse(b) for b in node.bases] + [ast.unparse(k) for k in node.keywords]) + '): pass'
                walk(node.body, prefix + node.name + '.')
            elif isinstance(node, (ast.Assign, ast.AnnAssign)):
                tgt = node.targets[0] if isinstance(node, ast.Assign) else node.target
                if node.value is not None:
                    out[(prefix or ':') + ':' + ast.unparse(tgt)] = '_ = ' + ast.unparse(node.value)
            elif isinstance(node, ast.If):
                walk(node.body, prefix)
                walk(node.orelse, prefix)
    walk(tree.body, '')
    return out


def same(text_a, text_b):
    """equal up to docstrings, comments and formatting - compared as ASTs built by the *running* interpreter, so that
    a record made with another Python version stays valid"""
    return norm(ast.parse(text_a)) == norm(ast.parse(text_b))


def snapshot(repo):
    return {key: definitions(ast.parse(open(os.path.join(repo, path)).read())) for key, path in FILES.items()}


def generate(repo):
    recorded = json.load(open(RECORD))
    now = snapshot(repo)
    out = []
    for key in sorted(FILES):
        want, have = recorded[key], now[key]
        changed = sorted([q for q in want if q not in have] + [q for q in have if q not in want] +
                         [q for q in want if q in have and not same(want[q], have[q])])
        names = ', '.join('"' + q.replace('"', "'") + '"' for q in changed)
        out.append(f'/-- definitions of `{FILES[key]}` that differ from the recorded ones ({len(want)} recorded) -/\n'
                   f'def changed_{key} : List String := [{names}]')
    return '\n\n'.join(out)


if __name__ == '__main__':
    import sys
    json.dump(snapshot(sys.argv[1] if len(sys.argv) > 1 else '/repo'), open(RECORD, 'w'), indent=0, sort_keys=True)
    print('recorded', {k: len(v) for k, v in snapshot('/repo').items()})
