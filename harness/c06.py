"""C06 - whole-machine suite over scope trees and random valid programs (see scopesuite.py)."""
import msuite
import scopesuite

PID = 'C06'
TAGS = ['status', 'cancel', 'taskret', 'tfin', 'caught', 'spawn', 'cleanup', 'stuck']
RULE = ('(a) scope trees: nested (until-)scopes (depth <= 3, <= 3 children each, volatile or delayed), bodies and children that '
        'sleep/raise (regular and privileged types)/return, cancels from inside and from a separate activity after t time units '
        'and k postponements, deadlines and flags on a coarse time grid, everything wrapped in handlers that log what they catch; '
        '(b) random valid whole-API programs (no usage errors); (c) one task cancelled repeatedly with different tokens / closed and then cancelled, before its first turn or later, awaited by several activities; (d) payloads that swallow their own cancellation (`except CancelTask`) or clean up with awaits, cancelled 1-3 times at different times; (e) awaiters that start waiting for a task before its first turn, which is then cancelled before it starts; (h) a task cancelled while suspended inside (re-entered) lock blocks; (g) a task cancelled while it awaits a sibling, the sibling observed; (f) tasks closed by their scope inside `try/finally` whose clean-up probes the status and may raise; non-trivial = a task was cancelled or its status probed')


def nontrivial(impl):
    return any(':cancel:' in e or ':status:' in e for e in impl['events'])


def repeated_cancel(rng):
    """a task is cancelled several times with different tokens and/or closed with its scope before its first turn or
    while it runs, within one time step or across time; several activities await it (before and after) and log the
    outcome they get"""
    from fractions import Fraction as F
    k = rng.randint(0, 2)
    tok = rng.sample(range(1, 10), 3)
    watcher = lambda i, d: ['prog', ['sleep', d], ['try', ['body', ['awaittask', 0], ['log', 30 + i]],
                                                     ['handler', ['pats', 'taskCancelled', 'taskClosed', 'concurrent', 'anyException'], ['body', ['log', 40 + i]]]],
                            ['status', 0]]
    body = [['spawn', 0, 0, rng.choice([None, None, 1]), None, rng.random() < 0.2,
             ['prog', ['log', 1], ['sleep', rng.choice([0, 1, 2])], ['ret', 7]]]]
    body += [['sleep', 0]] * k
    body += [['cancel', 0, tok[0]]]
    body += [['sleep', 0]] * rng.randint(0, 1)
    body += [['cancel', 0, tok[1]], ['status', 0]]
    if rng.random() < 0.5:
        body += [['sleep', rng.choice([0, F(1, 2), 1])], ['cancel', 0, tok[2]]]
    main = ['prog', ['try', ['body', ['scope', 0, ['none']] + body], ['handler', ['pats', 'concurrent', 'anyException'], ['body', ['log', 20]]]],
            ['cancel', 0, tok[2]], ['status', 0]]
    if rng.random() < 0.4:
        # the scope fails right after creating the task: the task is closed, then cancelled
        main = ['prog', ['try', ['body', ['scope', 0, ['none'], body[0], ['raise', 0]]], ['handler', ['pats', ['user', 0]], ['body', ['log', 21]]]],
                ['cancel', 0, tok[0]], ['sleep', 0], ['cancel', 0, tok[1]], ['status', 0]]
    roots = [main] + [watcher(i, d) for i, d in enumerate(rng.sample([0, 0, F(1, 2), 1, 2, 3], rng.randint(1, 3)))]
    return ['scenario', ['debug', 1], ['start', 0], ['flags', 1], ['locks', 0], ['roots'] + roots]


def suppressed_cancel(rng):
    """the payload reacts to its own cancellation (`except CancelTask`) around some of its steps and carries on, or cleans up
    with awaits; it is cancelled 1-3 times with different tokens at different times.  A cancellation the task survived
    is not its outcome: awaiters get the value, or the token of a cancellation that was not swallowed"""
    from fractions import Fraction as F
    tok = rng.sample(range(1, 10), 3)
    steps = []
    for k in range(rng.randint(1, 3)):
        step = ['sleep', rng.choice([1, 2, 3])]
        r = rng.random()
        if r < 0.6:
            steps.append(['try', ['body', step], ['handler', ['pats', 'cancelTask'], ['body', ['log', 60 + k]]]])
        elif r < 0.8:
            steps.append(['finally', ['body', step], ['cleanup', ['log', 70 + k], ['sleep', rng.choice([F(1, 2), 1])], ['log', 75 + k]]])
        else:
            steps.append(step)
    task = ['prog', ['log', 1]] + steps + [['log', 2], ['ret', 7]]
    body = [['spawn', 0, 0, None, None, False, task]]
    t = 0
    for k in range(rng.randint(1, 3)):
        body += [['sleep', rng.choice([F(1, 2), 1, F(3, 2), 2])]] + [['sleep', 0]] * rng.randint(0, 1) + [['cancel', 0, tok[k]]]
    body += [['status', 0]]
    main = ['prog', ['try', ['body', ['scope', 0, ['none']] + body], ['handler', ['pats', 'concurrent', 'anyException'], ['body', ['log', 20]]]],
            ['status', 0]]
    watcher = lambda i, d: ['prog', ['sleep', d], ['try', ['body', ['awaittask', 0], ['log', 30 + i]],
                                                     ['handler', ['pats', 'taskCancelled', 'taskClosed', 'concurrent', 'anyException'], ['body', ['log', 40 + i]]]],
                            ['status', 0]]
    roots = [main] + [watcher(i, d) for i, d in enumerate(rng.sample([0, F(1, 2), 1, 2, 3, 5, 9], rng.randint(1, 3)))]
    return ['scenario', ['debug', 1], ['start', 0], ['flags', 1], ['locks', 0], ['roots'] + roots]


def early_awaiter(rng):
    """activities start waiting for a task in the very time step in which it is created - before its first turn - and the
    task is then cancelled (or not) before it starts, by yet another activity; later awaiters join.  Every awaiter must get the
    same outcome, the early ones included"""
    from fractions import Fraction as F
    tok = rng.sample(range(1, 10), 2)
    owner = ['prog', ['scope', 0, ['none'], ['spawn', 0, 0, rng.choice([None, None, 1]), None, False,
                                             ['prog', ['log', 1], ['sleep', rng.choice([0, 1])], ['ret', 7]]],
                      ['sleep', rng.choice([0, 1, 3])]], ['status', 0]]
    watcher = lambda i, pre: ['prog'] + pre + [['try', ['body', ['awaittask', 0], ['log', 30 + i]],
                                                ['handler', ['pats', 'taskCancelled', 'taskClosed', 'anyException'], ['body', ['log', 40 + i]]]],
                                               ['status', 0]]
    others = [watcher(i, [['sleep', 0]] * rng.randint(0, 1)) for i in range(rng.randint(1, 3))]
    if rng.random() < 0.8:
        others.append(['prog'] + [['sleep', 0]] * rng.randint(0, 1) + [['cancel', 0, tok[0]]] +
                      ([['sleep', rng.choice([0, F(1, 2)])], ['cancel', 0, tok[1]]] if rng.random() < 0.3 else []))
    rng.shuffle(others)
    late = [watcher(5, [['sleep', rng.choice([F(1, 2), 2, 5])]])] if rng.random() < 0.6 else []
    # the owner first: the task exists when the others get their first turn, and has not had its own yet
    return ['scenario', ['debug', 1], ['start', 0], ['flags', 1], ['locks', 0], ['roots', owner] + others + late]


def closed_cleanup(rng):
    """a task is closed by its scope (the body fails, the deadline passes, or it is volatile and the body ends) while it is
    suspended inside `try ... finally`; the clean-up probes the task's status, logs and - in half of the cases - raises.
    The status is probed before, inside the clean-up and afterwards, and the task is awaited by others"""
    from fractions import Fraction as F
    vol = rng.random() < 0.3
    cl = [['status', 0], ['log', 5]] + ([['raise', rng.choice([1, 2, 4])]] if rng.random() < 0.5 else [])
    task = ['prog', ['log', 1], ['finally', ['body', ['sleep', rng.choice([5, 10])]], ['cleanup'] + cl], ['ret', 7]]
    un = ['none'] if vol or rng.random() < 0.5 else ['delay', rng.choice([1, 2])]
    body = [['spawn', 0, 0, rng.choice([None, None, F(1, 2)]), None, vol, task], ['status', 0], ['sleep', rng.choice([1, 2])], ['status', 0]]
    if un == ['none'] and not vol:
        body += [['raise', 0]]
    elif un != ['none']:
        body += [['sleep', 20]]
    main = ['prog', ['try', ['body', ['scope', 0, un] + body], ['handler', ['pats', 'concurrent', 'anyException'], ['body', ['log', 20]]]],
            ['status', 0], ['sleep', 1], ['status', 0]]
    watcher = lambda i, d: ['prog', ['sleep', d], ['try', ['body', ['awaittask', 0], ['log', 30 + i]],
                                                     ['handler', ['pats', 'taskCancelled', 'taskClosed', 'concurrent', 'anyException'], ['body', ['log', 40 + i]]]],
                            ['status', 0]]
    roots = [main] + [watcher(i, d) for i, d in enumerate(rng.sample([F(1, 2), 1, 2, 3, 5], rng.randint(0, 2)))]
    return ['scenario', ['debug', 1], ['start', 0], ['flags', 1], ['locks', 0], ['roots'] + roots]


def cleanup_raises(sc, t):
    """does the program of task `t` contain a `finally` whose clean-up raises?"""
    def has_raise(x):
        return isinstance(x, list) and bool(x) and (x[0] == 'raise' or any(has_raise(e) for e in x))

    def fin(x):
        if not isinstance(x, list) or not x:
            return False
        if x[0] == 'finally' and has_raise(x[2]):
            return True
        return any(fin(e) for e in x)

    def spawns(x):
        if isinstance(x, list) and x:
            if x[0] == 'spawn' and x[2] == t and fin(x[6]):
                return True
            return any(spawns(e) for e in x)
        return False
    return spawns(sc)


def refine(msg, impl, model, sc):
    """F18: the only status step that is off is cancelled (closed) -> failed, the task was closed inside a `finally` whose
    clean-up raises, and the model - which mirrors Task.__close__ and the payload wrapper - says the same"""
    import re
    m = re.match(r'task (\d+): status went backwards or changed after completion: \[(.*)\]', msg)
    if not m:
        return None
    codes = [int(x) for x in m.group(2).split(',') if x.strip()]
    rank = {1: 0, 2: 1, 4: 2, 8: 2, 16: 2}
    off = [(a, b) for a, b in zip(codes, codes[1:]) if rank.get(a, 9) > rank.get(b, 9) or (rank.get(a) == 2 and a != b)]
    t = int(m.group(1)) - 1000
    closed_in_cleanup = any(e.split(':')[2] == str(1000 + t) and e.split(':')[3] == 'cleanup' and e.split(':')[4:5] == ['1,11']
                            for e in impl['events'])
    return {'only_cancelled_to_failed': bool(off) and all(p == (4, 8) for p in off),
            'closed_inside_finally_whose_cleanup_raises': cleanup_raises(sc, t) and closed_in_cleanup,
            'as_modelled': model is not None and model['events'] == impl['events']}


def await_sibling(rng):
    """a task waits for a sibling (`await task`) and is cancelled while it waits; the sibling, its status and its other
    awaiters (earlier and later ones) are observed: cancelling one task must not touch the other"""
    from fractions import Fraction as F
    tok = rng.sample(range(1, 10), 2)
    d = rng.choice([2, 3, 5])
    sib = ['prog', ['log', 1], ['sleep', d], ['log', 2], ['ret', 7]]
    waiter = ['prog', ['sleep', rng.choice([0, F(1, 2), 1])],
              ['try', ['body', ['awaittask', 0], ['log', 3]], ['handler', ['pats', 'taskCancelled', 'taskClosed', 'anyException'], ['body', ['log', 4]]]]]
    if rng.random() < 0.4:
        waiter = ['prog', ['sleep', rng.choice([0, 1])], ['awaittask', 0], ['log', 3]]
    body = [['spawn', 0, 0, None, None, False, sib], ['spawn', 0, 1, None, None, False, waiter],
            ['sleep', rng.choice([1, F(3, 2), 2])]] + [['sleep', 0]] * rng.randint(0, 2) + [['cancel', 1, tok[0]], ['status', 0], ['status', 1]]
    if rng.random() < 0.3:
        body += [['sleep', rng.choice([0, F(1, 2)])], ['cancel', 1, tok[1]]]
    main = ['prog', ['try', ['body', ['scope', 0, ['none']] + body], ['handler', ['pats', 'concurrent', 'anyException'], ['body', ['log', 20]]]],
            ['status', 0], ['status', 1]]
    watcher = lambda i, t: ['prog', ['sleep', t], ['try', ['body', ['awaittask', 0], ['log', 30 + i]],
                                                     ['handler', ['pats', 'taskCancelled', 'taskClosed', 'concurrent', 'anyException'], ['body', ['log', 40 + i]]]],
                            ['status', 0]]
    roots = [main] + [watcher(i, t) for i, t in enumerate(rng.sample([F(1, 2), 1, 2, 4, 7], rng.randint(1, 2)))]
    return ['scenario', ['debug', 1], ['start', 0], ['flags', 1], ['locks', 0], ['roots'] + roots]


def cancel_in_lock(rng):
    """the task is suspended inside `async with lock` blocks - re-entered 1-3 times - when it is cancelled (or its scope fails):
    a context manager the cancellation passes through on its way out must not swallow it"""
    from fractions import Fraction as F
    tok = rng.sample(range(1, 10), 2)
    inner = [['log', 2], ['sleep', rng.choice([3, 5])], ['log', 3]]
    for _ in range(rng.randint(1, 3)):
        inner = [['lock', 0] + inner + [['log', 4]]]
    task = ['prog', ['log', 1]] + inner + [['sleep', 1], ['log', 5], ['ret', 7]]
    body = [['spawn', 0, 0, None, None, False, task], ['sleep', rng.choice([1, 2])]] + [['sleep', 0]] * rng.randint(0, 1)
    if rng.random() < 0.7:
        body += [['cancel', 0, tok[0]], ['status', 0]]
    else:
        body += [['raise', 0]]
    main = ['prog', ['try', ['body', ['scope', 0, ['none']] + body], ['handler', ['pats', 'concurrent', 'anyException'], ['body', ['log', 20]]]],
            ['status', 0]]
    watcher = lambda i, t: ['prog', ['sleep', t], ['try', ['body', ['awaittask', 0], ['log', 30 + i]],
                                                     ['handler', ['pats', 'taskCancelled', 'taskClosed', 'concurrent', 'anyException'], ['body', ['log', 40 + i]]]],
                            ['status', 0]]
    roots = [main] + [watcher(i, t) for i, t in enumerate(rng.sample([F(1, 2), 1, 4, 9], rng.randint(1, 2)))]
    return ['scenario', ['debug', 1], ['start', 0], ['flags', 1], ['locks', 1], ['roots'] + roots]


SOURCES = [scopesuite.scope_tree, scopesuite.valid_scenario, scopesuite.cancel_cleanup, repeated_cancel, suppressed_cancel, early_awaiter, closed_cleanup, await_sibling, cancel_in_lock]


def run(tier, seed, drv):
    return msuite.standard_run(PID, 'C06', TAGS, tier, seed, drv, SOURCES, nontrivial=nontrivial, rule=RULE,
                               n_quick=200, n_thorough=6000, refine=refine, optimized=100 if tier == 'quick' else 1000)


def replay(data, drv):
    return msuite.standard_replay(PID, 'C06', TAGS, data, drv, refine=refine)
