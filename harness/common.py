"""Shared machinery of the checks: Lean driver client, results, evidence, known findings."""
import hashlib
import json
import os
import random
import subprocess
import sys
import time

VERIF = os.path.dirname(os.path.dirname(os.path.abspath(__file__)))
LEAN = os.path.join(VERIF, 'lean')
REPO = os.environ.get('USIM_VERIF_REPO', '/repo')
DRIVER = os.path.join(LEAN, '.lake', 'build', 'bin', 'driver')
PYTHON = '/venv/bin/python'

ALLOWED_AXIOMS = {'propext', 'Classical.choice', 'Quot.sound'}


class Driver:
    """Client of the compiled Lean driver (`lean/Driver.lean`), one request per line."""

    def __init__(self):
        self.proc = subprocess.Popen([DRIVER], stdin=subprocess.PIPE, stdout=subprocess.PIPE,
                                     text=True, bufsize=1 << 16)
        self.requests = 0

    def ask(self, line: str) -> str:
        self.proc.stdin.write(line + '\n')
        self.proc.stdin.flush()
        self.requests += 1
        out = self.proc.stdout.readline()
        if not out:
            raise RuntimeError('Lean driver died on: ' + line[:200])
        return out.rstrip('\n')

    def ask_many(self, lines):
        """pipeline many requests (much faster than one round trip each)"""
        lines = list(lines)
        out = []
        CH = 2000
        for i in range(0, len(lines), CH):
            chunk = lines[i:i + CH]
            self.proc.stdin.write('\n'.join(chunk) + '\n')
            self.proc.stdin.flush()
            for _ in chunk:
                r = self.proc.stdout.readline()
                if not r:
                    raise RuntimeError('Lean driver died')
                out.append(r.rstrip('\n'))
        self.requests += len(lines)
        return out

    def close(self):
        try:
            self.proc.stdin.close()
            self.proc.wait(timeout=10)
        except Exception:
            self.proc.kill()


class Result:
    """What a harness run found."""

    def __init__(self, pid):
        self.pid = pid
        self.evaluations = 0            # cases executed on the implementation
        self.nontrivial = set()         # hashes of distinct non-trivial cases
        self.model_compared = 0         # cases on which model and implementation were compared
        self.mismatches = []            # correspondence failures: dict(case=..., impl=..., model=...)
        self._per_key = {}
        self.violations = []            # judge failures on the implementation: dict(key=..., what=..., replay=...)
        self.samples = []
        self.distribution = {}
        self.notes = []
        self.rule = ''

    def count(self, key, n=1):
        self.distribution[key] = self.distribution.get(key, 0) + n

    def nontrivial_case(self, case):
        self.nontrivial.add(hashlib.sha1(json.dumps(case, sort_keys=True, default=str).encode()).hexdigest())

    def sample(self, case, limit=6):
        if len(self.samples) < limit:
            self.samples.append(case)

    def mismatch(self, case, impl, model, what=''):
        if len(self.mismatches) < 50:
            self.mismatches.append({'case': case, 'impl': impl, 'model': model, 'what': what})
        else:
            self.mismatches.append(None)

    def violation(self, key, what, replay):
        """key: dict identifying the failing region (matched against KNOWN_FINDINGS.json)"""
        # keep a bounded number *per distinct key* so that a flood of one (possibly known) kind of
        # failure can never hide a different one
        k = json.dumps(key, sort_keys=True, default=str)
        self._per_key[k] = self._per_key.get(k, 0) + 1
        if self._per_key[k] <= 5:
            self.violations.append({'key': key, 'what': what, 'replay': replay})


def rng_for(seed, *salt):
    h = hashlib.sha256(('%s|%s' % (seed, '|'.join(map(str, salt)))).encode()).digest()
    return random.Random(int.from_bytes(h[:8], 'big'))


def load_known_findings():
    path = os.path.join(VERIF, 'KNOWN_FINDINGS.json')
    if not os.path.exists(path):
        return []
    return json.load(open(path))['findings']


def finding_matches(entry, key):
    m = entry.get('match', {})
    return all(key.get(k) == v for k, v in m.items())


def quiet_gc():
    """leftover coroutines/generators of a finished run are finalised by the GC outside of any loop,
    which only produces noise ("Exception ignored in ...", "never awaited")"""
    import warnings
    sys.unraisablehook = lambda *a, **k: None
    warnings.filterwarnings('ignore', category=RuntimeWarning)


def import_usim():
    """import the implementation from the repository's working tree"""
    quiet_gc()
    if REPO not in sys.path:
        sys.path.insert(0, REPO)
    import usim  # noqa: F401
    assert os.path.abspath(usim.__file__).startswith(os.path.abspath(REPO)), usim.__file__
    return usim


def now():
    return time.time()
