"""C07 - whole-machine suite over scope trees and random valid programs (see scopesuite.py)."""
import msuite
import scopesuite

PID = 'C07'
TAGS = ['senter', 'sexit', 'setflag', 'tfin']
RULE = ('(a) scope trees: nested (until-)scopes (depth <= 3, <= 3 children each, volatile or delayed), bodies and children that '
        'sleep/raise (regular and privileged types)/return, cancels from inside and from a separate activity after t time units '
        'and k postponements, deadlines and flags on a coarse time grid, everything wrapped in handlers that log what they catch; '
        '(b) random valid whole-API programs (no usage errors); (c) scope trees started by the real usim.run(.., till=T) with T on the grid; (d) one activity subscribed twice to the same flag (nested until-blocks, an until-block around a wait that is given up), the inner subscription ending first; non-trivial = an until-scope was entered')


#: known finding F10: until(a | b) / until(a & b) never fire (connectives have no subscription path)
F10_PROBE = ['scenario', ['debug', 1], ['start', 0], ['flags', 2], ['locks', 0],
             ['roots', ['prog', ['scope', 0, ['cond', ['any', ['flag', 0], ['flag', 1]]], ['sleep', 50]], ['log', 1]],
                       ['prog', ['sleep', 2], ['set', 0, True]]]]


def nontrivial(impl):
    return any(':senter:' in e and e.split(':')[4].split(',')[2] != '0' for e in impl['events'])


def with_till(rng):
    """a scope-tree program started with the real `usim.run(.., till=T)`"""
    from fractions import Fraction as F
    sc = scopesuite.scope_tree(rng)
    start = next(f[1] for f in sc if isinstance(f, list) and f and f[0] == 'start')
    t = start + rng.choice([0, F(1, 2), 1, 1, 2, 3, 5])
    i = next(k for k, f in enumerate(sc) if isinstance(f, list) and f and f[0] == 'start')
    return sc[:i + 1] + [['till', t]] + sc[i + 1:]


def till_of(sc):
    return next((f[1] for f in sc if isinstance(f, list) and f and f[0] == 'till'), None)


def extra(sc):
    import dsl
    t = till_of(sc)
    return [('C07till', dsl.t2s(t))] if t is not None else []


def same_notification(rng):
    """one activity holds two subscriptions to the same notification object at once - `until(flag)` around a nested `until(flag)`
    or around an `await flag` that is given up after a while - and the inner one ends first; when the flag is set later, the
    outer block must still be interrupted there"""
    from fractions import Fraction as F
    f = rng.randrange(2)
    d = rng.choice([F(1, 2), 1, 2])
    k = rng.random()
    if k < 0.4:
        inner = [['scope', 1, ['cond', ['flag', f]], ['sleep', d], ['log', 2]]]
    elif k < 0.8:
        inner = [['scope', 1, ['delay', d], ['await', ['flag', f]], ['log', 3]]]
    else:
        inner = [['scope', 1, ['cond', ['flag', f]], ['scope', 2, ['delay', d], ['await', ['flag', f]]], ['log', 4]]]
    t_set = d + rng.choice([1, 2, 3])
    outer = ['prog', ['sleep', rng.choice([0, F(1, 2)])], ['scope', 0, ['cond', ['flag', f]]] + inner + [['log', 5], ['sleep', 20], ['log', 6]], ['log', 7]]
    roots = [outer, ['prog', ['sleep', t_set + rng.choice([0, F(1, 2)])], ['set', f, True]]]
    if rng.random() < 0.5:
        roots.append(['prog', ['scope', 3, ['cond', ['flag', f]], ['sleep', 30]], ['log', 8]])
    rng.shuffle(roots)
    return ['scenario', ['debug', 1], ['start', 0], ['flags', 2], ['locks', 0], ['roots'] + roots]


SOURCES = [scopesuite.scope_tree, scopesuite.valid_scenario, with_till, same_notification]


def run(tier, seed, drv):
    return msuite.standard_run(PID, 'C07', TAGS, tier, seed, drv, SOURCES, nontrivial=nontrivial, rule=RULE,
                               n_quick=200, n_thorough=6000, probes=[('F10', F10_PROBE)], judge_extra=extra,
                               optimized=100 if tier == 'quick' else 1000)


def replay(data, drv):
    return msuite.standard_replay(PID, 'C07', TAGS, data, drv, judge_extra=extra)
