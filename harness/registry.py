"""Per-property configuration of the checks."""

KERNEL_TB = [
    'Lean 4.33.0 kernel; axioms accepted in property theorems: propext, Classical.choice, Quot.sound (audited by #print axioms on every run)',
    'extract/ translator: the emitted Lean definitions mean what the translated Python fragments mean (documented subset)',
    'correspondence check (harness/, lean/Driver.lean): sampling, coverage reported in this file',
]

PROPS = {
    'C17': dict(
        gen=['Concurrent'], props=['C17'], model=['Concurrent'], harness='c17',
        trusted_base=KERNEL_TB + [
            'regenerated from source: MetaConcurrent._subclasscheck_specialisation, __subclasscheck__, __instancecheck__, Concurrent.flattened',
            'modelled by hand, tied by exhaustive/randomised correspondence: class creation and the frozenset-keyed cache (_get_specialisation, __getitem__, Concurrent.__new__)',
            "modelled, not verified: CPython's except-clause matching (PyType_IsSubtype on the MRO), issubclass(x, tuple) = any",
        ],
        assumptions=['class hierarchies of ordinary exceptions are arbitrary relations `sub`; reflexivity is assumed only where stated',
                     'raised failures are built by Concurrent(*children), hence exclusive specialisations'],
        partial=['except_agrees_partial (the clause "an except clause agrees" is false: except_agrees_false, finding F3)'],
    ),
}

#: texts for MANIFEST.json (level, note, technique, DESIGN.md section)
MANIFEST_TEXT = {
    'C17': dict(
        level='Lean 4 theorems for every class hierarchy, every (multi)set of child types and every handler at every nesting '
              'depth: the code\'s subclass check (translated from source on each run) is equivalent to the documented rule '
              '(gen_check_iff_spec, match_iff), invariant under permutation/duplication, isinstance=issubclass, '
              'specialisation identity of the set-keyed cache, flattened() preserves leaves and order (tie gen_flattened_eq). '
              'The except-clause clause is proved false on the unchanged code (except_agrees_false, finding F3) and kept as '
              'except_agrees_partial. Model tied to the code by the translator and by exhaustive + randomised correspondence '
              'of issubclass/isinstance/except/identity/flattened against the compiled Lean model.',
        note='trusted: Lean kernel + {propext, Classical.choice, Quot.sound}; the translator; CPython except-matching and '
             'issubclass-with-tuple are modelled, not verified; class creation/caching is hand-modelled and tied by correspondence only',
        technique='Lean 4 proof over translated decision logic + exhaustive differential correspondence',
        design_ref='6 (C17), 4.A, 4.B'),
}
