"""Per-property configuration of the checks."""

KERNEL_TB = [
    'Lean 4.33.0 kernel; axioms accepted in property theorems: propext, Classical.choice, Quot.sound (audited by #print axioms on every run)',
    'extract/ translator: the emitted Lean definitions mean what the translated Python fragments mean (documented subset)',
    'correspondence check (harness/, lean/Driver.lean): sampling, coverage reported in this file',
]

MACHINE_TB = [
    'the whole-machine model (lean/USimModel/Machine) is hand-written; it is tied to the code by running the same generated '
    'programs on the real usim and on the compiled model and comparing complete traces (time, turn, activity, event)',
    "modelled, not verified: CPython's coroutine protocol (send/throw/close, GeneratorExit rules), contextlib, reference-counting finalisation of abandoned async generators",
]

PROPS = {
    'C17': dict(
        gen=['Concurrent'], props=['C17'], model=['Concurrent'], harness='c17',
        trusted_base=KERNEL_TB + [
            'regenerated from source: MetaConcurrent._subclasscheck_specialisation, __subclasscheck__, __instancecheck__, Concurrent.flattened',
            'modelled by hand, tied by exhaustive/randomised correspondence: class creation and the frozenset-keyed cache (_get_specialisation, __getitem__, Concurrent.__new__)',
            "modelled, not verified: CPython's except-clause matching (PyType_IsSubtype on the MRO), issubclass(x, tuple) = any",
        ],
        assumptions=['class hierarchies of ordinary exceptions are arbitrary relations `sub`; reflexivity is assumed only where stated',
                     'raised failures are built by Concurrent(*children), hence exclusive specialisations'],
        partial=['except_agrees_partial (the clause "an except clause agrees" is false: except_agrees_false, finding F3)'],
    ),
    'C19': dict(
        gen=['SimPyRes'], props=['C19', 'C19Tie'], model=['SimPyRes', 'Lemmas/SimPyRes'], harness='c19',
        trusted_base=KERNEL_TB + [
            'translated from source: Container._do_put/_do_get, Store._do_put, PriorityStore._do_put',
            'shape templates (exact AST match, else broken obligation): Store/PriorityStore/FilterStore._do_get, FilterStore._trigger_get, '
            'BaseResource._trigger_put/_trigger_get, Resource._do_put/_do_get, PreemptiveResource._do_put, PriorityRequest.__init__, '
            'Put/Get.__init__/cancel, Request.__exit__, SortedQueue',
            'modelled, not verified: sortedcontainers (SortedKeyList.add = insertion after equal keys, pop(0), remove), itertools.takewhile, '
            'the kernel running event callbacks in FIFO order within the time step (properties C01/C02)',
        ],
        assumptions=['amounts, priorities, times and capacities on an integer grid (or infinite capacity); items are integers',
                     'the eager-granting theorem excludes histories whose last operation on a queue is a cancel (not listed by the statement)'],
        partial=[],
    ),
    'C09': dict(
        gen=['Lock'], props=['C09', 'MachineStructure', 'MachineLock'], model=['Prim/Lock', 'Machine/Run', 'Machine/Step', 'Machine/Kernel', 'Judge/Judges', 'Lemmas/KView', 'Lemmas/OView', 'Lemmas/CView', 'Lemmas/CStepFrames', 'Lemmas/CStep'], harness='c09',
        trusted_base=KERNEL_TB + MACHINE_TB + [
            'shape templates (exact AST match, else broken obligation): Lock.available, __release__, __aenter__, __aexit__, '
            'Notification.__awake_next__/__subscribe__/__unsubscribe__',
        ],
        assumptions=['the open lock model abstracts the kernel: delivery of a scheduled wake-up is the action `resume`, any exception '
                     'thrown at the wait is `abort`; that the kernel delivers exactly these is shown by the exact trace correspondence, not proved'],
        partial=['each piece of the machines lock code is proved to be the open models transition (Props/MachineLock.lean: release, enter, resume, exit, the release half of abort; hypotheses: the lock and its plain notification exist); that the kernel delivers only *enabled* actions (a wake-up only to the designated waiter, exit only by the owner) - the scheduling side of the projection - is not proved (tied by correspondence only)'],
    ),
    'C10': dict(
        gen=['Stream', 'Lock'], props=['C10', 'C09', 'MachineObjects', 'MachineQueue'], model=['Prim/Stream', 'Prim/Lock', 'Machine/Run', 'Judge/Judges', 'Lemmas/KView', 'Lemmas/OView', 'Lemmas/OStepFrames', 'Lemmas/OStep'], harness='c10',
        trusted_base=KERNEL_TB + MACHINE_TB + [
            'shape templates (exact AST match, else broken obligation): Queue.put/_await_message/close/__aiter__/__await__ and the lock methods',
        ],
        assumptions=['the open queue model collapses every non-buffer action (mutex hand-over, waits, aborts) into `other`; that the '
                     'code touches the buffer only in put/popleft is pinned by the templates and checked by the exact trace correspondence',
                     'receiver order follows from the read mutex (C09 theorems are part of this check)'],
        partial=['receivers_fifo is inherited from the lock theorems (designation_is_head), not restated on the queue model',
                 'Props/MachineObjects.lean proves on the whole machine, for every program and every number of steps, that a closed queue stays closed and that its buffer is from then on a suffix of what it was (closed_queue_forever: nothing is stored after close, items leave from the front) and that every queue is FIFO (queue_fifo_forever: after any number of steps the buffer is what it was minus items at the front plus items at the back); that each piece of the machines queue code is the open models transition is proved (Props/MachineQueue.lean); that nothing else in the machine touches a buffer except at its two ends is queue_fifo_forever; the histories (accepted / received) of the open model are not part of a world: which put and which receive an item belongs to is judged on traces'],
    ),
    'C11': dict(
        gen=['Stream'], props=['C11', 'MachineObjects', 'MachineChannel'], model=['Prim/Stream', 'Machine/Run', 'Judge/Judges', 'Lemmas/KView', 'Lemmas/OView', 'Lemmas/OStepFrames', 'Lemmas/OStep'], harness='c11',
        trusted_base=KERNEL_TB + MACHINE_TB + [
            'shape templates (exact AST match, else broken obligation): Channel.put/__await__/__aiter__/close',
            'prompt finalisation of abandoned async generators (reference counting) is assumed',
        ],
        assumptions=['consumers are identified by their registration key (the sentinel object)'],
        partial=['Props/MachineObjects.lean proves on the whole machine, for every program and every number of steps, that a closed channel stays closed (closed_channel_forever); that put / subscribe (iteration) / close of the machine are the open models transitions is proved (Props/MachineChannel.lean); deliver and leave (which go through find? on the consumers key) are tied by correspondence only'],
    ),
    'C12': dict(
        gen=['Resources'], props=['C12', 'MachineResources', 'MachineStructure'], model=['Prim/Resources', 'Machine/Run', 'Judge/Judges', 'Lemmas/KView', 'Lemmas/OView', 'Lemmas/CView', 'Lemmas/CStepFrames', 'Lemmas/CStep'], harness='c12',
        trusted_base=KERNEL_TB + MACHINE_TB + [
            'shape templates (exact AST match, else broken obligation): BorrowedResources.__aenter__/__aexit__, ClaimedResources.__aenter__, '
            '__remove_resources__/__insert_resources__, Tracked.set, _resource_level.__comparison_op__',
        ],
        assumptions=['conservation is proved per component (scalar model); the vector availability guard is what never_negative uses',
                     'amounts on an integer grid'],
        partial=['returned_on_every_exit_partial (full clause is false: returned_on_every_exit_false, finding F4)',
                 'nested borrowing from a borrowed share is covered by the machine correspondence and the assert in borrow(), not by a theorem'],
    ),
    'C01': dict(
        gen=['Kernel', 'Timing'], props=['C01', 'Machine', 'MachineTrace', 'Skeletons'],
        model=['Prim/KernelModel', 'Machine/Kernel', 'Machine/Run', 'Judge/Judges', 'Lemmas/PushBucket', 'Lemmas/KView', 'Lemmas/KStepFrames', 'Lemmas/KStep',
               'Lemmas/TView', 'Lemmas/TStepFrames', 'Lemmas/TStep'],
        harness='c01',
        trusted_base=KERNEL_TB + MACHINE_TB + [
            'shape templates (exact AST match, else broken obligation): Loop.schedule/_run_events/_run_coroutine/__init__/run, Activation.__bool__, '
            'HQWaitQueue/SDWaitQueue push/pop, StateHandler.assign, usim.run',
            'heapq and sortedcontainers by contract (pop = smallest key)',
        ],
        assumptions=['Layer-K theorems hold for every activity behaviour that respects the assertion of Loop.schedule; Props/Machine.lean proves '
                     'that every statement, frame and primitive of the whole machine respects it (assertions on) and touches clock, wait queue '
                     'and saved kernels only through Loop.schedule, run() and the loop: the clock theorems hold for every program and every '
                     'number of machine steps; Props/MachineTrace.lean adds that the time stamps of the trace (what is compared with the '
                     'implementation) are sorted for every program, as long as no nested simulation is open',
                     'exact rational time; float absorption (t + d == t) is outside the theorems'],
        partial=['"a timed wait resumes exactly at its date" is proved per primitive (delay_wakeup_key, advance_runs_bucket_of_new_time) and '
                 'checked on whole programs by the trace correspondence; it is not lifted to a whole-machine theorem'],
    ),
    'C02': dict(
        gen=['Kernel', 'Timing', 'Tracked', 'Lock'], props=['C02', 'C01', 'MachineFifo', 'MachineFifoRun', 'Skeletons'],
        model=['Prim/KernelModel', 'Machine/Kernel', 'Machine/Step', 'Machine/Run', 'Judge/Judges', 'Lemmas/PushBucket', 'Lemmas/KView',
               'Lemmas/KStepFrames', 'Lemmas/KStep', 'Lemmas/PView', 'Lemmas/PStepFrames', 'Lemmas/PStep'], harness='c02',
        trusted_base=KERNEL_TB + MACHINE_TB + [
            'configuration independence of the implementation (process, hash seed, heap layout) is a CPython runtime fact: the model has no '
            'addresses; it is checked by running every scenario in several fresh processes, not proved',
            'shape templates: loop.py, waitq.py, notification/condition/flag/timing skeletons, tracked.py (listener container and order)',
        ],
        assumptions=['programs that trip a usage assertion are excluded from the -O comparison (as the statement says)'],
        partial=['"independent of process / hash seed / memory layout" is not a theorem (runtime fact, multi-configuration differential only)'],
    ),
    'C15': dict(
        gen=['Kernel'], props=['C15', 'C01', 'Machine'],
        model=['Prim/KernelModel', 'Machine/Run', 'Judge/Judges', 'Lemmas/PushBucket', 'Lemmas/KView', 'Lemmas/KStepFrames', 'Lemmas/KStep'], harness='c15',
        trusted_base=KERNEL_TB + MACHINE_TB + [
            'shape templates: Loop.run/_run_events/_run_coroutine/__init__, StateHandler.assign, usim.run',
            "CPython's threading.local and the GIL are assumed: thread isolation is a runtime fact, checked by running generated "
            'simulations concurrently in real threads (thorough tier), not proved',
        ],
        assumptions=['objects are not shared between simulations (nested or parallel)'],
        partial=['threads_isolated is not a theorem (runtime fact; differential runs in 8 real threads)'],
    ),
    'C03': dict(
        gen=['Scope', 'Timing'], props=['C03', 'MachineSignals', 'Skeletons'],
        model=['Machine/Run', 'Machine/Step', 'Machine/Kernel', 'Judge/Judges', 'Lemmas/PushBucket', 'Lemmas/KView', 'Lemmas/KStepFrames',
               'Lemmas/KStep', 'Lemmas/SView', 'Lemmas/SStepFrames', 'Lemmas/SStep'], harness='c03',
        trusted_base=KERNEL_TB + MACHINE_TB + ['coroutine skeletons pinned by regenerated templates (context.py, task.py, timing/notification/condition/flag, tracked.py)'],
        assumptions=['valid programs only: the generators avoid usage errors (past at= dates, negative delays, inverting a Moment)'],
        partial=["Props/MachineSignals.lean proves for every program and every number of steps that a revoked signal stays revoked and that "
                 "the loop drops its activation without resuming anybody; the other global invariants (every live signal has its frame on its "
                 "owner's stack; termination / no livelock) are not proved: exact trace correspondence + judge only"],
    ),
    'C04': dict(
        gen=['Scope'], props=['C04', 'MachineObjects'], model=['Machine/Run', 'Machine/Step', 'Machine/Kernel', 'Judge/Judges', 'Lemmas/KView', 'Lemmas/OView', 'Lemmas/OStepFrames', 'Lemmas/OStep'], harness='c04',
        trusted_base=KERNEL_TB + MACHINE_TB + ['coroutine skeletons pinned by regenerated templates (context.py, task.py, timing/notification/condition/flag, tracked.py)'],
        assumptions=['valid programs only: the generators avoid usage errors (past at= dates, negative delays, inverting a Moment)'],
        partial=['Props/MachineObjects.lean proves on the whole machine, for every program and every number of steps, that a scope closed to new tasks stays closed and never gains a child (closed_scope_gains_no_child: its lists of children only shrink) and keeps its identity; the rest of the containment invariant (every child of a scope that has been left is done, no code of it runs afterwards) is not proved over all reachable machine states: exact trace correspondence + judge only'],
    ),
    'C05': dict(
        gen=['Scope'], props=['C05', 'MachineObjects', 'MachineFailures'], model=['Machine/Run', 'Machine/Step', 'Machine/Kernel', 'Judge/Judges', 'Lemmas/KView', 'Lemmas/OView', 'Lemmas/OStepFrames', 'Lemmas/OStep'], harness='c05',
        trusted_base=KERNEL_TB + MACHINE_TB + ['coroutine skeletons pinned by regenerated templates (context.py, task.py, timing/notification/condition/flag, tracked.py)'],
        assumptions=['valid programs only: the generators avoid usage errors (past at= dates, negative delays, inverting a Moment)'],
        partial=['Props/MachineObjects.lean proves on the whole machine, for every program and every number of steps, that exception objects are never modified (exception_objects_immutable) and that the failures a scope has recorded are never removed or reordered (failures_append_only); prompt_abort (block ends in the time step of the first failure) is not proved: judge + correspondence only'],
    ),
    'C06': dict(
        gen=['Scope'], props=['C06', 'MachineTasks', 'MachineCancel'],
        model=['Machine/Run', 'Machine/Step', 'Machine/Kernel', 'Judge/Judges', 'Prim/Task', 'Lemmas/PushBucket', 'Lemmas/KView', 'Lemmas/KStepFrames',
               'Lemmas/KStep', 'Lemmas/QView', 'Lemmas/QStepFrames', 'Lemmas/QStep', 'Lemmas/OView', 'Lemmas/OStepFrames', 'Lemmas/OStep'], harness='c06',
        trusted_base=KERNEL_TB + MACHINE_TB + ['coroutine skeletons pinned by regenerated templates (context.py, task.py, timing/notification/condition/flag, tracked.py)'],
        assumptions=['valid programs only: the generators avoid usage errors (past at= dates, negative delays, inverting a Moment)'],
        partial=['Props/MachineTasks.lean proves on the whole machine, for every program and every number of steps, that the phase of a task '
                 '(created, running, finished) never decreases, that a finished task stays finished and that a task keeps its coroutine, '
                 'parent, volatility and done condition; that the stored outcome itself never changes is false of model and code (F18) and '
                 'holds only for histories in which no clean-up raises while the task is being closed (result_stable_partial); '
                 'the projection of machine steps onto lifecycle actions is not proved (tied by correspondence)'],
    ),
    'C07': dict(
        gen=['Scope', 'Timing'], props=['C07', 'C02', 'MachineObjects', 'Skeletons'], model=['Machine/Run', 'Machine/Step', 'Machine/Kernel', 'Judge/Judges', 'Lemmas/KView', 'Lemmas/OView', 'Lemmas/OStepFrames', 'Lemmas/OStep'], harness='c07',
        trusted_base=KERNEL_TB + MACHINE_TB + ['coroutine skeletons pinned by regenerated templates (context.py, task.py, timing/notification/condition/flag, tracked.py)'],
        assumptions=['valid programs only: the generators avoid usage errors (past at= dates, negative delays, inverting a Moment)'],
        partial=["Props/MachineObjects.lean proves on the whole machine, for every program and every number of steps, that an until-scope keeps its owner, its notification and its interrupt signal (scope_listens_forever); until_exit_time (body abandoned and children closed in the trigger's time step) is not proved: judge + correspondence only"],
    ),
    'C08': dict(
        gen=['Tracked', 'Timing'], props=['C08', 'MachineStructure', 'MachineAwait'], model=['Machine/Run', 'Machine/Step', 'Machine/Kernel', 'Judge/Judges', 'Lemmas/KView', 'Lemmas/OView', 'Lemmas/CView', 'Lemmas/CStepFrames', 'Lemmas/CStep'], harness='c08',
        trusted_base=KERNEL_TB + MACHINE_TB + ['coroutine skeletons pinned by regenerated templates (context.py, task.py, timing/notification/condition/flag, tracked.py)'],
        assumptions=['valid programs only: the generators avoid usage errors (past at= dates, negative delays, inverting a Moment)'],
        partial=['Props/MachineStructure.lean proves on the whole machine, for every program and every number of steps, that a condition object keeps its class and operands (condition_shape_forever, connective_children_forever, inverse_forever) and that the listeners of a tracked value / resource level are never dropped or reordered (tracked_listeners_append_only, resource_listeners_append_only); truth_at_resume and no-lost-wake-up are not proved on the machine: judge + correspondence only (F8: false for nested connectives)'],
    ),
    'C14': dict(
        gen=['Ticker', 'Timing'], props=['C14', 'MachineTicker', 'Skeletons'], model=['Machine/Run', 'Judge/Judges'], harness='c14',
        trusted_base=KERNEL_TB + MACHINE_TB + ['translated from source: the step arithmetic and branch order of interval(); template: delay(), suspend/postpone'],
        assumptions=['suspend(d) resumes at now + d and postpone() in the same time step (C01 theorems)', 'exact rational time'],
        partial=[],
    ),
    'C13': dict(
        gen=['Pipe', 'Timing'], props=['C13', 'MachineStructure', 'Skeletons'], model=['Prim/Pipe', 'Machine/Run', 'Judge/Judges', 'Lemmas/KView', 'Lemmas/OView', 'Lemmas/CView', 'Lemmas/CStepFrames', 'Lemmas/CStep'], harness='c13',
        trusted_base=KERNEL_TB + MACHINE_TB + [
            'translated from source: the arithmetic and decisions of Pipe.transfer/_throttle_subscribers/UnboundedPipe.transfer; statement skeleton (zero guard, try/finally _del_subscriber, congestion subscription) matched',
            'IEEE-754 double arithmetic of Lean\'s Float and CPython agree operation by operation (checked bit for bit by the correspondence); CPython >= 3.12 sum() is Neumaier summation (hand-modelled: pySumFloat)',
            'the harness converts each double of a trace to the exact rational it denotes before the Lean judge sees it'],
        assumptions=['theorems are over exact rationals; "up to floating point rounding" is the judge tolerance 1e-9 x (volume + 1)',
                     'suspend(d) resumes at now + d, postpone() in the same time step (C01)'],
        partial=[],
    ),
    'C16': dict(
        gen=['Flow', 'Scope'], props=['C16', 'C05', 'C10', 'Skeletons'], model=['Machine/Run', 'Machine/Step', 'Judge/Judges'], harness='c16',
        trusted_base=KERNEL_TB + MACHINE_TB + [
            'translated from source: first()\'s effective count, ValueError guard, volatile= of the monitors, the slice; collect()\'s spawn/read order; templates: first, _first_monitor, collect',
            'asyncstdlib.islice (third party) is modelled (takes `count` items, then returns without another fetch), tied by correspondence only',
            'CPython finalises an abandoned async generator at once (reference counting, no asyncgen hooks): modelled as GeneratorExit at the yield when the loop statement is left'],
        assumptions=['results become available in the order of Queue.put (C10), the scope closes volatile children and reports failures (C04, C05)',
                     'a failure of an activity in the very time step in which the consumer leaves the loop may go unnoticed (both orders accepted)'],
        partial=[],
    ),
    'C18': dict(
        gen=['Py', 'Scope'], props=['C18', 'C05', 'MachineObjects', 'Skeletons'], model=['Machine/Run', 'Machine/Step', 'Judge/Judges', 'Lemmas/KView', 'Lemmas/OView', 'Lemmas/OStepFrames', 'Lemmas/OStep'], harness='c18',
        trusted_base=KERNEL_TB + MACHINE_TB + [
            'translated from source: trigger-once guards, interrupt acceptance and queue discipline, AllOf/AnyOf evaluation, Timeout/until guards, schedule\'s delay normalisation; all 95 definitions of usim/py pinned against recorded skeletons',
            'the coroutines of usim/py (Process._run_payload, _wait_interruptible, Condition._check_events, Event._invoke_callbacks, AwaitableEvent.wait_interruptible, Environment.until/__aenter__) are hand-modelled as frames of the machine and tied by exact trace correspondence only',
            'SimPy programs are written in a small instruction language (one instruction per generator statement); Python generator mechanics (send/throw/StopIteration) are modelled'],
        assumptions=['a delay of d resumes at now + d, wake-ups of one time step run in order (C01, C02); scopes report failures (C05)',
                     'judge: in ties within one time step (a member failing while another fires, an Interrupt-valued event while an interrupt is pending) both readings are accepted'],
        partial=['Props/MachineObjects.lean proves on the whole machine, for every program and every number of steps, that an event that has a value keeps exactly that value (event_triggered_once), that processed callbacks are never armed again (callbacks_processed_once) and that it keeps its flag and kind; resumption of every waiter at the trigger time is judged on traces, not proved over all machine states'],
    ),
    'C20': dict(
        gen=['Timing', 'Scope'], props=['C20', 'MachineYield', 'MachineFifoRun', 'C02', 'Skeletons'], model=['Machine/Run', 'Machine/Step', 'Judge/Judges'], harness='c20',
        trusted_base=KERNEL_TB + MACHINE_TB + ['templates: postpone/suspend/__await__ of conditions, Scope.__aexit__; the per-operation code paths are hand-modelled in Machine/Run.lean and tied by exact trace correspondence'],
        assumptions=['an activity made runnable earlier in the same time step runs before a later-scheduled wake-up (C02 fifo_now)',
                     'acquiring a free Lock is not among the operations the property lists and does not yield (documented in DESIGN.md)'],
        partial=[],
    ),
}

#: the files each property is anchored in (properties.jsonl `anchors.files`, plus the files the anchored code
#: directly builds on): every definition of these files is pinned (extract/gen_pins.py, Props/Pin_<key>.lean)
PINS = {
    'C01': ['loop', 'waitq', 'timing', 'notification', 'context', 'init'],
    # (determinism can be lost anywhere - an `assert` with a side effect in pipe.py, a weak cache in _resource_level.py: C02 pins
    #  every definition of every file of the native API)
    'C02': ['loop', 'waitq', 'notification', 'tracked', 'condition', 'handler', 'timing', 'flag', 'context', 'task', 'concurrent_exception',
            'locks', 'streams', 'resource', 'resource_level', 'pipe', 'basics', 'init'],
    # ("every program that only makes valid API calls": like C02, every file of the native API)
    'C03': ['loop', 'waitq', 'notification', 'tracked', 'condition', 'handler', 'timing', 'flag', 'context', 'task', 'concurrent_exception',
            'locks', 'streams', 'resource', 'resource_level', 'pipe', 'basics', 'init'],
    'C04': ['context', 'task'],
    'C05': ['context', 'task', 'concurrent_exception'],
    'C06': ['task', 'context'],
    'C07': ['context', 'notification', 'condition', 'timing', 'init'],
    'C08': ['condition', 'flag', 'tracked', 'task', 'timing', 'resource', 'resource_level'],
    'C09': ['locks', 'notification'],
    'C10': ['streams', 'locks', 'notification'],
    'C11': ['streams', 'notification'],
    'C12': ['resource', 'resource_level', 'tracked'],
    'C13': ['pipe', 'notification'],
    'C14': ['timing', 'notification'],
    'C15': ['init', 'loop', 'handler'],
    'C16': ['basics', 'context', 'streams', 'locks'],
    'C17': ['concurrent_exception'],
    'C18': ['py_core', 'py_events', 'py_awaitable', 'py_exceptions'],
    'C19': ['py_res_base', 'py_res_container', 'py_res_resource', 'py_res_store'],
    'C20': ['notification', 'condition', 'flag', 'timing', 'tracked', 'streams', 'resource', 'pipe', 'context', 'basics'],
}
#: the kernel and the primitives everything else is built on: a change there can break any property of the native API (C12-m5
#: sat in condition.py, C10-m4 in locks.py, C06-m9 - an `__aexit__` that returns something truthy and swallows a cancellation -
#: in locks.py again), so every machine-based property pins them in addition to its own files
CORE_PINS = ['loop', 'waitq', 'handler', 'notification', 'condition', 'timing', 'flag', 'task', 'context', 'init', 'locks']
#: properties about scopes, tasks and "every operation": their programs run arbitrary activities, and whatever an activity holds
#: or waits for when it is cancelled, closed or left behind lies on the path (C16-m7: an assertion in locks.py; C06-m9: a truthy
#: `__aexit__` in locks.py; a clean-up in streams.py or resource.py that swallows GeneratorExit would break containment just
#: the same): like C02 and C03 they pin every definition of every file of the native API
ALL_NATIVE = PINS['C02']
for _pid in ('C04', 'C05', 'C06', 'C07', 'C16', 'C20'):
    PINS[_pid] = PINS[_pid] + [k for k in ALL_NATIVE if k not in PINS[_pid]]
for _pid in PINS:
    if _pid != 'C17':
        PINS[_pid] = PINS[_pid] + [k for k in CORE_PINS if k not in PINS[_pid]]
for _pid, _keys in PINS.items():
    PROPS[_pid]['gen'] = list(PROPS[_pid]['gen']) + ['Pins']
    PROPS[_pid]['props'] = list(PROPS[_pid]['props']) + ['Pin_' + k for k in _keys]
    PROPS[_pid]['trusted_base'] = list(PROPS[_pid]['trusted_base']) + [
        'every definition of ' + ', '.join(_keys) + ' is compared with the recorded source on every run (Gen/Pins): the hand-written model is tied to exactly that code']

#: texts for MANIFEST.json (level, note, technique, DESIGN.md section)
MANIFEST_TEXT = {
    'C17': dict(
        level='Lean 4 theorems for every class hierarchy, every (multi)set of child types and every handler at every nesting '
              'depth: the code\'s subclass check (translated from source on each run) is equivalent to the documented rule '
              '(gen_check_iff_spec, match_iff), invariant under permutation/duplication, isinstance=issubclass, '
              'specialisation identity of the set-keyed cache, flattened() preserves leaves and order (tie gen_flattened_eq). '
              'The except-clause clause is proved false on the unchanged code (except_agrees_false, finding F3) and kept as '
              'except_agrees_partial. Model tied to the code by the translator and by exhaustive + randomised correspondence '
              'of issubclass/isinstance/except/identity/flattened against the compiled Lean model.',
        note='trusted: Lean kernel + {propext, Classical.choice, Quot.sound}; the translator; CPython except-matching and '
             'issubclass-with-tuple are modelled, not verified; class creation/caching is hand-modelled and tied by correspondence only',
        technique='Lean 4 proof over translated decision logic + exhaustive differential correspondence',
        design_ref='6 (C17), 4.A, 4.B'),
    'C19': dict(
        level='Lean 4 theorems for every history of put/get/request/release/cancel/processed-callback operations (unbounded, any '
              'amounts/priorities/filters/capacities) on a sequential machine per resource type: container_bounds, '
              'container_conservation, store_fifo_once, priority_store_sorted/min_first, filter_store_first_match, '
              'filter_store_no_head_blocking, resource_capacity, grants_are_queue_prefix + sorted priority queue, preempt_rule, '
              'head_granted_eagerly, cancel_put_exact/release_exact. The machine\'s _do_put/_do_get/_trigger logic is proved '
              'equal to definitions regenerated from usim/py/resources on every run (C19Tie), and the whole machine is replayed '
              'operation by operation against the real resources driven by random SimPy processes.',
        note='trusted: Lean kernel + standard axioms; translator/templates; sortedcontainers and takewhile by contract; integer grid for '
             'amounts; FIFO callback order of the kernel (C01/C02) is assumed by the sequential model and checked by the correspondence',
        technique='Lean 4 invariants over all operation histories + translated decision logic + op-by-op differential replay',
        design_ref='6 (C19), 4.A, 4.B'),
    'C09': dict(
        level='The lock code of the whole machine refines the open lock model, transition by transition, for every world (Props/MachineLock.lean: lockRelease_refines, acquireLock_refines = enter, lockResume_refines = resume, lockExit_refines = exit, lockAbort_refines = the release half of abort; abstraction absLock = owner, depth, queued activities oldest first). On the whole machine, for every program and every number of steps: lock_notification_forever (a lock keeps its own queue of waiters; Props/MachineStructure.lean). Lean 4 theorems over an open state-machine model of the lock, for every sequence of enter/resume/abort/exit actions by '
              'any number of activities (hence every schedule and a fault at every suspension point): step_inv/run_inv (6-clause '
              'invariant), mutex, reentrant_depth, always_released, designation_is_head + waiting_order_preserved (FIFO hand-off), '
              'available_iff; transitions tied to locks.py by regenerated templates. The executable whole-machine model reproduces '
              'the real usim to the turn on generated lock programs with injected cancels/until-deadlines/closes; the Lean judge '
              '(overlap, grant order, available, freedom at quiescence) is evaluated on every implementation trace.',
        note='trusted: Lean kernel + standard axioms; templates; that each piece of the machines lock code is the open models transition is proved (MachineLock); '
             'that the kernel delivers exactly the enabled actions (a wake-up only to the designated waiter, exit only by the owner) is checked by exact trace correspondence, not proved; CPython coroutine semantics',
        technique='Lean 4 invariant proof over all action sequences + exact whole-machine differential traces + Lean trace judge',
        design_ref='6 (C09), 3, 4.B'),
    'C10': dict(
        level='The queue code of the whole machine refines the open queue model, transition by transition, for every world (Props/MachineQueue.lean: qPut_refines = put, qClose_refines = close, qGetPop_refines = pop, qGetPop_eq: the popped head is the value handed to the receiver). On the whole machine, for every program and every number of steps: closed_queue_forever, queue_fifo_forever, queue_identity (Props/MachineObjects.lean). Lean 4 theorems over an open queue model for every sequence of put / completed receive / close / arbitrary abort actions: '
              'exactly_once_in_order (received ++ buffered = accepted as sequences), abort_preserves, put_on_closed, closed_stays, '
              'buffered_still_received; receiver order from the lock theorems of C09 (read mutex). Tied to streams.py by regenerated '
              'templates; the executable whole-machine model (queue + mutex + notification + kernel) reproduces the real usim to the '
              'turn on producer/consumer programs with faults injected at every activation boundary, and the Lean judge checks every '
              'implementation trace.',
        note='trusted: Lean kernel + standard axioms; templates; abstraction of non-buffer steps into `other` (checked by exact traces)',
        technique='Lean 4 refinement to a FIFO sequence spec + exact whole-machine differential traces + Lean trace judge',
        design_ref='6 (C10), 3, 4.B'),
    'C11': dict(
        level='The channel code of the whole machine refines the open channel model for every world (Props/MachineChannel.lean: cPut_refines = put to every registered buffer, cIter_refines = subscribe, cClose_refines = close). On the whole machine, for every program and every number of steps: closed_channel_forever (Props/MachineObjects.lean). Lean 4 theorems over an open channel model for every sequence of subscribe / put / deliver / leave / close actions: '
              'broadcast_exact (per consumer: delivered ++ buffered = messages put since its subscription), isolation, '
              'first_after_subscription, deregister_exact, put_on_closed; tied to streams.py by regenerated templates; exact '
              'whole-machine correspondence and Lean judge on implementation traces.',
        note='trusted: Lean kernel + standard axioms; templates; CPython finalisation of abandoned async generators',
        technique='Lean 4 per-consumer refinement invariant + exact whole-machine differential traces + Lean trace judge',
        design_ref='6 (C11), 3, 4.B'),
    'C12': dict(
        level='The resource arithmetic of the whole machine is the open models, for every world (Props/MachineResources.lean: borrow_takes_debits = vsub of exactly the blocks debits in one step, borrow_returns_debits = vadd of exactly the debits, resAdjust_arith, setLevels_levels); on the whole machine for every program: resource_listeners_append_only, a borrowed share keeps its supply (Props/MachineStructure.lean). Lean 4 theorems over an open model of the borrow protocol for every sequence of request/acquire/insert/release/abort/'
              'increase/decrease actions: never_negative (vector levels, guard and debit in one step), borrow_atomic, claim_never_waits, '
              'conservation (available = supply - everything acquiring/held/releasing/leaked), available_le_supply; the clause '
              '"returned on every exit route" is proved false on the unchanged code (returned_on_every_exit_false, finding F4) and kept '
              'as returned_on_every_exit_partial. Tied to resource.py by regenerated templates; exact whole-machine correspondence with '
              'faults injected inside acquire/release; Lean judge (levels >= 0, claims never wait, conservation at quiescence).',
        note='trusted: Lean kernel + standard axioms; templates; integer amounts; known finding F4 listed in KNOWN_FINDINGS.json',
        technique='Lean 4 invariant/refinement proof over all action sequences + exact whole-machine differential traces + Lean trace judge',
        design_ref='6 (C12), 7 (F4), 3, 4.B'),
    'C01': dict(
        level='Lean 4 theorems about the event loop for every behaviour of the activities that respects schedule\'s assertion (Layer K): '
              'wait queue stays sorted and in the future (pushBucket_sorted, apply_ok), the clock never decreases and moves only when '
              'the current step is drained (next_run, next_advance), the bucket that runs when the clock reads t is the bucket keyed t '
              '(advance_runs_bucket_of_new_time), scheduling appends to the end of exactly its bucket (pushBucket_bucket), a delay\'s '
              'wake-up lands at time+d and a date\'s at the date itself (tie_schedule_delay/at, delay_wakeup_key). Tied to loop.py/waitq.py '
              'by regenerated templates; the executable whole machine reproduces the real usim to the turn on timing programs '
              '(rational and float time); the Lean judge checks monotonicity and the resume time of every timed wait and delayed spawn '
              'on implementation traces.',
        note='trusted: Lean kernel + standard axioms; templates; heapq/sortedcontainers by contract; Layer K assumes the schedule guard',
        technique='Lean 4 invariant proof of the event loop for arbitrary behaviours + exact whole-machine differential traces + Lean trace judge',
        design_ref='6 (C01), 3.2, 4.B'),
    'C02': dict(
        level='Over any number of steps inside a time step (Props/MachineFifoRun.lean): within_time_step_fifo (the deque only loses elements at the front and gains elements at the back), never_overtaken (an activation behind others is not taken before them and nothing is put in front of it). The model trace is a function of the program by construction (no oracle). Lean 4 theorems: fifo_same_time, fifo_now, '
              'pushBucket_bucket, awakeAll_order (subscription order), backend_same_buckets + hq_pop_min (heap vs sorted dict), '
              'schedule_debug_irrelevant. Tied by regenerated templates of loop/waitq/notification/tracked code. Every generated '
              'program (whole API, rational and float time) is run in-process, on the compiled model, and in 4-8 fresh processes '
              '{PYTHONHASHSEED, junk allocations, USIM_WAITQUEUE=SD, -O}: all traces must coincide.',
        note='trusted: Lean kernel + standard axioms; templates; the runtime clause (process/hash seed/heap independence) is partial: '
             'established by multi-configuration differential runs only',
        technique='Lean 4 ordering theorems + exact whole-machine traces + multi-configuration differential execution',
        design_ref='6 (C02), 9'),
    'C15': dict(
        level='Lean 4 theorems: run_returns_iff_quiescent, next_run/next_advance (C01), leak_iff_value (any returned value, also a '
              'falsy one, is an ActivityLeak), finish_root (a root ending without value / with value / with exception), '
              'assign_restores + nested_assign_restores (per-thread loop stack), nested_return_restores (the machine restores the '
              'enclosing clock, step and queue). Tied by regenerated templates; exact whole-machine correspondence on runs with '
              'returning / failing / blocked roots and nested run() calls; Lean judge (start time and order of roots, reported return '
              'values, undisturbed outer clock, no simulation visible afterwards); thorough tier: the same simulations concurrently '
              'in 8 real threads must reproduce their sequential traces.',
        note='trusted: Lean kernel + standard axioms; templates; threading.local/GIL assumed (runtime clause is partial)',
        technique='Lean 4 kernel theorems + exact whole-machine traces + Lean trace judge + real-thread differential runs',
        design_ref='6 (C15), 9'),
    'C03': dict(
        level='Lean 4 theorems: wake_revoked_on_every_exit/return (postpone and suspend revoke their wake-up on every exit path), revoked_never_runs, stale_activation_is_reported, pinned skeletons. The executable whole-machine model reproduces the real usim to the turn on scope trees and random valid programs with faults at every activation boundary; the Lean judge checks on every implementation trace: outcome of run(), exceptions seen by handlers and task failures never carry an internal signal/assertion/misuse error; no activation bound exceeded.',
        note='trusted: Lean kernel + standard axioms; templates/translator; whole-machine model tied by exact traces; the global invariants (every live signal has its frame on its owners stack; termination / no livelock) are not proved: exact trace correspondence + judge only',
        technique='Lean 4 theorems (decision logic / per-primitive / frame level) + exact whole-machine differential traces + Lean trace judge',
        design_ref='6 (C03), 3, 4.B'),
    'C04': dict(
        level='On the whole machine, for every program and every number of steps: closed_scope_gains_no_child, scope_identity (Props/MachineObjects.lean, sixth per-function inventory). Lean 4 theorems: childFinished_children/volatile (exact child bookkeeping), spawn_after_end_refused (late do() raises ScopeClosed, creates and schedules nothing), pinned skeletons. The executable whole-machine model reproduces the real usim to the turn on scope trees and random valid programs with faults at every activation boundary; the Lean judge checks on every implementation trace: after every scope exit none of its (transitive) tasks acts, all are done, no late spawn succeeds, non-volatile children of a normally ending plain scope ran to completion before volatile ones were closed.',
        note='trusted: Lean kernel + standard axioms; templates/translator; whole-machine model tied by exact traces; the containment invariant over all reachable machine states is not proved: exact trace correspondence + judge only',
        technique='Lean 4 theorems (decision logic / per-primitive / frame level) + exact whole-machine differential traces + Lean trace judge',
        design_ref='6 (C04), 3, 4.B'),
    'C05': dict(
        level="What a scope records as a failure, for every world (Props/MachineFailures.lean): childFinished_failed_records (exactly the childs exception object, at the end of the list of its own scope), childFinished_ok_records_nothing (success, cancellation, closure add nothing). On the whole machine, for every program and every number of steps: exception_objects_immutable, failures_append_only (Props/MachineObjects.lean). Lean 4 theorems: collect_spec, propagate_eq, concurrent_content (exact children, in order, never cancellations/closures, only when the body has no exception of its own), body_exception_wins, privileged_first, privileged_body_propagates over the translated decision logic and tuples. The executable whole-machine model reproduces the real usim to the turn on scope trees and random valid programs with faults at every activation boundary; the Lean judge checks on every implementation trace: content and order of every caught Concurrent against the children's recorded failures, privileged unwrapping, exit time = first failure time.",
        note='trusted: Lean kernel + standard axioms; templates/translator; whole-machine model tied by exact traces; prompt_abort (block ends in the time step of the first failure) is not proved: judge + correspondence only',
        technique='Lean 4 theorems (decision logic / per-primitive / frame level) + exact whole-machine differential traces + Lean trace judge',
        design_ref='6 (C05), 3, 4.B'),
    'C06': dict(
        level='Task.cancel on the whole machine, for every world (Props/MachineCancel.lean): cancel_finished_noop, cancel_created_stores + precancelled_start_runs_nothing (the payload of a task cancelled before its first turn is dropped unrun), cancel_running_schedules (the CancelTask signal is queued for the tasks coroutine at the end of the running time step). Lean 4 theorems: on the whole machine, for every program and every number of steps: World.status_forward (the phase created/running/finished of a task never decreases), finished_forever, task_identity (Props/MachineTasks.lean, by a per-function inventory of everything that writes the task and coroutine tables). Over an open lifecycle model (non-atomic close, swallowed cancellations), for every action sequence: status_forward, result_write_once/result_stable/result_stable_from_init (the outcome never changes once `done` is set), result_overwritten_while_closing (the F18 witness: the stored outcome does change before `done` is set), cancel_created_runs_nothing, cancel_finished_noop, cancel_suspended, done_has_result. The executable whole-machine model reproduces the real usim to the turn on scope trees and random valid programs with faults at every activation boundary; the Lean judge checks on every implementation trace: status samples monotone, awaiters agree, cancel-before-start runs nothing, cancel of a suspended task ends it in that time step, TaskCancelled carries a passed token.',
        note='trusted: Lean kernel + standard axioms; templates/translator; whole-machine model tied by exact traces; the projection of machine steps onto lifecycle actions is not proved (tied by correspondence)',
        technique='Lean 4 theorems (decision logic / per-primitive / frame level) + exact whole-machine differential traces + Lean trace judge',
        design_ref='6 (C06), 3, 4.B'),
    'C07': dict(
        level='On the whole machine, for every program and every number of steps: scope_listens_forever (an until-scope keeps its owner, notification and interrupt; Props/MachineObjects.lean). Lean 4 theorems: subscribe_already_true, subscribe_not_yet, trigger_schedules_interrupt (with awakeAll_order), pinned skeletons. The executable whole-machine model reproduces the real usim to the turn on scope trees and random valid programs with faults at every activation boundary; the Lean judge checks on every implementation trace: every until-scope ends no later than its notification fires (delays, dates, flags, two-flag connectives), never-ending blocks whose notification fired.',
        note='trusted: Lean kernel + standard axioms; templates/translator; whole-machine model tied by exact traces; until_exit_time (body abandoned and children closed in the triggers time step) is not proved: judge + correspondence only',
        technique='Lean 4 theorems (decision logic / per-primitive / frame level) + exact whole-machine differential traces + Lean trace judge',
        design_ref='6 (C07), 3, 4.B'),
    'C08': dict(
        level='The wait loop of `await c` on the whole machine, for every world (Props/MachineAwait.lean): await_stays_while_false, await_completes_when_true, await_completes_only_when_true (the loop head returns only in a world in which the condition evaluates true), connective_completes_when_true. On the whole machine, for every program and every number of steps: condition_shape_forever, connective_children_forever, inverse_forever, tracked_listeners_append_only, resource_listeners_append_only (Props/MachineStructure.lean, seventh per-function inventory). Lean 4 theorems: invert_negates/invert_all/invert_any (~c is not c for every expression tree and valuation: De Morgan at any depth, After/Before, Eternity/Instant, operator table translated from tracked.py), double_inversion, eval_and/eval_or; invert_reslevel_not_negation (F13). The executable whole-machine model reproduces the real usim to the turn on scope trees and random valid programs with faults at every activation boundary; the Lean judge checks on every implementation trace: every await returns with its condition true, no waiter is left waiting at quiescence with a true condition, bool() of derived conditions equals the boolean-algebra reading.',
        note='trusted: Lean kernel + standard axioms; templates/translator; whole-machine model tied by exact traces; truth_at_resume and no-lost-wake-up are not proved on the machine: judge + correspondence only (F8: false for nested connectives)',
        technique='Lean 4 theorems (decision logic / per-primitive / frame level) + exact whole-machine differential traces + Lean trace judge',
        design_ref='6 (C08), 3, 4.B'),
    'C14': dict(
        level='The machines ticker is the translated step function, for every world (Props/MachineTicker.lean: tickNext_interval, tickNext_delay): the grid theorems below are theorems about the machine that is compared with the code. Lean 4 theorems over the step arithmetic of interval()/delay() translated from timing.py on every run: '
              'interval_exceeded_iff, interval_next_tick, interval_grid (tick k at start + k*p for every sequence of body durations '
              '<= p, by induction), interval_first_tick, delay_gap, every non-raising step hibernates (yields), negative_rejected. '
              'Exact whole-machine correspondence on ticker programs (periods incl. 0, durations shorter/equal/longer, nested in '
              'until, next to other tickers); Lean judge on implementation traces (grid, gaps, IntervalExceeded only after an '
              'over-long body, a hibernation between iterations).',
        note='trusted: Lean kernel + standard axioms; translator; C01 for the meaning of suspend/postpone',
        technique='Lean 4 arithmetic induction over translated code + exact whole-machine differential traces + Lean trace judge',
        design_ref='6 (C14)'),
    'C13': dict(
        level='On the whole machine, for every program and every number of steps: pipe_identity_forever (Props/MachineStructure.lean). Lean 4 theorems over the code of pipe.py translated on every run: the throttling decision computes the fluid '
              'model\'s scale min(1, throughput / sum of limits) whatever it was before and wakes every transfer whenever it '
              'changes (throttle_scale, throttle_wakes_on_change); rate = min(limit, limit x throughput / sum) (rate_eq_min), combined '
              'flow <= throughput and = throughput when congested (total_flow), uncongested_full_speed; for every number of '
              'congestion changes at arbitrary times a transfer completes exactly when the integral of its rate reaches its '
              'volume and not before (completes_when_integral_reaches_total, by induction over windows); zero volume / '
              'UnboundedPipe timing; any exception in a waiting window leaves through _del_subscriber, which removes exactly '
              'that share and re-throttles (cancel_frees_share, pipeFinish_frees, throttle_sets_scale). Bit-exact whole-machine '
              'correspondence on IEEE doubles for overlapping transfers with cancellations, deadlines and closed volatile tasks; '
              'Lean judge replays the exact rational fluid model over implementation traces.',
        note='trusted: Lean kernel + standard axioms; translator; Float/CPython double agreement and CPython sum() modelled; rounding covered only by the judge tolerance',
        technique='Lean 4 proof over translated arithmetic (induction over windows) + bit-exact whole-machine differential traces + Lean fluid-model judge',
        design_ref='6 (C13)'),
    'C16': dict(
        level='Lean 4 theorems for every world state on the machine\'s code paths of first()/collect(), tied to decisions translated '
              'from basics.py on every run: ValueError iff count exceeds the number of activities and then nothing is spawned '
              '(first_rejects), one volatile monitor per activity in argument order over a fresh queue (first_accepts), the '
              'iteration stops after count results without another fetch (first_stops_after_count), break or any exception in '
              'the consumer\'s body finalises the generator first - closing every monitor - and only then continues '
              '(break_finalises, body_exception_finalises, finalisation_then_original), collect reads results in argument order '
              'and returns no partial result (collect_last/next/exception). first() and collect() are part of the exact '
              'whole-machine correspondence (ties, failures, slow consumers, break, cancelled callers, deadlines); a Lean judge '
              'checks values, order, times and "no code of the losers afterwards" on implementation traces.',
        note='trusted: Lean kernel + standard axioms; translator; asyncstdlib.islice and CPython generator finalisation modelled; '
             'observation outside the statement: a failing activity while the consumer is inside its loop body surfaces as the private CancelScope signal (F14, DESIGN.md)',
        technique='Lean 4 proof over the frame machine + exact whole-machine differential traces + Lean trace judge',
        design_ref='6 (C16)'),
    'C18': dict(
        level='On the whole machine, for every program and every number of steps: event_triggered_once, callbacks_processed_once, event_identity, second_trigger_refused (Props/MachineObjects.lean). Lean 4 theorems for every world state on the machine\'s model of usim/py, tied to decisions translated from '
              'events.py/core.py on every run: a second trigger is refused and changes nothing, the first stores exactly its value, a '
              'value once set is final (trigger_twice_refused, trigger_sets_value, value_is_final), callbacks run in one step and '
              'never twice, an undefused failure raises in the callback task and until() unwraps it (callbacks_run_once, '
              'callbacks_not_twice, undefused_failure_raises, until_unwraps_failure), interrupts are ignored for finished processes, '
              'queued in call order and delivered one per yield oldest first before the awaited value (interrupt_*), timeouts '
              'sleep exactly their delay, processes fire with the generator\'s return value / exception also before the first '
              'yield (process_returns, process_fails; finding F15 repaired), condition values expose only fired members, until(t) '
              'refuses past dates and stops on StopSimulation. The whole SimPy layer is part of the exact whole-machine '
              'correspondence (random process graphs with timeouts, shared events, conditions, interrupts, callbacks, native '
              'awaitables and activities, env.until(None|t|event), async with env); a Lean judge checks resume times, values, '
              'interrupt order, fire-once, callback counts and until on implementation traces.',
        note='trusted: Lean kernel + standard axioms; translator; the frame model of the usim/py coroutines is tied by correspondence only',
        technique='Lean 4 proof over the frame machine + exact whole-machine differential traces + Lean trace judge',
        design_ref='6 (C18)'),
    'C20': dict(
        level='never_overtaken (Props/MachineFifoRun.lean): the wake-up a postponing operation puts at the end of the deque is not taken before everything that was runnable at that time - for every program and any number of steps inside the time step. Further operations end in a postponement, for every world (Props/MachineYield.lean): the four steps of borrowing and giving back, the helper activities of a forcefully closed block, increase, taking a buffered item, a tick whose time has come, delay(0). Lean 4 theorems for every world state: postpone() always hibernates the caller and queues its wake-up behind '
              'everything already runnable (postpone_hibernates, with C02 fifo_now); each listed operation in a state where it '
              'need not wait reduces to that postpone before completing (setFlag/sleep 0/setTracked/put/close/scope exit/'
              'true-condition await/zero transfer lemmas). Table of every awaitable operation x 1-3 other runnable activities, and '
              'random prefixes, run on the real code with a Lean judge requiring every other runnable activity to run between '
              'the markers; exact whole-machine correspondence.',
        note='trusted: Lean kernel + standard axioms; hand-written machine tied by correspondence; templates of timing.py/scope exit',
        technique='Lean 4 proof over the frame machine + exact whole-machine differential traces + Lean trace judge',
        design_ref='6 (C20)'),
}
