"""C20 - every awaitable operation yields to the other runnable activities at least once."""
from fractions import Fraction as F

import msuite
from common import rng_for

PID = 'C20'
TAGS = ['log']
RULE = ('table of (operation, state in which it can complete without waiting) x k = 1..3 spinner activities made runnable just '
        'before: await of true conditions / done task / ended scope / instant, sleep 0, flag and tracked sets (changing or not), '
        'queue and channel put/get(buffered)/close (open or closed)/iteration, borrow/claim/give back, '
        'increase/decrease/set, pipe transfers (zero volume, unbounded, finite), interval/delay steps incl. period 0, collect '
        '(empty and non-empty), leaving an (empty) scope block, leaving a scope block in the turn after a child failed (cancellation still queued), giving borrowed / claimed resources back when the block is left normally, by an exception, by the interrupt of an until-scope or by a cancellation of the task of the holder (next to activities that stay runnable), tickers whose steps pass no time (body takes exactly the period, period 0) next to activities that stay runnable, every operation of the table again right after a postponement of the same activity was cut short by the interrupt of an until-scope, iterations whose steps pass no time (a queue with a backlog, a queue filled by several puts of one time step, first() over activities that finish together) next to activities that stay runnable; each spinner must log a turn between the start marker 100 and the '
        'completion marker 101 of the operation; the table is enumerated completely in every run (exhaustive over the table); '
        'thorough adds random prefixes; non-trivial = every case')

#: (name, setup statements (executed earlier, may take time), operation)
OPS = [
    ('await-true-flag', [['set', 0, True]], ['await', ['flag', 0]]),
    ('await-inverse-flag', [], ['await', ['inv', ['flag', 1]]]),
    ('await-instant', [], ['await', ['instant']]),
    ('await-after-past', [], ['await', ['after', 0]]),
    ('await-moment-now', [], ['await', ['moment', 0]]),
    ('await-before-future', [], ['await', ['before', 9]]),
    ('await-connective', [['set', 0, True]], ['await', ['any', ['flag', 0], ['flag', 1]]]),
    ('await-tracked', [], ['await', ['tracked', 0, 4, 0]]),
    ('sleep-zero', [], ['sleep', 0]),
    ('set-flag', [], ['set', 1, True]),
    ('set-flag-unchanged', [['set', 0, True]], ['set', 0, True]),
    ('set-tracked', [], ['settracked', 0, 5]),
    ('add-tracked', [], ['addtracked', 0, 1]),
    ('queue-put', [], ['qput', 0, 1]),
    ('queue-get-buffered', [['qput', 0, 1]], ['qget', 0]),
    ('queue-close', [], ['qclose', 0]),
    ('queue-close-closed', [['qclose', 0]], ['qclose', 0]),
    ('queue-iter-buffered', [['qput', 0, 1]], ['qiter', 0, 1]),
    ('channel-put', [], ['cput', 0, 1]),
    ('channel-close', [], ['cclose', 0]),
    ('channel-close-closed', [['cclose', 0]], ['cclose', 0]),
    ('borrow-available', [], ['borrow', 0, [1, 1], 5]),
    ('borrow-zero', [], ['borrow', 0, [0, 0], 5]),
    ('claim-available', [], ['claim', 0, [1, 0], 5]),
    ('capacities-borrow', [], ['borrow', 1, [2], 6]),
    ('increase', [], ['reschange', 0, 0, [1, 0]]),
    ('decrease', [], ['reschange', 0, 1, [1, 0]]),
    ('set-levels', [], ['reschange', 0, 2, [3, -1]]),
    ('transfer-zero', [], ['transfer', 0, 0, None]),
    ('transfer-unbounded', [], ['transfer', 1, 5, None]),
    ('transfer-unbounded-zero-limited', [], ['transfer', 1, 0, 2]),
    ('interval-zero', [], ['interval', 0, 1]),
    ('delay-zero', [], ['delayiter', 0, 1]),
    ('collect-empty', [], ['collect']),
    ('collect-done', [], ['collect', ['prog', ['ret', 1]]]),
    ('scope-empty', [], ['scope', 7, ['none']]),
    ('scope-finished-children', [], ['scope', 7, ['none'], ['spawn', 7, 30, None, None, False, ['prog', ['log', 1]]], ['sleep', 1]]),
    ('await-done-task', [['scope', 7, ['none'], ['spawn', 7, 30, None, None, False, ['prog', ['ret', 3]]]]], ['awaittask', 30]),
    ('await-task-done-condition', [['scope', 7, ['none'], ['spawn', 7, 30, None, None, False, ['prog', ['ret', 3]]]]], ['await', ['done', 30]]),
    ('await-not-done-of-running-task', [['spawn', 0, 31, None, None, True, ['prog', ['sleep', 50]]], ['sleep', 1]], ['await', ['inv', ['done', 31]]]),
    ('await-ended-scope', [['scope', 7, ['none']]], ['awaitscope', 7]),
]


#: a pipe of infinite throughput that is an ordinary `Pipe`: positive volumes take no time and must still yield
INFINITE_PIPE_OPS = [
    ('transfer-infinite-pipe', ['transfer', 2, 5, None]),
    ('transfer-infinite-pipe-limited', ['transfer', 2, 5, 3]),
    ('transfer-infinite-pipe-zero', ['transfer', 2, 0, None]),
]


def case(name, setup, op, k, prefix=None):
    spinners = [['spawn', 0, i, None, None, True, ['prog', ['log', 200 + i]]] for i in range(k)]
    body = list(prefix or []) + list(setup) + spinners + [['log', 100], op, ['log', 101]]
    return ['scenario', ['debug', 1], ['start', 0], ['flags', 2], ['locks', 1], ['queues', 1], ['chans', 1], ['tracked', 0],
            ['resources', ['res', 0, 5, 5], ['res', 1, 4]], ['pipes', 2, 'inf'],
            ['roots', ['prog', ['scope', 0, ['none']] + body]]]


#: tickers whose steps pass no time: (name, ticker statement, period)
TICKERS = [
    ('interval-body-takes-the-period', ['interval', 1, 3, ['sleep', 1]], 1),
    ('interval-body-takes-the-period-in-two-waits', ['interval', 1, 3, ['sleep', F(1, 2)], ['sleep', F(1, 2)]], 1),
    ('interval-half', ['interval', F(1, 2), 4, ['sleep', F(1, 2)]], F(1, 2)),
    ('interval-zero-steps', ['interval', 0, 3, ['log', 5]], 0),
    ('delay-zero-steps', ['delayiter', 0, 3, ['log', 5]], 0),
]


def ticker_case(stmt, period, k, offset=0):
    """the ticker next to k activities that stay runnable in every time step the ticker touches"""
    steps = stmt[2] + 2
    spin = []
    for _ in range(steps):
        spin += [['sleep', 0], None] * 6 + [['sleep', period]] if period else [['sleep', 0], None] * 6
    roots = [['prog', ['sleep', offset], stmt, ['log', 101]]]
    for i in range(k):
        roots.append(['prog', ['sleep', offset]] + [['log', 200 + i] if x is None else x for x in spin])
    return ['scenario', ['debug', 1], ['start', 0], ['flags', 1], ['locks', 0], ['roots'] + roots]


def iter_step_case(kind, k, n=3):
    """the steps of an iteration that pass no time, next to k activities that stay runnable: `async for` over a queue that
    holds n items already, over a queue that two producers fill in the same time step, and over first(.., count=n) whose
    activities all finish at the same time"""
    spin = [['sleep', 0], None] * (8 * (n + 2))
    if kind == 'queue-backlog':
        roots = [['prog'] + [['qput', 0, i + 1] for i in range(n)] + [['sleep', 1], ['qiter', 0, n], ['log', 101]]]
        offset = 1
    elif kind == 'queue-producers':
        roots = [['prog', ['qiter', 0, n], ['log', 101]]]
        offset = 1
    else:
        roots = [['prog', ['first', n, None, ['progs'] + [['prog', ['sleep', 1], ['ret', 11 + i]] for i in range(n)]], ['log', 101]]]
        offset = 1
    for i in range(k):
        roots.append(['prog', ['sleep', offset]] + [['log', 200 + i] if x is None else x for x in spin])
    if kind == 'queue-producers':
        # (after the spinners, so that the convention "root activities 1..k are the spinners" holds)
        roots.append(['prog', ['sleep', 1]] + [['qput', 0, 10 + i] for i in range(n)])
    return ['scenario', ['debug', 1], ['start', 0], ['flags', 1], ['locks', 0], ['queues', 1], ['roots'] + roots]


ITER_STEPS = ['queue-backlog', 'queue-producers', 'first-ties']


def after_interrupt_case(op, setup, k):
    """the operation right after a postponement of the same activity was cut short by an interrupt: inside `until(flag)` the
    activity sets the flag itself - the scope's interrupt hits the postponement of `set` - and goes on to the operation in the
    same time step, next to k activities that stay runnable (a wake-up that is reused instead of made anew would fire at once)"""
    spin = [['sleep', 0], None] * 16
    roots = [['prog', ['sleep', 1]] + list(setup) + [['scope', 8, ['cond', ['flag', 1]], ['set', 1, True], ['log', 7]], ['log', 100], op, ['log', 101]]]
    for i in range(k):
        roots.append(['prog', ['sleep', 1]] + [['log', 200 + i] if x is None else x for x in spin])
    return ['scenario', ['debug', 1], ['start', 0], ['flags', 2], ['locks', 1], ['queues', 1], ['chans', 1], ['tracked', 0],
            ['resources', ['res', 0, 5, 5], ['res', 1, 4]], ['pipes', 2, 'inf'], ['roots'] + roots]


#: leaving a borrow / claim block while holding: (name, how the holder is thrown out)
GIVE_BACK = ['normal', 'until-flag', 'until-time', 'cancel', 'exception']


def give_back_case(how, k, claim=False, res=0):
    """root 0 holds resources and leaves the block (normally, by the interrupt of an until-scope, by a cancellation of its
    task, by an exception of its own) next to k root activities that stay runnable"""
    amounts = [1, 1] if res == 0 else [2]
    block = lambda body: [('claim' if claim else 'borrow'), res, amounts, 5] + body
    if how == 'normal':
        holder = [block([['sleep', 1]])]
    elif how == 'until-flag':
        holder = [['scope', 8, ['cond', ['flag', 0]], block([['await', ['eternity']]])]]
    elif how == 'until-time':
        holder = [['scope', 8, ['delay', 1], block([['await', ['eternity']]])]]
    elif how == 'cancel':
        holder = [['try', ['body', ['scope', 8, ['none'], ['spawn', 8, 40, None, None, False, ['prog'] + [block([['await', ['eternity']]])]],
                                    ['sleep', 1], ['cancel', 40, 3], ['sleep', 1]]],
                   ['handler', ['pats', 'anyException'], ['body', ['log', 7]]]]]
    else:
        holder = [['try', ['body', block([['sleep', 1], ['raise', 0]])], ['handler', ['pats', ['user', 0]], ['body', ['log', 7]]]]]
    roots = [['prog'] + holder + [['log', 101]]]
    spin = ([['sleep', 0], None] * 8 + [['sleep', 1]]) * 3
    for i in range(k):
        roots.append(['prog'] + [['log', 200 + i] if x is None else x for x in spin])
    roots.append(['prog', ['sleep', 1], ['set', 0, True]])
    return ['scenario', ['debug', 1], ['start', 0], ['flags', 2], ['locks', 0], ['resources', ['res', 0, 5, 5], ['res', 1, 4]], ['roots'] + roots]


def failed_child_exit_case(k):
    """the body of a scope ends normally in the very turn after a child failed: the scope's cancellation is still queued
    behind the body's own wake-up.  Leaving the block (marker 100 at the end of the body, 101 after the block) still has
    to let the k activities that stay runnable have a turn"""
    child = ['prog', ['sleep', 1], ['raise', 0]]
    # (the child's wake-up for t=1 is queued before the body's: the child fails first, the body resumes right after it)
    block = ['scope', 8, ['none'], ['spawn', 8, 40, None, None, False, child], ['sleep', 0], ['sleep', 0], ['sleep', 1], ['log', 100]]
    holder = [['try', ['body', block], ['handler', ['pats', 'concurrent', 'anyException'], ['body', ['log', 7]]]], ['log', 101]]
    roots = [['prog'] + holder]
    spin = ([None, ['sleep', 0]] * 8 + [['sleep', 1]]) * 3
    for i in range(k):
        roots.append(['prog'] + [['log', 200 + i] if x is None else x for x in spin])
    return ['scenario', ['debug', 1], ['start', 0], ['flags', 1], ['locks', 0], ['roots'] + roots]


def run(tier, seed, drv):
    st = msuite.Suite(PID, drv, 'C20', TAGS + ['tick', 'tbodyend', 'tbegin', 'bbody', 'bexit'])
    st.res.rule = RULE
    for name, stmt, period in TICKERS:
        for k in (1, 2, 3):
            for offset in ((0,) if tier == 'quick' else (0, 1, F(1, 2))):
                st.judge_params = str(k)
                st.check(ticker_case(stmt, period, k, offset), meta={'operation': name, 'spinners': k}, nontrivial=lambda impl: True)
                st.res.count('op:' + name)
    for kind in ITER_STEPS:
        for k in (1, 2, 3):
            for n in (2, 3, 4):
                st.judge_params = str(k)
                st.check(iter_step_case(kind, k, n), meta={'operation': 'iteration-step-' + kind, 'spinners': k}, nontrivial=lambda impl: True)
                st.res.count('op:iteration-step-' + kind)
    for name, setup, op in OPS:
        if name in ('await-inverse-flag', 'set-flag', 'await-connective') or any(x and x[0] in ('scope', 'spawn') for x in setup):
            continue        # (they use flag 1 / need a scope of their own around the set-up)
        for k in (1, 2):
            st.judge_params = str(k)
            st.check(after_interrupt_case(op, setup, k), meta={'operation': 'after-interrupt-' + name, 'spinners': k}, nontrivial=lambda impl: True)
            st.res.count('op:after-interrupt')
    for k in (1, 2, 3):
        st.judge_params = str(k)
        st.check(failed_child_exit_case(k), meta={'operation': 'scope-exit-after-child-failure', 'spinners': k}, nontrivial=lambda impl: True)
        st.res.count('op:scope-exit-after-child-failure')
    for how in GIVE_BACK:
        for k in (1, 2, 3):
            for claim in (False, True):
                for res in (0, 1):
                    st.judge_params = str(k)
                    st.check(give_back_case(how, k, claim, res), meta={'operation': 'give-back-' + how, 'spinners': k}, nontrivial=lambda impl: True)
                    st.res.count('op:give-back-' + how)
    for name, setup, op in OPS:
        for k in (1, 2, 3):
            st.judge_params = str(k)
            st.check(case(name, setup, op, k), meta={'operation': name, 'spinners': k}, nontrivial=lambda impl: True)
            st.res.count('op:' + name)
    # transfers through `Pipe(float('inf'))` (not `UnboundedPipe`): the pipe computes with floats whatever the clock is made of; the
    # machine's rational time has no infinity, so these rows are judged on the implementation's trace only
    for name, op in INFINITE_PIPE_OPS:
        for k in (1, 2, 3):
            st.judge_params = str(k)
            sc = case(name, [], op, k)
            sc = [x if not (isinstance(x, list) and x and x[0] == 'pipes') else ['pipes', 2, 'inf', 'pinf'] for x in sc]
            st.check(sc, meta={'operation': name, 'spinners': k}, nontrivial=lambda impl: True, compare=False)
            st.res.count('op:' + name)
    if tier == 'thorough':
        for i in range(3000):
            rng = rng_for(seed, PID, i)
            name, setup, op = OPS[i % len(OPS)]
            k = rng.randint(1, 3)
            prefix = [['sleep', rng.choice([0, F(1, 2), 1])] for _ in range(rng.randint(0, 2))]
            st.judge_params = str(k)
            st.check(case(name, setup, op, k, prefix), meta={'operation': name, 'spinners': k}, nontrivial=lambda impl: True)
    st.res.exhaustive = True
    return st.finish()


def replay(data, drv):
    k = (data.get('meta') or data.get('case', {}).get('meta') or {}).get('spinners', 1)
    return msuite.standard_replay(PID, 'C20', TAGS, data, drv, judge_params=str(k))
