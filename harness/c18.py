"""C18 - SimPy layer: events fire once; processes resume with the right value and time."""
from fractions import Fraction as F

import msuite

PID = 'C18'
TAGS = ['pyuntil', 'pydone', 'pynew', 'pyyield', 'recv', 'pytrig', 'twice', 'pyintr', 'pyend', 'cb', 'addcb', 'latecb', 'pystate', 'pygot', 'log', 'now']
RULE = ('one usim.py Environment (initial time -1, 0, 1 or 2; simulation start -1, 0 or 1) run by env.until(None | time (0 included) | event) or entered with `async with env:` next to '
        'native usim activities; 1-5 SimPy processes (some created by other processes) whose generators mix timeouts (delays 0, 1/2, 1, 2, 3 '
        'with ties), waits for shared events / timeouts created earlier / processes / AnyOf / AllOf (also nested, also of events '
        'that already fired), succeed / fail (sometimes twice), interrupts (several at once, of waiting, finished and not yet '
        'started processes), callbacks, probes of triggered/processed/ok/value, yields of native notifications (time + d, time >= t, '
        'flags), return values and uncaught / caught exceptions; native activities await events, trigger them and interrupt processes; '
        'a low rate of malformed programs (unbound variables, negative delays). non-trivial = at least 4 values/exceptions received')

DEL = [0, 0, F(1, 2), 1, 1, 2, 3]


class Names:
    """variables of the SimPy program: those bound by the set-up code are visible everywhere, those
    bound inside a generator only to the code of that generator that follows"""
    def __init__(self):
        self.n = 0
        self.kind = {}
        self.local = []        # stack of sets of variables bound inside the generators being written

    def new(self, kind):
        x = self.n
        self.n += 1
        self.kind[x] = kind
        if self.local:
            self.local[-1].add(x)
        return x

    def of(self, *kinds):
        hidden = set()
        for i, frame in enumerate(self.hidden_frames):
            hidden |= frame
        return [x for x, k in self.kind.items() if k in kinds and x not in hidden]

    @property
    def hidden_frames(self):
        # variables of generators that are finished (popped) stay hidden; see `leave`
        return getattr(self, '_hidden', [])

    def enter(self):
        self.local.append(set())

    def leave(self):
        done = self.local.pop()
        self._hidden = self.hidden_frames + [done]


def gen_code(rng, names, depth, me=None):
    """code of one generator; `names` are the variables bound so far (creation order = program order
    of the set-up code; variables created inside generators are only used by the code after them)"""
    code = []
    names.enter()
    for _ in range(rng.randint(2, 7)):
        r = rng.random()
        evs = names.of('event', 'timeout', 'proc', 'cond')
        if r < 0.30:
            code.append(['yieldtimeout', rng.choice(DEL), rng.randint(1, 9), int(rng.random() < 0.85)])
        elif r < 0.50 and evs:
            code.append(['yield', rng.choice(evs), int(rng.random() < 0.85)])
        elif r < 0.58 and names.of('event'):
            code.append(['succeed', rng.choice(names.of('event')), rng.randint(10, 19)])
        elif r < 0.63 and names.of('event'):
            code.append(['fail', rng.choice(names.of('event')), rng.choice([0, 2, 4])])
        elif r < 0.71 and names.of('proc'):
            for _ in range(rng.choice([1, 1, 2])):
                code.append(['interrupt', rng.choice(names.of('proc')), rng.randint(20, 29)])
        elif r < 0.75:
            code.append(['newevent', names.new('event')])
        elif r < 0.79:
            d = rng.choice(DEL)
            code.append(['newtimeout', names.new('timeout'), d, rng.randint(30, 39)])
        elif r < 0.84 and len(evs) >= 1:
            k = rng.randint(0 if rng.random() < 0.1 else 1, min(3, len(evs)))
            code.append(['newcond', names.new('cond'), rng.choice(['all', 'any']), ['members'] + rng.sample(evs, k)])
        elif r < 0.88 and depth < 2:
            x = names.new('proc')
            code.append(['newproc', x, ['gen'] + gen_code(rng, names, depth + 1, x)])
        elif r < 0.91 and evs:
            code.append(['addcb', rng.choice(evs), rng.randint(40, 49)])
        elif r < 0.93 and evs:
            code.append(['probe', rng.choice(evs)])
        elif r < 0.95:
            n = rng.choice([['delay', rng.choice(DEL)], ['cond', ['after', rng.choice([1, 2, 3, 4])]], ['cond', ['flag', 0]]])
            code.append(['yieldnative', n, int(rng.random() < 0.85)])
        elif r < 0.975:
            code.append(['yieldcoro', rng.choice(DEL), rng.choice([0, 0, 1, 7]), rng.choice([None, None, None, 2]), int(rng.random() < 0.85)])
        elif r < 0.98:
            code.append(['plog', rng.randint(1, 9)])
        elif r < 0.983:
            code.append(['yield', 99, 1])                           # unbound variable
        elif r < 0.986:
            code.append(['yieldtimeout', -1, 0, 1])                 # negative delay
        else:
            code.append(['praise', rng.choice([0, 2, 0, 2, 5])])      # (5 = SystemExit: a failure that is not an Exception)
            break
    if rng.random() < 0.5:
        code.append(['pret', rng.randint(50, 59)])
    names.leave()
    return code


def setup_code(rng, names):
    code = []
    for _ in range(rng.randint(0, 2)):
        code.append(['newevent', names.new('event')])
    for _ in range(rng.randint(0, 2)):
        code.append(['newtimeout', names.new('timeout'), rng.choice(DEL), rng.randint(30, 39)])
    for _ in range(rng.randint(1, 4)):
        x = names.new('proc')
        code.append(['newproc', x, ['gen'] + gen_code(rng, names, 0, x)])
        if rng.random() < 0.3:
            evs = names.of('event', 'timeout', 'proc', 'cond')
            members = rng.sample(evs, min(len(evs), rng.randint(1, 3)))
            if rng.random() < 0.3:
                # the same event listed twice (`a & a`, `all_of([a, b, a])`): every listed member counts
                members.insert(rng.randint(0, len(members)), rng.choice(members))
            code.append(['newcond', names.new('cond'), rng.choice(['all', 'all', 'any']), ['members'] + members])
        if rng.random() < 0.25 and len(names.of('event', 'timeout', 'proc')) >= 3:
            # a mixed nested condition such as (a & b) | c, waited for by a process of its own
            leaves = rng.sample(names.of('event', 'timeout', 'proc'), 3)
            inner = names.new('cond')
            outer = names.new('cond')
            k1 = rng.choice(['all', 'any'])
            code.append(['newcond', inner, k1, ['members'] + leaves[:2]])
            code.append(['newcond', outer, 'any' if k1 == 'all' else 'all', ['members', inner, leaves[2]]])
            code.append(['newproc', names.new('proc'), ['gen', ['yield', outer, 1], ['plog', 7]]])
        if rng.random() < 0.2:
            code.append(['addcb', rng.choice(names.of('event', 'timeout', 'proc', 'cond')), rng.randint(40, 49)])
    return code


def native_prog(rng, names, i):
    prog = []
    for _ in range(rng.randint(1, 4)):
        r = rng.random()
        evs = names.of('event', 'timeout', 'proc', 'cond')
        if r < 0.3:
            prog.append(['sleep', rng.choice(DEL)])
        elif r < 0.55 and evs:
            prog.append(['pyawait', rng.choice(evs)])
            prog.append(['now'])
        elif r < 0.7 and names.of('event'):
            prog.append(['pydo', ['succeed', rng.choice(names.of('event')), rng.randint(60, 69)]])
        elif r < 0.8 and names.of('proc'):
            prog.append(['pydo', ['interrupt', rng.choice(names.of('proc')), rng.randint(70, 79)]])
        elif r < 0.9 and evs:
            prog.append(['pydo', ['probe', rng.choice(evs)]])
        else:
            prog.append(['set', 0, 1])
    prog.append(['log', 80 + i])
    return ['prog'] + prog


def family(rng):
    names = Names()
    t0 = rng.choice([0, 0, 0, 1, 2, -1])
    setup = setup_code(rng, names)
    roots = []
    r = rng.random()
    if r < 0.7:
        u = rng.choice([None, None, ['time', rng.choice([0, 0, 1, 2, 3, F(5, 2), 5, 8])]] +
                       ([['event', rng.choice(names.of('event', 'timeout', 'proc', 'cond'))]] * 2))
        main = ['prog', ['sleep', rng.choice([0, 0, 1])], ['pyuntil', t0, u, ['setup'] + setup], ['now'], ['log', 90]]
        for x in names.of('event', 'timeout', 'proc', 'cond')[:3]:
            main.append(['pydo', ['probe', x]])
        roots.append(main)
    else:
        body = native_prog(rng, names, 9)[1:]
        roots.append(['prog', ['pywith', t0, ['setup'] + setup] + body, ['now'], ['log', 90]])
    # native activities next to the environment (they only touch variables of the set-up code)
    if rng.random() < 0.5:
        for i in range(rng.randint(1, 2)):
            roots.append(['prog', ['sleep', rng.choice([F(1, 2), 1, 2])]] + native_prog(rng, names, i)[1:])
    return ['scenario', ['debug', 1], ['start', rng.choice([0, 0, 0, 1, -1])], ['flags', 1], ['locks', 0], ['roots'] + roots]


def nontrivial(impl):
    return sum(1 for e in impl['events'] if ':recv:' in e or ':pygot:' in e) >= 4


def run(tier, seed, drv):
    return msuite.standard_run(PID, 'C18', TAGS, tier, seed, drv, [family], nontrivial=nontrivial, rule=RULE,
                               n_quick=300, n_thorough=8000)


def replay(data, drv):
    return msuite.standard_replay(PID, 'C18', TAGS, data, drv)
