"""C11 - Channel: broadcast to every subscribed consumer, in order, once."""
from fractions import Fraction as F

import gen
import msuite

PID = 'C11'
TAGS = ['cclose', 'cputreq', 'cputrej', 'csub', 'cend', 'cleave', 'cnext', 'got', 'caught']
RULE = ('(a) families: 1-2 producers, 1-4 consumers (iteration with early break, single awaits, late subscription) on one '
        'channel inside an (until-)scope, puts/close on a coarse time grid, cancels after t time units and k postponements, '
        'deadlines, volatile consumers; consumers holding several subscriptions at once (an await or a second iteration of '
        'the channel inside the body of an iteration); (b) random whole-API programs with a channel-heavy profile; non-trivial = at least 2 '
        'messages delivered')

PROFILE = {'chans': 2, 'flags': 2, 'depth': 3, 'until': 0.5, 'volatile': 0.3,
           'weights': {'log': 1, 'sleep': 3, 'await': 0.3, 'set': 0.3, 'scope': 2, 'spawn': 2, 'cancel': 2, 'raise': 0.3,
                       'try': 0.6, 'cput': 4, 'cget': 2, 'cclose': 0.5, 'citer': 2.5}}


def family(rng):
    def body(i):
        role = 'prod' if i == 0 else rng.choice(['prod', 'iter', 'iter', 'single'])
        prog = [['sleep', rng.choice([0, 0, F(1, 2), 1])]]
        if role == 'prod':
            for _ in range(rng.randint(2, 5)):
                prog.append(['cput', 0, 1])
                if rng.random() < 0.5:
                    prog.append(['sleep', rng.choice([0, F(1, 2), 1])])
            if rng.random() < 0.5:
                prog.append(['cclose', 0])
        elif role == 'iter':
            prog.append(['citer', 0, rng.randint(1, 5), ['sleep', rng.choice([0, 0, F(1, 2), 1])]])
        else:
            prog.append(['try', ['body', ['cget', 0]], ['handler', ['pats', 'streamClosed'], ['body', ['log', 50 + i]]]])
        return prog
    roots = gen.gen_contenders(rng, body, n=rng.randint(2, 6), until=rng.choice([None, None, 2, 3]))
    return ['scenario', ['debug', 1], ['start', 0], ['flags', 1], ['locks', 0], ['chans', 1], ['roots'] + roots]


def close_race(rng):
    """consumers already waiting; a put and a close by different activities in the same time step"""
    t = rng.choice([F(1, 2), 1, 2])
    roots = []
    for i in range(rng.randint(1, 3)):
        if rng.random() < 0.5:
            roots.append(['prog', ['try', ['body', ['cget', 0]], ['handler', ['pats', 'streamClosed'], ['body', ['log', 60 + i]]]]])
        else:
            roots.append(['prog', ['citer', 0, rng.randint(1, 3)], ['log', 70 + i]])
    order = [['prog', ['sleep', t], ['cput', 0, 1]] + ([['cput', 0, 2]] if rng.random() < 0.5 else []),
             ['prog', ['sleep', t], ['cclose', 0]]]
    if rng.random() < 0.5:
        order.reverse()
    roots += order
    rng.shuffle(roots)
    return ['scenario', ['debug', 1], ['start', 0], ['flags', 1], ['locks', 0], ['chans', 1], ['roots'] + roots]


def nested(rng):
    """one activity holds several subscriptions of the same channel at once: inside the body of `async for` over the channel
    it awaits the channel again (or iterates it again); every subscription still gets every message put during its lifetime"""
    def inner():
        k = rng.random()
        if k < 0.5:
            return [['try', ['body', ['cget', 0]], ['handler', ['pats', 'streamClosed'], ['body', ['log', 80]]]]]
        if k < 0.8:
            return [['citer', 0, rng.randint(1, 2)] + ([['sleep', rng.choice([0, F(1, 2)])]] if rng.random() < 0.5 else [])]
        return [['sleep', rng.choice([0, F(1, 2)])], ['try', ['body', ['cget', 0]], ['handler', ['pats', 'streamClosed'], ['body', ['log', 81]]]]]
    roots = []
    for i in range(rng.randint(1, 3)):
        roots.append(['prog', ['citer', 0, rng.randint(1, 4)] + inner(), ['log', 90 + i]])
    for _ in range(rng.randint(1, 2)):
        prog = [['sleep', rng.choice([F(1, 2), 1])]]
        for _ in range(rng.randint(3, 7)):
            prog.append(['cput', 0, 1])
            if rng.random() < 0.4:
                prog.append(['sleep', rng.choice([0, F(1, 2), 1])])
        if rng.random() < 0.7:
            prog.append(['cclose', 0])
        roots.append(['prog'] + prog)
    rng.shuffle(roots)
    return ['scenario', ['debug', 1], ['start', 0], ['flags', 1], ['locks', 0], ['chans', 1], ['roots'] + roots]


def nontrivial(impl):
    return sum(1 for e in impl['events'] if ':got:' in e) >= 2


def run(tier, seed, drv):
    return msuite.standard_run(PID, 'C11', TAGS, tier, seed, drv, [family, lambda r: gen.gen_scenario(r, PROFILE), close_race, nested],
                               nontrivial=nontrivial, rule=RULE, optimized=100 if tier == 'quick' else 1000)


def replay(data, drv):
    return msuite.standard_replay(PID, 'C11', TAGS, data, drv)
