"""C19 - SimPy resources: the real `usim.py.resources` driven by random processes; every entry into a
resource (request construction, processed callback, cancel) is logged by harness-side wrappers and
replayed, operation by operation, on the Lean machine `USim.SimPyRes`; states are compared after
every operation and the Lean judge predicates are evaluated on the implementation's states."""
import re

from common import Result, rng_for, import_usim

PID = 'C19'
KINDS = ['container', 'store', 'filterStore', 'priorityStore', 'resource', 'priorityResource', 'preemptive']


class Recorder:
    """harness-side instrumentation (no change to /repo): wraps constructors, cancel, triggers"""

    def __init__(self, mods):
        self.m = mods
        self.depth = 0
        self.ops = []          # (opline, snapshot, env.now, meta)
        self.next_id = 1
        self.res = None
        self.kind = None
        self.procs = {}
        self.interrupts = []
        self.grants = []       # (kind, id, value) in order of succeed
        self._patched = []
        self.active = True

    # -- patching ---------------------------------------------------------------------------
    def patch(self, obj, name, make):
        orig = getattr(obj, name)
        setattr(obj, name, make(orig))
        self._patched.append((obj, name, orig))

    def install(self):
        base = self.m['base']
        rec = self

        def wrap_init(kind):
            def make(orig):
                def init(ev, resource, *a, **k):
                    if resource is not rec.res or not rec.active:
                        return orig(ev, resource, *a, **k)
                    ev._vid = rec.next_id
                    rec.next_id += 1
                    before = rec.queue_ids()
                    rec.depth += 1
                    try:
                        orig(ev, resource, *a, **k)
                    finally:
                        rec.depth -= 1
                    if rec.depth == 0:
                        rec.record(rec.op_line(kind, ev), {'op': kind, 'id': ev._vid, 'before': before})
                return init
            return make
        self.patch(base.Put, '__init__', wrap_init('put'))
        self.patch(base.Get, '__init__', wrap_init('get'))

        def wrap_cancel(kind):
            def make(orig):
                def cancel(ev):
                    if getattr(ev, 'resource', None) is not rec.res or not hasattr(ev, '_vid') or not rec.active:
                        return orig(ev)
                    rec.depth += 1
                    try:
                        orig(ev)
                    finally:
                        rec.depth -= 1
                    if rec.depth == 0:
                        rec.record('c19 c%s %d' % (kind, ev._vid), {'op': 'cancel-' + kind, 'id': ev._vid})
                return cancel
            return make
        self.patch(base.Put, 'cancel', wrap_cancel('put'))
        self.patch(base.Get, 'cancel', wrap_cancel('get'))
        ev_mod = self.m['events']

        def make_succeed(orig):
            def succeed(ev, value=None):
                r = orig(ev, value)
                if rec.active and hasattr(ev, '_vid') and getattr(ev, 'resource', None) is rec.res:
                    rec.grants.append(('P' if isinstance(ev, base.Put) else 'G', ev._vid, item_code(value)))
                return r
            return succeed
        self.patch(ev_mod.Event, 'succeed', make_succeed)

        def make_interrupt(orig):
            def interrupt(proc, cause=None):
                if rec.active and type(cause).__name__ == 'Preempted':
                    rec.interrupts.append((rec.procs.get(proc, 0), rec.procs.get(cause.by, 0), cause.usage_since,
                                           cause.resource is rec.res))
                return orig(proc, cause)
            return interrupt
        self.patch(ev_mod.Process, 'interrupt', make_interrupt)

    def attach(self, res, kind):
        """wrap the trigger methods of this resource instance"""
        self.res = res
        self.kind = kind
        rec = self

        def wrap_trigger(which, orig):
            def trigger(arg):
                if not rec.active:
                    return orig(arg)
                top = rec.depth == 0 and arg is not None
                before = rec.queue_ids()
                rec.depth += 1
                try:
                    return orig(arg)
                finally:
                    rec.depth -= 1
                    if top:
                        rec.record('c19 cb ' + which, {'op': 'cb-' + which, 'before': before})
            return trigger
        res._trigger_get = wrap_trigger('afterPut', res._trigger_get)
        res._trigger_put = wrap_trigger('afterGet', res._trigger_put)

    def uninstall(self):
        self.active = False
        for obj, name, orig in reversed(self._patched):
            setattr(obj, name, orig)
        self._patched = []

    # -- observation ------------------------------------------------------------------------
    def queue_ids(self):
        res = self.res
        if res is None:
            return None
        return {'put': [(getattr(e, '_vid', -1), getattr(e, 'key', None)) for e in res.put_queue],
                'get': [getattr(e, '_vid', -1) for e in res.get_queue]}

    def item_value(self, it):
        return it.priority if hasattr(it, 'priority') else item_code(it)

    def snapshot(self):
        res = self.res
        level = getattr(res, '_level', 0)
        items = [self.item_value(i) for i in getattr(res, '_items', [])]
        users = [u._vid for u in getattr(res, 'users', [])]
        return {'level': level, 'items': items, 'users': users,
                'putQ': [e._vid for e in res.put_queue], 'getQ': [e._vid for e in res.get_queue]}

    def op_line(self, kind, ev):
        if kind == 'put':
            amount = getattr(ev, 'amount', None)
            if amount is None:
                item = getattr(ev, 'item', 0)
                amount = self.item_value(item)
            # the sort key of a priority request is computed here from the documented rule (priority, time of the
            # request, non-preempting last) - not read from the request object, which the code under test computes
            if hasattr(ev, 'priority'):
                key = (ev.priority, self.res._env.now, not getattr(ev, 'preempt', True))
            else:
                key = (0, 0, False)
            proc = self.procs.get(getattr(ev, 'proc', None), 0)
            return 'c19 put %d %d %d %d %d %d %d' % (ev._vid, amount, key[0], key[1], int(key[2]),
                                                    int(getattr(ev, 'preempt', True)), proc)
        amount = getattr(ev, 'amount', 0)
        flt = getattr(getattr(ev, 'filter', None), 'spec', 'any')
        request = getattr(getattr(ev, 'request', None), '_vid', 0)
        return 'c19 get %d %d %s %d' % (ev._vid, amount, flt, request)

    def record(self, line, meta):
        grants = self.grants
        self.grants = []
        ints = self.interrupts
        self.interrupts = []
        self.ops.append({'line': line, 'snap': self.snapshot(), 'now': self.res._env.now, 'meta': meta,
                         'grants': grants, 'preempted': ints})


def item_code(it):
    """items are small ints; codes >= 100 stand for their float twins (100 + k is `float(k)`): equal under `==`, yet different
    objects that a filter can tell apart"""
    return int(it) + 100 if isinstance(it, float) else it


def item_of(code):
    return float(code - 100) if isinstance(code, int) and code >= 100 else code


def mk_filter(spec):
    g = _mk_filter(spec)
    f = lambda it: g(item_code(it))  # noqa: E731
    f.spec = spec
    return f


def _mk_filter(spec):
    kind, *args = spec.split(':')
    args = [int(a) for a in args]
    if kind == 'any':
        f = lambda x: True  # noqa: E731
    elif kind == 'mod':
        f = lambda x: x % args[0] == args[1]  # noqa: E731
    elif kind == 'lt':
        f = lambda x: x < args[0]  # noqa: E731
    elif kind == 'ge':
        f = lambda x: x >= args[0]  # noqa: E731
    elif kind == 'eq':
        f = lambda x: x == args[0]  # noqa: E731
    else:
        f = lambda x: False  # noqa: E731
    f.spec = spec
    return f


def gen_scenario(rng, kind=None):
    kind = kind or rng.choice(KINDS)
    sc = {'kind': kind, 'procs': []}
    grid = [0, 0, 1, 1, 2, 3]
    nproc = rng.randint(2, 6)
    if kind == 'container':
        sc['capacity'] = rng.choice([None, 5, 8, 10])
        sc['init'] = rng.randint(0, sc['capacity'] or 6)
        for _ in range(nproc):
            steps = []
            for _ in range(rng.randint(1, 3)):
                steps.append({'wait': rng.choice(grid), 'op': rng.choice(['put', 'get']),
                              'amount': rng.randint(1, 6),
                              'patience': rng.choice([None, None, 0, 1, 2])})
            sc['procs'].append(steps)
    elif kind in ('store', 'filterStore', 'priorityStore'):
        sc['capacity'] = rng.choice([None, 1, 2, 3])
        sc['pitem'] = kind == 'priorityStore' and rng.random() < 0.5
        twins = kind == 'filterStore' and rng.random() < 0.4
        for _ in range(nproc):
            steps = []
            for _ in range(rng.randint(1, 3)):
                op = rng.choice(['put', 'get'])
                st = {'wait': rng.choice(grid), 'op': op, 'amount': rng.randint(0, 9),
                      'patience': rng.choice([None, None, 0, 1, 2])}
                if op == 'get' and kind == 'filterStore':
                    st['filter'] = rng.choice(['any', 'mod:2:0', 'mod:2:1', 'lt:3', 'ge:5', 'eq:4', 'mod:3:1'])
                if kind == 'filterStore' and twins:
                    # items that compare equal and are different objects (k and float(k)); filters that tell them apart
                    st['amount'] = rng.randint(0, 2) + rng.choice([0, 100])
                    if op == 'get':
                        st['filter'] = rng.choice(['any', 'ge:100', 'lt:100', 'ge:100', 'lt:100', 'mod:2:0'])
                steps.append(st)
            sc['procs'].append(steps)
    else:
        sc['capacity'] = rng.randint(1, 3)
        for _ in range(nproc):
            steps = []
            for _ in range(rng.randint(1, 2)):
                steps.append({'wait': rng.choice(grid), 'op': 'use', 'hold': rng.choice([0, 1, 1, 2, 4]),
                              'prio': rng.choice([0, 0, 1, 2, 3, -1]), 'preempt': rng.random() < 0.6,
                              'patience': rng.choice([None, None, None, 0, 1]),
                              'style': rng.choice(['with', 'explicit', 'with', 'with-noyield', 'with-nowait'])})
                if sc['capacity'] >= 2 and rng.random() < 0.35:
                    # one process inside two request blocks at once (two slots of its own; a preemption takes one of them)
                    steps[-1].update(style='nested', prio2=rng.choice([0, 1, 2, 3, -1]), preempt2=rng.random() < 0.6,
                                     hold2=rng.choice([0, 1, 2, 4]), patience2=rng.choice([0, 1, 2]))
            sc['procs'].append(steps)
    return sc


def run_impl(sc):
    """run the scenario on the real usim.py; returns the recorder"""
    import_usim()
    import usim.py as upy
    from usim.py import events as ev_mod
    from usim.py.resources import base, container, store, resource
    from usim.py.exceptions import Interrupt
    rec = Recorder({'base': base, 'events': ev_mod})
    kind = sc['kind']
    env = upy.Environment()
    cap = sc.get('capacity')
    capf = float('inf') if cap is None else cap
    if kind == 'container':
        res = container.Container(env, capacity=capf, init=sc['init'])
    elif kind == 'store':
        res = store.Store(env, capacity=capf)
    elif kind == 'filterStore':
        res = store.FilterStore(env, capacity=capf)
    elif kind == 'priorityStore':
        res = store.PriorityStore(env, capacity=capf)
    elif kind == 'resource':
        res = resource.Resource(env, capacity=cap)
    elif kind == 'priorityResource':
        res = resource.PriorityResource(env, capacity=cap)
    else:
        res = resource.PreemptiveResource(env, capacity=cap)
    rec.install()
    rec.attach(res, kind)
    rec.failures = []

    def request_of(st):
        if kind == 'container':
            return res.put(st['amount']) if st['op'] == 'put' else res.get(st['amount'])
        if st['op'] == 'put':
            if kind == 'priorityStore' and sc.get('pitem'):
                # items wrapped in PriorityItem (ordered by their priority only; the payload repeats it)
                return res.put(store.PriorityItem(st['amount'], st['amount']))
            return res.put(item_of(st['amount']))
        if kind == 'filterStore':
            return res.get(mk_filter(st.get('filter', 'any')))
        return res.get()

    def waiting(req, patience, cancel=True):
        if patience is None:
            yield req
            return True
        yield req | env.timeout(patience)
        if not req.triggered:
            if cancel:      # (inside `with request:` the exit cancels; cancelling twice is API misuse)
                req.cancel()
            return False
        return True

    def proc(steps):
        yield env.timeout(0)    # (a process that never yields crashes usim.py: recorded under C18)
        for st in steps:
            try:
                if st['wait']:
                    yield env.timeout(st['wait'])
                if st['op'] != 'use':
                    yield from waiting(request_of(st), st['patience'])
                    continue
                mk = (lambda: res.request()) if kind == 'resource' else \
                    (lambda: resource.PriorityRequest(res, st['prio'], st['preempt']))
                if st['style'] == 'with-noyield':
                    with mk():
                        pass
                elif st['style'] == 'with-nowait':
                    with mk():
                        yield env.timeout(st['hold'])
                elif st['style'] == 'nested':
                    mk2 = (lambda: res.request()) if kind == 'resource' else \
                        (lambda: resource.PriorityRequest(res, st['prio2'], st['preempt2']))
                    with mk() as req:
                        ok = yield from waiting(req, st['patience'], cancel=False)
                        if ok:
                            with mk2() as req2:
                                ok2 = yield from waiting(req2, st['patience2'], cancel=False)
                                if ok2 and st['hold2']:
                                    yield env.timeout(st['hold2'])
                            if st['hold']:
                                yield env.timeout(st['hold'])
                elif st['style'] == 'with':
                    with mk() as req:
                        ok = yield from waiting(req, st['patience'], cancel=False)
                        if ok and st['hold']:
                            yield env.timeout(st['hold'])
                else:
                    req = mk()
                    try:
                        ok = yield from waiting(req, st['patience'])
                        if ok:
                            if st['hold']:
                                yield env.timeout(st['hold'])
                            yield res.release(req)
                    except Interrupt:
                        # a program that is interrupted gives back what it holds or asked for, as `with request:` would (an
                        # interrupt for an *earlier* eviction can arrive here: two slots of one process evicted in one time step)
                        req.__exit__(None, None, None)
                        raise
            except Interrupt:
                # preempted: leave the block (the with statement released / cancelled)
                pass

    try:
        for i, steps in enumerate(sc['procs']):
            p = env.process(proc(steps))
            rec.procs[p] = i + 1
        env.run()
    except BaseException as err:     # noqa
        rec.failures.append('%s: %s' % (type(err).__name__, err))
    finally:
        rec.uninstall()
    rec.final_now = env.now
    rec.all_done = all(not p.is_alive for p in rec.procs)
    return rec


FIELD = re.compile(r'(\w+)=(\S*)')


def parse_state(reply):
    d = dict(FIELD.findall(reply))

    def lst(s):
        s = s.strip('[]')
        return [int(x) for x in s.split(',') if x]
    return {'level': int(d['level']), 'items': lst(d['items']), 'users': lst(d['users']),
            'putQ': lst(d['putQ']), 'getQ': lst(d['getQ']), 'pending': int(d['pending']),
            'log': [g for g in d.get('log', '').split(',') if g]}


class Prefetched:
    """the requests of one scenario are known in advance as long as model and implementation agree: send them in one batch
    (one round trip instead of one per operation) and hand out the replies one by one; at the first request that was not
    foreseen (a `sync` after a disagreement) bring the model back to that point and go on request by request"""

    def __init__(self, drv, lines):
        self.drv, self.lines, self.i, self.live = drv, lines, 0, False
        self.replies = drv.ask_many(lines)

    def ask(self, line):
        if self.live:
            return self.drv.ask(line)
        if self.i < len(self.lines) and self.lines[self.i] == line:
            self.i += 1
            return self.replies[self.i - 1]
        self.drv.ask_many(self.lines[:self.i])      # (the first line re-initialises the model)
        self.live = True
        return self.drv.ask(line)


def check_scenario(res, drv, sc, rec):
    """replay the recorded operations on the Lean model, compare, judge"""
    kind = sc['kind']
    cap = sc.get('capacity')
    init_line = 'c19 init %s %s %d' % (kind, 'inf' if cap is None else cap, sc.get('init', 0))
    foreseen, now = [init_line], 0
    for op in rec.ops:
        if op['now'] != now:
            foreseen += ['c19 eager', 'c19 tick %d' % op['now']]
            now = op['now']
        foreseen.append(op['line'])
    foreseen.append('c19 eager')
    drv = Prefetched(drv, foreseen)
    drv.ask(init_line)
    case = {'scenario': sc}
    last_now = 0
    dirty = {'put': False, 'get': False}
    init = sc.get('init', 0)
    sum_put = sum_get = 0
    handed, accepted = [], []
    amounts = {}
    req_key, req_pre, req_proc = {}, {}, {}
    prev_users = []
    grant_time = {}
    nontrivial = False
    diverged = False

    def eager_check(when):
        rep = drv.ask('c19 eager').split()
        hp, hg, pend = rep[0] == '1', rep[1] == '1', int(rep[2])
        if pend and not diverged:
            res.mismatch(case, 'time step ended', 'model still has %d pending callbacks' % pend, when)
        if not hp and not dirty['put']:
            res.violation({'clause': 'eager', 'queue': 'put', 'kind': kind},
                          '%s: at the end of time step %s the head put/request is grantable but still pending'
                          % (kind, when), dict(case, at=when))
        if not hg and not dirty['get']:
            res.violation({'clause': 'eager', 'queue': 'get', 'kind': kind},
                          '%s: at the end of time step %s a pending get could be served but was not'
                          % (kind, when), dict(case, at=when))

    for i, op in enumerate(rec.ops):
        if op['now'] != last_now:
            eager_check(last_now)
            drv.ask('c19 tick %d' % op['now'])
            last_now = op['now']
        m = re.match(r'c19 (put|get) (\d+) (-?\d+)', op['line'])
        if m:
            amounts[int(m.group(2))] = int(m.group(3))
        mp = re.match(r'c19 put (\d+) -?\d+ (-?\d+) (-?\d+) (\d+) (\d+) (\d+)', op['line'])
        if mp:
            req_key[int(mp.group(1))] = (int(mp.group(2)), int(mp.group(3)), int(mp.group(4)))
            req_pre[int(mp.group(1))] = mp.group(5) == '1'
            req_proc[int(mp.group(1))] = int(mp.group(6))
        # preemption rule (statement): only a preempting request evicts, the victim is the worst current user and is
        # strictly worse than the request in (priority, time)
        cur_users = list(prev_users)
        users_before = list(prev_users)
        for (vproc, bproc, _since, _own) in op['preempted']:
            # (the evicting request is the latest request of the process named in the Preempted cause; it may have
            # been queued earlier and is served now)
            mine = [r for r, pr in req_proc.items() if pr == bproc]
            by = max(mine) if mine else None
            cands = [u for u in cur_users if req_proc.get(u) == vproc]
            if by is None or not cands:
                continue
            victim = max(cands, key=lambda u: req_key.get(u, (0, 0, 0)))
            worst = max(cur_users, key=lambda u: req_key.get(u, (0, 0, 0))[:2])
            if not req_pre.get(by, True):
                res.violation({'clause': 'preempt_rule', 'kind': kind}, '%s: the non-preempting request %d evicted a user' % (kind, by),
                              dict(case, op_index=i))
            if req_key[victim] <= req_key[by]:
                res.violation({'clause': 'preempt_rule', 'kind': kind},
                              '%s: request %d (priority, time, non-preempting) %s evicted user %d with %s, which is not worse'
                              % (kind, by, req_key[by], victim, req_key[victim]), dict(case, op_index=i))
            if req_key[victim][:2] < req_key[worst][:2]:
                res.violation({'clause': 'preempt_rule', 'kind': kind},
                              '%s: user %d %s was evicted although user %d %s is worse'
                              % (kind, victim, req_key[victim][:2], worst, req_key[worst][:2]), dict(case, op_index=i))
            cur_users = [u for u in cur_users if u != victim] + [by]
        prev_users = list(op['snap']['users'])
        reply = drv.ask(op['line'])
        meta = op['meta']
        if meta['op'] == 'cancel-put':
            dirty['put'] = True
        elif meta['op'] == 'cancel-get':
            dirty['get'] = True
        elif meta['op'] in ('put', 'cb-afterGet'):
            dirty['put'] = False
        elif meta['op'] in ('get', 'cb-afterPut'):
            dirty['get'] = False
        res.count('op:' + meta['op'])
        if reply in ('no-pending-callback', 'callback-order-differs', 'bad-op'):
            if not diverged:
                res.mismatch(case, op['line'], reply, 'operation %d' % i)
            diverged = True
            snap = op['snap']
            fmt = lambda l: '[' + ','.join(map(str, l)) + ']'  # noqa: E731
            drv.ask('c19 sync %d %s %s %s %s' % (snap['level'], fmt(snap['items']), fmt(snap['users']),
                                                 fmt(snap['putQ']), fmt(snap['getQ'])))
            continue
        model = parse_state(reply)
        snap = op['snap']
        impl_log = ['%s%d:%d' % (k, vid, (amounts.get(vid, 0) if k == 'P' or kind == 'container'
                                          else (rec_item(v) if v is not None else 0)))
                    for (k, vid, v) in op['grants']]
        model_log = [g for g in model['log'] if not g.startswith('X')]
        model_pre = [g for g in model['log'] if g.startswith('X')]
        # (a `usage_since` that is not a number is the impossible time -999999: it can never agree with the model)
        impl_pre = ['X%s:%d:%d:%d' % ('?', v, b, us if isinstance(us, (int, float)) else -999999) for (v, b, us, ok) in op['preempted']]
        # the details the victim's process is interrupted with: `usage_since` is the time at which the evicted request got its slot
        for (k, vid, v) in op['grants']:
            if k == 'P':
                grant_time[vid] = op['now']
        evicted = [u for u in users_before if u not in snap['users']]
        if meta['op'] == 'put' and len(evicted) == len(op['preempted']):
            for vid_e, (v, b, us, ok) in zip(evicted, op['preempted']):
                if vid_e in grant_time and us != grant_time[vid_e]:
                    res.violation({'clause': 'preempted_details', 'kind': kind},
                                  '%s: request %d got its slot at %s, but its process is interrupted with Preempted(usage_since=%r)'
                                  % (kind, vid_e, grant_time[vid_e], us), dict(case, op_index=i))
        same = all(snap[k] == model[k] for k in ('level', 'items', 'users', 'putQ', 'getQ')) \
            and impl_log == model_log and \
            [p.split(':', 1)[1] for p in impl_pre] == [p.split(':', 1)[1] for p in model_pre]
        if len(op['grants']) > 0 and (snap['putQ'] or snap['getQ']):
            nontrivial = True
        # ---- judge clauses evaluated on the implementation's own state/history
        for (k, vid, v) in op['grants']:
            if k == 'P':
                sum_put += amounts.get(vid, 0)
                accepted.append(amounts.get(vid, 0))
            else:
                sum_get += amounts.get(vid, 0)
                if kind != 'container' and v is not None:
                    handed.append(rec_item(v))
        if kind == 'container':
            if snap['level'] < 0 or (cap is not None and snap['level'] > cap):
                res.violation({'clause': 'container_bounds'}, 'container level %s outside [0, %s] after %s'
                              % (snap['level'], cap, op['line']), dict(case, op_index=i))
            if snap['level'] != init + sum_put - sum_get:
                res.violation({'clause': 'container_conservation'},
                              'container level %s != init %s + puts %s - gets %s after %s'
                              % (snap['level'], init, sum_put, sum_get, op['line']), dict(case, op_index=i))
        if kind == 'store' and handed + snap['items'] != accepted:
            res.violation({'clause': 'store_fifo_once'}, 'store: handed %s + stored %s != accepted %s'
                          % (handed, snap['items'], accepted), dict(case, op_index=i))
        if kind in ('filterStore', 'priorityStore') and sorted(handed + snap['items']) != sorted(accepted):
            res.violation({'clause': 'store_conservation'}, '%s: handed %s + stored %s is not a permutation of accepted %s'
                          % (kind, handed, snap['items'], accepted), dict(case, op_index=i))
        if kind in ('resource', 'priorityResource', 'preemptive') and len(snap['users']) > cap:
            res.violation({'clause': 'resource_capacity'}, '%s: %d users > capacity %d after %s'
                          % (kind, len(snap['users']), cap, op['line']), dict(case, op_index=i))
        # grant order: granted put-side requests must be a prefix of the (policy ordered) queue
        granted_puts = [vid for (k, vid, v) in op['grants'] if k == 'P']
        if granted_puts and meta.get('before') is not None:
            queue = list(meta['before']['put'])
            if meta['op'] == 'put':
                queue = [(e._vid if hasattr(e, '_vid') else e) for e in queue]
            ids_before = [q[0] if isinstance(q, tuple) else q for q in meta['before']['put']]
            if meta['op'] == 'put' and meta['id'] not in ids_before:
                ids_before = None     # position of the new request is decided by the policy; checked via the model
            if ids_before is not None and granted_puts != ids_before[:len(granted_puts)]:
                res.violation({'clause': 'grant_order', 'kind': kind},
                              '%s: granted requests %s are not the head of the queue %s'
                              % (kind, granted_puts, ids_before), dict(case, op_index=i))
        if not same:
            if not diverged:
                res.mismatch(dict(case, op_index=i, op=op['line']),
                             {**snap, 'log': impl_log, 'preempted': impl_pre},
                             {k: model[k] for k in ('level', 'items', 'users', 'putQ', 'getQ', 'log')},
                             'state after operation %d (%s)' % (i, meta['op']))
            diverged = True
            fmt = lambda l: '[' + ','.join(map(str, l)) + ']'  # noqa: E731
            drv.ask('c19 sync %d %s %s %s %s' % (snap['level'], fmt(snap['items']), fmt(snap['users']),
                                                 fmt(snap['putQ']), fmt(snap['getQ'])))
    eager_check(last_now)
    final = rec.snapshot()
    if rec.all_done and kind in ('resource', 'priorityResource', 'preemptive') and final['users']:
        res.violation({'clause': 'release_exact', 'kind': kind},
                      '%s: every process has left its request block but requests %s still occupy the resource'
                      % (kind, final['users']), case)
    if rec.failures:
        res.violation({'clause': 'run_failed', 'kind': kind}, 'simulation ended with ' + rec.failures[0], case)
    if nontrivial:
        res.nontrivial_case(sc)


def rec_item(v):
    return v.priority if hasattr(v, 'priority') else v


def run(tier, seed, drv):
    res = Result(PID)
    res.rule = ('seeded random scenarios: one resource of a random type/capacity, 2-6 processes each doing 1-3 '
                'timed put/get/request(+hold, release)/cancel-after-patience steps on a coarse time grid; every '
                'operation entering the resource is replayed on the Lean machine and the states compared; '
                'non-trivial = some grant happened while another request was queued; distinct = distinct scenario')
    n = 400 if tier == 'quick' else 12000
    rng = rng_for(seed, 'c19')
    for i in range(n):
        sc = gen_scenario(rng, KINDS[i % len(KINDS)])
        try:
            rec = run_impl(sc)
        except Exception as e:    # noqa
            # (e.g. a constructor that refuses valid arguments: a finding about the implementation)
            res.evaluations += 1
            res.violation({'clause': 'scenario-setup-failed', 'kind': sc['kind']},
                          '%s: the implementation failed outside of the simulation: %s: %s' % (sc['kind'], type(e).__name__, str(e)[:200]),
                          {'scenario': sc})
            continue
        res.evaluations += 1
        res.model_compared += 1
        res.count('kind:' + sc['kind'])
        check_scenario(res, drv, sc, rec)
        if i % 57 == 0:
            res.sample({'scenario': sc, 'operations': [o['line'] for o in rec.ops][:12]})
    return res


def replay(data, drv):
    res = Result(PID)
    sc = data.get('scenario') or data.get('case', {}).get('scenario')
    rec = run_impl(sc)
    check_scenario(res, drv, sc, rec)
    return res
