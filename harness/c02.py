"""C02 - the trace is a function of the program alone: the same scenarios are run in-process and in
fresh processes with a different hash seed, perturbed heap, the SD wait-queue backend and `-O`; all
traces must be identical (and identical to the model's single trace)."""
import json
import os
import re
import subprocess

import dsl
import gen
import msuite
from common import rng_for, PYTHON, VERIF, REPO

PID = 'C02'
TAGS = ['spawn', 'cancel', 'cleanup', 'abegin', 'awaited', 'got', 'lenter', 'levels', 'lvorder', 'benter', 'tick', 'caught', 'taskret', 'tfin', 'sexit', 'now']
RULE = ('random whole-API programs (timers, flags, tracked values, locks, queues, channels, resources, scopes, cancels; plus '
        'many waiters on one tracked value / resource, several equal-date conditions armed through one connective and watched separately, '
        '6-12 distinct dates pending at once and requested in arbitrary order, a float-time profile with non-dyadic dates, pipe transfers, throw-away supplies whose names are spelled in different orders, suspended tasks cancelled at a date at which several delays end, children started now in the spellings do(x) / do(x, after=0) / do(x, at=now), scopes torn down while 3-6 children wait for ever inside try/finally holding resources) run in-process and in 4 (quick) / 8 (thorough) other configurations '
        '{PYTHONHASHSEED, junk allocations, USIM_WAITQUEUE=SD, python -O}; every configuration must give the same trace as the '
        'in-process run, which must equal the model trace; non-trivial = at least 4 events from at least 2 activities')

PROFILE = {"locks": 1, "queues": 1, "chans": 1, "tracked": [0, 3], "resources": [[False, [6, 4]]], "tracked_atoms": 0.3,
           "res_atoms": 0.1, "depth": 3,
           "weights": {"log": 3, "sleep": 3, "await": 2.5, "set": 1, "scope": 2, "spawn": 1.5, "cancel": 1, "awaittask": 0.5,
                       "status": 0.3, "raise": 0.3, "try": 0.5, "lock": 0.7, "qput": 1, "qget": 1, "cput": 0.7, "citer": 0.5,
                       "settracked": 2.5, "borrow": 1.5, "reschange": 1, "levels": 0.8, "interval": 0.5, "collect": 0.4}}


def tracked_family(rng):
    """many waiters on comparisons of one tracked value / on one resource, woken by a single change"""
    n = rng.randint(3, 8)
    roots = []
    for i in range(n):
        op = rng.choice([4, 4, 5, 3])
        roots.append(['prog', ['await', ['tracked', 0, op, rng.randint(1, 4)]], ['log', 100 + i]])
    for i in range(rng.randint(0, 3)):
        roots.append(['prog', ['borrow', 0, [rng.randint(3, 6), 0], 10 + i, ['log', 200 + i], ['sleep', 1]]])
    roots.append(['prog', ['borrow', 0, [6, 0], 9, ['sleep', 1], ['settracked', 0, 5]], ['log', 300]])
    rng.shuffle(roots)
    return ['scenario', ['debug', 1], ['start', 0], ['flags', 1], ['locks', 0], ['tracked', 0], ['resources', ['res', 0, 6, 4]],
            ['roots'] + roots]


def pool_family(rng):
    """supplies with the same resource names spelled in different orders, created and dropped one after the other (a weak
    cache of specialised level classes must not make the result depend on which spelling came first or on when the garbage
    collector ran), between ordinary borrowing"""
    roots = []
    for i in range(rng.randint(1, 3)):
        prog = []
        for _ in range(rng.randint(1, 4)):
            k = rng.randint(2, 4)
            prog.append(['respool'] + rng.sample(range(k), k))
            if rng.random() < 0.5:
                prog.append(['sleep', rng.choice([0, 1])])
            if rng.random() < 0.4:
                prog.append(['borrow', 0, [rng.randint(0, 2), rng.randint(0, 2)], 10 + i, ['levels', 0]])
        roots.append(['prog'] + prog)
    return ['scenario', ['debug', 1], ['start', 0], ['flags', 1], ['locks', 0], ['resources', ['res', 0, 6, 4]], ['roots'] + roots]


def connective_family(rng):
    """several distinct condition objects with one date, first armed through one `&` / `|` chain and watched by
    one activity each: the order in which the connective subscribes to its operands decides the wake-up order"""
    n = rng.randint(4, 9)
    date = rng.choice([5, 10])
    kind = rng.choice(['all', 'any'])
    gates = [['defcond', i, ['after', date]] for i in range(n)]
    roots = [['prog'] + gates + [['await', [kind] + [['ref', i] for i in range(n)]], ['log', 99]]]
    order = list(range(n))
    rng.shuffle(order)
    for i in order:
        roots.append(['prog', ['sleep', 1], ['await', ['ref', i]], ['log', 100 + i]])
    return ['scenario', ['debug', 1], ['start', 0], ['flags', 1], ['locks', 0], ['roots'] + roots]


CONFIGS = [
    ('hashseed-0', {'PYTHONHASHSEED': '0'}, []),
    ('hashseed-random+junk', {'PYTHONHASHSEED': 'random', 'VERIF_JUNK': '77777'}, []),
    ('waitqueue-SD', {'USIM_WAITQUEUE': 'SD', 'VERIF_JUNK': '1000'}, []),
    ('python-O', {'PYTHONHASHSEED': '1'}, ['-O']),
    ('hashseed-2+junk', {'PYTHONHASHSEED': '2', 'VERIF_JUNK': '31337'}, []),
    ('SD-and-O', {'USIM_WAITQUEUE': 'SD'}, ['-O']),
    ('hashseed-random-b', {'PYTHONHASHSEED': 'random', 'VERIF_JUNK': '5'}, []),
    ('junk-large', {'VERIF_JUNK': '250000'}, []),
]


#: an AssertionError (code 9) reached a task, a handler or a clean-up block: the program violated a usage assertion
ASSERTION_SEEN = re.compile(r':(tfin:3,|caught:|cleanup:1,)([0-9-]+,)*9(,|;|$)')


def cancel_vs_timers(rng):
    """FIFO between activities whose delay ends at t (queued for t before t began, in the order of their requests) and tasks
    that are made runnable *during* t by `cancel()`: a controller (first of its date) cancels suspended victims, workers
    wake at the same date; the victims log the delivery (handler for CancelTask, clean-up, or nothing)"""
    from fractions import Fraction as F
    t = rng.choice([1, 2, F(5, 2), 5])
    body = []
    k = 0
    nvict = rng.randint(1, 3)
    for v in range(nvict):
        wait = rng.choice([['sleep', 50], ['await', ['flag', 0]], ['sleep', t + 1]])
        r = rng.random()
        if r < 0.4:
            vp = [['try', ['body', wait], ['handler', ['pats', 'cancelTask'], ['body', ['log', 60 + v]]]], ['log', 70 + v]]
        elif r < 0.7:
            vp = [['finally', ['body', wait], ['cleanup', ['log', 80 + v]]]]
        else:
            vp = [wait, ['log', 90 + v]]
        body.append(['spawn', 0, v, None, None, False, ['prog'] + vp])
    members = [['prog', ['sleep', t]] + [['cancel', v, 3 + v] for v in range(nvict)] + [['log', 10]]]
    for i in range(rng.randint(2, 5)):
        members.append(['prog', ['sleep', t], ['log', 20 + i]] + ([['sleep', 1], ['log', 30 + i]] if rng.random() < 0.5 else []))
    if rng.random() < 0.5:
        rng.shuffle(members)
    for i, m in enumerate(members):
        body.append(['spawn', 0, nvict + i, None, None, False, m])
    main = ['prog', ['try', ['body', ['scope', 0, ['none']] + body], ['handler', ['pats', 'concurrent', 'anyException'], ['body', ['log', 99]]]]]
    return ['scenario', ['debug', 1], ['start', 0], ['flags', 1], ['locks', 0], ['roots', main]]


def closed_services(rng):
    """3-6 children of an until-scope (or of a scope whose body fails) that wait for something that never comes - a flag nobody
    sets, a very long delay - inside `try/finally` and while they hold resources; when the scope is torn down every one of
    them must be closed *there*: a child that is only torn down when the garbage collector finds it logs its clean-up and
    gives its resources back at a moment that depends on unrelated allocations"""
    from fractions import Fraction as F
    n = rng.randint(3, 6)
    body = []
    for i in range(n):
        wait = rng.choice([['await', ['flag', 0]], ['sleep', 500], ['await', ['flag', 0]]])
        inner = [['finally', ['body', wait], ['cleanup', ['log', 60 + i]]]]
        if rng.random() < 0.6:
            inner = [['borrow', 0, [1, 0], 10 + i] + inner]
        body.append(['spawn', 0, i, None, None, False, ['prog', ['log', 50 + i]] + inner])
    t = rng.choice([1, 2, 5])
    if rng.random() < 0.6:
        scope = ['scope', 0, ['cond', ['moment', t]]] + body + [['sleep', 100]]
    else:
        scope = ['scope', 0, ['none']] + body + [['sleep', t], ['raise', 0]]
    after = [['levels', 0], ['borrow', 0, [rng.randint(3, 6), 0], 30, ['log', 70]], ['levels', 0]]
    for k in range(rng.randint(2, 5)):
        after += [['sleep', rng.choice([1, 3, 10])], ['log', 80 + k], ['levels', 0]]
    main = ['prog', ['try', ['body', scope], ['handler', ['pats', 'concurrent', 'anyException'], ['body', ['log', 99]]]]] + after
    ticker = ['prog'] + [x for k in range(rng.randint(3, 8)) for x in (['sleep', 2], ['log', 40])]
    return ['scenario', ['debug', 1], ['start', 0], ['flags', 1], ['locks', 0], ['resources', ['res', 0, 6, 4]], ['roots', main, ticker]]


def spawn_spellings(rng):
    """children started "now" in the three spellings `do(x)`, `do(x, after=0)`, `do(x, at=now)`, mixed with delayed ones and with
    activities that are made runnable later in the same turn (a flag is set, the starter postpones): they run in the order
    in which they were started"""
    from fractions import Fraction as F
    t0 = rng.choice([0, 1, F(3, 2)])
    body = []
    n = rng.randint(3, 6)
    for i in range(n):
        k = rng.random()
        after, at = None, None
        if k < 0.3:
            after = 0
        elif k < 0.55:
            at = t0
        elif k < 0.65:
            after = rng.choice([F(1, 2), 1])
        # (convention of the judge: `log 700+i` is the very first thing the child does)
        body.append(['spawn', 0, i, after, at, False, ['prog', ['log', 700 + i], ['sleep', rng.choice([0, 1])], ['log', 20 + i]]])
        if rng.random() < 0.2:
            body.append(['set', 0, True])
    waiter = ['prog', ['await', ['flag', 0]], ['log', 40]]
    main = ['prog', ['sleep', t0], ['scope', 0, ['none']] + body + [['set', 0, True], ['sleep', 0], ['log', 30]]]
    return ['scenario', ['debug', 1], ['start', 0], ['flags', 1], ['locks', 0], ['roots', waiter, main]]


def run_config(name, env_extra, pyflags, scenarios):
    env = dict(os.environ, PYTHONPATH=REPO, USIM_VERIF_REPO=REPO)
    env.pop('USIM_WAITQUEUE', None)
    env.update(env_extra)
    payload = '\n'.join(json.dumps({'kind': k, 'scenario': sc}, default=str) for k, sc in scenarios) + '\n'
    p = subprocess.run([PYTHON] + pyflags + [os.path.join(VERIF, 'harness', 'worker.py')], input=payload, env=env,
                       stdout=subprocess.PIPE, stderr=subprocess.DEVNULL, text=True, timeout=1800)
    return p.stdout.strip('\n').split('\n') if p.stdout.strip() else []


def nontrivial(impl):
    return len(impl['events']) >= 4 and len({e.split(':')[2] for e in impl['events']}) >= 2


def run(tier, seed, drv, scenarios=None):
    st = msuite.Suite(PID, drv, 'C02', TAGS)
    st.res.rule = RULE
    fl = msuite.Suite(PID, drv, 'C01f', TAGS, kind='float')
    fl.res = st.res
    fl.tag_counts = st.tag_counts
    import c01
    import c13
    n = 80 if tier == 'quick' else 1500
    batch = []
    if scenarios is None:
        scenarios = []
        for i in range(n):
            rng = rng_for(seed, PID, i)
            if i % 8 == 0:
                scenarios.append(('rat', connective_family(rng)))
            elif i % 32 == 3:
                scenarios.append(('rat', pool_family(rng)))
            elif i % 32 == 11:
                scenarios.append(('rat', cancel_vs_timers(rng)))
            elif i % 32 == 19:
                scenarios.append(('rat', closed_services(rng)))
            elif i % 32 == 27:
                scenarios.append(('rat', spawn_spellings(rng)))
            elif i % 8 == 5:
                # pipes (float time): transfers that overlap, are abandoned by deadlines / cancels and follow each other
                scenarios.append(('float', c13.family(rng)))
            elif i % 8 == 1:
                # 6-12 distinct dates pending at once, requested in arbitrary order (the backends order them differently inside)
                scenarios.append(('rat', c01.crowd_scenario(rng)))
            elif i % 4 == 0:
                scenarios.append(('rat', tracked_family(rng)))
            elif i % 4 == 3:
                scenarios.append(('float', c01.float_scenario(rng)))
            else:
                scenarios.append(('rat', gen.gen_scenario(rng, PROFILE)))
    for kind, sc in scenarios:
        impl = (fl if kind == 'float' else st).check(sc, nontrivial=nontrivial)
        batch.append((kind, sc, msuite.obs_line(impl)))
    configs = CONFIGS[:4] if tier == 'quick' else CONFIGS
    for name, env_extra, pyflags in configs:
        lines = run_config(name, env_extra, pyflags, [(k, sc) for k, sc, _ in batch])
        st.res.count('config:' + name, len(lines))
        if len(lines) != len(batch):
            st.res.mismatch({'config': name}, '%d traces' % len(lines), '%d scenarios' % len(batch),
                            'worker process in configuration %s did not return every trace' % name)
            continue
        for (kind, sc, ref), line in zip(batch, lines):
            st.res.evaluations += 1
            # assertion mode: programs that violate a usage assertion are excluded by the statement
            if '-O' in pyflags and ('crash 9' in ref or 'crash 9' in line or ',9' in ref.split('|')[1]
                                    or ASSERTION_SEEN.search(ref.split('|')[0]) or ASSERTION_SEEN.search(line.split('|')[0])):
                continue
            if line != ref:
                ev_a, ev_b = ref.split('|')[0].split(';'), line.split('|')[0].split(';')
                k = next((i for i, (a, b) in enumerate(zip(ev_a, ev_b)) if a != b), min(len(ev_a), len(ev_b)))
                st.res.violation({'clause': 'configuration-independence', 'config': name.split('-')[0]},
                                 'the same program gives a different trace in configuration %s: event %d is %s in-process but %s there'
                                 % (name, k, ev_a[k:k + 1], ev_b[k:k + 1]),
                                 {'scenario': sc, 'kind': kind, 'config': name, 'env': env_extra, 'pyflags': pyflags})
    return st.finish()


def replay(data, drv):
    sc = msuite.fix_fractions(data.get('scenario') or data['case']['scenario'])
    return run('thorough', 0, drv, scenarios=[(data.get('kind', 'rat'), sc)])
