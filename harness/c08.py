"""C08 - whole-machine suite over scope trees and random valid programs (see scopesuite.py)."""
import msuite
import scopesuite

PID = 'C08'
TAGS = ['awaited', 'stuck', 'alg', 'setflag']
RULE = ('(a) scope trees: nested (until-)scopes (depth <= 3, <= 3 children each, volatile or delayed), bodies and children that '
        'sleep/raise (regular and privileged types)/return, cancels from inside and from a separate activity after t time units '
        'and k postponements, deadlines and flags on a coarse time grid, everything wrapped in handlers that log what they catch; '
        '(b) random valid whole-API programs (no usage errors); (c) condition expression trees (depth <= 3) over flags / tracked values / task completion / time atoms awaited by 1-4 waiters while other activities change the values (also reverting within a step), flat connectives whose operands flicker over several time steps before all of them hold, conditions derived step by step with the operators `&` / `|` and kept in variables, plus `bool()` probes of derived conditions, time conditions around date 0 on a clock that starts below zero; non-trivial = a connective or inverted condition was awaited or probed')


import gen
from fractions import Fraction as F


def cond_family(rng):
    """1-4 waiters on condition trees; other activities change flags / tracked values / finish tasks"""
    p = {'flags': 3, 'tracked': [0, 2], 'tracked_atoms': 0.3, 'connective': 0.6, 'nest': 0.0, 'cdepth': 2,
         'known_regions': False, 'weights': dict(gen.DEFAULT_WEIGHTS)}
    cx = gen.Ctx(rng, p)
    roots = []
    # a scope with a task so that `done` atoms exist
    tasks = [0]
    roots.append(['prog', ['scope', 0, ['none'], ['spawn', 0, 0, None, None, False, ['prog', ['sleep', rng.choice([F(1, 2), 1, 2])]]],
                            ['sleep', 3]]])
    cx.task_names = 1
    for i in range(rng.randint(1, 4)):
        c = gen.gen_cexpr(cx, 2, tasks)
        if gen.has_nested_connective(c):
            c = ['flag', rng.randrange(3)]
        prog = [['sleep', rng.choice([0, 0, F(1, 2)])], ['logcond', c], ['await', c], ['log', 100 + i]]
        if rng.random() < 0.4:
            c2 = gen.gen_cexpr(cx, 1, tasks)
            if not gen.has_nested_connective(c2):
                prog += [['logcond', ['inv', c2]] if c2[0] != 'moment' else ['log', 0], ['await', c2], ['log', 150 + i]]
        roots.append(['prog'] + prog)
    for _ in range(rng.randint(1, 3)):
        prog = []
        for _ in range(rng.randint(2, 6)):
            r = rng.random()
            if r < 0.35:
                prog.append(['sleep', rng.choice([0, 0, F(1, 2), 1])])
            elif r < 0.75:
                prog.append(['set', rng.randrange(3), rng.random() < 0.65])
            else:
                prog.append([rng.choice(['settracked', 'addtracked']), rng.randrange(2), rng.randint(-1, 5)])
        roots.append(['prog'] + prog)
    return ['scenario', ['debug', 1], ['start', rng.choice([0, 0, 1])], ['flags', 3], ['locks', 0], ['tracked', 0, 2],
            ['roots'] + roots]


def revert_family(rng):
    """a condition that holds when awaited and is reverted in the same time step before the waiter's
    turn; comparisons of two tracked values where only the right-hand side changes"""
    roots = []
    t = rng.choice([0, F(1, 2), 1])
    k = rng.random()
    if k < 0.5:
        roots.append(['prog', ['sleep', t], ['set', 0, True]] + [['sleep', 0]] * rng.randint(0, 2))
        for i in range(rng.randint(1, 3)):
            c = rng.choice([['flag', 0], ['any', ['flag', 0], ['flag', 1]], ['inv', ['inv', ['flag', 0]]]])
            roots.append(['prog', ['sleep', t]] + [['sleep', 0]] * rng.randint(0, 3) + [['await', c], ['log', 100 + i]])
        roots.append(['prog', ['sleep', t]] + [['sleep', 0]] * rng.randint(0, 4) + [['set', 0, False], ['sleep', 2], ['set', 0, True]])
    else:
        op = rng.choice([4, 5, 1, 0, 2])
        for i in range(rng.randint(1, 3)):
            roots.append(['prog', ['await', ['tracked2', 0, op, 1]], ['log', 100 + i]])
        changes = [['sleep', 1], [rng.choice(['settracked', 'addtracked']), 1, rng.randint(-6, 6)], ['sleep', 1],
                   ['settracked', 1, rng.randint(-6, 6)]]
        if rng.random() < 0.4:      # (otherwise only the right-hand operand ever changes)
            changes += [['sleep', 1], ['settracked', 0, rng.randint(-6, 6)]]
        roots.append(['prog'] + changes)
    rng.shuffle(roots)
    return ['scenario', ['debug', 1], ['start', 0], ['flags', 2], ['locks', 0], ['tracked', 3, 5], ['roots'] + roots]


def negative_clock(rng):
    """time conditions around date 0 on a clock that starts below zero (`run(..., start=-5)`): `time >= 0`, `time == 0`, alone
    and in flat connectives with flags that are set before / at / after that date"""
    start = rng.choice([-5, -3, F(-5, 2), -1])
    roots = []
    for i in range(rng.randint(1, 4)):
        d = rng.choice([0, 0, 0, 1, -1, F(-1, 2)])
        atom = [rng.choice(['after', 'after', 'moment']), d]
        k = rng.random()
        if k < 0.4:
            c = atom
        elif k < 0.8:
            c = [rng.choice(['all', 'any']), atom, ['flag', rng.randrange(2)]]
        else:
            c = [rng.choice(['all', 'any']), ['flag', rng.randrange(2)], atom]
        roots.append(['prog'] + [['sleep', rng.choice([0, 0, 1])]] + [['logcond', c], ['await', c], ['log', 100 + i]])
    for f in range(2):
        if rng.random() < 0.8:
            roots.append(['prog', ['sleep', rng.choice([0, 1, 2, 3, 5, 7])], ['set', f, True]])
    rng.shuffle(roots)
    return ['scenario', ['debug', 1], ['start', start], ['flags', 2], ['locks', 0], ['roots'] + roots]


def flicker_family(rng):
    """flat connectives over flags whose operands go back and forth several times, each change in a time step of its own:
    operands that hold when the wait starts and revert later, operands that become true one after the other, and a
    last step that makes every operand true (so a waiter that was lost is seen waiting although its condition holds)"""
    n = 3
    init = [rng.random() < 0.5 for _ in range(n)]
    lits = []
    for i in range(n):
        lits.append(['flag', i] if rng.random() < 0.75 else ['inv', ['flag', i]])

    def cond():
        k = rng.randint(2, 3)
        ops = rng.sample(lits, k)
        form = rng.random()
        if form < 0.6:
            return ['all'] + ops
        if form < 0.8:
            # De Morgan: ~(~a | ~b)
            return ['inv', ['any'] + [['inv', o] for o in ops]]
        return ['any'] + ops
    roots = [['prog'] + [['set', i, True] for i in range(n) if init[i]]]
    for i in range(rng.randint(1, 3)):
        roots.append(['prog', ['sleep', rng.choice([F(1, 2), F(1, 2), F(3, 2), F(5, 2)])], ['await', cond()], ['log', 100 + i]])
    walk = [['sleep', 1]]
    for _ in range(rng.randint(4, 9)):
        walk.append(['set', rng.randrange(n), rng.random() < 0.5])
        walk.append(['sleep', rng.choice([1, 1, 0])])
    # finally every literal holds
    for i in range(n):
        walk.append(['set', i, lits[i][0] == 'flag'])
        walk.append(['sleep', rng.choice([1, 0])])
    roots.append(['prog'] + walk)
    return ['scenario', ['debug', 1], ['start', 0], ['flags', n], ['locks', 0], ['roots'] + roots]


def operator_family(rng):
    """conditions derived with the operators `&` / `|` step by step and kept in variables: `both = a & b`, later
    `everything = both & c` (the operators spread an `All` / `Any` operand into a new flat object and must leave `both`
    as it is).  Both objects are probed and awaited while the flags go back and forth; finally every flag is set"""
    n = 3
    op = rng.choice(['and', 'and', 'or'])
    order = rng.sample(range(n), n)
    atoms = [['flag', i] for i in order]
    if rng.random() < 0.3:
        atoms[rng.randrange(n)] = ['tracked', 0, 4, 2]
    first = [op, atoms[0], atoms[1]]
    second = [op, ['ref', 0], atoms[2]] if rng.random() < 0.7 else [op, atoms[2], ['ref', 0]]
    setup = ['prog', ['defcond', 0, first]]
    if rng.random() < 0.5:
        setup += [['sleep', rng.choice([0, F(1, 2)])]]
    setup += [['defcond', 1, second], ['logcond', ['ref', 0]], ['logcond', ['ref', 1]]]
    roots = [setup]
    for i in range(rng.randint(1, 3)):
        which = rng.choice([0, 0, 1])
        roots.append(['prog', ['sleep', rng.choice([F(1, 4), F(3, 4), F(3, 2)])], ['logcond', ['ref', which]], ['await', ['ref', which]], ['log', 100 + i],
                      ['logcond', ['ref', 0]], ['logcond', ['ref', 1]]])
    walk = [['sleep', 1]]
    for _ in range(rng.randint(3, 7)):
        if rng.random() < 0.8:
            walk.append(['set', rng.randrange(n), rng.random() < 0.5])
        else:
            walk.append(['settracked', 0, rng.choice([0, 1, 2, 3])])
        walk.append(['sleep', rng.choice([1, 1, 0])])
        if rng.random() < 0.4:
            walk += [['logcond', ['ref', 0]], ['logcond', ['ref', 1]]]
    for i in range(n):
        walk += [['set', i, True], ['sleep', rng.choice([1, 0])]]
    walk += [['settracked', 0, 3], ['sleep', 1], ['logcond', ['ref', 0]], ['logcond', ['ref', 1]]]
    roots.append(['prog'] + walk)
    return ['scenario', ['debug', 1], ['start', 0], ['flags', n], ['locks', 0], ['tracked', 0], ['roots'] + roots]


def mixed_operator_family(rng):
    """`(a & b) & (c | d)`, `(c | d) | (a & b)`, `a | b | c & d`: an operand that is a connective of the *other* kind is one
    operand, it is not spread.  The nested objects are only probed for their truth value while the flags walk (awaiting a
    nested connective is known finding F8); the flat parts are awaited"""
    conj = ['and', ['flag', 0], ['flag', 1]]
    disj = ['or', ['flag', 2], ['flag', 3]]
    how = rng.randrange(4)
    if how == 0:
        top = ['and', ['ref', 0], ['ref', 1]]            # All.__and__(Any)
    elif how == 1:
        top = ['or', ['ref', 1], ['ref', 0]]             # Any.__or__(All)
    elif how == 2:
        top = ['and', ['ref', 0], ['or', ['flag', 2], ['flag', 3]]]
    else:
        top = ['or', ['or', ['flag', 2], ['flag', 3]], ['and', ['flag', 0], ['flag', 1]]]   # a | b | c & d
    setup = ['prog', ['defcond', 0, conj], ['defcond', 1, disj], ['defcond', 2, top],
             ['logcond', ['ref', 0]], ['logcond', ['ref', 1]], ['logcond', ['ref', 2]]]
    roots = [setup]
    for i in range(rng.randint(0, 2)):
        which = rng.choice([0, 1])
        roots.append(['prog', ['sleep', rng.choice([F(1, 4), F(3, 4), F(3, 2)])], ['await', ['ref', which]], ['log', 100 + i], ['logcond', ['ref', 2]]])
    walk = [['sleep', 1]]
    for _ in range(rng.randint(4, 9)):
        walk.append(['set', rng.randrange(4), rng.random() < 0.55])
        walk.append(['sleep', rng.choice([1, 1, 0])])
        walk += [['logcond', ['ref', 2]]]
    for i in range(4):
        walk += [['set', i, True], ['sleep', 1], ['logcond', ['ref', 2]]]
    roots.append(['prog'] + walk)
    return ['scenario', ['debug', 1], ['start', 0], ['flags', 4], ['locks', 0], ['tracked', 0], ['roots'] + roots]


#: known finding F8: a connective nested in a connective loses wake-ups
F8_PROBE = ['scenario', ['debug', 1], ['start', 0], ['flags', 3], ['locks', 0],
            ['roots', ['prog', ['await', ['all', ['any', ['flag', 0], ['flag', 1]], ['flag', 2]]], ['log', 1]],
                      ['prog', ['set', 2, True], ['sleep', 1], ['set', 0, True]]]]
#: known finding F13: `~` of a multi-component resource-level comparison is not its negation
F13_PROBE = ['scenario', ['debug', 1], ['start', 0], ['flags', 1], ['locks', 0], ['resources', ['res', 0, 1, 5]],
             ['roots', ['prog', ['logcond', ['inv', ['reslevel', 0, 4, [2, 2]]]]]]]


def nontrivial(impl):
    return sum(1 for e in impl['events'] if ':awaited:' in e or ':alg:' in e) >= 2


SOURCES = [scopesuite.scope_tree, scopesuite.valid_scenario, cond_family, revert_family, flicker_family, operator_family, negative_clock,
           mixed_operator_family]


def run(tier, seed, drv):
    return msuite.standard_run(PID, 'C08', TAGS, tier, seed, drv, SOURCES, nontrivial=nontrivial, rule=RULE,
                               n_quick=200, n_thorough=6000, probes=[('F8', F8_PROBE), ('F13', F13_PROBE)], optimized=100 if tier == 'quick' else 1000)


def replay(data, drv):
    return msuite.standard_replay(PID, 'C08', TAGS, data, drv)
