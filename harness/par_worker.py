"""Worker of the thorough tier: run one harness with one seed in its own process (own Lean driver) and
pickle the result.  usage: par_worker.py <harness module> <tier> <seed> <out file>"""
import importlib
import os
import pickle
import sys

sys.path.insert(0, os.path.dirname(os.path.abspath(__file__)))
import common  # noqa: E402


def main():
    mod, tier, seed, out = sys.argv[1], sys.argv[2], int(sys.argv[3]), sys.argv[4]
    harness = importlib.import_module(mod)
    drv = common.Driver()
    try:
        res = harness.run(tier, seed, drv)
    finally:
        drv.close()
    with open(out, 'wb') as f:
        pickle.dump(res, f)


if __name__ == '__main__':
    main()
