"""Seeded, type-directed generators of scenarios for the whole-machine suites."""
from fractions import Fraction as F

GRID = [0, F(1, 2), 1, 1, 2, 3]
DATES = [0, F(1, 2), 1, 2, 3, 4, 5]


class Ctx:
    def __init__(self, rng, profile):
        self.rng = rng
        self.p = profile
        self.scope_names = 0
        self.task_names = 0
        self.log_id = 0

    def new_scope(self):
        self.scope_names += 1
        return self.scope_names - 1

    def new_task(self):
        self.task_names += 1
        return self.task_names - 1

    def log(self):
        self.log_id += 1
        return ['log', self.log_id]


def gen_cexpr(cx, depth, tasks, allow_time=True):
    rng = cx.rng
    atoms = ['flag', 'flag', 'flag', 'invflag']
    if allow_time:
        atoms += ['after', 'before', 'moment', 'after']
    if tasks:
        atoms += ['done', 'notdone']
    if cx.p.get('rare_atoms', True):
        atoms += ['eternity', 'instant']
    if depth > 0 and rng.random() < cx.p.get('connective', 0.35):
        k = rng.choice(['all', 'any'])
        n = rng.randint(2, 3)
        sub = [gen_cexpr(cx, depth - 1 if rng.random() < cx.p.get('nest', 0.3) else 0, tasks, allow_time)
               for _ in range(n)]
        e = [k] + sub
        if rng.random() < 0.15:
            e = ['inv', e]
        return e
    a = rng.choice(atoms)
    nf = cx.p['flags']
    if a == 'flag':
        return ['flag', rng.randrange(nf)]
    if a == 'invflag':
        return ['inv', ['flag', rng.randrange(nf)]]
    if a == 'after':
        return ['after', rng.choice(DATES)]
    if a == 'before':
        return ['before', rng.choice(DATES)]
    if a == 'moment':
        return ['moment', rng.choice(DATES)]
    if a == 'done':
        return ['done', rng.choice(tasks)]
    if a == 'notdone':
        return ['inv', ['done', rng.choice(tasks)]]
    return [a]


def has_nested_connective(c, inside=False):
    if not isinstance(c, list):
        return False
    if c[0] in ('all', 'any'):
        if inside:
            return True
        return any(has_nested_connective(x, True) for x in c[1:])
    if c[0] == 'inv':
        return has_nested_connective(c[1], inside)
    return False


def is_connective(c):
    return isinstance(c, list) and (c[0] in ('all', 'any') or (c[0] == 'inv' and is_connective(c[1])))


def gen_block(cx, depth, scopes, tasks, n=None, top=False):
    """scopes: names of scopes that are (probably) open; tasks: names of tasks spawned so far"""
    rng = cx.rng
    p = cx.p
    out = []
    n = n if n is not None else rng.randint(1, p.get('block', 4))
    tasks = list(tasks)
    for _ in range(n):
        r = rng.random()
        w = p['weights']
        kinds = list(w)
        k = rng.choices(kinds, [w[x] for x in kinds])[0]
        if k == 'log':
            out.append(cx.log())
        elif k == 'sleep':
            out.append(['sleep', rng.choice(GRID)])
        elif k == 'await':
            c = gen_cexpr(cx, p.get('cdepth', 2), tasks)
            if not p.get('known_regions', False):
                # steer away from the known findings F8/F10 (nested connectives lose wake-ups)
                if has_nested_connective(c):
                    c = ['flag', rng.randrange(p['flags'])]
            out.append(['await', c])
        elif k == 'set':
            out.append(['set', rng.randrange(p['flags']), rng.random() < 0.7])
        elif k == 'scope' and depth > 0:
            name = cx.new_scope()
            kind = rng.random()
            if kind < p.get('until', 0.4):
                if rng.random() < 0.4:
                    d = rng.choice(GRID)
                    un = ['delay', d]
                else:
                    c = gen_cexpr(cx, 1, tasks)
                    if is_connective(c) and not p.get('known_regions', False):
                        c = ['flag', rng.randrange(p['flags'])]     # F10: until(connective) never fires
                    un = ['cond', c]
            else:
                un = ['none']
            body, inner_tasks = gen_scope_body(cx, depth - 1, scopes + [name], tasks, name)
            out.append(['scope', name, un] + body)
            tasks = inner_tasks
        elif k == 'spawn' and scopes:
            out.append(gen_spawn(cx, depth, scopes, tasks, rng.choice(scopes)))
            tasks.append(out[-1][2])
        elif k == 'cancel' and tasks:
            out.append(['cancel', rng.choice(tasks), rng.randint(1, 9)])
        elif k == 'awaittask' and tasks:
            out.append(['awaittask', rng.choice(tasks)])
        elif k == 'awaitscope' and cx.scope_names:
            out.append(['awaitscope', rng.randrange(cx.scope_names)])
        elif k == 'status' and tasks:
            out.append(['status', rng.choice(tasks)])
        elif k == 'raise':
            out.append(['raise', rng.choice(p.get('classes', [0, 1, 2, 3, 4]))])
            break
        elif k == 'try' and depth > 0:
            body = gen_block(cx, depth - 1, scopes, tasks)
            pats = rng.choice([[['user', 0]], [['user', 3]], ['concurrent'], ['taskCancelled'], ['anyException'],
                               ['concurrent', ['user', 0]], ['scopeClosed'], [['user', 2], ['user', 4]],
                               ['concurrent', 'taskCancelled', 'anyException']])
            hbody = [cx.log()] + (gen_block(cx, 0, scopes, tasks, 1) if rng.random() < 0.3 else [])
            out.append(['try', ['body'] + body, ['handler', ['pats'] + pats, ['body'] + hbody]])
        elif k == 'lock' and depth > 0 and p.get('locks', 0):
            out.append(['lock', rng.randrange(p['locks'])] + gen_block(cx, depth - 1, scopes, tasks))
        elif k == 'avail' and p.get('locks', 0):
            out.append(['avail', rng.randrange(p['locks'])])
        else:
            out.append(cx.log())
        _ = r
    return out


def gen_spawn(cx, depth, scopes, tasks, scope):
    rng = cx.rng
    name = cx.new_task()
    after = at = None
    r = rng.random()
    if r < 0.25:
        after = rng.choice(GRID)
    elif r < 0.4:
        at = rng.choice(DATES)
    prog = gen_block(cx, max(depth - 1, 0), scopes, tasks)
    if rng.random() < cx.p.get('ret', 0.2):
        prog.append(['ret', rng.randint(1, 9)])
    return ['spawn', scope, name, after, at, rng.random() < cx.p.get('volatile', 0.25), ['prog'] + prog]


def gen_scope_body(cx, depth, scopes, tasks, name):
    rng = cx.rng
    body = []
    tasks = list(tasks)
    for _ in range(rng.randint(0, cx.p.get('children', 3))):
        sp = gen_spawn(cx, depth, scopes, tasks, name)
        body.append(sp)
        tasks.append(sp[2])
        if rng.random() < 0.3:
            body += gen_block(cx, 0, scopes, tasks, 1)
    body += gen_block(cx, depth, scopes, tasks)
    return body, tasks


DEFAULT_WEIGHTS = {'log': 3, 'sleep': 3, 'await': 2, 'set': 2, 'scope': 2, 'spawn': 1, 'cancel': 1, 'awaittask': 1,
                   'awaitscope': 0.3, 'status': 0.7, 'raise': 0.5, 'try': 0.8, 'lock': 0, 'avail': 0}


def gen_scenario(rng, profile=None):
    p = {'flags': 3, 'locks': 0, 'weights': dict(DEFAULT_WEIGHTS), 'roots': 3, 'depth': 3}
    p.update(profile or {})
    cx = Ctx(rng, p)
    roots = []
    for _ in range(rng.randint(1, p['roots'])):
        prog = gen_block(cx, p['depth'], [], [], top=True)
        if rng.random() < p.get('root_ret', 0.03):
            prog.append(['ret', rng.randint(0, 3)])
        roots.append(['prog'] + prog)
    start = rng.choice(p.get('starts', [0, 0, 0, 1, F(1, 2)]))
    return ['scenario', ['debug', 1], ['start', start], ['flags', p['flags']], ['locks', p['locks']],
            ['roots'] + roots]
