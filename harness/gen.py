"""Seeded, type-directed generators of scenarios for the whole-machine suites."""
from fractions import Fraction as F

GRID = [0, F(1, 2), 1, 1, 2, 3]
DATES = [0, F(1, 2), 1, 2, 3, 4, 5]


class Ctx:
    def __init__(self, rng, profile):
        self.rng = rng
        self.p = profile
        self.scope_names = 0
        self.task_names = 0
        self.log_id = 0
        self.res_next = len(profile.get('resources', []))
        self.res_dims = {i: len(r[1]) for i, r in enumerate(profile.get('resources', []))}
        self.res_open = {i: r[0] for i, r in enumerate(profile.get('resources', []))}   # name -> is capacities/borrowed

    def new_scope(self):
        self.scope_names += 1
        return self.scope_names - 1

    def new_task(self):
        self.task_names += 1
        return self.task_names - 1

    def new_item(self):
        self.item = getattr(self, 'item', 0) + 1
        return self.item

    def log(self):
        self.log_id += 1
        return ['log', self.log_id]


def gen_cexpr(cx, depth, tasks, allow_time=True):
    rng = cx.rng
    atoms = ['flag', 'flag', 'flag', 'invflag']
    if allow_time:
        atoms += ['after', 'before', 'moment', 'after']
    if tasks:
        atoms += ['done', 'notdone']
    if cx.p.get('rare_atoms', True):
        atoms += ['eternity', 'instant']
    if depth > 0 and rng.random() < cx.p.get('connective', 0.35):
        k = rng.choice(['all', 'any'])
        n = rng.randint(2, 3)
        sub = [gen_cexpr(cx, depth - 1 if rng.random() < cx.p.get('nest', 0.3) else 0, tasks, allow_time)
               for _ in range(n)]
        e = [k] + sub
        if rng.random() < 0.15:
            e = ['inv', e]
        return e
    if cx.p.get('tracked') and rng.random() < cx.p.get('tracked_atoms', 0.0):
        return ['tracked', rng.randrange(len(cx.p['tracked'])), rng.randrange(6), rng.randint(0, 6)]
    if cx.p.get('resources') and rng.random() < cx.p.get('res_atoms', 0.0):
        r = rng.randrange(len(cx.p['resources']))
        return ['reslevel', r, rng.choice([4, 4, 0, 5, 1, 2, 3]), [rng.randint(0, 6) for _ in range(cx.res_dims[r])]]
    a = rng.choice(atoms)
    nf = cx.p['flags']
    if a == 'flag':
        return ['flag', rng.randrange(nf)]
    if a == 'invflag':
        return ['inv', ['flag', rng.randrange(nf)]]
    if a == 'after':
        return ['after', rng.choice(DATES)]
    if a == 'before':
        return ['before', rng.choice(DATES)]
    if a == 'moment':
        return ['moment', rng.choice(DATES)]
    if a == 'done':
        return ['done', rng.choice(tasks)]
    if a == 'notdone':
        return ['inv', ['done', rng.choice(tasks)]]
    return [a]


def has_nested_connective(c, inside=False):
    if not isinstance(c, list):
        return False
    if c[0] in ('all', 'any'):
        if inside:
            return True
        return any(has_nested_connective(x, True) for x in c[1:])
    if c[0] == 'inv':
        return has_nested_connective(c[1], inside)
    return False


def is_connective(c):
    return isinstance(c, list) and (c[0] in ('all', 'any') or (c[0] == 'inv' and is_connective(c[1])))


def gen_block(cx, depth, scopes, tasks, n=None, top=False):
    """scopes: names of scopes that are (probably) open; tasks: names of tasks spawned so far"""
    rng = cx.rng
    p = cx.p
    out = []
    n = n if n is not None else rng.randint(1, p.get('block', 4))
    tasks = list(tasks)
    for _ in range(n):
        r = rng.random()
        w = p['weights']
        kinds = list(w)
        k = rng.choices(kinds, [w[x] for x in kinds])[0]
        if k == 'log':
            out.append(cx.log())
        elif k == 'sleep':
            out.append(['sleep', rng.choice(GRID)])
        elif k == 'timewait':
            out.append(['await', [rng.choice(['after', 'moment', 'before']), rng.choice(DATES)]])
        elif k == 'await':
            c = gen_cexpr(cx, p.get('cdepth', 2), tasks)
            if not p.get('known_regions', False):
                # steer away from the known findings F8/F10 (nested connectives lose wake-ups)
                if has_nested_connective(c):
                    c = ['flag', rng.randrange(p['flags'])]
            out.append(['await', c])
        elif k == 'set':
            out.append(['set', rng.randrange(p['flags']), rng.random() < 0.7])
        elif k == 'scope' and depth > 0:
            name = cx.new_scope()
            kind = rng.random()
            if kind < p.get('until', 0.4):
                if rng.random() < 0.4:
                    d = rng.choice(GRID)
                    un = ['delay', d]
                else:
                    c = gen_cexpr(cx, 1, tasks) if not p.get('timeonly') else [rng.choice(['after', 'moment']), rng.choice(DATES)]
                    if is_connective(c) and not p.get('known_regions', False):
                        c = ['flag', rng.randrange(p['flags'])]     # F10: until(connective) never fires
                    un = ['cond', c]
            else:
                un = ['none']
            body, inner_tasks = gen_scope_body(cx, depth - 1, scopes + [name], tasks, name)
            out.append(['scope', name, un] + body)
            tasks = inner_tasks
        elif k == 'spawn' and scopes:
            out.append(gen_spawn(cx, depth, scopes, tasks, rng.choice(scopes)))
            tasks.append(out[-1][2])
        elif k == 'cancel' and tasks:
            out.append(['cancel', rng.choice(tasks), rng.randint(1, 9)])
        elif k == 'awaittask' and tasks:
            out.append(['awaittask', rng.choice(tasks)])
        elif k == 'awaitscope' and cx.scope_names:
            out.append(['awaitscope', rng.randrange(cx.scope_names)])
        elif k == 'status' and tasks:
            out.append(['status', rng.choice(tasks)])
        elif k == 'raise':
            out.append(['raise', rng.choice(p.get('classes', [0, 1, 2, 3, 4]))])
            break
        elif k == 'try' and depth > 0:
            body = gen_block(cx, depth - 1, scopes, tasks)
            pats = rng.choice([[['user', 0]], [['user', 3]], ['concurrent'], ['taskCancelled'], ['anyException'],
                               ['concurrent', ['user', 0]], ['scopeClosed'], [['user', 2], ['user', 4]],
                               ['concurrent', 'taskCancelled', 'anyException']])
            hbody = [cx.log()] + (gen_block(cx, 0, scopes, tasks, 1) if rng.random() < 0.3 else [])
            out.append(['try', ['body'] + body, ['handler', ['pats'] + pats, ['body'] + hbody]])
        elif k == 'lock' and depth > 0 and p.get('locks', 0):
            out.append(['lock', rng.randrange(p['locks'])] + gen_block(cx, depth - 1, scopes, tasks))
        elif k == 'avail' and p.get('locks', 0):
            out.append(['avail', rng.randrange(p['locks'])])
        elif k == 'qput' and p.get('queues'):
            out.append(['qput', rng.randrange(p['queues']), cx.new_item()])
        elif k == 'qget' and p.get('queues'):
            out.append(['qget', rng.randrange(p['queues'])])
        elif k == 'qclose' and p.get('queues'):
            out.append(['qclose', rng.randrange(p['queues'])])
        elif k == 'qiter' and p.get('queues') and depth > 0:
            out.append(['qiter', rng.randrange(p['queues']), rng.randint(0, 4)] + gen_block(cx, 0, scopes, tasks, rng.randint(0, 2)))
        elif k == 'cput' and p.get('chans'):
            out.append(['cput', rng.randrange(p['chans']), cx.new_item()])
        elif k == 'cget' and p.get('chans'):
            out.append(['cget', rng.randrange(p['chans'])])
        elif k == 'cclose' and p.get('chans'):
            out.append(['cclose', rng.randrange(p['chans'])])
        elif k == 'citer' and p.get('chans') and depth > 0:
            # (the loop body may read the same channel again: subscriptions are numbered per channel)
            body = gen_block(cx, 0, scopes, tasks, rng.randint(0, 2))
            out.append(['citer', rng.randrange(p['chans']), rng.randint(0, 4)] + body)
        elif k == 'settracked' and p.get('tracked'):
            out.append([rng.choice(['settracked', 'addtracked']), rng.randrange(len(p['tracked'])), rng.randint(-2, 6)])
        elif k in ('borrow', 'claim') and p.get('resources') and depth > 0:
            r = rng.choice(sorted(cx.res_dims)) if rng.random() < p.get('nested_borrow', 0.25) else rng.randrange(len(p['resources']))
            name = cx.res_next
            cx.res_next += 1
            cx.res_dims[name] = cx.res_dims[r]
            cx.res_open[name] = True
            am = [rng.randint(0, p.get('max_amount', 5)) for _ in range(cx.res_dims[r])]
            out.append([k, r, am, name] + gen_block(cx, depth - 1, scopes, tasks))
        elif k == 'reschange' and p.get('resources'):
            cands = [i for i, r in enumerate(p['resources']) if not r[0]]
            if cands:
                r = rng.choice(cands)
                kind = rng.randrange(3)
                am = [rng.randint(0, 3) for _ in range(cx.res_dims[r])]
                if kind == 2:
                    am = [rng.choice([-1, rng.randint(0, 8)]) for _ in range(cx.res_dims[r])]
                out.append(['reschange', r, kind, am])
        elif k == 'levels' and p.get('resources'):
            out.append(['levels', rng.choice(sorted(cx.res_dims))])
        elif k == 'transfer' and p.get('pipes'):
            out.append(['transfer', rng.randrange(len(p['pipes'])), rng.choice(p.get('volumes', [0, 1, 2, 3, 4, 6])),
                        rng.choice(p.get('limits', [None, None, 1, 2, 3, 4]))])
        elif k == 'interval' and depth > 0:
            out.append([rng.choice(['interval', 'delayiter']), rng.choice(GRID), rng.randint(0, 3)] +
                       gen_block(cx, 0, scopes, tasks, rng.randint(0, 2)))
        elif k == 'collect' and depth > 0:
            progs = []
            for _ in range(rng.randint(0, 3)):
                pr = gen_block(cx, depth - 1, scopes, tasks)
                if rng.random() < 0.6:
                    pr.append(['ret', rng.randint(1, 9)])
                progs.append(['prog'] + pr)
            out.append(['collect'] + progs)
        elif k == 'nestedrun' and depth > 0 and p.get('nested', False):
            # objects must not be shared between simulations: the inner programs only use time
            saved = cx.p
            cx.p = dict(saved, weights={'log': 3, 'sleep': 3, 'raise': 0.3, 'interval': 0.5, 'timewait': 1.5, 'scope': 0.5},
                        timeonly=True)
            progs = [['prog'] + gen_block(cx, 1, [], [], rng.randint(1, 3)) for _ in range(rng.randint(1, 2))]
            cx.p = saved
            out.append(['nestedrun', rng.choice(DATES)] + progs)
        else:
            out.append(cx.log())
        _ = r
    return out


def gen_spawn(cx, depth, scopes, tasks, scope):
    rng = cx.rng
    name = cx.new_task()
    after = at = None
    r = rng.random()
    if r < 0.25:
        after = rng.choice(GRID)
    elif r < 0.4:
        at = rng.choice(DATES)
    prog = gen_block(cx, max(depth - 1, 0), scopes, tasks)
    if rng.random() < cx.p.get('ret', 0.2):
        prog.append(['ret', rng.randint(1, 9)])
    return ['spawn', scope, name, after, at, rng.random() < cx.p.get('volatile', 0.25), ['prog'] + prog]


def gen_scope_body(cx, depth, scopes, tasks, name):
    rng = cx.rng
    body = []
    tasks = list(tasks)
    for _ in range(rng.randint(0, cx.p.get('children', 3))):
        sp = gen_spawn(cx, depth, scopes, tasks, name)
        body.append(sp)
        tasks.append(sp[2])
        if rng.random() < 0.3:
            body += gen_block(cx, 0, scopes, tasks, 1)
    body += gen_block(cx, depth, scopes, tasks)
    return body, tasks


DEFAULT_WEIGHTS = {'log': 3, 'sleep': 3, 'await': 2, 'set': 2, 'scope': 2, 'spawn': 1, 'cancel': 1, 'awaittask': 1,
                   'awaitscope': 0.3, 'status': 0.7, 'raise': 0.5, 'try': 0.8, 'lock': 0, 'avail': 0}


def gen_scenario(rng, profile=None):
    p = {'flags': 3, 'locks': 0, 'weights': dict(DEFAULT_WEIGHTS), 'roots': 3, 'depth': 3}
    p.update(profile or {})
    cx = Ctx(rng, p)
    roots = []
    for _ in range(rng.randint(1, p['roots'])):
        prog = gen_block(cx, p['depth'], [], [], top=True)
        if rng.random() < p.get('root_ret', 0.03):
            prog.append(['ret', rng.randint(0, 3)])
        roots.append(['prog'] + prog)
    start = rng.choice(p.get('starts', [0, 0, 0, 1, F(1, 2)]))
    sc = ['scenario', ['debug', 1], ['start', start], ['flags', p['flags']], ['locks', p['locks']]]
    if p.get('queues'):
        sc.append(['queues', p['queues']])
    if p.get('chans'):
        sc.append(['chans', p['chans']])
    if p.get('tracked'):
        sc.append(['tracked'] + list(p['tracked']))
    if p.get('resources'):
        sc.append(['resources'] + [['res', 1 if r[0] else 0] + list(r[1]) for r in p['resources']])
    if p.get('pipes'):
        sc.append(['pipes'] + list(p['pipes']))
    sc.append(['roots'] + roots)
    return sc


# ------------------------------------------------------------------------------------------------
# structured families: a set of contender tasks inside one scope plus fault injectors
def gen_contenders(rng, make_body, n=None, fault=True, until=None, scope_name=0, base_task=0):
    """root program: `scope { spawn contender_i ... ; (injected faults) }`.

    make_body(i) -> program of contender i.  Faults: cancel of contender j by a separate root
    activity after `t` time units and `k` postponements (covers the activation boundaries inside a
    time step), or an until-deadline closing everybody, or a volatile contender closed at scope end."""
    n = n or rng.randint(2, 4)
    spawns = []
    for i in range(n):
        after = rng.choice([None, None, F(1, 2), 1])
        vol = fault and rng.random() < 0.15
        spawns.append(['spawn', scope_name, base_task + i, after, None, vol, ['prog'] + make_body(i)])
    un = ['none']
    if until is not None:
        un = ['delay', until]
    body = spawns + [['sleep', rng.choice([0, 1, 2, 4])]]
    roots = [['prog', ['scope', scope_name, un] + body, ['log', 999]]]
    if fault:
        for _ in range(rng.randint(0, 2)):
            j = rng.randrange(n)
            prog = [['sleep', rng.choice([0, F(1, 2), 1, 1, 2, 3])]] + [['sleep', 0]] * rng.randint(0, 4) + \
                [['cancel', base_task + j, rng.randint(1, 9)]]
            roots.append(['prog'] + prog)
    return roots


def shift_scenario(sc, offset):
    """the same program with the start time and every absolute date moved by `offset` (delays and periods stay): what
    the library does must not depend on how large the clock value is"""
    def walk(x):
        if not isinstance(x, list) or not x:
            return x
        h = x[0]
        if h in ('after', 'before', 'moment', 'start', 'till') and len(x) == 2 and not isinstance(x[1], list):
            return [h, x[1] + offset]
        if h == 'spawn':
            return ['spawn', x[1], x[2], x[3], (None if x[4] is None else x[4] + offset), x[5], walk(x[6])]
        return [walk(e) for e in x]
    return walk(sc)
