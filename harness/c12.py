"""C12 - Resources are conserved: never negative, never leaked, claims never wait."""
from fractions import Fraction as F

import dsl
import gen
import msuite
from common import rng_for

PID = 'C12'
TAGS = ['breq', 'benter', 'bbody', 'bexit', 'levels', 'reschange', 'resrej', 'caught']
RES = [[False, [6, 4]], [True, [5]]]
RULE = ('(a) families: 2-5 borrowers/claimants of a 2-resource `Resources` supply and a `Capacities` supply inside an '
        '(until-)scope, arbitrary amounts/hold times, nested borrowing from a borrowed share, concurrent increase/decrease, '
        'level probes, cancels injected after t time units and k postponements (incl. inside acquire/release), deadlines, '
        'volatile borrowers closed at scope end; (b) random whole-API programs with a resource-heavy profile; non-trivial = at '
        'least two borrow blocks entered')

PROFILE = {'resources': RES, 'flags': 2, 'depth': 3, 'until': 0.5, 'volatile': 0.3, 'res_atoms': 0.2,
           'weights': {'log': 1, 'sleep': 3, 'await': 0.5, 'set': 0.3, 'scope': 2, 'spawn': 2, 'cancel': 2, 'raise': 0.3,
                       'try': 0.6, 'borrow': 4, 'claim': 2, 'reschange': 1.0, 'levels': 2.5}}


def family(rng):
    names = [10]

    def body(i):
        r = rng.randrange(2)
        dim = len(RES[r][1])
        am = [rng.randint(0, 4) for _ in range(dim)]
        names[0] += 1
        inner = [['levels', r], ['sleep', rng.choice([0, F(1, 2), 1, 2])]]
        if rng.random() < 0.3:
            names[0] += 1
            inner = [['borrow', names[0] - 1, [rng.randint(0, a) for a in am], names[0], ['sleep', rng.choice([0, 1])]]] + inner
        if rng.random() < 0.15:
            inner.append(['raise', 0])
        kind = 'claim' if rng.random() < 0.3 else 'borrow'
        stmt = [kind, r, am, names[0] - 1 if len(inner) > 2 and inner[0][0] == 'borrow' else names[0]] + inner
        if rng.random() < 0.25:
            # the context object is made first and entered later: what counts is the level on entry
            stmt = [kind + 'later'] + stmt[1:4] + [rng.choice([0, F(1, 2), 1, 2])] + stmt[4:]
        if kind == 'claim':
            stmt = ['try', ['body', stmt], ['handler', ['pats', 'resUnavailable'], ['body', ['log', 50 + i]]]]
        prog = [['sleep', rng.choice([0, 0, F(1, 2), 1])], stmt, ['levels', r]]
        if rng.random() < 0.25:
            prog.append(['reschange', 0, rng.randrange(2), [rng.randint(0, 2), rng.randint(0, 2)]])
        return prog
    roots = gen.gen_contenders(rng, body, n=rng.randint(2, 5), until=rng.choice([None, None, 1, 2, 3]))
    return ['scenario', ['debug', 1], ['start', 0], ['flags', 1], ['locks', 0],
            ['resources'] + [['res', 1 if r[0] else 0] + r[1] for r in RES], ['roots'] + roots]


F4_PROBE = ['scenario', ['debug', 1], ['start', 0], ['flags', 1], ['locks', 0], ['resources', ['res', 0, 10]],
            ['roots', ['prog', ['scope', 0, ['none'],
                                ['spawn', 0, 0, None, None, 0, ['prog', ['borrow', 0, [4], 5, ['sleep', 5]]]],
                                ['sleep', 0], ['cancel', 0, 1]],
                       ['sleep', 1], ['levels', 0]]]]


#: known finding F17: a borrowed share is left while another activity still borrows from it
F17_PROBE = ['scenario', ['debug', 1], ['start', 0], ['flags', 1], ['locks', 0], ['resources', ['res', 0, 5]],
             ['roots', ['prog', ['claim', 0, [4], 1, ['sleep', 1]]],
                       ['prog', ['sleep', F(1, 2)], ['borrow', 1, [3], 2, ['sleep', 2]]],
                       ['prog', ['sleep', 2], ['levels', 1], ['sleep', 1], ['levels', 0]]]]


def nontrivial(impl):
    return sum(1 for e in impl['events'] if ':benter:' in e) >= 2


def f4_pattern(impl):
    """some borrow block was interrupted inside acquire (breq .. bexit 1 without benter) or inside
    release (body ended normally, bexit 1)"""
    state = {}
    for e in impl['events']:
        t, turn, label, tag, args = e.split(':')
        if tag == 'breq':
            state.setdefault(label, []).append('req')
        elif tag == 'benter' and state.get(label):
            state[label][-1] = 'in'
        elif tag == 'bbody' and state.get(label):
            state[label][-1] = 'body0' if args == '0' else 'body1'
        elif tag == 'bexit' and state.get(label):
            st = state[label].pop()
            if args.endswith(',1') and st in ('req', 'body0', 'body1'):
                return True
    return False


def share_used_outside(sc):
    """does some block borrow from a borrowed share (a name bound by a borrow/claim block) from outside the body of the block
    that owns the share - another activity, or a task spawned inside it?  Such a borrower can outlive the share."""
    bound = set()

    def plain(x):
        # ['claimlater', res, amounts, bind, d, body...] is ['claim', res, amounts, bind, body...] entered `d` later
        if isinstance(x, list):
            if x and x[0] in ('borrowlater', 'claimlater'):
                x = [x[0][:-5]] + x[1:4] + x[5:]
            return [plain(e) for e in x]
        return x
    sc = plain(sc)

    def binders(x):
        if isinstance(x, list):
            if x and x[0] in ('borrow', 'claim'):
                bound.add(x[3])
            for e in x:
                binders(e)
    binders(sc)
    found = []

    def walk(x, inside):
        if not isinstance(x, list) or not x:
            return
        if x[0] in ('borrow', 'claim'):
            if x[1] in bound and x[1] not in inside:
                found.append(x)
            for e in x[4:]:
                walk(e, inside | {x[3]})
        elif x[0] == 'spawn':
            for e in x:
                walk(e, frozenset())
        else:
            for e in x:
                walk(e, inside)
    walk(sc, frozenset())
    return bool(found)


def declared(sc):
    for f in sc[1:]:
        if f[0] == 'resources':
            return [(i, [int(v) for v in r[2:]]) for i, r in enumerate(f[1:])]
    return []


def run(tier, seed, drv, scenarios=None):
    st = msuite.Suite(PID, drv, 'C12', TAGS)
    st.res.rule = RULE

    def refine(msg, impl, model, sc):
        if 'every block was left' in msg:
            return {'clause': 'conservation', 'interrupted_inside_acquire_or_release': f4_pattern(impl),
                    'final_levels_as_modelled': model is not None and impl['obs'] == model['obs'],
                    'share_used_outside_its_block': share_used_outside(sc)}
        if 'level below zero' in msg:
            return {'clause': 'resource level below zero at', 'share_used_outside_its_block': share_used_outside(sc),
                    'levels_as_modelled': model is not None and impl['obs'] == model['obs']}
        return None

    def one(sc, probe=None):
        st.check(sc, nontrivial=nontrivial, probe=probe, refine=lambda msg, impl, model, sc=sc: refine(msg, impl, model, sc),
                 judge_extra=[('C12cons', '%d %s' % (i, ' '.join(map(str, init)))) for i, init in declared(sc)])
    if scenarios is not None:
        for sc in scenarios:
            one(sc)
        return st.finish()
    for sc in msuite.corpus(PID):
        one(msuite.fix_fractions(sc))
    one(F4_PROBE, probe='F4')
    one(F17_PROBE, probe='F17')
    n = 150 if tier == 'quick' else 5000
    for i in range(n):
        rng = rng_for(seed, PID, i)
        one(family(rng) if i % 2 == 0 else gen.gen_scenario(rng, PROFILE))
    return st.finish()


def replay(data, drv):
    sc = msuite.fix_fractions(data.get('scenario') or data['case']['scenario'])
    return run('quick', 0, drv, scenarios=[sc])
