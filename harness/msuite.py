"""Common driver of the whole-machine suites: run generated scenarios on the real usim and on the
Lean machine, compare traces (strictly, and projected onto the property's observables), and
evaluate the property's Lean judge on the implementation's trace."""
import json
import os
import re

import dsl
from common import Result, VERIF


def obs_line(r):
    return '%s|%s|%s|%s|%s' % (';'.join(r['events']), r['outcome'], r['final'],
                               ','.join(str(x) for x in r['unfinished']), r['obs'])


def project(r, tags):
    """the property-scoped observation: events of the relevant kinds, outcome class, final observations"""
    evs = [e for e in r['events'] if e.split(':')[3] in tags]
    return (evs, r['outcome'])


def clause_of(msg):
    """a stable key for a judge message: its text without the numbers"""
    out = []
    for w in msg.split():
        if any(ch.isdigit() for ch in w):
            continue
        out.append(w)
    return ' '.join(out[:8])


class Suite:
    def __init__(self, pid, drv, judge, tags, kind='rat', judge_params='', judge_view=None):
        self.judge_view = judge_view
        self.pid = pid
        self.drv = drv
        self.judge = judge
        self.judge_params = judge_params
        self.tags = set(tags) | {'log'}
        self.kind = kind
        self.res = Result(pid)
        self.res.strict_equal = 0
        self.res.obs_equal = 0
        self.tag_counts = {}

    def check(self, sc, meta=None, nontrivial=None, judge_extra=None, probe=None, compare=True, refine=None):
        res = self.res
        try:
            impl = dsl.run_impl(sc, self.kind)
        except Exception as e:    # noqa
            # the scenario could not even be set up on the implementation (a constructor refused valid arguments,
            # an attribute is gone, ...): that is a finding about the implementation, not a failure of the check
            res.evaluations += 1
            res.violation({'clause': 'scenario-setup-failed'},
                          'the implementation failed while setting up / running the scenario outside of the simulation: %s: %s'
                          % (type(e).__name__, str(e)[:200]), {'scenario': sc, 'kind': self.kind})
            return {'events': [], 'outcome': 'crash 99', 'final': '0', 'unfinished': [], 'obs': ''}
        res.evaluations += 1
        case = {'scenario': sc, 'kind': self.kind}
        if meta:
            case['meta'] = meta
        model = None
        if compare:
            model = dsl.parse_reply(self.drv.ask(dsl.model_line(sc, self.kind)))
            res.model_compared += 1
            strict = (model['events'] == impl['events'] and model['outcome'] == impl['outcome']
                      and model['final'] == impl['final'] and model['obs'] == impl['obs']
                      and (model['unfinished'] == impl['unfinished'] or impl['outcome'] != 'ok'))
            if strict:
                res.strict_equal += 1
                res.obs_equal += 1
            elif project(model, self.tags) == project(impl, self.tags):
                res.obs_equal += 1
                res.count('strict_only_mismatch')
            else:
                pm, pi = project(model, self.tags), project(impl, self.tags)
                first = next((i for i, (a, b) in enumerate(zip(pm[0], pi[0])) if a != b), min(len(pm[0]), len(pi[0])))
                res.mismatch(case, {'outcome': pi[1], 'events_from_first_difference': pi[0][first:first + 6]},
                             {'outcome': pm[1], 'events_from_first_difference': pm[0][first:first + 6]},
                             'property-scoped trace (model vs implementation), first difference at event %d' % first)
        for e in impl['events']:
            t = e.split(':')[3]
            self.tag_counts[t] = self.tag_counts.get(t, 0) + 1
        res.count('outcome:' + impl['outcome'].split(',')[0])
        verdicts = [self.ask_judge(self.judge, self.judge_params, impl)]
        for j, params in (judge_extra or []):
            verdicts.append(self.ask_judge(j, params, impl))
        for v in verdicts:
            if v != 'ok':
                for msg in v[len('fail: '):].split(' ;; '):
                    key = {'clause': clause_of(msg)}
                    if refine:
                        key.update(refine(msg, impl, model) or {})
                    if probe:
                        key['probe'] = probe
                    res.violation(key, msg, case)
        interesting = nontrivial(impl) if nontrivial else len(impl['events']) >= 4
        if interesting:
            res.nontrivial_case(sc)
        if len(res.samples) < 3 and interesting and res.evaluations % 37 == 1:
            res.sample({'scenario': dsl.model_line(sc, self.kind)[:1500], 'implementation_trace': impl['events'][:25],
                        'outcome': impl['outcome']})
        return impl

    def ask_judge(self, judge, params, impl):
        rep = self.drv.ask('judge %s %s #%s' % (judge, params, obs_line(self.judge_view(impl) if self.judge_view else impl)))
        if rep in ('bad-trace', 'bad-op'):
            raise RuntimeError('judge could not read the trace: ' + rep)
        return rep

    def finish(self):
        self.res.distribution.update({'events:' + k: v for k, v in sorted(self.tag_counts.items())})
        self.res.distribution['strict_equal'] = self.res.strict_equal
        self.res.distribution['obs_equal'] = self.res.obs_equal
        return self.res


#: an AssertionError of the library somewhere in a trace / outcome (code 9)
USAGE_ASSERTION = re.compile(r':(caught|rootexc|cleanup):(1,)?(3,)?9\b|:tfin:3,(3,)?9\b|crash (3,)?9\b|:resrej:|[|,]9[,|]')


def run_config(env_extra, pyflags, scenarios):
    """the scenarios [(kind, scenario)] in a fresh interpreter with the given flags / environment; one observation line each"""
    import subprocess
    from common import PYTHON, REPO
    env = dict(os.environ, PYTHONPATH=REPO, USIM_VERIF_REPO=REPO)
    env.pop('USIM_WAITQUEUE', None)
    env.update(env_extra)
    payload = '\n'.join(json.dumps({'kind': k, 'scenario': sc}, default=str) for k, sc in scenarios) + '\n'
    p = subprocess.run([PYTHON] + pyflags + [os.path.join(VERIF, 'harness', 'worker.py')], input=payload, env=env,
                       stdout=subprocess.PIPE, stderr=subprocess.DEVNULL, text=True, timeout=1800)
    return p.stdout.strip('\n').split('\n') if p.stdout.strip() else []


def judge_in_config(st, scenarios, name, env_extra, pyflags, params=None, judge_extra=None, refine=None):
    """what the statement says must also hold in another configuration of the interpreter (`python -O`: usim's assertions are
    gone, its documented errors are not): run the scenarios there and put every trace before the property's judge (the model
    is not consulted: it describes assertions-on behaviour)"""
    lines = run_config(env_extra, pyflags, [(st.kind, sc) for sc in scenarios])
    st.res.count('config:' + name, len(lines))
    if len(lines) != len(scenarios):
        st.res.mismatch({'config': name}, '%d traces' % len(lines), '%d scenarios' % len(scenarios),
                        'worker process in configuration %s did not return every trace' % name)
        return
    for k, (sc, line) in enumerate(zip(scenarios, lines)):
        impl = dsl.parse_reply(line)
        st.res.evaluations += 1
        if params is not None:
            st.judge_params = params(sc) if callable(params) else params
        verdicts = [st.ask_judge(st.judge, st.judge_params, impl)]
        for j, prm in ((judge_extra(sc) if callable(judge_extra) else judge_extra) or []):
            verdicts.append(st.ask_judge(j, prm, impl))
        for v in verdicts:
            if v != 'ok':
                for msg in v[len('fail: '):].split(' ;; '):
                    key = {'clause': clause_of(msg), 'config': name}
                    if refine:
                        # (what a listed finding is keyed by; "as modelled" = the trace is also the machine's, assertions on)
                        model = dsl.parse_reply(st.drv.ask(dsl.model_line(sc, st.kind)))
                        key.update(refine(msg, impl, model, sc) or {})
                    st.res.violation(key, msg + ' [configuration %s]' % name,
                                     {'scenario': sc, 'kind': st.kind, 'config': name, 'env': env_extra, 'pyflags': pyflags})


def corpus(pid):
    path = os.path.join(VERIF, 'corpus', pid + '.jsonl')
    if not os.path.exists(path):
        return []
    out = []
    for line in open(path):
        line = line.strip()
        if line:
            out.append(json.loads(line, parse_float=None))
    return out


def fix_fractions(x):
    """scenarios stored as JSON keep fractions as 'n/d' strings"""
    from fractions import Fraction
    if isinstance(x, list):
        return [fix_fractions(e) for e in x]
    if isinstance(x, str) and '/' in x and x.replace('/', '').replace('-', '').isdigit():
        return Fraction(x)
    return x


def standard_run(pid, judge, tags, tier, seed, drv, sources, nontrivial=None, rule='', n_quick=150, n_thorough=5000,
                 kind='rat', judge_params='', judge_extra=None, probes=None, refine=None, optimized=0, judge_only=None, n_judge_only=0):
    """sources: list of functions rng -> scenario, used round-robin; probes: list of
    (finding id, scenario) replayed first (dedicated probes of known findings)"""
    from common import rng_for
    st = Suite(pid, drv, judge, tags, kind=kind, judge_params=judge_params)
    st.res.rule = rule
    rf = (lambda sc: (lambda msg, impl, model: refine(msg, impl, model, sc))) if refine else (lambda sc: None)
    for sc in corpus(pid):
        sc = fix_fractions(sc)
        st.check(sc, nontrivial=nontrivial, judge_extra=judge_extra(sc) if callable(judge_extra) else judge_extra, refine=rf(sc))
    for pr in (probes or []):
        fid, sc = pr[0], pr[1]
        # (a probe may say that the machine is not to be consulted: ('F21', scenario, False))
        st.check(sc, nontrivial=nontrivial, probe=fid, judge_extra=judge_extra(sc) if callable(judge_extra) else judge_extra, refine=rf(sc),
                 compare=(pr[2] if len(pr) > 2 else True))
    n = n_quick if tier == 'quick' else n_thorough
    made = []
    for i in range(n):
        rng = rng_for(seed, pid, i)
        sc = sources[i % len(sources)](rng)
        impl = st.check(sc, nontrivial=nontrivial, judge_extra=judge_extra(sc) if callable(judge_extra) else judge_extra, refine=rf(sc))
        if len(made) < optimized and not USAGE_ASSERTION.search(obs_line(impl)):
            made.append(sc)
    for i in range(n_judge_only if judge_only else 0):
        # programs the machine cannot express (e.g. tasks whose payload is a plain awaitable): the implementation's trace before the judge
        sc = judge_only[i % len(judge_only)](rng_for(seed, pid + ':judge-only', i))
        st.check(sc, nontrivial=nontrivial, judge_extra=judge_extra(sc) if callable(judge_extra) else judge_extra, compare=False)
        st.res.count('judge-only')
    if optimized:
        # generated scenarios once more under `python -O`, judged only (programs that trip one of usim's usage assertions in
        # default mode are left out: without the assertion they go on into territory the statements do not describe)
        judge_in_config(st, made, 'O', {}, ['-O'], judge_extra=judge_extra, refine=refine)
    return st.finish()


def standard_replay(pid, judge, tags, data, drv, kind='rat', judge_params='', judge_extra=None, refine=None):
    st = Suite(pid, drv, judge, tags, kind=data.get('kind', kind), judge_params=judge_params)
    sc = fix_fractions(data.get('scenario') or data['case']['scenario'])
    case = data if data.get('scenario') else data.get('case', {})
    if case.get('pyflags') is not None and case.get('config'):
        judge_in_config(st, [sc], case['config'], case.get('env') or {}, case['pyflags'], judge_extra=judge_extra, refine=refine)
        return st.finish()
    st.check(sc, judge_extra=judge_extra(sc) if callable(judge_extra) else judge_extra,
             refine=(lambda msg, impl, model: refine(msg, impl, model, sc)) if refine else None)
    return st.finish()
