"""Shared scenario sources of the scope/task/condition properties (C03-C08)."""
from fractions import Fraction as F

import gen

#: the default profile avoids *usage errors* (past `at=` dates) so that outcomes are the program's own
VALID = {'flags': 3, 'depth': 3, 'until': 0.45, 'volatile': 0.3, 'locks': 1, 'queues': 1, 'root_ret': 0.0, 'ret': 0.25,
         'weights': {'log': 3, 'sleep': 3, 'await': 2, 'set': 2, 'scope': 2.5, 'spawn': 2, 'cancel': 1.5, 'awaittask': 1,
                     'awaitscope': 0.4, 'status': 1, 'raise': 0.8, 'try': 1.0, 'lock': 0.4, 'qput': 0.4, 'qget': 0.4}}


def no_past_dates(sc):
    """replace `at=` start dates by `after=` delays (an `at` date in the past is a usage error)"""
    def fix(x):
        if isinstance(x, list):
            if x and x[0] == 'spawn' and x[4] is not None:
                x = list(x)
                x[3], x[4] = x[4], None
            return [fix(e) for e in x]
        return x
    return fix(sc)


def valid_scenario(rng, profile=None):
    p = dict(VALID)
    p.update(profile or {})
    return no_past_dates(gen.gen_scenario(rng, p))


def scope_tree(rng, depth=3, exit_causes=True):
    """a tree of nested scopes with children; body/children fail, get cancelled, deadlines hit - all on
    a coarse time grid so that causes collide with the children's progress"""
    names = {'scope': 0, 'task': 0, 'log': 0}

    def log():
        names['log'] += 1
        return ['log', names['log']]

    def child_prog(d):
        prog = [log()]
        for _ in range(rng.randint(0, 3)):
            r = rng.random()
            if r < 0.45:
                prog.append(['sleep', rng.choice([0, F(1, 2), 1, 1, 2])])
            elif r < 0.6 and d > 0:
                prog.append(scope(d - 1))
            elif r < 0.7:
                prog.append(['raise', rng.choice([0, 1, 2, 3, 4, 5, 7])])
                break
            else:
                prog.append(log())
        if rng.random() < 0.2:
            prog.append(['ret', rng.randint(1, 9)])
        if rng.random() < 0.25 and cur_scope:
            # clean-up code that runs however the child ends (also when it is closed): synchronous only
            cl = [log()]
            if rng.random() < 0.6:
                t = names['task']
                names['task'] += 1
                cl.append(['spawn', cur_scope[-1], t, None, None, False, ['prog', log(), ['sleep', 1], log()]])
            ret = [prog.pop()] if prog and prog[-1][0] == 'ret' else []
            prog = [['finally', ['body'] + prog, ['cleanup'] + cl]] + ret
        return prog

    cur_scope = []

    def scope(d):
        s = names['scope']
        names['scope'] += 1
        un = ['none']
        if rng.random() < 0.4:
            un = rng.choice([['delay', rng.choice([0, F(1, 2), 1, 2])], ['cond', ['flag', rng.randrange(2)]],
                             ['cond', ['after', rng.choice([0, 1, 2])]], ['cond', ['moment', rng.choice([0, 1, 2, 3])]]])
        body = []
        kids = []
        cur_scope.append(s)
        for _ in range(rng.randint(0, 3)):
            t = names['task']
            names['task'] += 1
            kids.append(t)
            after = rng.choice([None, None, None, F(1, 2), 1])
            body.append(['spawn', s, t, after, None, rng.random() < 0.3, ['prog'] + child_prog(d)])
        for _ in range(rng.randint(0, 3)):
            r = rng.random()
            if r < 0.4:
                body.append(['sleep', rng.choice([0, F(1, 2), 1, 2])])
            elif r < 0.55 and kids:
                body.append(['cancel', rng.choice(kids), rng.randint(1, 9)])
            elif r < 0.65 and exit_causes:
                body.append(['raise', rng.choice([0, 2, 3, 5])])
                break
            elif r < 0.75:
                body.append(['set', rng.randrange(2), True])
            elif r < 0.85 and kids:
                body.append(['status', rng.choice(kids)])
            else:
                body.append(log())
        cur_scope.pop()
        stmt = ['scope', s, un] + body
        out = ['try', ['body', stmt], ['handler', ['pats', 'concurrent', 'anyException', ['user', 5]], ['body', log()]]]
        return out

    roots = [['prog', log(), scope(depth), log()]]
    if rng.random() < 0.6:
        roots.append(['prog', ['sleep', rng.choice([0, F(1, 2), 1])], ['set', rng.randrange(2), True]])
    if rng.random() < 0.5 and names['task']:
        roots.append(['prog', ['sleep', rng.choice([0, F(1, 2), 1, 2])]] + [['sleep', 0]] * rng.randint(0, 3) +
                     [['cancel', rng.randrange(names['task']), 7]])
    rng.shuffle(roots)
    return ['scenario', ['debug', 1], ['start', rng.choice([0, 0, 1])], ['flags', 2], ['locks', 0], ['roots'] + roots]


def cancel_cleanup(rng):
    """tasks whose code cleans up asynchronously when cancelled (`finally` with awaits), cancelled
    once or several times - before start, while suspended, during the clean-up, after the end.
    Only cancellations strike here (no closes: a clean-up that awaits must not be closed)."""
    n = rng.randint(1, 3)
    body = []
    for t in range(n):
        work = [['log', 10 + t], ['sleep', rng.choice([1, 2, 5])], ['log', 20 + t]]
        cleanup = [['log', 30 + t]] + ([['sleep', rng.choice([F(1, 2), 1, 2])], ['log', 40 + t]] if rng.random() < 0.7 else [])
        prog = [['finally', ['body'] + work, ['cleanup'] + cleanup]]
        if rng.random() < 0.4:
            prog.append(['ret', t + 1])
        body.append(['spawn', 0, t, rng.choice([None, None, F(1, 2)]), None, False, ['prog'] + prog])
    for t in range(n):
        if rng.random() < 0.5:
            body.append(['status', t])
    roots = [['prog', ['scope', 0, ['none']] + body + [['sleep', rng.choice([0, 1])]],
              ['log', 1]] + [['status', t] for t in range(n)]]
    for _ in range(rng.randint(1, 3)):
        t = rng.randrange(n)
        prog = [['sleep', rng.choice([0, F(1, 2), 1, 1, 2, 3])]] + [['sleep', 0]] * rng.randint(0, 3) + [['cancel', t, rng.randint(1, 9)]]
        if rng.random() < 0.5:
            prog += [['sleep', rng.choice([0, F(1, 2), 1])], ['cancel', t, rng.randint(10, 19)]]
        if rng.random() < 0.5:
            prog += [['try', ['body', ['awaittask', t]], ['handler', ['pats', 'taskCancelled'], ['body', ['log', 50]]]]]
        roots.append(['prog'] + prog)
    rng.shuffle(roots)
    return ['scenario', ['debug', 1], ['start', 0], ['flags', 1], ['locks', 0], ['roots'] + roots]
