"""C10 - Queue: every accepted item is received exactly once, in order; receivers served in order."""
from fractions import Fraction as F

import gen
import msuite

PID = 'C10'
TAGS = ['putreq', 'putrej', 'getreq', 'got', 'caught', 'qclose']
RULE = ('(a) producer/consumer families: 1-3 producers and 1-4 consumers (single gets and iteration with early break) on '
        '1-2 queues inside one (until-)scope, random put/get/close times on a coarse grid, cancels injected after t time units '
        'and k postponements, deadlines, volatile participants; (a2) put/close races and hand-over races: receivers cancelled, closed or cut off in the time step in which items arrive, probed by later puts and a late receiver; (b) random whole-API programs with a queue-heavy profile; '
        'non-trivial = at least 2 items received by at least 1 consumer while another participant was cancelled/closed or a '
        'second consumer exists')

PROFILE = {'queues': 2, 'flags': 2, 'depth': 3, 'until': 0.5, 'volatile': 0.3,
           'weights': {'log': 1, 'sleep': 3, 'await': 0.3, 'set': 0.3, 'scope': 2, 'spawn': 2, 'cancel': 2, 'raise': 0.3,
                       'try': 0.6, 'qput': 4, 'qget': 3, 'qclose': 0.5, 'qiter': 1.5}}


def family(rng):
    item = [0]

    def body(i):
        q = rng.randrange(2)
        role = rng.choice(['prod', 'cons', 'cons', 'iter'])
        prog = [['sleep', rng.choice([0, 0, F(1, 2), 1])]]
        if role == 'prod':
            for _ in range(rng.randint(1, 4)):
                item[0] += 1
                prog.append(['qput', q, item[0]])
                if rng.random() < 0.4:
                    prog.append(['sleep', rng.choice([0, F(1, 2), 1])])
            if rng.random() < 0.3:
                prog.append(['qclose', q])
        elif role == 'cons':
            for _ in range(rng.randint(1, 3)):
                prog.append(['try', ['body', ['qget', q]], ['handler', ['pats', 'streamClosed'], ['body', ['log', 50 + i]]]])
        else:
            prog.append(['qiter', q, rng.randint(1, 4), ['sleep', rng.choice([0, 0, F(1, 2)])]])
        return prog
    roots = gen.gen_contenders(rng, body, n=rng.randint(2, 6), until=rng.choice([None, None, 1, 2, 3]))
    return ['scenario', ['debug', 1], ['start', 0], ['flags', 1], ['locks', 0], ['queues', 2], ['roots'] + roots]


def close_race(rng):
    """receivers already waiting; a put and a close by different activities in the same time step"""
    t = rng.choice([F(1, 2), 1, 2])
    roots = []
    for i in range(rng.randint(1, 3)):
        roots.append(['prog', ['sleep', rng.choice([0, 0, F(1, 2)])],
                      ['try', ['body', ['qget', 0], ['qget', 0]], ['handler', ['pats', 'streamClosed'], ['body', ['log', 60 + i]]]]])
    order = [['prog', ['sleep', t], ['qput', 0, 1]] + ([['qput', 0, 2]] if rng.random() < 0.5 else []),
             ['prog', ['sleep', t], ['qclose', 0]]]
    if rng.random() < 0.5:
        order.reverse()
    roots += order
    if rng.random() < 0.5:
        roots.append(['prog', ['sleep', t], ['qiter', 0, 3]])
    rng.shuffle(roots)
    return ['scenario', ['debug', 1], ['start', 0], ['flags', 1], ['locks', 0], ['queues', 1], ['roots'] + roots]


def handover_race(rng):
    """several receivers wait on an empty queue; items arrive in the very time step in which some of the receivers
    are cancelled, closed with their scope or cut off by a deadline (the read mutex is being handed from receiver
    to receiver just then); later puts and a late receiver show whether anything got stuck"""
    t = rng.choice([1, 2])
    roots = []
    ntask = 0
    item = 0
    for i in range(rng.randint(2, 4)):
        get = ['try', ['body', ['qget', 0]] + ([['qget', 0]] if rng.random() < 0.3 else []),
               ['handler', ['pats', 'streamClosed'], ['body', ['log', 60 + i]]]]
        r = rng.random()
        if r < 0.3:
            prog = [get]
        elif r < 0.55:
            prog = [['scope', i, ['delay', t], get], ['log', 70 + i]]
        elif r < 0.8:
            prog = [['scope', i, ['none'], ['spawn', i, ntask, None, None, False, ['prog', get]],
                     ['sleep', t]] + [['sleep', 0]] * rng.randint(0, 3) + [['cancel', ntask, 3]]]
            ntask += 1
        else:
            prog = [['scope', i, ['none'], ['spawn', i, ntask, None, None, True, ['prog', get]],
                     ['sleep', t]] + [['sleep', 0]] * rng.randint(0, 3)]
            ntask += 1
        roots.append(['prog'] + prog)
    puts = []
    for _ in range(rng.randint(1, 3)):
        item += 1
        puts.append(['qput', 0, item])
    roots.append(['prog', ['sleep', t]] + [['sleep', 0]] * rng.randint(0, 2) + puts)
    item += 1
    roots.append(['prog', ['sleep', t + 1], ['qput', 0, item], ['qput', 0, item + 1]])
    roots.append(['prog', ['sleep', t + rng.choice([F(1, 2), 1, 2])], ['qiter', 0, 3]])
    rng.shuffle(roots)
    return ['scenario', ['debug', 1], ['start', 0], ['flags', 1], ['locks', 0], ['queues', 1], ['roots'] + roots]


def nontrivial(impl):
    return sum(1 for e in impl['events'] if ':got:' in e) >= 2


def run(tier, seed, drv):
    return msuite.standard_run(PID, 'C10', TAGS, tier, seed, drv, [family, lambda r: gen.gen_scenario(r, PROFILE), close_race, handover_race],
                               nontrivial=nontrivial, rule=RULE, n_quick=300, optimized=100 if tier == 'quick' else 1000)


def replay(data, drv):
    return msuite.standard_replay(PID, 'C10', TAGS, data, drv)
