"""C16 - collect()/first() give the right results at the right time and abort the rest."""
from fractions import Fraction as F

import msuite

PID = 'C16'
TAGS = ['cbegin', 'collected', 'fbegin', 'got', 'fend', 'fabort', 'tfin', 'ret', 'caught', 'log']
RULE = ('collect(..) / `async for .. in first(.., count=k)` over 0-5 activities, each a few sleeps (durations 0, 1/2, 1, 2, 3 with '
        'ties), log statements after every sleep, sometimes inside `async with lock` or followed by `await queue` (a message may or may not come), sometimes waiting for a task of somebody else that a third party cancels (the activity then fails with TaskCancelled), sometimes a nested scope with a child that outlasts its body, and a result or a failure (KeyError / IndexError / a privileged AssertionError); '
        'count none, 0..n+1; consumer bodies that log, sleep (slow consumer) or break after m results; the caller runs as a root '
        'activity, inside an until()-scope with a deadline, or in a child task that is cancelled at a chosen time; several '
        'callers side by side; every program ends with a long sleep so that code of aborted activities would be seen. '
        'non-trivial = at least 2 activities and a result, failure or abort')

DUR = [0, 0, F(1, 2), 1, 1, 2, 3]


NESTED = [0]
JOB = [False]


def activity(rng, i, fail_p):
    prog = []
    for j in range(rng.randint(1, 3)):
        step = [['sleep', rng.choice(DUR)]]
        if rng.random() < 0.6:
            step.append(['log', 100 + 10 * i + j])
        k = rng.random()
        if k < 0.15:
            step = [['lock', 0] + step]          # (aborted while it holds a lock / while it queues for one)
        elif k < 0.25:
            step = step + [['qget', 0]]          # (aborted while it waits for a message that may never come)
        prog += step
    if rng.random() < 0.2:
        # an activity with parts of its own: a scope whose child outlasts the body, so that the activity waits at the end of
        # the block - aborting the activity must abort the parts, too
        k = NESTED[0]
        NESTED[0] += 1
        prog.append(['scope', 500 + k, ['none'],
                     ['spawn', 500 + k, 500 + k, None, None, False,
                      ['prog', ['sleep', rng.choice([1, 2, 3])], ['log', 300 + 10 * i], ['sleep', rng.choice([1, 2])], ['log', 301 + 10 * i]]],
                     ['sleep', rng.choice([0, F(1, 2)])]])
    if JOB[0] and rng.random() < 0.3:
        # an activity that forwards somebody else's task: it fails with TaskCancelled when a third party cancels that task
        prog.append(['awaittask', 900])
    r = rng.random()
    if r < fail_p:
        prog.append(['raise', rng.choice([2, 2, 4, 7])])
    elif r < fail_p + 0.1:
        pass                       # returns None
    else:
        prog.append(['ret', 11 + i])
    return ['prog'] + prog


def flow_stmt(rng):
    n = rng.choice([0, 1, 2, 2, 3, 3, 4, 5])
    fail_p = rng.choice([0, 0, 0.15, 0.4])
    progs = [activity(rng, i, fail_p) for i in range(n)]
    if rng.random() < 0.4:
        return ['collect'] + progs
    count = rng.choice([None, None, 0, 1, 1, 2, n, n + 1, max(n - 1, 0)])
    brk = rng.choice([None, None, None, 1, 2])
    body = []
    r = rng.random()
    if r < 0.4:
        body = [['log', 1]]
    elif r < 0.8:
        body = [['sleep', rng.choice([0, F(1, 2), 1, 2, 5])], ['log', 1]]
    return ['first', count, brk, ['progs'] + progs] + body


def caller(rng, i, ntask):
    stmt = flow_stmt(rng)
    guarded = ['try', ['body', stmt], ['handler', ['pats', 'concurrent', 'anyException'], ['body', ['log', 90 + i]]]]
    if rng.random() < 0.3:
        guarded = stmt
    r = rng.random()
    prog = [['sleep', rng.choice([0, 0, 1, F(1, 2)])]]
    if r < 0.5:
        prog.append(guarded)
    elif r < 0.75:
        prog.append(['scope', i, ['delay', rng.choice([F(1, 2), 1, 2, 3, F(5, 2)])], guarded, ['log', 70 + i]])
    else:
        t = ntask[0]
        ntask[0] += 1
        prog.append(['scope', i, ['none'],
                     ['spawn', i, t, None, None, False, ['prog', guarded, ['log', 80 + i]]],
                     ['sleep', rng.choice([0, F(1, 2), 1, 2, 3, F(3, 2)])], ['cancel', t, 3]])
    prog += [['log', 50 + i], ['sleep', 12], ['log', 60 + i]]
    return ['prog'] + prog


def family(rng):
    ntask = [0]
    NESTED[0] = 0
    JOB[0] = rng.random() < 0.25
    roots = [caller(rng, i, ntask) for i in range(rng.choice([1, 1, 1, 2, 3]))]
    if JOB[0]:
        # (first root: the job exists before any caller runs) a long job owned by a scope of its own, cancelled or finished
        roots = [['prog', ['scope', 90, ['none'], ['spawn', 90, 900, None, None, False, ['prog', ['sleep', rng.choice([2, 4, 30])], ['ret', 5]]],
                           ['sleep', rng.choice([1, 2, F(5, 2), 3])], ['cancel', 900, 6]]]] + roots
    if rng.random() < 0.4:
        roots.append(['prog', ['sleep', rng.choice([F(1, 2), 1, 2, 4])], ['qput', 0, 1]] + ([['qput', 0, 2]] if rng.random() < 0.5 else []))
    return ['scenario', ['debug', 1], ['start', rng.choice([0, 0, 1])], ['flags', 1], ['locks', 1], ['queues', 1], ['roots'] + roots]


def plain_activity(rng):
    """collect() over a mix of coroutines and plain awaitables (`collect(time + 20, work())`), one of the coroutines failing: the
    others - the plain ones too - are aborted at that time and the failure is raised (judged only: the machine has no such tasks)"""
    acts = []
    n = rng.randint(2, 4)
    failing = rng.randrange(n)
    for i in range(n):
        if i == failing:
            acts.append(['prog', ['sleep', rng.choice([F(1, 2), 1, 2])], ['raise', 2]])
        elif rng.random() < 0.6:
            acts.append(['plain', rng.choice([['delay', rng.choice([5, 20])], ['after', 30], ['flag', 0]])])
        else:
            acts.append(['prog', ['sleep', rng.choice([5, 20])], ['log', 100 + i], ['ret', 11 + i]])
    stmt = ['try', ['body', ['collect'] + acts], ['handler', ['pats', 'concurrent', 'anyException'], ['body', ['log', 90]]]]
    main = ['prog', ['sleep', rng.choice([0, 1])], stmt, ['log', 50], ['sleep', 40], ['log', 60]]
    return ['scenario', ['debug', 1], ['start', 0], ['flags', 1], ['locks', 1], ['queues', 1], ['roots', main]]


def nontrivial(impl):
    evs = impl['events']
    big = any((':cbegin:' in e or ':fbegin:' in e) and int(e.split(':')[4].split(',')[0]) >= 2 for e in evs)
    return big and any(':got:' in e or ':collected:' in e or ':fabort:' in e or ':tfin:2' in e or ':tfin:3' in e for e in evs)


def run(tier, seed, drv):
    return msuite.standard_run(PID, 'C16', TAGS, tier, seed, drv, [family], nontrivial=nontrivial, rule=RULE,
                               n_quick=250, n_thorough=6000, optimized=100 if tier == 'quick' else 1000,
                               judge_only=[plain_activity], n_judge_only=30 if tier == 'quick' else 1000)


def replay(data, drv):
    return msuite.standard_replay(PID, 'C16', TAGS, data, drv)
