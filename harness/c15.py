"""C15 - run() ends at quiescence, reports failures, keeps simulations isolated."""
import threading
from fractions import Fraction as F

import dsl
import gen
import msuite
from common import rng_for

PID = 'C15'
TAGS = ['log', 'now', 'ret', 'caught', 'rootexc']
RULE = ('runs with 1-4 root activities (each starting with a log), some returning values (incl. falsy 0), some raising, some '
        'blocking for ever; nested `usim.run()` calls from inside activities with clock probes before/after; different start '
        'times; every fifth run is started with till=T; every fifth program lets a failure escape through 2-4 nested scopes / child tasks of a root activity without a handler; every scenario is a separate run() on the same thread (successful and failing runs alternate); thorough tier: '
        '8 scenarios at a time are additionally run concurrently in 8 real threads, and 4 at a time in threads that hand control to a seeded random other thread at every event (forced interleavings of runs and nested runs), and each trace must equal its sequential '
        'trace; non-trivial = a nested run, a returned value or an escaping exception')

PROFILE = {'nested': True, 'flags': 2, 'depth': 2, 'root_ret': 0.3, 'starts': [0, 0, 1, F(1, 2), -1], 'roots': 4,
           'weights': {'log': 3, 'sleep': 3, 'await': 0.7, 'set': 0.7, 'scope': 1, 'spawn': 1, 'raise': 0.5, 'try': 0.4,
                       'nestedrun': 2.5, 'interval': 0.3, 'timewait': 1}}


def scenario(rng):
    sc = gen.gen_scenario(rng, PROFILE)
    # every root starts with a log so that the judge can see when and in which order roots start
    roots = sc[-1]
    for i, r in enumerate(roots[1:]):
        r.insert(1, ['log', 9000 + i])
        # return values incl. the falsy 0
        if r[-1][0] == 'ret':
            r[-1][1] = rng.choice([0, 0, 1, 5])
    return sc


def nested_failure(rng):
    """a failure deep inside nested scopes / child tasks of a root activity, with no handler on the way: what escapes the
    root activity (a `Concurrent` of `Concurrent`s, several levels deep, or a privileged exception passed through) is what
    run() has to raise - the same object, not a rebuilt or flattened one"""
    names = iter(range(100))
    tasks = iter(range(100))

    def level(depth):
        sc = next(names)
        body = []
        n = rng.randint(1, 2)
        for k in range(n):
            t = next(tasks)
            if depth > 0 and (k == 0 or rng.random() < 0.4):
                prog = [['sleep', rng.choice([0, F(1, 2), 1])]] + level(depth - 1)
            elif rng.random() < 0.7:
                prog = [['sleep', rng.choice([F(1, 2), 1, 2])], ['raise', rng.choice([0, 1, 2, 3, 4, 5, 6])]]     # (5, 6: SystemExit, KeyboardInterrupt)
            else:
                prog = [['sleep', rng.choice([1, 3])], ['log', 50 + t]]
            body.append(['spawn', sc, t, None, None, rng.random() < 0.15, ['prog'] + prog])
        body.append(['sleep', rng.choice([1, 2, 5])])
        return [['scope', sc, ['none']] + body]
    roots = [['prog', ['log', 9000]] + level(rng.randint(1, 3)) + [['log', 1]]]
    for i in range(rng.randint(0, 2)):
        roots.append(['prog', ['log', 9001 + i], ['sleep', rng.choice([1, 2, 4])], ['log', 2 + i]])
    return ['scenario', ['debug', 1], ['start', rng.choice([0, 0, 1])], ['flags', 1], ['locks', 0], ['roots'] + roots]


def till_scenario(rng):
    """the same kind of run started with `till=T`: it ends when T is reached although activities could go on"""
    # (no nested runs here: the judge of the `till` clause reads every event's time against the one clock)
    profile = dict(PROFILE, nested=False, weights=dict(PROFILE['weights'], nestedrun=0))
    sc = gen.gen_scenario(rng, profile)
    for i, r in enumerate(sc[-1][1:]):
        r.insert(1, ['log', 9000 + i])
        if r[-1][0] == 'ret':
            r[-1][1] = rng.choice([0, 0, 1, 5])
    start = next(f[1] for f in sc if isinstance(f, list) and f and f[0] == 'start')
    i = next(k for k, f in enumerate(sc) if isinstance(f, list) and f and f[0] == 'start')
    return sc[:i + 1] + [['till', start + rng.choice([0, F(1, 2), 1, 2, 3])]] + sc[i + 1:]


def till_of(sc):
    return next((f[1] for f in sc if isinstance(f, list) and f and f[0] == 'till'), None)


def start_of(sc):
    for f in sc[1:]:
        if f[0] == 'start':
            return dsl.t2s(f[1])
    return '0'


def nontrivial(impl):
    return impl['outcome'] != 'ok' or any((':ret:' in e) or e.split(':')[2].startswith('10') and len(e.split(':')[2]) == 5
                                          for e in impl['events'])


class Baton:
    """runs n threads one at a time; at every `point` the running thread passes control to a seeded random live thread"""

    def __init__(self, n, rng):
        self.cv = threading.Condition()
        self.rng = rng
        self.alive = set(range(n))
        self.turn = 0
        self.handovers = 0
        self.broken = False

    def _wait(self, i):
        while self.turn != i and not self.broken:
            if not self.cv.wait(timeout=20):
                self.broken = True      # (a stuck partner must not hang the check: everybody runs freely from here on)
                self.cv.notify_all()

    def start(self, i):
        with self.cv:
            self._wait(i)

    def point(self, i):
        with self.cv:
            if self.broken:
                return
            nxt = self.rng.choice(sorted(self.alive))
            if nxt != i:
                self.turn = nxt
                self.handovers += 1
                self.cv.notify_all()
                self._wait(i)

    def done(self, i):
        with self.cv:
            self.alive.discard(i)
            if self.alive:
                self.turn = self.rng.choice(sorted(self.alive))
            self.cv.notify_all()


def interleaved(group, rng):
    """the scenarios of `group`, each in a thread of its own, interleaved at every event; returns the observations"""
    baton = Baton(len(group), rng)
    out = [None] * len(group)

    def work(i, sc):
        baton.start(i)
        try:
            out[i] = msuite.obs_line(dsl.run_impl(sc, on_emit=lambda: baton.point(i)))
        except BaseException as e:   # noqa
            out[i] = 'harness error %r' % (e,)
        finally:
            baton.done(i)
    threads = [threading.Thread(target=work, args=(i, sc), daemon=True) for i, sc in enumerate(group)]
    for t in threads:
        t.start()
    for t in threads:
        t.join(timeout=90)
    for i, t in enumerate(threads):
        if t.is_alive():
            out[i] = 'did not finish'
            with baton.cv:
                baton.broken = True
                baton.cv.notify_all()
    return out, baton.handovers


def run(tier, seed, drv, scenarios=None):
    st = msuite.Suite(PID, drv, 'C15', TAGS)
    st.res.rule = RULE
    n = 200 if tier == 'quick' else 5000
    scs = scenarios if scenarios is not None else [(till_scenario if i % 5 == 4 else nested_failure if i % 5 == 3 else scenario)(rng_for(seed, PID, i))
                                                   for i in range(n)]
    traces = []
    for sc in scs:
        st.judge_params = start_of(sc)
        t = till_of(sc)
        # with `till`, the root activities become tasks of run()'s own until-scope: a returned value is then dropped
        # silently and failures arrive wrapped in Concurrent (known finding F16)
        impl = st.check(sc, nontrivial=nontrivial, judge_extra=[('C07till', dsl.t2s(t) + ' user-errors')] if t is not None else None,
                        refine=lambda msg, _impl, _model, t=t: {'till': t is not None})
        traces.append(msuite.obs_line(impl))
    if scenarios is None:
        # the same programs under `python -O` (judged only): what run() promises does not hang on assertions. Programs that
        # trip a usage assertion in default mode are left out (without the assertion they go on into undefined territory)
        ok = [sc for sc, tr in zip(scs, traces) if 'crash 9' not in tr and ',9' not in tr.split('|')[1] and ':caught:9' not in tr
              and ':tfin:3,9' not in tr and till_of(sc) is None]
        msuite.judge_in_config(st, ok[:150 if tier == 'quick' else 1000], 'O', {}, ['-O'], params=start_of)
    if tier == 'thorough' and scenarios is None:
        # real threads: each simulation must behave exactly as when it runs alone
        for base in range(0, min(len(scs), 800), 8):
            group = scs[base:base + 8]
            out = [None] * len(group)

            def work(i, sc):
                out[i] = msuite.obs_line(dsl.run_impl(sc))
            threads = [threading.Thread(target=work, args=(i, sc), daemon=True) for i, sc in enumerate(group)]
            for t in threads:
                t.start()
            for t in threads:
                t.join(timeout=90)
            if len([v for v in st.res.violations if v['key'].get('clause') == 'thread-isolation']) >= 5:
                break       # (enough replays; a change that couples the threads makes every further group slow)
            for i, sc in enumerate(group):
                st.res.evaluations += 1
                if out[i] != traces[base + i]:
                    st.res.violation({'clause': 'thread-isolation'},
                                     'a simulation run in a thread next to 7 others differs from its sequential run',
                                     {'scenario': sc, 'threaded': True})
        st.res.count('threaded_runs', min(len(scs), 800))
        # the same with forced interleavings: the threads hand a baton to a (seeded) random other thread at every
        # event, so that runs - and runs nested in them - begin and end inside each other in every order
        handovers = 0
        for base in range(0, min(len(scs), 1600), 4):
            group = scs[base:base + 4]
            if len([v for v in st.res.violations if v['key'].get('clause') == 'thread-isolation']) >= 5:
                break
            outs, n = interleaved(group, rng_for(seed, PID + 'baton', base))
            handovers += n
            for i, sc in enumerate(group):
                st.res.evaluations += 1
                if outs[i] != traces[base + i]:
                    st.res.violation({'clause': 'thread-isolation'},
                                     'a simulation whose thread alternates with %d others at every event differs from its '
                                     'sequential run' % (len(group) - 1),
                                     {'scenario': sc, 'threaded': True, 'group': group, 'index': i, 'baton_seed': [seed, base]})
        st.res.count('interleaved_runs', min(len(scs), 1600))
        st.res.count('baton_handovers', handovers)
    return st.finish()


def replay(data, drv):
    case = data if data.get('scenario') else data['case']
    if case.get('group'):
        # a thread-isolation failure: the same group, each scenario alone and then interleaved with the same baton choices
        st = msuite.Suite(PID, drv, 'C15', TAGS)
        group = [msuite.fix_fractions(g) for g in case['group']]
        alone = [msuite.obs_line(dsl.run_impl(sc)) for sc in group]
        outs, _ = interleaved(group, rng_for(case['baton_seed'][0], PID + 'baton', case['baton_seed'][1]))
        for i, sc in enumerate(group):
            st.res.evaluations += 1
            if outs[i] != alone[i]:
                st.res.violation({'clause': 'thread-isolation'}, 'a simulation whose thread alternates with others at every event '
                                 'differs from its sequential run', dict(case, scenario=sc, index=i))
        return st.finish()
    sc = msuite.fix_fractions(case['scenario'])
    return run('quick', 0, drv, scenarios=[sc])
