"""C01 - virtual time is monotone, timed waits resume exactly at their date."""
from fractions import Fraction as F

import gen
import msuite

PID = 'C01'
TAGS = ['abegin', 'awaited', 'spawn', 'now', 'tick', 'senter', 'sexit']
RULE = ('seeded random programs of 1-4 activities mixing delays, `>=`/`==`/`<` date conditions (equal, zero, past, now, future '
        'dates), instant/eternity, `do(after=/at=)`, nested (until-)scopes with deadlines, cancels, flags; start times 0, 1/2, 1, '
        '-1; crowds of 6-12 activities with distinct dates requested in arbitrary order; one `time + d` object kept in a variable and awaited by several activities at different times; programs shifted to clock values near 2**34; exact rational times; plus a float-time profile with non-dyadic dates (judge C01f: dates only); non-trivial = at '
        'least 3 completed timed waits')

PROFILE = {'flags': 2, 'depth': 3, 'until': 0.6, 'starts': [0, 0, F(1, 2), 1, -1, -2], 'rare_atoms': True,
           'weights': {'log': 1, 'sleep': 4, 'await': 4, 'set': 0.5, 'scope': 2, 'spawn': 2, 'cancel': 0.7, 'raise': 0.2,
                       'try': 0.3, 'interval': 0.5}}


def time_scenario(rng):
    sc = gen.gen_scenario(rng, PROFILE)
    return sc


def crowd_scenario(rng):
    """many activities with distinct wake-up dates pending at once, requested in arbitrary order (the time queue holds
    6-12 keys): delays, absolute dates and deadlines of until-blocks"""
    n = rng.randint(6, 12)
    dates = rng.sample([F(k, 2) for k in range(1, 40)], n)
    roots = []
    for i, d in enumerate(dates):
        form = rng.random()
        if form < 0.4:
            prog = [['sleep', d]]
        elif form < 0.6:
            prog = [['await', ['after', d]]]
        elif form < 0.75:
            prog = [['await', ['moment', d]]]
        elif form < 0.9:
            prog = [['scope', i, ['delay', d], ['await', ['eternity']]]]
        else:
            prog = [['scope', i, ['none'], ['spawn', i, i, None, d, False, ['prog', ['now']]]]]
        prog.append(['now'])
        for _ in range(rng.randint(0, 2)):
            prog += [['sleep', rng.choice([F(1, 2), 1, F(3, 2), 2, 3, 5])], ['now']]
        roots.append(['prog'] + prog)
    return ['scenario', ['debug', 1], ['start', 0], ['flags', 1], ['locks', 0], ['roots'] + roots]


FLOAT_DATES = [0.0, 0.1, 0.2, 0.3, 0.6, 0.7, 0.9, 1.1, 1.5, 2.3]


def float_scenario(rng):
    """absolute dates that are not exactly representable, requested from various clock values"""
    roots = []
    for _ in range(rng.randint(2, 5)):
        prog = []
        for _ in range(rng.randint(1, 4)):
            k = rng.random()
            d = rng.choice(FLOAT_DATES)
            if k < 0.3:
                prog.append(['sleep', rng.choice([0.0, 0.1, 0.2, 0.5])])
            elif k < 0.6:
                prog.append(['await', ['after', d]])
            elif k < 0.8:
                prog.append(['await', ['moment', d]])
            else:
                prog.append(['scope', len(roots), ['none'], ['spawn', len(roots), len(roots), None, d, False, ['prog', ['now']]]])
            prog.append(['now'])
        roots.append(['prog'] + prog)
    return ['scenario', ['debug', 1], ['start', 0.0], ['flags', 1], ['locks', 0], ['roots'] + roots]


def nontrivial(impl):
    return sum(1 for e in impl['events'] if ':awaited:' in e) >= 3


def shared_delay(rng):
    """one `time + d` object kept in a variable and awaited by several activities at different times (and again after a
    wait was cut short by a deadline): every wait counts `d` from its own start"""
    d = rng.choice([1, 2, 3, 5, F(5, 2)])
    roots = [['prog', ['defcond', 0, ['delay', d]], ['await', ['ref', 0]], ['now'], ['await', ['ref', 0]], ['now']]]
    for i in range(rng.randint(2, 5)):
        prog = [['sleep', rng.choice([0, F(1, 2), 1, 2, 3, F(7, 2)])]]
        for _ in range(rng.randint(1, 3)):
            r = rng.random()
            if r < 0.6:
                prog += [['await', ['ref', 0]], ['now']]
            elif r < 0.8:
                # a wait cut short by a deadline, then a fresh one
                prog += [['scope', 10 + i, ['delay', rng.choice([F(1, 2), 1, F(3, 2)])], ['await', ['ref', 0]], ['now']], ['now'],
                         ['await', ['ref', 0]], ['now']]
            else:
                prog += [['sleep', rng.choice([F(1, 2), 1])], ['now']]
        roots.append(['prog'] + prog)
    return ['scenario', ['debug', 1], ['start', rng.choice([0, 0, 1])], ['flags', 1], ['locks', 0], ['roots'] + roots]


def shared_date(rng):
    """one `time >= t` / `time == t` object kept in a variable: waits on it are given up early (an enclosing deadline fires) and begun
    again, by the same and by other activities, before and after the date - every wait that begins before t ends exactly at t"""
    T = rng.choice([4, 5, 6, F(11, 2)])
    kind = rng.choice(['after', 'after', 'moment'])
    roots = [['prog', ['defcond', 0, [kind, T]],
              ['scope', 9, ['delay', rng.choice([1, 2, 3])], ['await', ['ref', 0]], ['now']], ['now'], ['await', ['ref', 0]], ['now']]]
    for i in range(rng.randint(1, 3)):
        prog = [['sleep', rng.choice([0, F(1, 2), 1, 2, 3])]]
        for _ in range(rng.randint(1, 2)):
            r = rng.random()
            if r < 0.5:
                prog += [['scope', 10 + i, ['delay', rng.choice([F(1, 2), 1, F(3, 2)])], ['await', ['ref', 0]], ['now']], ['now']]
            else:
                prog += [['sleep', rng.choice([F(1, 2), 1])], ['now']]
        if kind == 'after' or rng.random() < 0.7:
            prog += [['await', ['ref', 0]], ['now']]
        roots.append(['prog'] + prog)
    return ['scenario', ['debug', 1], ['start', rng.choice([0, 0, 1])], ['flags', 1], ['locks', 0], ['roots'] + roots]


def run(tier, seed, drv):
    from common import rng_for
    st = msuite.Suite(PID, drv, 'C01', TAGS)
    st.res.rule = RULE
    fl = msuite.Suite(PID, drv, 'C01f', TAGS, kind='float')
    fl.res = st.res
    fl.tag_counts = st.tag_counts
    for sc in msuite.corpus(PID):
        st.check(msuite.fix_fractions(sc), nontrivial=nontrivial, judge_extra=[('C07', 'user-errors')])
    n = 200 if tier == 'quick' else 8000
    for i in range(n):
        rng = rng_for(seed, PID, i)
        if i % 4 == 3:
            fl.check(float_scenario(rng), nontrivial=nontrivial)
        elif i % 8 == 1:
            st.check(crowd_scenario(rng), nontrivial=nontrivial, judge_extra=[('C07', 'user-errors')])
        elif i % 8 == 5:
            st.check((shared_delay if i % 16 == 5 else shared_date)(rng), nontrivial=nontrivial, judge_extra=[('C07', 'user-errors')])
        elif i % 8 == 6:
            # the same kind of program far from the origin of the clock (dates near 2**34)
            st.check(gen.shift_scenario(time_scenario(rng), 2 ** 34), nontrivial=nontrivial, judge_extra=[('C07', 'user-errors')])
        else:
            st.check(time_scenario(rng), nontrivial=nontrivial, judge_extra=[('C07', 'user-errors')])
    return st.finish()


def replay(data, drv):
    kind = data.get('kind') or data.get('case', {}).get('kind', 'rat')
    return msuite.standard_replay(PID, 'C01f' if kind == 'float' else 'C01', TAGS, dict(data, kind=kind), drv, kind=kind)
