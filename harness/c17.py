"""C17 - Concurrent[...] matching: implementation vs Lean model (`matchesT`, proved <=> the documented rule)."""
import itertools

from common import Result, rng_for, import_usim

PID = 'C17'


class Hierarchy:
    def __init__(self, Concurrent):
        class MyKey(KeyError):
            pass
        # index -> class;  0..5 may be parameters of Concurrent[...], 6 only a top-level handler
        self.classes = [LookupError, KeyError, IndexError, ValueError, MyKey, Exception, BaseException]
        self.params = list(range(6))
        self.raisable = list(range(5))
        self.Concurrent = Concurrent
        n = len(self.classes)
        self.sub = [(d, c) for d in range(n) for c in range(n) if issubclass(self.classes[d], self.classes[c])]
        self.below = [c for c in range(n) if issubclass(Concurrent, self.classes[c])]

    def hier_line(self):
        return 'c17 hier sub=%s below=%s' % (','.join('%d:%d' % p for p in self.sub),
                                             ','.join(map(str, self.below)))

    # raised: ('L', c) | ('C', [raised...]) ; handler: ('L', c) | ('B',) | ('C', [handler...], inclusive)
    def make_exc(self, r, counter=None):
        if r[0] == 'L':
            e = self.classes[r[1]]()
            if counter is not None:
                e.verif_id = counter[0]
                counter[0] += 1
            return e
        return self.Concurrent(*[self.make_exc(c, counter) for c in r[1]])

    def make_handler(self, h):
        if h[0] == 'L':
            return self.classes[h[1]]
        if h[0] == 'B':
            return self.Concurrent
        items = tuple(self.make_handler(x) for x in h[1])
        if h[2]:
            items = items + (...,)
        return self.Concurrent[items]


def enc_r(r):
    if r[0] == 'L':
        return 'L%d' % r[1]
    return 'C%d %s' % (len(r[1]), ' '.join(enc_r(c) for c in r[1])) if r[1] else 'C0'


def enc_h(h):
    if h[0] == 'L':
        return 'L%d' % h[1]
    if h[0] == 'B':
        return 'B'
    head = ('Ci%d' if h[2] else 'C%d') % len(h[1])
    return (head + ' ' + ' '.join(enc_h(c) for c in h[1])).strip()


def impl_outcomes(hi, r, h):
    exc = hi.make_exc(r)
    H = hi.make_handler(h)
    sub = bool(issubclass(type(exc), H))
    inst = bool(isinstance(exc, H))
    try:
        try:
            raise exc
        except H:
            caught = True
    except BaseException:
        caught = False
    return sub, inst, caught


def gen_flat_cases(hi, max_r, max_h):
    raised = [('L', c) for c in hi.raisable]
    for k in range(1, max_r + 1):
        for combo in itertools.combinations_with_replacement(hi.raisable, k):
            raised.append(('C', [('L', c) for c in combo]))
    handlers = [('L', c) for c in range(len(hi.classes))] + [('B',)]
    for k in range(1, max_h + 1):
        for combo in itertools.combinations(hi.params, k):
            for incl in (False, True):
                handlers.append(('C', [('L', c) for c in combo], incl))
    return raised, handlers


def rand_raised(rng, hi, depth):
    if depth == 0 or rng.random() < 0.55:
        return ('L', rng.choice(hi.raisable))
    return ('C', [rand_raised(rng, hi, depth - 1) for _ in range(rng.randint(1, 3))])


def rand_handler(rng, hi, depth, top=True):
    x = rng.random()
    if depth == 0 or x < 0.5:
        if top and x < 0.08:
            return ('B',)
        return ('L', rng.choice(hi.params))
    return ('C', [rand_handler(rng, hi, depth - 1, False) for _ in range(rng.randint(1, 3))], rng.random() < 0.4)


def check_pairs(res, drv, hi, pairs):
    replies = drv.ask_many('c17 match %s %s' % (enc_r(r), enc_h(h)) for r, h in pairs)
    for (r, h), rep in zip(pairs, replies):
        try:
            m_sub, m_exc, m_same = [x == '1' for x in rep.split()]
        except ValueError:
            raise RuntimeError('driver reply %r for %s %s' % (rep, enc_r(r), enc_h(h)))
        sub, inst, caught = impl_outcomes(hi, r, h)
        res.evaluations += 1
        res.model_compared += 1
        case = {'kind': 'match', 'raised': r, 'handler': h}
        nontrivial = r[0] == 'C' and h[0] == 'C'
        if nontrivial:
            res.nontrivial_case(case)
        res.count('issubclass=%s' % sub)
        res.count('nested' if any(c[0] == 'C' for c in (r[1] if r[0] == 'C' else [])) else 'flat')
        if len(res.samples) < 4 and nontrivial and res.evaluations % 97 == 0:
            res.sample({'raised': enc_r(r), 'handler': enc_h(h), 'issubclass': sub, 'isinstance': inst,
                        'except': caught, 'model_rule': m_sub, 'model_except': m_exc})
        # --- the property (judge = the Lean rule `matchesT`, proved equivalent to the documented rule)
        if sub != m_sub:
            res.violation({'clause': 'rule', 'impl': sub},
                          'issubclass(%s, %s) is %s but the documented rule says %s' % (enc_r(r), enc_h(h), sub, m_sub),
                          dict(case, impl={'issubclass': sub, 'isinstance': inst, 'except': caught}, rule=m_sub))
        if inst != sub:
            res.violation({'clause': 'isinstance_vs_issubclass'},
                          'isinstance=%s but issubclass=%s for %s vs %s' % (inst, sub, enc_r(r), enc_h(h)),
                          dict(case, impl={'issubclass': sub, 'isinstance': inst, 'except': caught}))
        if caught != sub:
            # F3: an except clause walks the MRO.  The known region: the rule matches, the except
            # clause does not, and the handler is a specialised class other than the raised one.
            key = {'clause': 'except_vs_issubclass', 'except': caught, 'issubclass': sub,
                   'handler_kind': 'specialised-other-class' if (h[0] == 'C' and not m_same) else 'other'}
            res.violation(key, 'except clause %s but issubclass %s for %s vs %s' %
                          ('catches' if caught else 'misses', sub, enc_r(r), enc_h(h)),
                          dict(case, impl={'issubclass': sub, 'isinstance': inst, 'except': caught}))
        # --- correspondence of the modelled CPython `except` behaviour
        if caught != m_exc:
            res.mismatch(case, {'except': caught}, {'except': m_exc}, 'except-clause model (MRO walk)')


def check_identity(res, drv, hi, rng, n):
    """equal specialisations are the identical class; type of a failure depends only on the set"""
    alive = []
    ids = {}
    for _ in range(n):
        k = rng.randint(1, 4)
        params = [rng.choice(hi.raisable) for _ in range(k)]
        via_instance = rng.random() < 0.5
        if via_instance:
            cls = type(hi.Concurrent(*[hi.classes[c]() for c in params]))
        else:
            cls = hi.Concurrent[tuple(hi.classes[c] for c in params)]
        alive.append(cls)
        impl_id = ids.setdefault(id(cls), len(ids))
        model_id = int(drv.ask('c17 spec ' + ' '.join(map(str, params))))
        res.evaluations += 1
        res.model_compared += 1
        case = {'kind': 'identity', 'params': params, 'via_instance': via_instance}
        if len(set(params)) < len(params) or len(params) > 1:
            res.nontrivial_case(sorted(set(params)))
        if impl_id != model_id:
            res.violation({'clause': 'identity'},
                          'class identity differs for parameter list %s (impl class #%d, expected #%d)'
                          % (params, impl_id, model_id), case)
            break
    res.count('identity_requests', n)


def check_flatten(res, drv, hi, rng, n):
    for _ in range(n):
        r = ('C', [rand_raised(rng, hi, 3) for _ in range(rng.randint(1, 3))])
        counter = [0]
        exc = hi.make_exc(r, counter)

        def enc(e):
            if isinstance(e, hi.Concurrent):
                return ('C%d ' % len(e.children) + ' '.join(enc(c) for c in e.children)).strip()
            return 'L%d' % e.verif_id
        line = enc(exc)
        flat = exc.flattened()
        impl_children = enc(flat)
        impl_leaves = [c.verif_id for c in flat.children if not isinstance(c, hi.Concurrent)]
        nested_left = any(isinstance(c, hi.Concurrent) for c in flat.children)
        rep = drv.ask('c17 flat ' + line)
        m_tree, m_leaves, m_orig = [x.strip() for x in rep.split('|')]
        res.evaluations += 1
        res.model_compared += 1
        case = {'kind': 'flatten', 'tree': line}
        if 'C' in line[1:]:
            res.nontrivial_case(case)
        expected = list(range(counter[0]))
        if impl_leaves != expected or nested_left:
            res.violation({'clause': 'flattened'},
                          'flattened() of %s has children %s, expected leaves %s in order' %
                          (line, impl_children, expected), dict(case, impl=impl_children))
        elif impl_children != m_tree:
            res.mismatch(case, impl_children, m_tree, 'flattened tree')
        if len(res.samples) < 6 and 'C' in line[1:] and res.evaluations % 50 == 0:
            res.sample({'flatten': line, 'impl': impl_children, 'model': m_tree})
    res.count('flatten_cases', n)


def run(tier, seed, drv, budget=None):
    usim = import_usim()
    hi = Hierarchy(usim.Concurrent)
    res = Result(PID)
    res.rule = ('exhaustive: every raised type (leaf or Concurrent of <= %d children over 5 classes) x every handler '
                '(7 plain classes, bare, Concurrent[<= %d of 6 classes] with and without ...); plus seeded random nested '
                'types (depth <= 3); non-trivial = both sides are Concurrent types; distinct = distinct (raised, handler) pair')
    assert drv.ask(hi.hier_line()) == 'ok'
    max_r, max_h, n_rand, n_id, n_flat = (2, 2, 3000, 300, 400) if tier == 'quick' else (3, 3, 60000, 3000, 6000)
    res.rule = res.rule % (max_r, max_h)
    raised, handlers = gen_flat_cases(hi, max_r, max_h)
    pairs = [(r, h) for r in raised for h in handlers]
    check_pairs(res, drv, hi, pairs)
    res.count('exhaustive_pairs', len(pairs))
    rng = rng_for(seed, 'c17')
    rpairs = []
    for _ in range(n_rand):
        rpairs.append((('C', [rand_raised(rng, hi, 2) for _ in range(rng.randint(1, 3))]),
                       rand_handler(rng, hi, 3)))
    check_pairs(res, drv, hi, rpairs)
    res.count('random_nested_pairs', len(rpairs))
    check_identity(res, drv, hi, rng, n_id)
    check_flatten(res, drv, hi, rng, n_flat)
    res.exhaustive_part = True
    return res


def replay(data, drv):
    usim = import_usim()
    hi = Hierarchy(usim.Concurrent)
    drv.ask(hi.hier_line())
    res = Result(PID)

    def tup(x):
        return tuple(tup(i) if isinstance(i, list) and i and isinstance(i[0], str) else
                     ([tup(j) for j in i] if isinstance(i, list) else i) for i in x)
    if data.get('kind') == 'match':
        check_pairs(res, drv, hi, [(tup(data['raised']), tup(data['handler']))])
    elif data.get('kind') == 'flatten':
        print('replay flatten: re-run with the seed recorded in the evidence')
    return res
