"""C13 - Pipe shares throughput proportionally; transfers end at the fluid-model time."""
import struct
from fractions import Fraction as F

import msuite
from common import rng_for

PID = 'C13'
TAGS = ['tstart', 'tdone', 'tabort', 'log']
RULE = ('1-2 pipes (throughput 1/3, 3/10, 1, 2, 3, 4, 10, UnboundedPipe or Pipe(inf)) and 2-7 activities that start transfers at arbitrary '
        '(overlapping) times with volumes 0..10 (incl. non-dyadic) and limits none / below / above the pipe\'s throughput, one after '
        'another or concurrently; some run inside until()-scopes with deadlines, in child tasks cancelled at a chosen time or in '
        'volatile tasks closed with their scope, each followed by a probe transfer; IEEE doubles as in the implementation. '
        'Traces are compared exactly (bit for bit) with the whole-machine model run on doubles; the Lean judge replays the exact '
        'rational fluid model over the implementation\'s trace (tolerance 1e-9 relative for rounding). '
        'non-trivial = at least two transfers overlap in time on one finite pipe')

THROUGHPUTS = [1, 2, 3, 4, 10, F(1, 3), F(3, 10), 'inf', 'pinf']
VOLUMES = [0, 1, 2, 3, 5, 7, 10, F(1, 2), F(7, 10), F(10, 3)]
LIMITS = [None, None, 1, 2, 3, 5, F(1, 2), F(1, 10), F(2, 3), 20]
TIMES = [0, 0, F(1, 2), 1, 1, 2, 3, F(1, 3), F(5, 2)]


def transfer(rng, npipes):
    return ['transfer', rng.randrange(npipes), rng.choice(VOLUMES), rng.choice(LIMITS)]


def family(rng):
    npipes = rng.randint(1, 2)
    pipes = [rng.choice(THROUGHPUTS) for _ in range(npipes)]
    roots = []
    ntask = 0
    for i in range(rng.randint(2, 7)):
        prog = [['sleep', rng.choice(TIMES)]]
        r = rng.random()
        if r < 0.45:
            for _ in range(rng.randint(1, 3)):
                prog.append(transfer(rng, npipes))
                if rng.random() < 0.3:
                    prog.append(['sleep', rng.choice(TIMES)])
        elif r < 0.65:
            # interrupted by the deadline of an until()-scope, then a probe
            prog.append(['scope', i, ['delay', rng.choice([F(1, 2), 1, 2, 3, F(7, 3)])], transfer(rng, npipes), transfer(rng, npipes)])
            prog.append(transfer(rng, npipes))
        elif r < 0.85:
            # a child task's transfer is cancelled at a chosen time; the parent probes afterwards
            t = ntask
            ntask += 1
            prog.append(['scope', i, ['none'],
                         ['spawn', i, t, None, None, rng.random() < 0.3, ['prog', transfer(rng, npipes), transfer(rng, npipes)]],
                         ['sleep', rng.choice([0, F(1, 2), 1, 2, F(4, 3)])], ['cancel', t, 3],
                         transfer(rng, npipes)])
        else:
            # volatile child closed when the scope ends
            t = ntask
            ntask += 1
            prog.append(['scope', i, ['none'],
                         ['spawn', i, t, None, None, True, ['prog', transfer(rng, npipes), transfer(rng, npipes)]],
                         ['sleep', rng.choice([F(1, 2), 1, 2])]])
            prog.append(transfer(rng, npipes))
        prog.append(['log', 50 + i])
        roots.append(['prog'] + prog)
    return ['scenario', ['debug', 1], ['start', rng.choice([0, 0, 1, F(1, 3)])], ['flags', 1], ['locks', 0], ['pipes'] + pipes,
            ['roots'] + roots]


def bits2frac(s):
    return F(struct.unpack('<d', struct.pack('<Q', int(s)))[0])


def fs(f):
    return '%d/%d' % (f.numerator, f.denominator)


def rational_view(impl):
    """the same trace with every IEEE double written as the exact rational it denotes"""
    evs = []
    for e in impl['events']:
        t, turn, label, tag, args = e.split(':')
        if tag == 'tstart':
            a = [int(x) for x in args.split(',')]
            tot = bits2frac(a[2])
            lim = bits2frac(a[4]) if a[1] == 1 else F(0)
            a = [a[0], a[1], tot.numerator, tot.denominator, lim.numerator, lim.denominator]
            args = ','.join(str(x) for x in a)
        evs.append(':'.join([fs(bits2frac(t)), turn, label, tag, args]))
    out = dict(impl)
    out['events'] = evs
    out['final'] = fs(bits2frac(impl['final']))
    return out


def params_of(sc):
    pipes = next(f for f in sc if isinstance(f, list) and f and f[0] == 'pipes')[1:]
    return ' '.join('inf' if p in ('inf', 'pinf') else fs(F(float(p))) for p in pipes)


def nontrivial(impl):
    active = {}
    for e in impl['events']:
        _t, _turn, label, tag, args = e.split(':')
        if tag == 'tstart':
            a = args.split(',')
            if any(p == a[0] for p in active.values()) and a[2] != '0':
                return True
            active[label] = a[0]
        elif tag in ('tdone', 'tabort'):
            active.pop(label, None)
    return False


def check(st, sc):
    st.judge_params = params_of(sc)
    st.check(sc, nontrivial=nontrivial)


def run(tier, seed, drv):
    st = msuite.Suite(PID, drv, 'C13', TAGS, kind='float', judge_view=rational_view)
    st.res.rule = RULE
    for sc in msuite.corpus(PID):
        check(st, msuite.fix_fractions(sc))
    made = []
    for i in range(250 if tier == 'quick' else 6000):
        sc = family(rng_for(seed, PID, i))
        check(st, sc)
        if len(made) < (100 if tier == 'quick' else 1000):
            made.append(sc)
    # the same programs once more under `python -O` (judged only): nothing a pipe does may hang on an `assert`
    msuite.judge_in_config(st, made, 'O', {}, ['-O'], params=params_of)
    return st.finish()


def replay(data, drv):
    st = msuite.Suite(PID, drv, 'C13', TAGS, kind='float', judge_view=rational_view)
    sc = msuite.fix_fractions(data.get('scenario') or data['case']['scenario'])
    case = data if data.get('scenario') else data.get('case', {})
    if case.get('pyflags') is not None and case.get('config'):
        msuite.judge_in_config(st, [sc], case['config'], case.get('env') or {}, case['pyflags'], params=params_of)
        return st.finish()
    check(st, sc)
    return st.finish()
