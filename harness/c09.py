"""C09 - Lock: mutual exclusion, re-entrancy, FIFO hand-off, always released."""
from fractions import Fraction as F

import gen
import msuite
from common import rng_for

PID = 'C09'
TAGS = ['lreq', 'lenter', 'lexit', 'avail']

PROFILE = {'locks': 2, 'flags': 2, 'depth': 3,
           'weights': {'log': 2, 'sleep': 3, 'await': 0.5, 'set': 0.5, 'scope': 2, 'spawn': 1.5, 'cancel': 2,
                       'awaittask': 0.3, 'status': 0.2, 'raise': 0.4, 'try': 0.5, 'lock': 4, 'avail': 1.5},
           'until': 0.5, 'volatile': 0.3}


def contender_body(rng):
    def body(i):
        l = rng.randrange(2)
        inner = [['avail', l], ['sleep', rng.choice([0, F(1, 2), 1, 2])]]
        if rng.random() < 0.3:
            inner = [['lock', l] + inner]            # re-entrant
        if rng.random() < 0.2:
            inner.append(['raise', 0])
        prog = [['sleep', rng.choice([0, 0, F(1, 2), 1])], ['avail', l], ['lock', l] + inner, ['avail', l]]
        if rng.random() < 0.4:
            prog += [['sleep', rng.choice([0, 1])], ['lock', l, ['sleep', rng.choice([0, 1])]]]
        return prog
    return body


def family(rng):
    roots = gen.gen_contenders(rng, contender_body(rng), n=rng.randint(2, 5),
                               until=rng.choice([None, None, 1, F(3, 2), 2]))
    return ['scenario', ['debug', 1], ['start', 0], ['flags', 1], ['locks', 2], ['roots'] + roots]


def closed_holder(rng):
    """a holder (re-entrant at depth 1-3) is closed forcefully - its own inner scope ends by a deadline or it is volatile and the
    inner body ends - while contenders of an outer scope are queued for the lock; they must get it one after the other"""
    l = 0
    depth = rng.randint(1, 3)
    inner = [['avail', l], ['sleep', rng.choice([20, 50])]]
    for _ in range(depth):
        inner = [['lock', l] + inner]
    holder = ['prog'] + inner
    vol = rng.random() < 0.5
    t_close = rng.choice([2, 3, 5])
    waiters = []
    for i in range(rng.randint(1, 4)):
        body = [['avail', l], ['sleep', rng.choice([1, 2, 10])]]
        if rng.random() < 0.3:
            body = [['lock', l] + body]
        waiters.append(['spawn', 0, 10 + i, rng.choice([None, F(1, 2), 1, F(3, 2)]), None, False,
                        ['prog', ['lock', l] + body, ['avail', l]]])
    if vol:
        inner_scope = ['scope', 1, ['none'], ['spawn', 1, 0, None, None, True, holder], ['sleep', t_close]]
    else:
        inner_scope = ['scope', 1, ['delay', t_close], ['spawn', 1, 0, None, None, False, holder], ['sleep', 100]]
    main = ['prog', ['scope', 0, ['none']] + waiters + [inner_scope], ['sleep', 1], ['avail', l], ['log', 999]]
    return ['scenario', ['debug', 1], ['start', 0], ['flags', 1], ['locks', 2], ['roots', main]]


def nontrivial(impl):
    enters = {e.split(':')[2] for e in impl['events'] if ':lenter:' in e}
    return len(enters) >= 2


def run(tier, seed, drv):
    st = msuite.Suite(PID, drv, 'C09', TAGS)
    st.res.rule = ('(a) contender families: 2-5 tasks in one (until-)scope taking/re-entering 2 locks with random arrival and '
                   'hold times, plus cancels injected after t time units and k postponements, until-deadlines and '
                   'volatile contenders closed at scope end; a re-entrant holder closed with its own inner scope while contenders of an outer scope are queued; (b) random whole-API programs with a lock-heavy profile; '
                   'non-trivial = at least two different activities entered a lock; distinct = distinct scenario')
    n = 150 if tier == 'quick' else 6000
    made = []
    for sc in msuite.corpus(PID):
        st.check(msuite.fix_fractions(sc), nontrivial=nontrivial)
    for i in range(n):
        rng = rng_for(seed, 'c09', i)
        sc = closed_holder(rng) if i % 8 == 3 else family(rng) if i % 2 == 0 else gen.gen_scenario(rng, PROFILE)
        impl = st.check(sc, nontrivial=nontrivial)
        if len(made) < (100 if tier == 'quick' else 1000) and not msuite.USAGE_ASSERTION.search(msuite.obs_line(impl)):
            made.append(sc)
    # the same programs once more under `python -O` (judge only; the model describes assertions-on behaviour)
    msuite.judge_in_config(st, made, 'O', {}, ['-O'])
    return st.finish()


def replay(data, drv):
    st = msuite.Suite(PID, drv, 'C09', TAGS)
    st.check(msuite.fix_fractions(data.get('scenario') or data['case']['scenario']))
    return st.finish()
