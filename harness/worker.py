"""Runs scenarios on the real usim in a separate process (other hash seed, -O, other wait-queue
backend, perturbed heap) and prints one observation line per scenario.
stdin: one JSON scenario per line ({"kind":..., "scenario": ...}); env VERIF_JUNK = number of junk allocations"""
import json
import os
import sys

sys.path.insert(0, os.path.dirname(os.path.abspath(__file__)))
import dsl      # noqa: E402
import msuite   # noqa: E402

junk = [object() for _ in range(int(os.environ.get('VERIF_JUNK', '0')))]
keep = []
for line in sys.stdin:
    line = line.strip()
    if not line:
        continue
    d = json.loads(line)
    sc = msuite.fix_fractions(d['scenario'])
    keep.append([dict() for _ in range(int(os.environ.get('VERIF_JUNK', '0')) % 97)])
    r = dsl.run_impl(sc, d.get('kind', 'rat'))
    print(msuite.obs_line(r))
    sys.stdout.flush()
