"""C05 - whole-machine suite over scope trees and random valid programs (see scopesuite.py)."""
import msuite
import scopesuite

PID = 'C05'
TAGS = ['sexit', 'caught', 'tfin', 'spawn']
RULE = ('(a) scope trees: nested (until-)scopes (depth <= 3, <= 3 children each, volatile or delayed), bodies and children that '
        'sleep/raise (regular and privileged types)/return, cancels from inside and from a separate activity after t time units '
        'and k postponements, deadlines and flags on a coarse time grid, everything wrapped in handlers that log what they catch; '
        '(b) random valid whole-API programs (no usage errors); (c) the body or a sibling awaiting a child of the same scope that fails meanwhile; non-trivial = a scope was left with an exception')


def nontrivial(impl):
    return any(':sexit:' in e and e.split(':')[4].split(',')[2] == '1' for e in impl['events'])


def await_failing_child(rng):
    """the body of a scope, or a sibling, awaits a child of the same scope that fails meanwhile (also while the scope is already
    waiting for its children at the end of the block): the failure must come out once, as `Concurrent`, and the awaiting
    sibling is closed - it does not fail with the same exception a second time"""
    from fractions import Fraction as F
    d = rng.choice([F(1, 2), 1, 2])
    cls = rng.choice([0, 1, 2, 3, 4])
    body = [['spawn', 0, 0, None, None, False, ['prog', ['sleep', d], ['raise', cls]]]]
    for i in range(rng.randint(0, 2)):
        body.append(['spawn', 0, 1 + i, None, None, rng.random() < 0.2,
                     ['prog', ['sleep', rng.choice([0, F(1, 2)])], ['awaittask', 0], ['log', 60 + i]]])
    r = rng.random()
    if r < 0.5:
        body.append(['awaittask', 0])            # the body itself waits for the failing child
        body.append(['log', 70])
    elif r < 0.8:
        body.append(['sleep', rng.choice([0, F(1, 4)])])     # graceful end: the scope waits for its children
    else:
        body.append(['sleep', 5])
    main = ['prog', ['try', ['body', ['scope', 0, ['none']] + body], ['handler', ['pats', 'concurrent', 'anyException'], ['body', ['log', 20]]]],
            ['log', 21]]
    roots = [main]
    if rng.random() < 0.4:
        roots.append(['prog', ['sleep', rng.choice([F(1, 2), 1])], ['log', 80]])
    return ['scenario', ['debug', 1], ['start', 0], ['flags', 1], ['locks', 0], ['roots'] + roots]


SOURCES = [scopesuite.scope_tree, scopesuite.valid_scenario, await_failing_child]


def run(tier, seed, drv):
    # "promptly": when a scope fails, the rest of its children is aborted then and there - the containment judge
    # of C04 (nothing of a scope's tasks acts after the block was left) is evaluated on the same traces
    return msuite.standard_run(PID, 'C05', TAGS + ['log'], tier, seed, drv, SOURCES, nontrivial=nontrivial, rule=RULE,
                               n_quick=200, n_thorough=6000, judge_extra=[('C04', '')], optimized=100 if tier == 'quick' else 1000)


def replay(data, drv):
    return msuite.standard_replay(PID, 'C05', TAGS + ['log'], data, drv, judge_extra=[('C04', '')])
