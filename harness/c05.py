"""C05 - whole-machine suite over scope trees and random valid programs (see scopesuite.py)."""
import msuite
import scopesuite

PID = 'C05'
TAGS = ['sexit', 'caught', 'tfin', 'spawn']
RULE = ('(a) scope trees: nested (until-)scopes (depth <= 3, <= 3 children each, volatile or delayed), bodies and children that '
        'sleep/raise (regular and privileged types)/return, cancels from inside and from a separate activity after t time units '
        'and k postponements, deadlines and flags on a coarse time grid, everything wrapped in handlers that log what they catch; '
        '(b) random valid whole-API programs (no usage errors); non-trivial = a scope was left with an exception')


def nontrivial(impl):
    return any(':sexit:' in e and e.split(':')[4].split(',')[2] == '1' for e in impl['events'])


SOURCES = [scopesuite.scope_tree, scopesuite.valid_scenario]


def run(tier, seed, drv):
    # "promptly": when a scope fails, the rest of its children is aborted then and there - the containment judge
    # of C04 (nothing of a scope's tasks acts after the block was left) is evaluated on the same traces
    return msuite.standard_run(PID, 'C05', TAGS + ['log'], tier, seed, drv, SOURCES, nontrivial=nontrivial, rule=RULE,
                               n_quick=200, n_thorough=6000, judge_extra=[('C04', '')])


def replay(data, drv):
    return msuite.standard_replay(PID, 'C05', TAGS + ['log'], data, drv, judge_extra=[('C04', '')])
