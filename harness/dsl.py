"""The scenario language of the whole-machine model, interpreted on the *real* usim.

A scenario is a nested Python list mirroring the S-expression sent to the Lean driver:

    ['scenario', ['debug', 1], ['start', 0], ['flags', n], ['locks', n], ['roots', ['prog', stmt...], ...]]

`run_impl(scenario)` executes it with real coroutines calling the real public API and returns the
trace in exactly the format the Lean driver prints (`dsl.model_line` / `dsl.parse_reply`).
"""
import fractions
import gc
import os
import struct
import threading

from common import import_usim


def t2s(x, kind='rat'):
    if kind == 'float':
        return str(struct.unpack('<Q', struct.pack('<d', float(x)))[0])
    f = fractions.Fraction(x)
    return str(f.numerator) if f.denominator == 1 else '%d/%d' % (f.numerator, f.denominator)


TIME_POS = {'sleep': [1], 'after': [1], 'before': [1], 'moment': [1], 'delay': [1], 'start': [1],
            'transfer': [2, 3], 'interval': [1], 'delayiter': [1], 'nestedrun': [1], 'pipes': 'all',
            'till': [1], 'newtimeout': [2], 'yieldtimeout': [1], 'yieldcoro': [1], 'pyuntil': [1], 'pywith': [1], 'time': [1]}


def close_unstarted(coros):
    """coroutines the library never started would only produce 'never awaited' warnings; the ones
    it did start are left alone - whether they are stopped is what the checks observe"""
    import inspect
    for c in coros:
        if inspect.iscoroutine(c) and inspect.getcoroutinestate(c) == inspect.CORO_CREATED:
            c.close()


def tpair(x, kind='rat'):
    if kind == 'float':
        return [struct.unpack('<Q', struct.pack('<d', float(x)))[0], 0]
    f = fractions.Fraction(x)
    return [f.numerator, f.denominator]


def model_line(scenario, kind='rat'):
    # spawn: ['spawn', scope, task, after, at, vol, ['prog', ...]] - after/at are times or None
    def fix(x):
        if isinstance(x, list) and x and x[0] == 'spawn':
            after, at = x[3], x[4]
            return ['spawn', x[1], x[2], T(after), T(at), x[5], fix(x[6])]
        if isinstance(x, list):
            out = []
            for e in x:
                if isinstance(e, list) and e and e[0] in ('borrowlater', 'claimlater'):
                    # ['claimlater', res, amounts, bind, d, body...]: the context object is made, `d` passes, the block is entered.
                    # What the object promises is decided on entry, so for the machine this is `sleep d; claim ...`
                    out.append(['sleep', e[4]])
                    out.append(fix([e[0][:-5]] + e[1:4] + e[5:]))
                elif isinstance(e, list) and e and e[0] in ('intervallater', 'delayiterlater', 'intervalkept'):
                    # ['intervallater', period, n, d, body...]: the ticker object is made, `d` passes, the loop is entered. The grid
                    # starts where the iteration starts, so for the machine this is `sleep d; interval ...`
                    out.append(['sleep', e[3]])
                    out.append(fix([('interval' if e[0] == 'intervalkept' else e[0][:-5])] + e[1:3] + e[4:]))
                else:
                    out.append(fix(e))
            return out
        return x

    class T:
        def __init__(self, v):
            self.v = v

    def ser(x, head=None, pos=None):
        if isinstance(x, T):
            return 'none' if x.v is None else t2s(x.v, kind)
        if isinstance(x, list):
            h = x[0] if x and isinstance(x[0], str) else None
            return '(' + ' '.join(ser(el, h, i) for i, el in enumerate(x)) + ')'
        if x is None:
            return 'none'
        if isinstance(x, bool):
            return '1' if x else '0'
        if isinstance(x, str):
            # 'pinf' = an ordinary Pipe whose throughput is float('inf') (float runs only); 'inf' = UnboundedPipe
            return t2s(float('inf'), 'float') if x == 'pinf' else x
        if (head in TIME_POS and (TIME_POS[head] == 'all' or pos in TIME_POS[head])) \
                or isinstance(x, (fractions.Fraction, float)):
            return t2s(x, kind)
        return str(x)
    return 'mach %s %s' % (kind, ser(fix(scenario)))


def parse_reply(reply):
    trace, outcome, final, unfinished, obs = reply.split('|')
    events = [e for e in trace.split(';') if e]
    return {'events': events, 'outcome': outcome, 'final': final,
            'unfinished': sorted(int(x) for x in unfinished.split(',') if x), 'obs': obs}


# ------------------------------------------------------------------------------------------------
class _Ret(Exception):
    pass


class _Unbound(Exception):
    """a SimPy program used a variable that was never assigned"""


class Interp:
    def __init__(self, scenario, kind='rat'):
        self.usim = import_usim()
        self.kind = kind
        self.sc = scenario
        self.fields = {f[0]: f[1:] for f in scenario[1:]}
        self.events = []
        self.ended = False
        self.finished = set()
        self.labels = set()
        self.user_raises = 0
        self.task_count = 0
        from usim import Flag, Lock
        self.flags = [Flag() for _ in range(self.num('flags', 0))]
        self.locks = [Lock() for _ in range(self.num('locks', 0))]
        from usim import Queue, Channel, Tracked, Resources, Capacities, Pipe, UnboundedPipe
        self.queues = [Queue() for _ in range(self.num('queues', 0))]
        self.chans = [Channel() for _ in range(self.num('chans', 0))]
        self.tracked = [Tracked(int(v)) for v in self.fields.get('tracked', [])]
        self.res = {}
        for i, r in enumerate(self.fields.get('resources', [])):
            levels = {self.rname(j): int(v) for j, v in enumerate(r[2:])}
            self.res[i] = (Capacities if int(r[1]) else Resources)(**levels)
        self.pipes = [UnboundedPipe() if t == 'inf' else Pipe(float('inf')) if t == 'pinf' else Pipe(self.tv(t))
                      for t in self.fields.get('pipes', [])]
        self.scopes = {}
        self.tasks = {}
        self.task_index = {}
        self.task_by_label = {}
        self.nested_unfinished = set()
        self.put_count = 0
        self.chan_subs = {}
        self.on_emit = None
        self.pending_awaits = {}
        self.scope_insts = 0
        self.scope_inst_of = {}
        self.scope_tasks = {}
        self.started = set()

        class A(Exception):
            # a falsy exception object (an application error with `__len__`, say): nothing in the library may take the truth
            # value of an exception for "there is an exception"
            def __bool__(self):
                return False

        class B(A):
            pass
        self.classes = [A, B, KeyError, LookupError, IndexError, SystemExit, KeyboardInterrupt, AssertionError]

    def num(self, name, default):
        v = self.fields.get(name)
        return int(v[0]) if v else default

    @staticmethod
    def rname(j):
        return 'r%02d' % j

    def amounts(self, am):
        return {self.rname(j): int(v) for j, v in enumerate(am)}

    def tv(self, x):
        """time value as the implementation gets it"""
        if self.kind == 'float':
            return float(x)
        f = fractions.Fraction(x)
        return int(f) if f.denominator == 1 else f

    # -- observation -------------------------------------------------------------------------
    def loop(self):
        from usim._core.handler import __USIM_STATE__
        return __USIM_STATE__.loop

    def emit(self, label, tag, args=()):
        if self.on_emit is not None:
            self.on_emit()
        if self.ended or getattr(self, 'quiet', False):
            return
        lp = self.loop()
        self.events.append('%s:%d:%d:%s:%s' % (t2s(lp.time, self.kind), lp.turn, label, tag,
                                               ','.join(str(int(a)) for a in args)))

    def exn_code(self, e, nested=False):
        u = self.usim
        from usim._core.loop import Interrupt, ActivityLeak
        from usim._primitives.context import ScopeClosed
        from usim.py.exceptions import Interrupt as PyInterrupt, StopSimulation
        if isinstance(e, PyInterrupt):
            return [16, e.cause if isinstance(e.cause, int) else 0]
        if isinstance(e, StopSimulation):
            return [18]
        if isinstance(e, RuntimeError) and 'has already been triggered' in str(e):
            return [17]
        if isinstance(e, RuntimeError) and 'raised StopIteration' in str(e):
            return [19]
        if isinstance(e, _Unbound):
            return [21]
        if isinstance(e, u.Concurrent):
            if nested:
                return [3]
            out = [3]
            for c in e.children:
                out += self.exn_code(c, True)
            return out
        if isinstance(e, u.TaskCancelled):
            tok = e.args[0] if e.args else 0
            return [1, self.task_index.get(id(e.subject), -1), tok]
        if isinstance(e, u.TaskClosed):
            return [2, 1 if isinstance(e, u.VolatileTaskClosed) else 0]
        if hasattr(e, 'verif_label'):
            return [0, self.classes.index(type(e)), e.verif_label]
        if isinstance(e, u.StreamClosed):
            return [4]
        if isinstance(e, u.ResourcesUnavailable):
            return [5]
        if isinstance(e, u.IntervalExceeded):
            return [6]
        if isinstance(e, ScopeClosed):
            return [7]
        if isinstance(e, NotImplementedError):
            return [8]
        if isinstance(e, AssertionError):
            return [9]
        if isinstance(e, Interrupt):
            return [10]
        if isinstance(e, GeneratorExit):
            return [11]
        if isinstance(e, ValueError):
            return [12]
        if isinstance(e, ActivityLeak):
            return [13]
        if isinstance(e, RuntimeError) and 'cannot reuse' in str(e):
            return [14]
        if isinstance(e, RuntimeError) and 'ignored GeneratorExit' in str(e):
            return [15]
        return [99]

    # -- expressions -------------------------------------------------------------------------
    def cond(self, c):
        from usim import time, eternity, instant
        from usim._primitives.condition import All, Any
        h = c[0]
        if h == 'flag':
            return self.flags[c[1]]
        if h == 'after':
            return time >= self.tv(c[1])
        if h == 'before':
            return time < self.tv(c[1])
        if h == 'moment':
            return time == self.tv(c[1])
        if h == 'eternity':
            return type(eternity)()
        if h == 'instant':
            return type(instant)()
        if h == 'done':
            if c[1] not in self.tasks:
                raise NotImplementedError('unbound task name (scenario error)')
            return self.tasks[c[1]].done
        if h == 'ref':
            if c[1] not in getattr(self, 'named_conds', {}):
                raise NotImplementedError('unbound condition name (scenario error)')
            return self.named_conds[c[1]]
        if h == 'delay':
            return time + self.tv(c[1])
        if h == 'and':
            return self.cond(c[1]) & self.cond(c[2])
        if h == 'or':
            return self.cond(c[1]) | self.cond(c[2])
        if h == 'all':
            return All(*[self.cond(x) for x in c[1:]])
        if h == 'any':
            return Any(*[self.cond(x) for x in c[1:]])
        if h == 'inv':
            return ~self.cond(c[1])
        if h == 'tracked':
            import operator
            op = [operator.lt, operator.le, operator.eq, operator.ne, operator.ge, operator.gt][c[2]]
            return op(self.tracked[c[1]], c[3])
        if h == 'tracked2':
            import operator
            op = [operator.lt, operator.le, operator.eq, operator.ne, operator.ge, operator.gt][c[2]]
            return op(self.tracked[c[1]], self.tracked[c[3]])
        if h == 'reslevel':
            import operator
            op = [operator.lt, operator.le, operator.eq, operator.ne, operator.ge, operator.gt][c[2]]
            return op(self.res[c[1]], self.amounts(c[3]))
        raise ValueError(c)

    def pat_matches(self, p, e):
        u = self.usim
        from usim._primitives.context import ScopeClosed
        if isinstance(p, list) and p[0] == 'user':
            return isinstance(e, self.classes[p[1]])
        return isinstance(e, {'concurrent': u.Concurrent, 'taskCancelled': u.TaskCancelled,
                              'taskClosed': u.TaskClosed, 'streamClosed': u.StreamClosed,
                              'resUnavailable': u.ResourcesUnavailable, 'intervalExceeded': u.IntervalExceeded,
                              'scopeClosed': ScopeClosed, 'anyException': Exception, 'cancelTask': u.CancelTask}[p])

    # -- statements --------------------------------------------------------------------------
    async def block(self, label, stmts):
        for s in stmts:
            await self.stmt(label, s)

    async def stmt(self, label, s):
        from usim import time, Scope, until
        h = s[0]
        if h == 'log':
            self.emit(label, 'log', [s[1]])
        elif h == 'now':
            self.emit(label, 'now')
        elif h == 'sleep':
            self.emit(label, 'abegin', [0] + tpair(s[1], self.kind))
            await (time + self.tv(s[1]))
            self.emit(label, 'awaited', [1])
        elif h == 'logcond':
            c = self.cond(s[1])
            self.emit(label, 'alg', [1 if c else 0, 1 if self.eval_spec(s[1]) else 0])
        elif h == 'await':
            c = self.cond(s[1])
            k = {'after': 1, 'moment': 2, 'before': 3, 'eternity': 4, 'instant': 5}.get(s[1][0], 9)
            from usim._primitives.timing import Delay
            kept = getattr(self, 'named_defs', {}).get(s[1][1]) if s[1][0] == 'ref' else None
            if isinstance(c, Delay) and s[1][0] == 'ref':
                self.emit(label, 'abegin', [0] + tpair(c.duration, self.kind))      # (a kept `time + d` object: a delay from now)
            elif kept is not None and kept[0] in ('after', 'moment', 'before'):
                # (a kept `time >= d` / `time == d` / `time < d` object: judged like the expression itself)
                self.emit(label, 'abegin', [{'after': 1, 'moment': 2, 'before': 3}[kept[0]]] + tpair(kept[1], self.kind))
            else:
                self.emit(label, 'abegin', [k] + (tpair(s[1][1], self.kind) if k in (1, 2, 3) else [0, 1]))
            self.pending_awaits[label] = self.pending_awaits.get(label, []) + [c]
            try:
                await c
            finally:
                self.pending_awaits[label].pop()
            self.emit(label, 'awaited', [1 if c else 0])
        elif h == 'set':
            self.emit(label, 'setflag', [s[1], 1 if s[2] else 0])
            await self.flags[s[1]].set(bool(s[2]))
        elif h == 'scope':
            name, n, body = s[1], s[2], s[3:]
            if n[0] == 'none':
                sc = Scope()
            elif n[0] == 'cond':
                sc = until(self.cond(n[1]))
            else:
                sc = until(time + self.tv(n[1]))
            inst = [None]
            try:
                async with sc as scope:
                    self.scopes[name] = scope
                    inst[0] = self.scope_insts
                    self.scope_insts += 1
                    self.scope_inst_of[id(scope)] = inst[0]
                    self.scope_tasks[inst[0]] = []
                    self.emit(label, 'senter', [name, inst[0]] + self.until_desc(n))
                    await self.block(label, body)
            except BaseException:
                if inst[0] is not None:
                    self.emit(label, 'sexit', [name, inst[0], 1, self.not_done(inst[0])])
                raise
            else:
                self.emit(label, 'sexit', [name, inst[0], 0, self.not_done(inst[0])])
        elif h == 'spawn':
            _, scn, tkn, after, at, vol, prog = s
            scope = self.scopes.get(scn)
            if scope is None:
                self.emit(label, 'unbound')
                return
            holder = {}
            coro = self.task_body(holder, prog[1:])
            try:
                task = scope.do(coro, after=None if after is None else self.tv(after),
                                at=None if at is None else self.tv(at), volatile=bool(vol))
            except BaseException:
                coro.close()
                raise
            holder['label'] = 1000 + self.task_count
            self.labels.add(holder['label'])
            self.task_index[id(task)] = self.task_count
            self.task_count += 1
            self.tasks[tkn] = task
            si = self.scope_inst_of.get(id(scope), -1)
            self.scope_tasks.setdefault(si, []).append(task)
            when = ([1] + tpair(after, self.kind)) if (after is not None and self.tv(after) != 0) else \
                (([2] + tpair(at, self.kind)) if (at is not None and self.tv(at) != self.loop().time) else [0, 0, 1])
            self.emit(label, 'spawn', [si, holder['label'], 1 if vol else 0] + when)
            self.task_by_label[holder['label']] = task
            holder['task'] = task
        elif h == 'spawnplain':
            # ['spawnplain', scope, task, volatile, cexpr]: `scope.do(<awaitable>)` - the payload is a plain awaitable (a notification,
            # a condition), not a coroutine; it has no code of its own, so it logs nothing (judged only, the machine has no such task)
            _, scn, tkn, vol, cx = s
            scope = self.scopes.get(scn)
            if scope is None:
                self.emit(label, 'unbound')
                return
            task = scope.do(self.cond(cx), volatile=bool(vol))
            lbl = 1000 + self.task_count
            self.labels.add(lbl)
            self.task_index[id(task)] = self.task_count
            self.task_count += 1
            self.tasks[tkn] = task
            si = self.scope_inst_of.get(id(scope), -1)
            self.scope_tasks.setdefault(si, []).append(task)
            # (its own tag: a payload without code has no first turn, no `tfin` - the clauses about children's code do not apply)
            self.emit(label, 'spawnp', [si, lbl, 1 if vol else 0, 0, 0, 1])
            self.task_by_label[lbl] = task
        elif h == 'cancel':
            t = self.tasks.get(s[1])
            if t is None:
                self.emit(label, 'unbound')
            else:
                self.emit(label, 'cancel', [1000 + self.task_index[id(t)], t.status.value, s[2]])
                t.cancel(s[2])
        elif h == 'awaittask':
            t = self.tasks.get(s[1])
            if t is None:
                self.emit(label, 'unbound')
            else:
                self.pending_awaits[label] = self.pending_awaits.get(label, []) + [t.done]
                try:
                    v = await t
                finally:
                    self.pending_awaits[label].pop()
                self.emit(label, 'taskret', [1000 + self.task_index[id(t)], v if v is not None else 0])
        elif h == 'awaitscope':
            sc = self.scopes.get(s[1])
            if sc is None:
                self.emit(label, 'unbound')
            else:
                await sc
        elif h == 'status':
            t = self.tasks.get(s[1])
            if t is None:
                self.emit(label, 'unbound')
            else:
                self.emit(label, 'status', [1000 + self.task_index[id(t)], t.status.value])
        elif h == 'defcond':
            self.named_conds = getattr(self, 'named_conds', {})
            self.named_conds[s[1]] = self.cond(s[2])
            self.named_defs = getattr(self, 'named_defs', {})
            self.named_defs[s[1]] = s[2]
        elif h == 'raise':
            e = self.classes[s[1]]()
            e.verif_label = self.user_raises
            self.user_raises += 1
            raise e
        elif h == 'try':
            body, handlers = s[1][1:], s[2:]
            try:
                await self.block(label, body)
            except BaseException as e:    # noqa
                for hd in handlers:
                    pats, hbody = hd[1][1:], hd[2][1:]
                    if any(self.pat_matches(p, e) for p in pats):
                        self.emit(label, 'caught', self.exn_code(e))
                        await self.block(label, hbody)
                        break
                else:
                    raise
        elif h == 'finally':
            body, cleanup = s[1][1:], s[2][1:]
            try:
                await self.block(label, body)
            except BaseException as e:    # noqa
                self.emit(label, 'cleanup', [1] + self.exn_code(e, True))
                await self.block(label, cleanup)
                raise
            else:
                self.emit(label, 'cleanup', [0])
                await self.block(label, cleanup)
        elif h == 'ret':
            self.emit(label, 'ret', [s[1]])
            raise _Ret(s[1])
        elif h == 'lock':
            self.emit(label, 'lreq', [s[1]])
            async with self.locks[s[1]]:
                self.emit(label, 'lenter', [s[1]])
                try:
                    await self.block(label, s[2:])
                finally:
                    self.emit(label, 'lexit', [s[1]])
        elif h == 'avail':
            self.emit(label, 'avail', [s[1], 1 if self.locks[s[1]].available else 0])
        elif h == 'qput':
            item = s[2] * 1000 + self.put_count      # unique item values
            self.put_count += 1
            self.emit(label, 'putreq', [s[1], item])
            try:
                await self.queues[s[1]].put(item)
            except self.usim.StreamClosed:
                self.emit(label, 'putrej', [s[1], item])
                raise
        elif h == 'qget':
            self.emit(label, 'getreq', [s[1]])
            v = await self.queues[s[1]]
            self.emit(label, 'got', [v])
        elif h == 'qclose':
            self.emit(label, 'qclose', [s[1]])
            await self.queues[s[1]].close()
        elif h == 'qiter':
            n = 0
            if s[2] > 0:
                self.emit(label, 'getreq', [s[1]])
                async for v in self.queues[s[1]]:
                    self.emit(label, 'got', [v])
                    await self.block(label, s[3:])
                    n += 1
                    if n >= s[2]:
                        break
                    self.emit(label, 'getreq', [s[1]])     # (about to ask for the next item)
        elif h == 'cput':
            item = s[2] * 1000 + self.put_count
            self.put_count += 1
            self.emit(label, 'cputreq', [s[1], item])
            try:
                await self.chans[s[1]].put(item)
            except self.usim.StreamClosed:
                self.emit(label, 'cputrej', [s[1], item])
                raise
        elif h == 'cget':
            # every subscription of a channel gets a number (the order in which the channel registers them)
            if self.chans[s[1]]._closed:
                sid = -1
            else:
                sid = self.chan_subs.get(s[1], 0)
                self.chan_subs[s[1]] = sid + 1
            self.emit(label, 'csub', [s[1], 0, sid])
            v = await self.chans[s[1]]
            self.emit(label, 'got', [v, s[1], sid])
        elif h == 'cclose':
            self.emit(label, 'cclose', [s[1]])
            await self.chans[s[1]].close()
        elif h == 'citer':
            n = 0
            sid = self.chan_subs.get(s[1], 0)
            self.chan_subs[s[1]] = sid + 1
            self.emit(label, 'csub', [s[1], 1, sid])
            if s[2] > 0:
                # an abandoned iteration (break / exception) is finalised by CPython's reference
                # counting; when exactly the consumer's buffer disappears is not observable
                async for v in self.chans[s[1]]:
                    self.emit(label, 'got', [v, s[1], sid])
                    await self.block(label, s[3:])
                    n += 1
                    if n >= s[2]:
                        self.emit(label, 'cleave', [s[1], sid])
                        break
                    self.emit(label, 'cnext', [s[1], sid])     # (about to ask for the next message)
                else:
                    self.emit(label, 'cend', [s[1], sid])
            else:
                self.emit(label, 'cleave', [s[1], sid])
        elif h == 'settracked':
            await self.tracked[s[1]].set(s[2])
        elif h == 'addtracked':
            await (self.tracked[s[1]] + s[2])
        elif h in ('borrowlater', 'claimlater'):
            r = self.res.get(s[1])
            made = None
            if r is not None:
                made = (r.borrow if h == 'borrowlater' else r.claim)(**self.amounts(s[2]))
            await self.stmt(label, ['sleep', s[4]])
            self._premade = made
            await self.stmt(label, [h[:-5]] + list(s[1:4]) + list(s[5:]))
        elif h in ('borrow', 'claim'):
            premade, self._premade = getattr(self, '_premade', None), None
            self.emit(label, 'breq', [s[1], 1 if h == 'claim' else 0] + list(s[2]))
            r = self.res.get(s[1])
            if r is None:
                self.emit(label, 'unbound')
                self.emit(label, 'bexit', [s[1], 0])
                return
            try:
                cm = premade if premade is not None else (r.borrow if h == 'borrow' else r.claim)(**self.amounts(s[2]))
                self.res[s[3]] = cm
                async with cm:
                    self.emit(label, 'benter', list(s[2]))
                    try:
                        await self.block(label, s[4:])
                    except BaseException:
                        self.emit(label, 'bbody', [1])
                        raise
                    else:
                        self.emit(label, 'bbody', [0])
            except BaseException:
                self.emit(label, 'bexit', [s[1], 1])
                raise
            else:
                self.emit(label, 'bexit', [s[1], 0])
        elif h == 'reschange':
            r = self.res.get(s[1])
            if r is None:
                self.emit(label, 'unbound')
                return
            self.emit(label, 'reschange', [s[1], s[2]] + list(s[3]))
            try:
                if s[2] == 0:
                    await r.increase(**self.amounts(s[3]))
                elif s[2] == 1:
                    await r.decrease(**self.amounts(s[3]))
                else:
                    await r.set(**{k: v for k, v in self.amounts(s[3]).items() if v != -1})
            except AssertionError:
                self.emit(label, 'resrej', [s[1]])       # (refused: negative amounts, or more than there is)
                raise
        elif h == 'respool':
            # a throw-away supply whose names are spelled in the given order; what is observed is the order in which
            # its levels iterate (positions in the sorted list of names)
            from usim import Resources
            names = sorted(self.rname(j) for j in s[1:])
            pool = Resources(**{self.rname(j): 1 for j in s[1:]})
            self.emit(label, 'lvorder', [names.index(n) for n, _ in pool.levels])
            del pool
        elif h == 'levels':
            r = self.res.get(s[1])
            if r is None:
                self.emit(label, 'unbound')
            else:
                self.emit(label, 'levels', [v for _, v in r.levels])
        elif h == 'transfer':
            self.emit(label, 'tstart', [s[1], 0 if s[3] is None else 1] + tpair(s[2], self.kind)
                      + ([0, 1] if s[3] is None else tpair(s[3], self.kind)))
            try:
                await self.pipes[s[1]].transfer(self.tv(s[2]), None if s[3] is None else self.tv(s[3]))
            except BaseException:
                self.emit(label, 'tabort', [s[1]])
                raise
            else:
                self.emit(label, 'tdone', [s[1]])
        elif h in ('intervallater', 'delayiterlater', 'intervalkept'):
            from usim import interval, delay
            made = None
            if s[2] > 0:
                made = (delay if h == 'delayiterlater' else interval)(self.tv(s[1]))
            if h == 'intervalkept':
                # the program keeps the ticker object somewhere else as well (a list, an attribute): it is not garbage when its loop is abandoned
                self.__dict__.setdefault('kept_tickers', []).append(made)
            await self.stmt(label, ['sleep', s[3]])
            self._premade_ticker = made
            await self.stmt(label, ['interval' if h == 'intervalkept' else h[:-5], s[1], s[2]] + list(s[4:]))
        elif h in ('interval', 'delayiter'):
            from usim import interval, delay
            premade, self._premade_ticker = getattr(self, '_premade_ticker', None), None
            n = 0
            self.emit(label, 'tbegin', [1 if h == 'interval' else 0] + tpair(s[1], self.kind) + [s[2]])
            if s[2] > 0:
                async for _now in (premade if premade is not None else (interval if h == 'interval' else delay)(self.tv(s[1]))):
                    self.emit(label, 'tick')
                    await self.block(label, s[3:])
                    self.emit(label, 'tbodyend')
                    n += 1
                    if n >= s[2]:
                        break
            elif self.tv(s[1]) < 0:
                raise ValueError('period must not be negative')
            self.emit(label, 'tend')     # the loop was left without an exception
        elif h == 'collect':
            from usim import collect
            holders = [{} for _ in s[1:]]
            # (an activity ['plain', cexpr] is a plain awaitable - `collect(time + 20, work())` -: no code of its own, judged only)
            coros = [self.cond(pr[1]) if pr[0] == 'plain' else self.task_body(hd, pr[1:]) for hd, pr in zip(holders, s[1:])]
            # collect() spawns the activities in argument order inside its own scope: labels follow
            base = self.task_count
            self.emit(label, 'cbegin', [len(holders), 1000 + base])
            for i, hd in enumerate(holders):
                hd['label'] = 1000 + base + i
            self.pending_collect = (base, len(holders), holders)
            results = await self.collect_call(collect, coros, holders)
            if not isinstance(results, (list, tuple)):
                # (collect() must return the list of results; anything else is reported as the impossible result -777777)
                results = [-777777]
            self.emit(label, 'collected', [0 if v is None else v for v in results])
        elif h == 'pyuntil':
            # ['pyuntil', t0, None | ['time', t] | ['event', x], ['setup', instr...]]
            env = self.py_env()
            u = s[2]
            self.emit(label, 'pyuntil', ([0, 0, 1] if u is None else (([1] + tpair(u[1], self.kind)) if u[0] == 'time' else [2, u[1], 1]))
                      + tpair(s[1], self.kind))
            for ins in s[3][1:]:
                self.py_instr(label, ins)
            await env.until(None if u is None else (self.tv(u[1]) if u[0] == 'time' else self.py_var(u[1])))
            self.emit(label, 'pydone')
        elif h == 'pywith':
            env = self.py_env()
            self.emit(label, 'pyuntil', [3, 0, 1] + tpair(s[1], self.kind))
            for ins in s[2][1:]:
                self.py_instr(label, ins)
            async with env:
                await self.block(label, s[3:])
            self.emit(label, 'pydone')
        elif h == 'pydo':
            self.py_instr(label, s[1])
        elif h == 'pyawait':
            ev = self.py_var(s[1])
            try:
                v = await ev
            except BaseException as e:    # noqa
                if ev._value is not None and ev._value[1] is e:
                    self.emit(label, 'pygot', [1] + self.exn_code(e, True))
                else:
                    raise
            else:
                self.emit(label, 'pygot', self.py_value_code(v))
        elif h == 'first':
            # ['first', count|None, break_after|None, ['progs', prog...], body...]
            from usim import first
            count, brk, progs, body = s[1], s[2], s[3][1:], s[4:]
            n = len(progs)
            cnt = n if count is None else count
            self.emit(label, 'fbegin', [n, cnt, -1 if brk is None else brk, -1 if cnt > n else 1000 + self.task_count])
            holders = [{} for _ in progs]
            coros = [self.task_body(hd, pr[1:]) for hd, pr in zip(holders, progs)]
            if cnt <= n:
                # first() spawns one monitor task per activity, in argument order, when the
                # iteration starts
                base = self.task_count
                self.task_count += n
                for i, hd in enumerate(holders):
                    hd['label'] = 1000 + base + i
                    self.labels.add(hd['label'])
            k = 0
            try:
                async for winner in first(*coros, count=count):
                    self.emit(label, 'got', [0 if winner is None else winner])
                    await self.block(label, body)
                    k += 1
                    if brk is not None and k >= brk:
                        break
            except BaseException:
                # (the abandoned generator has been finalised by now: the loop's iterator is gone)
                self.emit(label, 'fabort')
                raise
            finally:
                close_unstarted(coros)
            self.emit(label, 'fend')
        elif h == 'nestedrun':
            from usim import run
            progs = s[2:]
            base = 10000 + self.nested_base()
            inner = [self.root(base + i, p[1:]) for i, p in enumerate(progs)]
            self.labels |= {base + i for i in range(len(progs))}
            before = (self.labels & self.started) - self.finished
            try:
                run(*inner, start=self.tv(s[1]))
            finally:
                stuck = ((self.labels & self.started) - self.finished) - before
                self.nested_unfinished |= stuck
                # leftovers of the inner simulation are finalised here (CPython would do it at some
                # later garbage collection); nothing they do while being torn down is an observation
                self.quiet = True
                try:
                    for c in inner:
                        try:
                            c.close()
                        except BaseException:   # noqa
                            pass
                finally:
                    self.quiet = False
        else:
            raise ValueError('unknown statement %r' % (s,))

    # -- usim.py ------------------------------------------------------------------------------
    def py_env(self):
        if getattr(self, '_py_env', None) is None:
            from usim.py import Environment
            from usim.py.core import EnvironmentScope
            interp = self

            class CountingScope(EnvironmentScope):
                """every coroutine the environment schedules becomes a task: keep the task numbering in step"""
                def do(inner, payload, *, after=None, at=None, volatile=False):
                    task = super().do(payload, after=after, at=at, volatile=volatile)
                    interp.task_count += 1
                    return task
            t0 = 0
            for st in self.all_statements():
                if st[0] in ('pyuntil', 'pywith'):
                    t0 = st[1]
                    break
            env = Environment(initial_time=self.tv(t0))
            env._scope = CountingScope()
            self._py_env = env
            self.py_vars = {}
            self.py_events = []
            self.py_index = {}
            self.py_procidx = {}
            self.py_nprocs = 0
        return self._py_env

    def all_statements(self):
        def walk(x):
            if isinstance(x, list):
                if x and isinstance(x[0], str):
                    yield x
                for e in x:
                    yield from walk(e)
        for r in self.fields.get('roots', []):
            yield from walk(r)

    def py_var(self, x):
        self.py_env()
        if x not in self.py_vars:
            raise _Unbound(x)
        return self.py_vars[x]

    def py_register(self, x, ev):
        self.py_index[id(ev)] = len(self.py_events)
        self.py_events.append(ev)
        if x is not None:
            self.py_vars[x] = ev
        return ev

    def py_create(self, lbl, x, desc, make):
        """create an event and log its creation (constructors log nothing themselves)"""
        idx = len(self.py_events)
        ev = make()
        self.py_register(x, ev)
        if desc[0] == 2:
            self.py_procidx[id(ev)] = desc[1]
        self.emit(lbl, 'pynew', [idx, -1 if x is None else x] + desc)
        return ev

    def py_value_code(self, v):
        from usim.py.events import ConditionValue
        if isinstance(v, ConditionValue):
            return [2] + [self.py_index.get(id(e), -1) for e in v.events]
        if v is None:
            return [0, -9]
        if isinstance(v, bool):
            return [0, int(v)]
        if isinstance(v, int):
            return [0, v]
        return [0, -7]

    def py_instr(self, lbl, ins):
        """one synchronous SimPy API call"""
        env = self.py_env()
        h = ins[0]
        if h == 'plog':
            self.emit(lbl, 'log', [ins[1]])
        elif h == 'newevent':
            self.py_create(lbl, ins[1], [0], env.event)
        elif h == 'newtimeout':
            self.py_create(lbl, ins[1], [1] + tpair(ins[2], self.kind) + [ins[3]], lambda: env.timeout(self.tv(ins[2]), ins[3]))
        elif h == 'newproc':
            p = self.py_nprocs
            self.py_nprocs += 1
            gen = self.py_gen(p, ins[2][1:])
            self.py_create(lbl, ins[1], [2, p], lambda: env.process(gen))
        elif h == 'newcond':
            members = [self.py_var(m) for m in ins[3][1:]]
            self.py_create(lbl, ins[1], [3 if ins[2] == 'all' else 4] + [self.py_index[id(m)] for m in members],
                           lambda: (env.all_of if ins[2] == 'all' else env.any_of)(members))
        elif h == 'succeed':
            ev = self.py_var(ins[1])
            try:
                ev.succeed(ins[2])
            except RuntimeError as e:
                if 'has already been triggered' not in str(e):
                    raise
                self.emit(lbl, 'twice', [ins[1]])
            else:
                self.emit(lbl, 'pytrig', [self.py_index[id(ev)], 1, ins[2]])
        elif h == 'fail':
            ev = self.py_var(ins[1])
            if ev._value is not None:
                try:
                    ev.fail(KeyError())
                except RuntimeError:
                    self.emit(lbl, 'twice', [ins[1]])
                return
            e = self.classes[ins[2]]()
            e.verif_label = self.user_raises
            self.user_raises += 1
            ev.fail(e)
            self.emit(lbl, 'pytrig', [self.py_index[id(ev)], 0] + self.exn_code(e, True))
        elif h == 'trigger':
            ev, src = self.py_var(ins[1]), self.py_var(ins[2])
            ev.trigger(src)
        elif h == 'interrupt':
            ev = self.py_var(ins[1])
            if not hasattr(ev, 'interrupt'):
                raise _Unbound(ins[1])
            ev.interrupt(ins[2])
            self.emit(lbl, 'pyintr', [self.py_procidx[id(ev)], ins[2]])
        elif h == 'addcb':
            ev = self.py_var(ins[1])
            idx = self.py_index[id(ev)]
            if ev.callbacks is not None:
                ev.callbacks.append(lambda _e, k=ins[2], idx=idx: self.emit(4000 + idx, 'cb', [k]))
                self.emit(lbl, 'addcb', [idx, ins[2]])
            else:
                self.emit(lbl, 'latecb', [ins[1], ins[2]])
        elif h == 'probe':
            ev = self.py_var(ins[1])
            if ev._value is None:
                code = [3]
            elif ev._value[1] is not None:
                code = [1] + self.exn_code(ev._value[1], True)
            else:
                code = self.py_value_code(ev._value[0])
            self.emit(lbl, 'pystate', [ins[1], int(ev.triggered), int(ev.processed), int(ev.ok)] + code)
        else:
            raise ValueError('unknown SimPy instruction %r' % (ins,))

    async def py_coro(self, d, v, fail):
        """a native activity: takes `d`, then returns `v` (`0`, `False` .. are results like any other) or fails"""
        from usim import time
        await (time + self.tv(d))
        if fail is not None:
            e = self.classes[fail]()
            e.verif_label = self.user_raises
            self.user_raises += 1
            raise e
        return v

    def py_gen(self, p, code):
        """the generator of SimPy process number `p`; how it ends is logged"""
        lbl = 5000 + p
        try:
            v = yield from self.py_gen_body(p, code)
        except GeneratorExit:
            raise
        except BaseException as e:    # noqa
            self.emit(lbl, 'pyend', [1] + self.exn_code(e, True))
            raise
        else:
            self.emit(lbl, 'pyend', [0, -9 if v is None else v])
            return v

    def py_gen_body(self, p, code):
        lbl = 5000 + p
        env = self.py_env()
        step = 0
        for ins in code:
            h = ins[0]
            if h in ('yield', 'yieldtimeout', 'yieldnative', 'yieldcoro'):
                if h == 'yield':
                    target = self.py_var(ins[1])
                elif h == 'yieldtimeout':
                    target = self.py_create(lbl, None, [1] + tpair(ins[1], self.kind) + [ins[2]], lambda: env.timeout(self.tv(ins[1]), ins[2]))
                elif h == 'yieldcoro':
                    target = self.py_coro(ins[1], ins[2], ins[3])
                else:
                    n = ins[1]
                    from usim import time
                    target = (time + self.tv(n[1])) if n[0] == 'delay' else self.cond(n[1])
                step += 1
                if h == 'yieldcoro':
                    self.emit(lbl, 'pyyield', [step, -2, ins[2], 0 if ins[3] is None else 1] + tpair(ins[1], self.kind))
                else:
                    self.emit(lbl, 'pyyield', [step, self.py_index.get(id(target), -1), 0, 0])
                try:
                    r = yield target
                except GeneratorExit:
                    raise
                except BaseException as e:    # noqa
                    self.emit(lbl, 'recv', [step, 1] + self.exn_code(e, True))
                    if not ins[-1]:
                        raise
                else:
                    self.emit(lbl, 'recv', [step] + self.py_value_code(r))
            elif h == 'pret':
                return ins[1]
            elif h == 'praise':
                e = self.classes[ins[1]]()
                e.verif_label = self.user_raises
                self.user_raises += 1
                raise e
            else:
                self.py_instr(lbl, ins)

    async def collect_call(self, collect, coros, holders):
        # register the tasks that collect() creates (in order) by watching the task counter
        base = self.task_count
        self.task_count += len(coros)
        for i, hd in enumerate(holders):
            self.labels.add(hd['label'])
        try:
            return await collect(*coros)
        finally:
            close_unstarted(coros)
            _ = base

    def until_desc(self, n):
        if n[0] == 'none':
            return [0, 0, 1]
        if n[0] == 'delay':
            return [1] + tpair(n[1], self.kind)
        c = n[1]
        if c[0] in ('after', 'moment', 'before'):
            return [{'after': 2, 'moment': 3, 'before': 4}[c[0]]] + tpair(c[1], self.kind)
        if c[0] == 'flag':
            return [5, c[1], 1]
        if c[0] == 'inv' and c[1][0] == 'flag':
            return [6, c[1][1], 1]
        if c[0] in ('any', 'all') and len(c) == 3 and c[1][0] == 'flag' and c[2][0] == 'flag':
            return [7 if c[0] == 'any' else 8, c[1][1], c[2][1]]
        return [9, 0, 1]

    def not_done(self, inst):
        return sum(1 for t in self.scope_tasks.get(inst, []) if not t.done)

    def eval_spec(self, c):
        """boolean-algebra reading: atoms by their own truth, &,|,~ as and/or/not"""
        h = c[0]
        if h == 'all':
            return all(self.eval_spec(x) for x in c[1:])
        if h == 'any':
            return any(self.eval_spec(x) for x in c[1:])
        if h == 'inv':
            return not self.eval_spec(c[1])
        if h in ('and', 'or'):
            a, b = self.eval_spec(c[1]), self.eval_spec(c[2])
            return (a and b) if h == 'and' else (a or b)
        if h == 'ref' and c[1] in getattr(self, 'named_defs', {}) and self.named_defs[c[1]][0] != 'delay':
            # a condition kept in a variable means what its defining expression means - whatever happened to the object
            return self.eval_spec(self.named_defs[c[1]])
        return bool(self.cond(c))

    def order_of(self, label):
        # the model lists activities in creation order: roots, then tasks by id, nested roots
        return label

    def nested_base(self):
        self.nested_count = getattr(self, 'nested_count', 0)
        self.nested_count += 1
        return 100 * (self.nested_count - 1)

    async def task_body(self, holder, prog):
        # (the label is known once Scope.do returned; the payload only starts later)
        self.started.add(holder.get('label'))
        from usim import CancelTask
        try:
            try:
                await self.block_l(holder, prog)
            except _Ret as r:
                self.emit(holder['label'], 'tfin', [0])
                return r.args[0]
            except CancelTask:
                self.emit(holder['label'], 'tfin', [1])
                raise
            except GeneratorExit:
                self.emit(holder['label'], 'tfin', [2])
                raise
            except BaseException as e:   # noqa
                self.emit(holder['label'], 'tfin', [3] + self.exn_code(e, True))
                raise
            else:
                self.emit(holder['label'], 'tfin', [0])
        finally:
            if 'label' in holder:
                self.finished.add(holder['label'])

    async def block_l(self, holder, prog):
        for s in prog:
            await self.stmt(holder['label'], s)

    async def root(self, i, prog):
        self.started.add(i)
        try:
            try:
                await self.block(i, prog)
            except _Ret as r:
                return r.args[0]
            except GeneratorExit:
                raise
            except BaseException as e:
                # what escapes a root activity is what run() has to report (with `till`, roots are tasks of a hidden scope)
                if self.fields.get('till', [None])[0] is None:
                    self.emit(i, 'rootexc', self.exn_code(e))
                raise
        finally:
            self.finished.add(i)

    # -- run ---------------------------------------------------------------------------------
    def run(self, max_activations=200000):
        from usim._core.loop import Loop
        roots = [r[1:] for r in self.fields.get('roots', [])]
        start = self.tv(self.fields.get('start', [0])[0])
        coros = [self.root(i, p) for i, p in enumerate(roots)]
        self.labels |= set(range(len(roots)))

        class TooLong(BaseException):
            pass

        created = []

        class GuardedLoop(Loop):
            """the real loop plus a bound on the number of activations (a livelock must not hang the check)"""
            __slots__ = ('verif_count',)

            def __init__(self, *a, **k):
                Loop.__init__(self, *a, **k)
                self.verif_count = 0
                created.append(self)

            def _run_coroutine(self, target, signal=None):
                self.verif_count += 1
                if self.verif_count > max_activations:
                    raise TooLong()
                return Loop._run_coroutine(self, target, signal)

        # the simulation is started by the real `usim.run` (with `till` if the scenario has one); only the loop class
        # it instantiates is the guarded subclass
        import usim as _usim
        till = self.fields.get('till', [None])[0]
        if till is not None:
            # run(till=..) turns every root activity into a task of a hidden scope: they take the first task numbers
            self.task_count += len(roots)
        outcome = 'ok'
        # a wall-clock bound as well: code that spins inside one activation must not hang the check either
        import signal
        import threading
        armed = False
        if threading.current_thread() is threading.main_thread() and hasattr(signal, 'setitimer'):
            def on_alarm(_sig, _frm):
                raise TooLong()
            previous = signal.signal(signal.SIGALRM, on_alarm)
            signal.setitimer(signal.ITIMER_REAL, float(os.environ.get('VERIF_CASE_SECONDS', '20')))
            armed = True
        _install_loop_dispatch()
        _TL.cls = GuardedLoop
        try:
            _usim.run(*coros, start=start, till=None if till is None else self.tv(till))
        except TooLong:
            outcome = 'out-of-fuel'
        except BaseException as e:    # noqa
            outcome = 'crash ' + ','.join(str(x) for x in self.exn_code(e))
            if os.environ.get('VERIF_TRACEBACK'):
                import traceback
                traceback.print_exc()
        finally:
            _TL.cls = None
            if armed:
                signal.setitimer(signal.ITIMER_REAL, 0)
                signal.signal(signal.SIGALRM, previous)
        loop = created[0]
        if outcome == 'ok':
            # waiters whose condition holds although nothing will wake them any more
            from usim._core.handler import __USIM_STATE__
            from usim._primitives.timing import Delay as _Delay
            with __USIM_STATE__.assign(loop):
                for lb in sorted(self.pending_awaits, key=lambda x: (self.order_of(x))):
                    for c in self.pending_awaits[lb]:
                        if c and not isinstance(c, _Delay):
                            self.events.append('%s:%d:%d:stuck:' % (t2s(loop.time, self.kind), loop.turn, lb))
        self.ended = True
        nl = self.num('locks', 0)
        # afterwards this thread sees no simulation: `time.now` must raise
        try:
            from usim import time as _time
            _time.now
            visible = 1
        except RuntimeError:
            visible = 0
        obs = 'locks=%s/levels=%s/queues=%s/visible=%d' % (
            ','.join('1' if lk._owner is None else '0' for lk in self.locks[:nl]),
            ';'.join(','.join(str(v) for _, v in self.res[i].levels) for i in range(len(self.fields.get('resources', [])))),
            ','.join(str(len(q._buffer)) for q in self.queues), visible)
        # unfinished = activities whose own code started but has not ended
        unfinished = sorted(((self.labels & self.started) - self.finished) | self.nested_unfinished)
        result = {'events': self.events, 'outcome': outcome, 'final': t2s(loop.time, self.kind),
                  'unfinished': unfinished, 'activations': loop.verif_count, 'obs': obs}
        # finalise leftovers now (inside no loop; nothing is recorded any more)
        for c in coros:
            try:
                c.close()
            except BaseException:   # noqa
                pass
        # Leftover tasks/coroutines are finalised by the garbage collector; do it *now*, while no
        # simulation is active - otherwise `Task.__del__` may run during a later scenario and
        # schedule a dead coroutine in that scenario's loop.
        del coros, loop
        self.tasks.clear()
        self.scopes.clear()
        self.task_by_label.clear()
        gc.collect()
        return result


#: the loop class `usim.run` instantiates in this thread (scenarios may run in several threads at once)
_TL = threading.local()
_DISPATCH_LOCK = threading.Lock()
_REAL_LOOP = None


def _install_loop_dispatch():
    """`usim._Loop` (the only name `usim.run` reads the loop class from) becomes a per-thread dispatcher, once"""
    global _REAL_LOOP
    import usim as _usim
    with _DISPATCH_LOCK:
        if _REAL_LOOP is None:
            _REAL_LOOP = _usim._Loop

            def make(*a, **k):
                return (getattr(_TL, 'cls', None) or _REAL_LOOP)(*a, **k)
            _usim._Loop = make


def run_impl(scenario, kind='rat', on_emit=None):
    it = Interp(scenario, kind)
    it.on_emit = on_emit
    return it.run()
