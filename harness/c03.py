"""C03 - whole-machine suite over scope trees and random valid programs (see scopesuite.py)."""
import json

import msuite
import scopesuite

PID = 'C03'
TAGS = ['caught', 'tfin', 'sexit']
RULE = ('(a) scope trees: nested (until-)scopes (depth <= 3, <= 3 children each, volatile or delayed), bodies and children that '
        'sleep/raise (regular and privileged types)/return, cancels from inside and from a separate activity after t time units '
        'and k postponements, deadlines and flags on a coarse time grid, everything wrapped in handlers that log what they catch; '
        '(b) random valid whole-API programs (no usage errors); (c) the program families of the lock, queue, channel, resource, condition and collect/first properties (several readers / contenders / consumers racing in one time step); non-trivial = at least one task was cancelled/closed or a scope was interrupted')


def nontrivial(impl):
    return any(':tfin:1' in e or ':tfin:2' in e or ':sexit:' in e for e in impl['events']) or len(impl['events']) >= 12


def _api_families():
    # "every program that only makes valid API calls": the program families of the other native-API properties as well
    # (not c14.family: it passes negative periods on purpose, a usage error; c16.family with its counts cut to what is valid)
    import c08, c09, c10, c11, c12
    def strip(x):
        # (a `decrease` / `set` below what is lent out trips a usage assertion: not a valid program)
        if isinstance(x, list):
            return [strip(e) for e in x if not (isinstance(e, list) and e and e[0] == 'reschange')]
        return x
    def flows(rng):
        # collect() / first() programs with valid counts (c16.family also asks for more results than there are activities)
        import c16

        def fix(x):
            if isinstance(x, list):
                if x and x[0] == 'first' and x[1] is not None:
                    x = [x[0], min(x[1], len(x[3]) - 1)] + x[2:]
                return [fix(e) for e in x]
            return x
        return fix(c16.family(rng))
    return [c09.family, c10.family, c10.close_race, c10.handover_race, c11.family, c11.nested, lambda rng: strip(c12.family(rng)),
            c08.cond_family, flows]


_API = _api_families()
_api_turn = [0]


def api_program(rng):
    _api_turn[0] += 1
    return _API[_api_turn[0] % len(_API)](rng)


SOURCES = [scopesuite.scope_tree, scopesuite.valid_scenario, api_program]


def refine(msg, impl, model, sc):
    """F14: `async for .. in first(..)` whose consumer is suspended in its loop body at the moment at which one of the
    activities fails: the private interrupt of first()'s own scope is raised in the consumer's body"""
    import re
    evs = [e.split(':') for e in impl['events']]
    hit = False
    for i, e in enumerate(evs):
        if e[3] != 'fbegin':
            continue
        a = [int(v) for v in e[4].split(',')]
        n, base, me = a[0], a[3], e[2]
        acts = {str(base + k) for k in range(n)}
        # the consumer's own events from the call to the moment the iteration is torn down (`fabort`)
        mine = []
        for x in evs[i + 1:]:
            if x[2] == me:
                if x[3] in ('fabort', 'fend'):
                    break
                mine.append(x)
        failed = any(f[2] in acts and f[3] == 'tfin' and f[4].startswith('3') for f in evs[i + 1:])
        if failed and mine and any(x[3] == 'got' for x in mine) and \
                mine[-1][3] in ('abegin', 'lreq', 'getreq', 'breq', 'csub', 'senter', 'spawn', 'putreq', 'cputreq'):
            hit = True
    codes = {int(v) for v in re.findall(r'-?\d+', msg.split(':')[-1])} if ':' in msg else set()
    return {'first_consumer_suspended_when_activity_failed': hit,
            'only_the_signal_and_the_assertion_it_trips': bool(codes) and codes <= {3, 9, 10},
            'as_modelled': model is not None and model['events'] == impl['events'] and model['outcome'] == impl['outcome'],
            'ticker_kept_alive_elsewhere': 'intervalkept' in json.dumps(sc, default=str)}


#: known finding F14: first() over three activities, the second fails at 2 while the consumer sleeps in its loop body
F14_PROBE = ['scenario', ['debug', 1], ['start', 0], ['flags', 1], ['locks', 0],
             ['roots', ['prog', ['first', 3, None, ['progs', ['prog', ['sleep', 1], ['ret', 11]], ['prog', ['sleep', 2], ['raise', 2]],
                                                  ['prog', ['sleep', 3], ['log', 6], ['ret', 13]]], ['sleep', 5]], ['log', 2], ['sleep', 3]]]]


#: known finding F21: a ticker object that the program also keeps elsewhere, in a volatile child that is closed while it waits for a tick
F21_PROBE = ['scenario', ['debug', 1], ['start', 0], ['flags', 1], ['locks', 0],
             ['roots', ['prog', ['scope', 0, ['none'], ['spawn', 0, 0, None, None, True, ['prog', ['intervalkept', 2, 5, 0, ['sleep', 1]]]],
                                 ['sleep', 3]], ['log', 2], ['sleep', 5], ['log', 3]]]]


def run(tier, seed, drv):
    return msuite.standard_run(PID, 'C03', TAGS, tier, seed, drv, SOURCES, nontrivial=nontrivial, rule=RULE,
                               n_quick=200, n_thorough=6000, refine=refine, probes=[('F14', F14_PROBE), ('F21', F21_PROBE, False)], optimized=100 if tier == 'quick' else 1000)


def replay(data, drv):
    return msuite.standard_replay(PID, 'C03', TAGS, data, drv, refine=refine)
