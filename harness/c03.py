"""C03 - whole-machine suite over scope trees and random valid programs (see scopesuite.py)."""
import msuite
import scopesuite

PID = 'C03'
TAGS = ['caught', 'tfin', 'sexit']
RULE = ('(a) scope trees: nested (until-)scopes (depth <= 3, <= 3 children each, volatile or delayed), bodies and children that '
        'sleep/raise (regular and privileged types)/return, cancels from inside and from a separate activity after t time units '
        'and k postponements, deadlines and flags on a coarse time grid, everything wrapped in handlers that log what they catch; '
        '(b) random valid whole-API programs (no usage errors); non-trivial = at least one task was cancelled/closed or a scope was interrupted')


def nontrivial(impl):
    return any(':tfin:1' in e or ':tfin:2' in e or ':sexit:' in e for e in impl['events'])


SOURCES = [scopesuite.scope_tree, scopesuite.valid_scenario]


def run(tier, seed, drv):
    return msuite.standard_run(PID, 'C03', TAGS, tier, seed, drv, SOURCES, nontrivial=nontrivial, rule=RULE,
                               n_quick=200, n_thorough=6000)


def replay(data, drv):
    return msuite.standard_replay(PID, 'C03', TAGS, data, drv)
