"""C04 - whole-machine suite over scope trees and random valid programs (see scopesuite.py)."""
import msuite
import scopesuite

PID = 'C04'
TAGS = ['senter', 'sexit', 'spawn', 'tfin', 'log']
RULE = ('(a) scope trees: nested (until-)scopes (depth <= 3, <= 3 children each, volatile or delayed), bodies and children that '
        'sleep/raise (regular and privileged types)/return, cancels from inside and from a separate activity after t time units '
        'and k postponements, deadlines and flags on a coarse time grid, everything wrapped in handlers that log what they catch; '
        '(b) random valid whole-API programs (no usage errors); non-trivial = a scope with at least 2 children was left')


def late_spawn_ref(rng):
    return late_spawn(rng)


def nontrivial(impl):
    return sum(1 for e in impl['events'] if ':spawn:' in e) >= 2 and any(':sexit:' in e for e in impl['events'])


SOURCES = [scopesuite.scope_tree, scopesuite.valid_scenario, scopesuite.scope_tree, scopesuite.valid_scenario, scopesuite.scope_tree, late_spawn_ref]


def late_spawn(rng):
    """children spawned during shutdown: somebody waits for the scope itself (`await scope`) - a volatile helper child, or an
    activity outside - and spawns into it when the body has ended; the scope has no (or only volatile, or some) regular children at
    that moment.  The late child is waited for as well, and volatile children are closed only after it has finished"""
    from fractions import Fraction as F
    body = []
    n = 0
    if rng.random() < 0.6:
        body.append(['spawn', 0, n, None, None, True,
                     ['prog', ['awaitscope', 0], ['spawn', 0, 10, None, None, False, ['prog', ['sleep', rng.choice([1, 3, 5])], ['log', 310]]], ['sleep', 50]]])
        n += 1
    if rng.random() < 0.4:
        body.append(['spawn', 0, n, None, None, False, ['prog', ['sleep', rng.choice([F(1, 2), 2])], ['log', 300 + n]]])
        n += 1
    if rng.random() < 0.3:
        body.append(['spawn', 0, n, None, None, True, ['prog', ['sleep', 30], ['log', 300 + n]]])
        n += 1
    body.append(['sleep', rng.choice([1, 2])])
    main = ['prog', ['scope', 0, ['none']] + body, ['log', 50], ['sleep', 20], ['log', 60]]
    outsider = ['prog', ['sleep', F(1, 2)], ['awaitscope', 0], ['spawn', 0, 11, None, None, rng.random() < 0.2,
                                                                  ['prog', ['sleep', rng.choice([2, 4])], ['log', 311]]], ['log', 70]]
    roots = [main] + ([outsider] if rng.random() < 0.6 else [])
    return ['scenario', ['debug', 1], ['start', 0], ['flags', 1], ['locks', 0], ['roots'] + roots]


def plain_children(rng):
    """a scope some of whose children are plain awaitables (`scope.do(time + d)`, `scope.do(flag)`) and that is left abruptly (the
    body raises, an `until` fires) or normally: they are tasks like any other and are closed / waited for with the rest"""
    from fractions import Fraction as F
    kids = []
    for i in range(rng.randint(1, 3)):
        if rng.random() < 0.6:
            kids.append(['spawnplain', 0, i, rng.random() < 0.3, rng.choice([['delay', rng.choice([2, 5, 20])], ['flag', 0], ['after', 30]])])
        else:
            kids.append(['spawn', 0, i, None, None, rng.random() < 0.3, ['prog', ['sleep', rng.choice([1, 3, 20])], ['log', 300 + i]]])
    how = rng.random()
    body = kids + [['sleep', rng.choice([0, F(1, 2), 1, 2])]]
    if how < 0.5:
        body.append(['raise', 2])
    notif = ['none'] if how < 0.75 else ['delay', rng.choice([F(1, 2), 1, 3])]
    scope = ['try', ['body', ['scope', 0, notif] + body], ['handler', ['pats', 'concurrent', 'anyException'], ['body', ['log', 90]]]]
    main = ['prog', scope, ['log', 50], ['sleep', 40], ['log', 60]]
    setter = ['prog', ['sleep', rng.choice([1, 4, 25])], ['set', 0, True]]
    return ['scenario', ['debug', 1], ['start', 0], ['flags', 1], ['locks', 0], ['roots', main, setter]]


def run(tier, seed, drv):
    return msuite.standard_run(PID, 'C04', TAGS, tier, seed, drv, SOURCES, nontrivial=nontrivial, rule=RULE,
                               n_quick=200, n_thorough=6000, optimized=100 if tier == 'quick' else 1000,
                               judge_only=[plain_children], n_judge_only=40 if tier == 'quick' else 1500)


def replay(data, drv):
    return msuite.standard_replay(PID, 'C04', TAGS, data, drv)
