"""C04 - whole-machine suite over scope trees and random valid programs (see scopesuite.py)."""
import msuite
import scopesuite

PID = 'C04'
TAGS = ['senter', 'sexit', 'spawn', 'tfin', 'log']
RULE = ('(a) scope trees: nested (until-)scopes (depth <= 3, <= 3 children each, volatile or delayed), bodies and children that '
        'sleep/raise (regular and privileged types)/return, cancels from inside and from a separate activity after t time units '
        'and k postponements, deadlines and flags on a coarse time grid, everything wrapped in handlers that log what they catch; '
        '(b) random valid whole-API programs (no usage errors); non-trivial = a scope with at least 2 children was left')


def nontrivial(impl):
    return sum(1 for e in impl['events'] if ':spawn:' in e) >= 2 and any(':sexit:' in e for e in impl['events'])


SOURCES = [scopesuite.scope_tree, scopesuite.valid_scenario]


def run(tier, seed, drv):
    return msuite.standard_run(PID, 'C04', TAGS, tier, seed, drv, SOURCES, nontrivial=nontrivial, rule=RULE,
                               n_quick=200, n_thorough=6000, optimized=100 if tier == 'quick' else 1000)


def replay(data, drv):
    return msuite.standard_replay(PID, 'C04', TAGS, data, drv)
