"""C14 - interval() ticks on a fixed grid, delay() pauses a fixed span, for any body."""
from fractions import Fraction as F

import msuite

PID = 'C14'
TAGS = ['tbegin', 'tick', 'tbodyend', 'tend', 'caught', 'log']
RULE = ('1-3 tickers (some in volatile child tasks closed at the end of their scope while the run continues) (interval or delay; periods 0, 1/2, 1, 2; 1-5 iterations) whose body runs take shorter than, exactly, or '
        'longer than the period (durations drawn from the same grid), started at times 0/1/2 (a fifth of them as a ticker object that is made some time before its loop begins), below zero (grids and pauses that hit date 0), near 2^34 / 2^40, or after a delay, alone, nested in '
        'until()-scopes with deadlines, or next to other tickers and a spinner activity; IntervalExceeded and ValueError '
        '(negative period) are caught and logged; exact rational times; the same programs once more under `python -O` (judged only: the documented errors are not assertions); non-trivial = at least 3 ticks')


def family(rng):
    roots = []
    for i in range(rng.randint(1, 3)):
        kind = rng.choice(['interval', 'interval', 'delayiter'])
        period = rng.choice([0, F(1, 2), 1, 1, 2, -1] if rng.random() < 0.1 else [0, F(1, 2), 1, 1, 2])
        body = []
        for _ in range(rng.randint(0, 2)):
            body.append(['sleep', rng.choice([0, 0, F(1, 2), 1, 1, 2, 3])])
        if rng.random() < 0.3:
            body.append(['log', 10 + i])
        if rng.random() < 0.12:
            # a body run that starts a whole simulation of its own (`usim.run(...)` inside the body: takes no time of the outer clock)
            body.insert(rng.randrange(len(body) + 1), ['nestedrun', rng.choice([0, 5, 100]), ['prog', ['sleep', rng.choice([1, 3])], ['log', 77]]])
        stmt = [kind, period, rng.randint(1, 5)] + body
        if period >= 0 and rng.random() < 0.2:
            # the ticker object exists for a while before its loop begins (handed to a worker, kept in a variable): the grid starts
            # where the iteration starts
            stmt = [kind + 'later', period, stmt[2], rng.choice([F(1, 2), 1, 2, 3, 5])] + body
        stmt = ['try', ['body', stmt], ['handler', ['pats', 'intervalExceeded', 'anyException'], ['body', ['log', 90 + i]]]]
        prog = [['sleep', rng.choice([0, 0, 1, F(1, 2)])]]
        r = rng.random()
        if r < 0.25:
            # the ticker runs in a (volatile) child task that is closed when its scope ends; the
            # simulation goes on afterwards
            prog.append(['scope', i, rng.choice([['none'], ['delay', rng.choice([1, 2])]]),
                         ['spawn', i, i, None, None, rng.random() < 0.7, ['prog', stmt]], ['sleep', rng.choice([1, F(3, 2), 2, 3])]])
            prog.append(['sleep', rng.choice([2, 3, 5])])
        elif r < 0.5:
            prog.append(['scope', i, ['delay', rng.choice([1, 2, 3])], stmt])
        else:
            prog.append(stmt)
        prog.append(['log', 50 + i])
        roots.append(['prog'] + prog)
    if rng.random() < 0.5:
        roots.append(['prog'] + [['sleep', 0], ['log', 200]] * rng.randint(1, 4))
    return ['scenario', ['debug', 1], ['start', rng.choice([0, 0, 1, 2, -1, -2, F(-5, 2), -4, 2 ** 34, 2 ** 40 + 1])], ['flags', 1], ['locks', 0], ['roots'] + roots]


def nontrivial(impl):
    return sum(1 for e in impl['events'] if ':tick:' in e) >= 3


def run(tier, seed, drv):
    return msuite.standard_run(PID, 'C14', TAGS, tier, seed, drv, [family], nontrivial=nontrivial, rule=RULE,
                               n_quick=200, n_thorough=6000, optimized=200 if tier == 'quick' else 1500)


def replay(data, drv):
    return msuite.standard_replay(PID, 'C14', TAGS, data, drv)
