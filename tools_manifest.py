#!/usr/bin/env python3
"""Regenerate MANIFEST.json from harness/registry.py (run after changing the registry)."""
import json, os, sys
sys.path.insert(0, os.path.join(os.path.dirname(os.path.abspath(__file__)), 'harness'))
from registry import PROPS, MANIFEST_TEXT  # noqa

props = [json.loads(l) for l in open(os.path.join(os.path.dirname(os.path.abspath(__file__)), 'properties.jsonl'))]
checks = []
na = []
for p in props:
    pid = p['id']
    if pid in PROPS:
        t = MANIFEST_TEXT[pid]
        checks.append({
            'property_id': pid,
            'quick_cmd': './check %s --tier quick' % pid,
            'thorough_cmd': './check %s --tier thorough' % pid,
            'evidence_file': 'evidence/%s.json' % pid,
            'replay_cmd_template': './check %s --replay {path}' % pid,
            'engine': 'lean4-proof+correspondence',
            'level_claimed': {'category': 'proof', 'text': t['level'], 'design_ref': t['design_ref']},
            'level_note': t['note'],
            'technique': t['technique'],
        })
    else:
        na.append({'property_id': pid, 'reason': MANIFEST_TEXT.get(pid, {}).get(
            'na', 'check not built yet in this session (Lean model and correspondence under construction); not claimed')})
manifest = {
    'version': 1,
    # (the lemma chains of the whole-machine views do not depend on the files generated from /repo: built once here, so that no
    # check has to build them inside its own time)
    'setup_cmd': 'cd lean && lake build USimModel driver ' + ' '.join('USimModel.Props.' + m for m in (
        'Machine', 'MachineTrace', 'MachineFifo', 'MachineSignals', 'MachineTasks', 'MachineObjects', 'MachineStructure',
        'MachineLock', 'MachineQueue', 'MachineChannel', 'MachineCancel', 'MachineResources', 'MachineFailures', 'MachineAwait', 'MachineTicker', 'MachineYield', 'MachineFifoRun')),
    'hooks': {
        'guard': 'USIM_VERIF',
        'enable': 'none needed: all observation is harness-side (no source hooks in /repo); the guard name is reserved and unused',
        'baseline_off_cmd': 'cd /repo && /venv/bin/python -m pytest -ra -q -p no:cacheprovider --timeout=900 --continue-on-collection-errors',
        'source_commits': [],
        'add_only': True,
    },
    'engines': [{
        'name': 'lean4-proof+correspondence', 'path': 'check',
        'serves_properties': sorted(PROPS),
        'kind_free_text': 'Lean 4 theorems about a formal model (lean/USimModel); model tied to /repo by (A) a Python-AST to Lean '
                          'translator regenerating the decision logic on every run (extract/) and (B) a correspondence check running '
                          'the compiled Lean model and the real implementation on the same inputs (harness/, lean/Driver.lean)',
    }],
    'checks': checks,
    'not_applicable': na,
    'notes': 'Genuine defects repaired by fix: commits in /repo and defects recorded as known findings are listed in KNOWN_FINDINGS.json; see DESIGN.md.',
}
json.dump(manifest, open(os.path.join(os.path.dirname(os.path.abspath(__file__)), 'MANIFEST.json'), 'w'), indent=1)
print('claimed:', [c['property_id'] for c in checks])
