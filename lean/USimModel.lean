-- This module serves as the root of the `USimModel` library.
-- Import modules here that should be built as part of the library.
import USimModel.Basic
