namespace USim
def hello := "world"
end USim
