/-! Minimal S-expressions for the driver's line protocol (not part of any proof). -/
namespace USim.Drv

inductive Sexp where
  | atom (s : String)
  | list (xs : List Sexp)
  deriving Inhabited, Repr

def sexpTokens (s : String) : List String := Id.run do
  let mut out : Array String := #[]
  let mut cur := ""
  for c in s.toList do
    if c == '(' || c == ')' then
      if cur != "" then out := out.push cur
      cur := ""
      out := out.push (String.singleton c)
    else if c == ' ' || c == '\n' || c == '\t' then
      if cur != "" then out := out.push cur
      cur := ""
    else cur := cur.push c
  if cur != "" then out := out.push cur
  return out.toList

partial def parseSexp : List String → Option (Sexp × List String)
  | "(" :: rest =>
    let rec go (acc : List Sexp) (ts : List String) : Option (Sexp × List String) :=
      match ts with
      | ")" :: rest => some (.list acc.reverse, rest)
      | [] => none
      | _ => match parseSexp ts with
        | some (x, rest) => go (x :: acc) rest
        | none => none
    go [] rest
  | ")" :: _ => none
  | t :: rest => some (.atom t, rest)
  | [] => none

def Sexp.parse (s : String) : Option Sexp := (parseSexp (sexpTokens s)).map (·.1)

def Sexp.atom? : Sexp → Option String
  | .atom s => some s
  | _ => none

def Sexp.nat! (x : Sexp) : Nat := (x.atom?.bind String.toNat?).getD 0
def Sexp.int! (x : Sexp) : Int := (x.atom?.bind String.toInt?).getD 0

end USim.Drv
