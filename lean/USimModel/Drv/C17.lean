import USimModel.Concurrent
import USimModel.Drv.Util
/-! Driver commands for C17.  Trees are sent in prefix notation:
`L<n>` leaf class n, `B` bare Concurrent, `C<k>` / `Ci<k>` (inclusive) followed by k subtrees.
Hierarchy: `sub=d:c,d:c,...` (reflexive-transitive, sent in full) `below=c,c,...`. -/
namespace USim.Drv.C17
open USim.Concurrent USim.Drv

partial def parseR : Toks → Option (RTy × Toks)
  | t :: rest =>
    if t.startsWith "L" then some (.leaf (parseNat! (t.drop 1).toString), rest)
    else if t.startsWith "C" then
      let k := parseNat! (t.drop 1).toString
      let rec go (k : Nat) (acc : List RTy) (ts : Toks) : Option (List RTy × Toks) :=
        match k with
        | 0 => some (acc.reverse, ts)
        | k+1 => match parseR ts with
          | some (r, ts') => go k (r :: acc) ts'
          | none => none
      (go k [] rest).map (fun (cs, ts) => (.conc cs, ts))
    else none
  | [] => none

partial def parseH : Toks → Option (HTy × Toks)
  | t :: rest =>
    if t = "B" then some (.bare, rest)
    else if t.startsWith "L" then some (.leaf (parseNat! (t.drop 1).toString), rest)
    else if t.startsWith "C" then
      let incl := t.startsWith "Ci"
      let k := parseNat! (if incl then (t.drop 2).toString else (t.drop 1).toString)
      let rec go (k : Nat) (acc : List HTy) (ts : Toks) : Option (List HTy × Toks) :=
        match k with
        | 0 => some (acc.reverse, ts)
        | k+1 => match parseH ts with
          | some (r, ts') => go k (r :: acc) ts'
          | none => none
      (go k [] rest).map (fun (cs, ts) => (.conc cs incl, ts))
    else none
  | [] => none

partial def parseE : Toks → Option (Exn × Toks)
  | t :: rest =>
    if t.startsWith "L" then some (.leaf (parseNat! (t.drop 1).toString), rest)
    else if t.startsWith "C" then
      let k := parseNat! (t.drop 1).toString
      let rec go (k : Nat) (acc : List Exn) (ts : Toks) : Option (List Exn × Toks) :=
        match k with
        | 0 => some (acc.reverse, ts)
        | k+1 => match parseE ts with
          | some (r, ts') => go k (r :: acc) ts'
          | none => none
      (go k [] rest).map (fun (cs, ts) => (.conc cs, ts))
    else none
  | [] => none

def parsePairs (s : String) : List (Nat × Nat) :=
  (s.splitOn ",").filterMap (fun p => match p.splitOn ":" with
    | [a, b] => match a.toNat?, b.toNat? with
      | some x, some y => some (x, y)
      | _, _ => none
    | _ => none)

def parseNats (s : String) : List Nat := (s.splitOn ",").filterMap String.toNat?

def mkHier (subs : List (Nat × Nat)) (below : List Nat) : Hier :=
  { sub := fun d c => subs.contains (d, c), concBelow := fun c => below.contains c }

partial def showE : Exn → String
  | .leaf i => s!"L{i}"
  | .conc cs => s!"C{cs.length}" ++ String.join (cs.map (fun c => " " ++ showE c))

/-- state: the current hierarchy -/
structure St where
  hier : Hier := mkHier [] []
  cache : Cache Nat := { entries := [], next := 0 }

def handle (st : St) (ts : Toks) : St × String :=
  match ts with
  | "hier" :: a :: b :: _ =>
    let subs := parsePairs ((a.drop 4).toString)
    let below := parseNats ((b.drop 6).toString)
    ({ st with hier := mkHier subs below }, "ok")
  | "match" :: rest =>
    match parseR rest with
    | some (r, rest') => match parseH rest' with
      | some (h, _) =>
        (st, joinSp [boolStr (matchesT st.hier r h), boolStr (exceptMatches st.hier r h),
                     boolStr (sameClass r.asHandler h)])
      | none => (st, "bad-op")
    | none => (st, "bad-op")
  | "flat" :: rest =>
    match parseE rest with
    | some (e, _) =>
      (st, showE e.flattened ++ " | " ++ joinSp (e.flattened.leaves.map toString) ++ " | " ++
           joinSp (e.leaves.map toString))
    | none => (st, "bad-op")
  | "spec" :: rest =>   -- Concurrent[params]: class id from the cache keyed by the parameter *set*
    let item := rest.filterMap String.toNat?
    let (k, c') := st.cache.get (sameSet (· == ·)) item
    ({ st with cache := c' }, toString k)
  | _ => (st, "bad-op")

end USim.Drv.C17
