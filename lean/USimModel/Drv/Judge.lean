import USimModel.Judge.Judges
import USimModel.Drv.Util
/-! Driver command `judge <Cxx> <params..> #<trace line>`: evaluates the Lean judge on a trace. -/
namespace USim.Drv.JudgeCmd
open USim.Judge USim.Drv

def run (line : String) : String :=
  match line.splitOn "#" with
  | head :: rest =>
    let obsLine := "#".intercalate rest
    match parseObs obsLine with
    | none => "bad-trace"
    | some o =>
      let v : Verdict := match tokens head with
        | "C01" :: _ => judgeC01 o
        | "C01f" :: _ => judgeC01f o
        | "C02" :: _ => judgeC02 o
        | "C03" :: _ => judgeC03 o
        | "C04" :: _ => judgeC04 o
        | "C05" :: _ => judgeC05 o
        | "C06" :: _ => judgeC06 o
        | "C07till" :: t :: "user-errors" :: _ => judgeC07till o (parseRat t) true
        | "C07till" :: t :: _ => judgeC07till o (parseRat t)
        | "C07" :: "user-errors" :: _ => judgeC07 o true
        | "C07" :: _ => judgeC07 o
        | "C08" :: _ => judgeC08 o
        | "C09" :: _ => judgeC09 o
        | "C10" :: _ => judgeC10 o
        | "C11" :: _ => judgeC11 o
        | "C12" :: _ => judgeC12 o
        | "C12cons" :: r :: init => judgeC12Conservation o (parseNat! r) (init.filterMap String.toInt?)
        | "C13" :: ps => judgeC13 o (ps.map (fun s => if s == "inf" then none else some (parseRat s)))
        | "C14" :: _ => judgeC14 o
        | "C15" :: st :: _ => judgeC15 o (parseRat st)
        | "C16" :: _ => judgeC16 o
        | "C18" :: _ => judgeC18 o
        | "C20" :: n :: _ => judgeC20 o (parseNat! n)
        | _ => ["unknown judge"]
      if v.isEmpty then "ok" else "fail: " ++ " ;; ".intercalate (v.take 5)
  | [] => "bad-op"

end USim.Drv.JudgeCmd
