import USimModel.SimPyRes
import USimModel.Drv.Util
/-! Driver commands for C19 (sequential SimPy resource machines and the judge predicates). -/
namespace USim.Drv.C19
open USim.SimPyRes USim.Drv

def parseKind : String → Option Kind
  | "container" => some .container | "store" => some .store | "filterStore" => some .filterStore
  | "priorityStore" => some .priorityStore | "resource" => some .resource
  | "priorityResource" => some .priorityResource | "preemptive" => some .preemptive
  | _ => none

def parseCap (s : String) : Option Int := if s = "inf" then none else s.toInt?

def parseFilter (s : String) : Int → Bool :=
  match s.splitOn ":" with
  | ["any"] => fun _ => true
  | ["none"] => fun _ => false
  | ["mod", m, r] => fun x => x % (parseInt! m) == parseInt! r
  | ["lt", k] => fun x => x < parseInt! k
  | ["ge", k] => fun x => x ≥ parseInt! k
  | ["eq", k] => fun x => x == parseInt! k
  | _ => fun _ => true

def ints (l : List Int) : String := "[" ++ ",".intercalate (l.map toString) ++ "]"
def nats (l : List Nat) : String := "[" ++ ",".intercalate (l.map toString) ++ "]"

def showGrant : Grant → String
  | .put id a => s!"P{id}:{a}"
  | .get id v => s!"G{id}:{v}"
  | .preempted v vp bp us => s!"X{v}:{vp}:{bp}:{us}"

def showState (s : RState) (logFrom : Nat) : String :=
  s!"level={s.core.level} items={ints s.core.items} users={nats (s.core.users.map (·.id))} " ++
  s!"putQ={nats (s.putQ.map (·.id))} getQ={nats (s.getQ.map (·.id))} pending={s.core.pending.length} " ++
  s!"log={",".intercalate ((s.core.log.drop logFrom).map showGrant)}"

structure St where
  s : RState := { core := { kind := .container, capacity := none } }
  logSeen : Nat := 0
  /-- every request seen so far (to rebuild queues when the harness re-synchronises the state) -/
  puts : List PutReq := []
  gets : List GetReq := []

def parseIds (s : String) : List Nat :=
  ((s.replace "[" "").replace "]" "" |>.splitOn ",").filterMap String.toNat?

def parseIntList (s : String) : List Int :=
  ((s.replace "[" "").replace "]" "" |>.splitOn ",").filterMap String.toInt?

/-- `put id amount prio time noPreempt preempt proc` -/
def parsePut : Toks → Option PutReq
  | [id, a, p, t, np, pre, proc] =>
    some { id := parseNat! id, amount := parseInt! a, key := ⟨parseInt! p, parseInt! t, np == "1"⟩,
           preempt := pre == "1", proc := parseNat! proc }
  | _ => none

/-- `get id amount filter request` -/
def parseGet : Toks → Option GetReq
  | [id, a, f, rq] => some { id := parseNat! id, amount := parseInt! a, filter := parseFilter f, request := parseNat! rq }
  | _ => none

def reply (st : St) (s' : RState) : St × String :=
  ({ s := s', logSeen := s'.core.log.length }, showState s' st.logSeen)

def handle (st : St) (ts : Toks) : St × String :=
  match ts with
  | ["init", k, cap, lvl] =>
    match parseKind k with
    | some kind =>
      let s : RState := { core := { kind := kind, capacity := parseCap cap, level := parseInt! lvl } }
      ({ s := s, logSeen := 0 }, showState s 0)
    | none => (st, "bad-op")
  | "put" :: rest => match parsePut rest with
    | some r => reply { st with puts := r :: st.puts } (step st.s (.newPut r))
    | none => (st, "bad-op")
  | "get" :: rest => match parseGet rest with
    | some g => reply { st with gets := g :: st.gets } (step st.s (.newGet g))
    | none => (st, "bad-op")
  | ["sync", lvl, items, users, putQ, getQ] =>
    -- adopt the implementation's state (after a disagreement) so that the judge predicates are
    -- evaluated on what the implementation really holds
    let findP (id : Nat) : Option PutReq := st.puts.find? (·.id == id)
    let findG (id : Nat) : Option GetReq := st.gets.find? (·.id == id)
    let s' : RState :=
      { core := { st.s.core with level := parseInt! lvl, items := parseIntList items,
                                 users := (parseIds users).filterMap findP, pending := [] },
        putQ := (parseIds putQ).filterMap findP, getQ := (parseIds getQ).filterMap findG }
    reply st s'
  | ["cb", which] =>
    -- the implementation processed the callback of a put ("afterPut") or get event; the model's
    -- FIFO must have the same kind at its head
    match st.s.core.pending with
    | [] => (st, "no-pending-callback")
    | c :: _ =>
      if (c == .afterPut) == (which == "afterPut") then reply st (step st.s .runCallback)
      else (st, "callback-order-differs")
  | ["cput", id] => reply st (step st.s (.cancelPut (parseNat! id)))
  | ["cget", id] => reply st (step st.s (.cancelGet (parseNat! id)))
  | ["tick", t] => reply st (step st.s (.tick (parseInt! t)))
  | ["eager"] =>
    (st, joinSp [boolStr (headPutBlocked st.s), boolStr (headGetBlocked st.s), toString st.s.core.pending.length])
  | _ => (st, "bad-op")

end USim.Drv.C19
