import USimModel.Machine.Run
import USimModel.Drv.Util
import USimModel.Drv.Sexp
/-! Driver for the whole machine: parse a scenario (S-expression), run it, print the trace. -/
namespace USim.Drv.Mach
open USim.Machine USim.Drv

variable {τ : Type} [TimeLike τ]

structure TimeParser (τ : Type) where
  parse : String → Option τ

def ratParser : TimeParser Rat := ⟨parseRat?⟩
/-- floats travel as their IEEE-754 bit pattern (decimal `UInt64`) -/
def floatParser : TimeParser Float := ⟨fun s => s.toNat?.map (fun n => Float.ofBits n.toUInt64)⟩

def tm (tp : TimeParser τ) (x : Sexp) : τ := ((x.atom?.bind tp.parse).getD (TimeLike.zero))

def optTm (tp : TimeParser τ) (x : Sexp) : Option τ :=
  match x with
  | .atom "none" => none
  | x => some (tm tp x)

partial def parseCExpr (tp : TimeParser τ) : Sexp → CExpr τ
  | .list [.atom "flag", f] => .flag f.nat!
  | .list [.atom "after", t] => .after (tm tp t)
  | .list [.atom "before", t] => .before (tm tp t)
  | .list [.atom "moment", t] => .moment (tm tp t)
  | .list [.atom "eternity"] => .eternity
  | .list [.atom "instant"] => .instant
  | .list [.atom "done", t] => .done t.nat!
  | .list (.atom "all" :: cs) => .all (cs.map (parseCExpr tp))
  | .list (.atom "any" :: cs) => .any (cs.map (parseCExpr tp))
  | .list [.atom "inv", c] => .inv (parseCExpr tp c)
  | .list [.atom "tracked", x, op, v] => .tracked x.nat! op.nat! v.int!
  | .list [.atom "tracked2", x, op, y] => .tracked2 x.nat! op.nat! y.nat!
  | .list [.atom "reslevel", r, op, .list am] => .resLevel r.nat! op.nat! (am.map Sexp.int!)
  | .list [.atom "ref", n] => .ref n.nat!
  | .list [.atom "delay", d] => .delay (tm tp d)
  | .list [.atom "and", a, b] => .andOp (parseCExpr tp a) (parseCExpr tp b)
  | .list [.atom "or", a, b] => .orOp (parseCExpr tp a) (parseCExpr tp b)
  | _ => .eternity

def parsePat : Sexp → Pat
  | .list [.atom "user", c] => .user c.nat!
  | .atom "concurrent" => .concurrent
  | .atom "taskCancelled" => .taskCancelled
  | .atom "taskClosed" => .taskClosed
  | .atom "streamClosed" => .streamClosed
  | .atom "resUnavailable" => .resUnavailable
  | .atom "intervalExceeded" => .intervalExceeded
  | .atom "scopeClosed" => .scopeClosed
  | .atom "cancelTask" => .cancelTask
  | _ => .anyException

partial def parsePyInstr (tp : TimeParser τ) : Sexp → PyInstr τ
  | .list [.atom "plog", k] => .log k.int!
  | .list [.atom "newevent", x] => .newEvent x.nat!
  | .list [.atom "newtimeout", x, d, v] => .newTimeout x.nat! (tm tp d) v.int!
  | .list [.atom "newproc", x, .list (.atom "gen" :: code)] => .newProc x.nat! (code.map (parsePyInstr tp))
  | .list [.atom "newcond", x, kind, .list (.atom "members" :: ms)] => .newCond x.nat! (match kind with | .atom "all" => true | _ => false) (ms.map Sexp.nat!)
  | .list [.atom "succeed", x, v] => .succeed x.nat! v.int!
  | .list [.atom "fail", x, c] => .fail x.nat! c.nat!
  | .list [.atom "trigger", x, y] => .trigger x.nat! y.nat!
  | .list [.atom "interrupt", x, c] => .interrupt x.nat! c.int!
  | .list [.atom "addcb", x, k] => .addCallback x.nat! k.int!
  | .list [.atom "probe", x] => .probe x.nat!
  | .list [.atom "yield", x, c] => .yieldEv x.nat! (c.nat! == 1)
  | .list [.atom "yieldtimeout", d, v, c] => .yieldTimeout (tm tp d) v.int! (c.nat! == 1)
  | .list [.atom "yieldnative", n, c] =>
    .yieldNative (match n with
      | .list [.atom "delay", d] => .delay (tm tp d)
      | .list [.atom "cond", ce] => .cond (parseCExpr tp ce)
      | _ => .cond .eternity) (c.nat! == 1)
  | .list [.atom "yieldcoro", d, v, f, c] =>
    .yieldCoro (tm tp d) v.int! (match f with | .atom "none" => none | x => some x.nat!) (c.nat! == 1)
  | .list [.atom "pret", v] => .ret v.int!
  | .list [.atom "praise", c] => .raise c.nat!
  | _ => .log (-999)

def parsePyUntil (tp : TimeParser τ) : Sexp → PyUntil τ
  | .list [.atom "time", t] => .time (tm tp t)
  | .list [.atom "event", x] => .event x.nat!
  | _ => .none

partial def parseStmt (tp : TimeParser τ) : Sexp → Stmt τ
  | .list [.atom "pyuntil", t0, u, .list (.atom "setup" :: code)] => .pyUntil (tm tp t0) (parsePyUntil tp u) (code.map (parsePyInstr tp))
  | .list (.atom "pywith" :: t0 :: .list (.atom "setup" :: code) :: body) =>
    .pyWith (tm tp t0) (code.map (parsePyInstr tp)) (body.map (parseStmt tp))
  | .list [.atom "pydo", i] => .pyDo (parsePyInstr tp i)
  | .list [.atom "pyawait", x] => .pyAwait x.nat!
  | .list [.atom "log", k] => .log k.int!
  | .list [.atom "now"] => .logNow
  | .list [.atom "logcond", c] => .logCond (parseCExpr tp c)
  | .list [.atom "defcond", n, c] => .defCond n.nat! (parseCExpr tp c)
  | .list [.atom "sleep", d] => .sleep (tm tp d)
  | .list [.atom "await", c] => .awaitC (parseCExpr tp c)
  | .list [.atom "set", f, b] => .setFlag f.nat! (b.nat! == 1)
  | .list (.atom "scope" :: name :: n :: body) =>
    let un : Option (NExpr τ) := match n with
      | .list [.atom "cond", c] => some (.cond (parseCExpr tp c))
      | .list [.atom "delay", d] => some (.delay (tm tp d))
      | _ => none
    .scope name.nat! un (body.map (parseStmt tp))
  | .list [.atom "spawn", sc, tk, after, at_, vol, .list (.atom "prog" :: prog)] =>
    .spawn sc.nat! tk.nat! (prog.map (parseStmt tp)) (optTm tp after) (optTm tp at_) (vol.nat! == 1)
  | .list [.atom "cancel", t, tok] => .cancel t.nat! tok.int!
  | .list [.atom "awaittask", t] => .awaitTask t.nat!
  | .list [.atom "awaitscope", s] => .awaitScope s.nat!
  | .list [.atom "status", t] => .logStatus t.nat!
  | .list [.atom "raise", c] => .raise c.nat!
  | .list (.atom "try" :: .list (.atom "body" :: body) :: handlers) =>
    .tryCatch (body.map (parseStmt tp)) (handlers.map (fun h => match h with
      | .list [.atom "handler", .list (.atom "pats" :: ps), .list (.atom "body" :: hb)] =>
        (ps.map parsePat, hb.map (parseStmt tp))
      | _ => ([], [])))
  | .list [.atom "ret", v] => .ret v.int!
  | .list [.atom "finally", .list (.atom "body" :: body), .list (.atom "cleanup" :: cl)] =>
    .tryFinally (body.map (parseStmt tp)) (cl.map (parseStmt tp))
  | .list (.atom "lock" :: l :: body) => .withLock l.nat! (body.map (parseStmt tp))
  | .list [.atom "avail", l] => .logAvail l.nat!
  | .list [.atom "qput", q, v] => .qPut q.nat! v.int!
  | .list [.atom "qget", q] => .qGet q.nat!
  | .list [.atom "qclose", q] => .qClose q.nat!
  | .list (.atom "qiter" :: q :: n :: body) => .qIter q.nat! n.nat! (body.map (parseStmt tp))
  | .list [.atom "cput", c, v] => .cPut c.nat! v.int!
  | .list [.atom "cget", c] => .cGet c.nat!
  | .list [.atom "cclose", c] => .cClose c.nat!
  | .list (.atom "citer" :: c :: n :: body) => .cIter c.nat! n.nat! (body.map (parseStmt tp))
  | .list [.atom "settracked", x, v] => .setTracked x.nat! v.int!
  | .list [.atom "addtracked", x, v] => .addTracked x.nat! v.int!
  | .list (.atom "borrow" :: r :: .list am :: bind :: body) =>
    .borrow r.nat! (am.map Sexp.int!) bind.nat! (body.map (parseStmt tp))
  | .list (.atom "claim" :: r :: .list am :: bind :: body) =>
    .claim r.nat! (am.map Sexp.int!) bind.nat! (body.map (parseStmt tp))
  | .list [.atom "reschange", r, k, .list am] => .resChange r.nat! k.nat! (am.map Sexp.int!)
  | .list [.atom "levels", r] => .logLevels r.nat!
  | .list (.atom "respool" :: order) => .resPool (order.map Sexp.nat!)
  | .list [.atom "transfer", p, total, thr] => .transfer p.nat! (tm tp total) (optTm tp thr)
  | .list (.atom "interval" :: period :: n :: body) => .interval (tm tp period) n.nat! (body.map (parseStmt tp))
  | .list (.atom "delayiter" :: period :: n :: body) => .delayIter (tm tp period) n.nat! (body.map (parseStmt tp))
  | .list (.atom "collect" :: progs) => .collect (progs.map (fun r => match r with
      | .list (.atom "prog" :: ss) => ss.map (parseStmt tp)
      | _ => []))
  | .list (.atom "first" :: count :: brk :: .list (.atom "progs" :: progs) :: body) =>
    .first (progs.map (fun r => match r with
      | .list (.atom "prog" :: ss) => ss.map (parseStmt tp)
      | _ => [])) (match count with | .atom "none" => none | c => some c.nat!)
      (match brk with | .atom "none" => none | c => some c.nat!) (body.map (parseStmt tp))
  | .list (.atom "nestedrun" :: start :: progs) => .nestedRun (progs.map (fun r => match r with
      | .list (.atom "prog" :: ss) => ss.map (parseStmt tp)
      | _ => [])) (tm tp start)
  | _ => .log (-999)

def showEvent (e : Event τ) : String :=
  s!"{TimeLike.repr e.time}:{e.turn}:{e.label}:{e.tag}:" ++ ",".intercalate (e.args.map toString)

def codeStr (l : List Int) : String := ",".intercalate (l.map toString)

def field (xs : List Sexp) (name : String) : Option (List Sexp) :=
  xs.findSome? (fun x => match x with
    | .list (.atom n :: rest) => if n == name then some rest else none
    | _ => none)

/-- `(scenario (debug 1) (start t) (flags n) (locks n) (tracked v..) (fuel n) (roots (prog ..) ..))` -/
def runScenario (tp : TimeParser τ) (x : Sexp) : String :=
  match x with
  | .list (.atom "scenario" :: fields) =>
    let num (n : String) (d : Nat) : Nat := ((field fields n).bind List.head?).map Sexp.nat! |>.getD d
    let debug := num "debug" 1 == 1
    let start : τ := ((field fields "start").bind List.head?).map (tm tp) |>.getD TimeLike.zero
    let decls : Decls τ := { flags := num "flags" 0, locks := num "locks" 0, queues := num "queues" 0,
                             chans := num "chans" 0,
                             tracked := ((field fields "tracked").getD []).map Sexp.int!,
                             resources := ((field fields "resources").getD []).map (fun r => match r with
                               | .list (.atom "res" :: cap :: lv) => (lv.map Sexp.int!, cap.nat! == 1)
                               | _ => ([], false)),
                             pipes := ((field fields "pipes").getD []).map (fun x => match x with
                               | .atom "inf" => none
                               | x => some (tm tp x)) }
    let roots := ((field fields "roots").getD []).map (fun r => match r with
      | .list (.atom "prog" :: ss) => ss.map (parseStmt tp)
      | _ => [])
    let till : Option τ := ((field fields "till").bind List.head?).map (tm tp)
    let w0 := initWorld { debug := debug } start decls roots till
    let (w, finished) := w0.runFuel (num "fuel" 200000)
    -- waiters whose condition holds although nobody will wake them any more
    let w := if w.crashed.isNone && finished then
        w.acts.toList.foldl (fun (w : World τ) (act : Activity τ) =>
          if act.status == .suspended && act.label < 10000 then
            act.frames.foldl (fun (w : World τ) f => match f with
              | .awaitMark c => if w.eval c && !(match (w.cond c).kind with | .delay _ => true | _ => false) then
                  { w with trace := { time := w.time, turn := w.turn, act := 0, label := act.label, tag := "stuck", args := [] } :: w.trace }
                else w
              -- (an `await task` whose task is done)
              | .taskResult t _ => if w.eval (w.task t).done then
                  { w with trace := { time := w.time, turn := w.turn, act := 0, label := act.label, tag := "stuck", args := [] } :: w.trace }
                else w
              | _ => w) w
          else w) w
      else w
    let trace := ";".intercalate (w.trace.reverse.map showEvent)
    let outcome := match w.crashed with
      | some e => "crash " ++ codeStr (w.exnCode e)
      | none => if finished then "ok" else "out-of-fuel"
    -- activities whose own code started but has not ended
    let started (a : Activity τ) : Bool := a.isRoot || a.frames.any (fun f => match f with | .taskPayload _ => true | _ => false)
    let unfinished := (w.acts.toList.filter (fun a => a.status == .suspended && a.label ≥ 0 && started a)).map (·.label)
    let nUser := num "locks" 0
    let lockObs := codeStr ((w.locks.toList.take nUser).map (fun l => if l.owner.isNone then 1 else 0))
    let levelObs := ";".intercalate ((List.range decls.resources.length).filterMap (fun n =>
      (World.lookup w.resNames n).map (fun rid => codeStr (w.res.getD rid default).levels)))
    let queueObs := codeStr ((w.queues.toList.take (num "queues" 0)).map (fun q => (q.buffer.length : Int)))
    s!"{trace}|{outcome}|{TimeLike.repr w.time}|{codeStr unfinished}|locks={lockObs}/levels={levelObs}/queues={queueObs}/visible=0"
  | _ => "bad-op"

def handle (line : String) : String :=
  -- `mach rat <sexp>` / `mach float <sexp>`
  let line := line.trimAscii.toString
  if line.startsWith "rat " then
    match Sexp.parse (line.drop 4).toString with
    | some x => runScenario ratParser x
    | none => "bad-sexp"
  else if line.startsWith "float " then
    match Sexp.parse (line.drop 6).toString with
    | some x => runScenario floatParser x
    | none => "bad-sexp"
  else "bad-op"

end USim.Drv.Mach
