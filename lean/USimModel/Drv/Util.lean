/-! Token-stream helpers for the line protocol of the driver (not part of any proof). -/
namespace USim.Drv

abbrev Toks := List String

def tokens (line : String) : Toks :=
  (line.trimAscii.toString.splitOn " ").filter (· ≠ "")

def boolStr (b : Bool) : String := if b then "1" else "0"

def parseNat! (s : String) : Nat := s.toNat?.getD 0

def parseInt! (s : String) : Int := s.toInt?.getD 0

def joinSp (xs : List String) : String := " ".intercalate xs

/-- rational `n/d` or integer literal -/
def parseRat? (s : String) : Option Rat :=
  match s.splitOn "/" with
  | [n] => n.toInt?.map (fun i => (i : Rat))
  | [n, d] => match n.toInt?, d.toNat? with
    | some i, some k => if k = 0 then none else some (mkRat i k)
    | _, _ => none
  | _ => none

def ratStr (r : Rat) : String :=
  if r.den = 1 then toString r.num else s!"{r.num}/{r.den}"

end USim.Drv
