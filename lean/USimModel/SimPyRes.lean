/-
Model of `usim/py/resources/{base,container,store,resource}.py` (property C19).

A resource is a *sequential* state machine.  Its operations are exactly the entry points through
which the code touches a resource:

* `newPut r` / `newGet g`   - constructing a `Put`/`Get` event (`put`, `get`, `request`, `release`):
                              append to the queue, then `_trigger_put` / `_trigger_get`
* `runCallback`             - the kernel processes the oldest triggered-but-unprocessed event: its
                              callback is `_trigger_get` (after a put) or `_trigger_put` (after a get)
* `cancelPut id` / `cancelGet id` - `cancel()` of a request that was not granted yet

Granting (`event.succeed(..)`) appends to `log` and schedules the callback (`pending`, FIFO - the
kernel's same-time FIFO order, property C02).
-/
namespace USim.SimPyRes

inductive Kind where
  | container | store | filterStore | priorityStore | resource | priorityResource | preemptive
  deriving Repr, DecidableEq, Inhabited

/-- lexicographic key of a `PriorityRequest`: `(priority, time, not preempt)` -/
structure Key where
  prio : Int
  time : Int
  noPreempt : Bool
  deriving Repr, DecidableEq, Inhabited

def Key.lt (a b : Key) : Bool :=
  a.prio < b.prio || (a.prio == b.prio && (a.time < b.time ||
    (a.time == b.time && (!a.noPreempt && b.noPreempt))))

def Key.le (a b : Key) : Bool := !(Key.lt b a)

structure PutReq where
  id : Nat
  /-- container: amount; stores: the item (a `PriorityStore` orders items by this number) -/
  amount : Int := 0
  key : Key := ⟨0, 0, false⟩
  preempt : Bool := true
  /-- process that issued the request (only used for the `Preempted` record) -/
  proc : Nat := 0
  usageSince : Int := 0
  deriving Repr, Inhabited

structure GetReq where
  id : Nat
  amount : Int := 0
  /-- FilterStore: which items are acceptable -/
  filter : Int → Bool := fun _ => true
  /-- Release: id of the request given back -/
  request : Nat := 0
  deriving Inhabited

inductive Cb where
  | afterPut | afterGet
  deriving Repr, DecidableEq, Inhabited

inductive Grant where
  | put (id : Nat) (amount : Int)
  | get (id : Nat) (value : Int)
  /-- `victim.proc.interrupt(Preempted(by, usage_since, resource))` -/
  | preempted (victim : Nat) (victimProc : Nat) (byProc : Nat) (usageSince : Int)
  deriving Repr, DecidableEq, Inhabited

/-- everything a grant can change (`_do_put`/`_do_get` never touch the queues) -/
structure Core where
  kind : Kind
  /-- `none` = infinite capacity -/
  capacity : Option Int
  level : Int := 0
  items : List Int := []
  users : List PutReq := []
  pending : List Cb := []
  log : List Grant := []
  now : Int := 0
  deriving Inhabited

structure RState where
  core : Core
  putQ : List PutReq := []
  getQ : List GetReq := []
  deriving Inhabited

/-- numbers extended by +infinity (`none`), as used for `capacity=float('inf')`; the generated
definitions compare through these helpers -/
class ToExt (α : Type) where
  toExt : α → Option Int
instance : ToExt Int := ⟨some⟩
instance : ToExt Nat := ⟨fun n => some (n : Int)⟩
instance : ToExt (Option Int) := ⟨id⟩

def extSub {α β} [ToExt α] [ToExt β] (a : α) (b : β) : Option Int :=
  match ToExt.toExt a, ToExt.toExt b with
  | some x, some y => some (x - y)
  | _, _ => none

def extGe {α β} [ToExt α] [ToExt β] (a : α) (b : β) : Bool :=
  match ToExt.toExt a, ToExt.toExt b with
  | none, _ => true
  | some _, none => false
  | some x, some y => x ≥ y

def extLt {α β} [ToExt α] [ToExt β] (a : α) (b : β) : Bool :=
  match ToExt.toExt a, ToExt.toExt b with
  | none, _ => false
  | some _, none => true
  | some x, some y => x < y

def hasRoom (cap : Option Int) (used : Int) (need : Int) : Bool :=
  match cap with
  | none => true
  | some c => c - used ≥ need

/-- insertion into a sorted list *after* all elements that are not greater (`bisect_right`) -/
def insertBy {α} (le : α → α → Bool) (x : α) : List α → List α
  | [] => [x]
  | y :: ys => if le y x then y :: insertBy le x ys else x :: y :: ys

def removeFirst {α} (p : α → Bool) : List α → List α
  | [] => []
  | y :: ys => if p y then ys else y :: removeFirst p ys

/-! ### `_do_put` / `_do_get` of every resource type (`none` = returns False, state unchanged) -/

def succeedPut (s : Core) (r : PutReq) : Core :=
  { s with pending := s.pending ++ [.afterPut], log := s.log ++ [.put r.id r.amount] }

def succeedGet (s : Core) (g : GetReq) (v : Int) : Core :=
  { s with pending := s.pending ++ [.afterGet], log := s.log ++ [.get g.id v] }

def resourceDoPut (s : Core) (r : PutReq) : Option Core :=
  if hasRoom s.capacity s.users.length 1 then
    let r' := { r with usageSince := s.now }
    let users := if s.kind = .preemptive then insertBy (fun a b => Key.le a.key b.key) r' s.users
                 else s.users ++ [r']
    some (succeedPut { s with users := users } r)
  else none

/-- `PreemptiveResource._do_put`, first half: evict the worst user for a strictly better,
preempting request when the resource is full -/
def preemptStep (s : Core) (r : PutReq) : Core :=
  if !(hasRoom s.capacity s.users.length 1) && r.preempt then
    match s.users.getLast? with
    | some cand =>
      if Key.lt r.key cand.key then
        { s with users := s.users.dropLast,
                 log := s.log ++ [.preempted cand.id cand.proc r.proc cand.usageSince] }
      else s
    | none => s
  else s

def doPut (s : Core) (r : PutReq) : Option Core :=
  match s.kind with
  | .container =>
    if hasRoom s.capacity s.level r.amount then
      some (succeedPut { s with level := s.level + r.amount } r)
    else none
  | .store | .filterStore =>
    if hasRoom s.capacity s.items.length 1 then
      some (succeedPut { s with items := s.items ++ [r.amount] } r)
    else none
  | .priorityStore =>
    if hasRoom s.capacity s.items.length 1 then
      some (succeedPut { s with items := insertBy (fun a b => decide (a ≤ b)) r.amount s.items } r)
    else none
  | .resource | .priorityResource => resourceDoPut s r
  | .preemptive => resourceDoPut (preemptStep s r) r

def doGet (s : Core) (g : GetReq) : Option Core :=
  match s.kind with
  | .container =>
    if s.level ≥ g.amount then some (succeedGet { s with level := s.level - g.amount } g g.amount)
    else none
  | .store | .priorityStore =>
    match s.items with
    | [] => none
    | x :: xs => some (succeedGet { s with items := xs } g x)
  | .filterStore =>
    match s.items.find? g.filter with
    | none => none
    | some x => some (succeedGet { s with items := removeFirst g.filter s.items } g x)
  | .resource | .priorityResource | .preemptive =>
    some (succeedGet { s with users := removeFirst (fun u => u.id == g.request) s.users } g 0)

/-! ### `_trigger_put` / `_trigger_get`: `takewhile` + deletion of the served prefix -/

/-- serve the queue head by head while the request can be granted -/
def serve {α} (f : Core → α → Option Core) : Core → List α → Core × List α
  | s, [] => (s, [])
  | s, a :: as =>
    match f s a with
    | some s' => serve f s' as
    | none => (s, a :: as)

/-- FilterStore: try every pending request once, keep those not served -/
def serveAll {α} (f : Core → α → Option Core) : Core → List α → Core × List α
  | s, [] => (s, [])
  | s, a :: as =>
    match f s a with
    | some s' => serveAll f s' as
    | none => ((serveAll f s as).1, a :: (serveAll f s as).2)

def triggerPut (s : RState) : RState :=
  { s with core := (serve doPut s.core s.putQ).1, putQ := (serve doPut s.core s.putQ).2 }

def serveGets (c : Core) (q : List GetReq) : Core × List GetReq :=
  if c.kind = .filterStore then serveAll doGet c q else serve doGet c q

def triggerGet (s : RState) : RState :=
  { s with core := (serveGets s.core s.getQ).1, getQ := (serveGets s.core s.getQ).2 }

/-! ### operations -/

def isSortedKind (k : Kind) : Bool := k = .priorityResource || k = .preemptive

def enqueuePut (k : Kind) (r : PutReq) (q : List PutReq) : List PutReq :=
  if isSortedKind k then insertBy (fun a b => Key.le a.key b.key) r q else q ++ [r]

def newPut (s : RState) (r : PutReq) : RState :=
  triggerPut { s with putQ := enqueuePut s.core.kind r s.putQ }

def newGet (s : RState) (g : GetReq) : RState :=
  triggerGet { s with getQ := s.getQ ++ [g] }

def runCallback (s : RState) : RState :=
  match s.core.pending with
  | [] => s
  | .afterPut :: rest => triggerGet { s with core := { s.core with pending := rest } }
  | .afterGet :: rest => triggerPut { s with core := { s.core with pending := rest } }

def cancelPut (s : RState) (id : Nat) : RState :=
  { s with putQ := removeFirst (fun r => r.id == id) s.putQ }

def cancelGet (s : RState) (id : Nat) : RState :=
  { s with getQ := removeFirst (fun g => g.id == id) s.getQ }

inductive Op where
  | newPut (r : PutReq) | newGet (g : GetReq) | runCallback
  | cancelPut (id : Nat) | cancelGet (id : Nat) | tick (now : Int)

def step (s : RState) : Op → RState
  | .newPut r => newPut s r
  | .newGet g => newGet s g
  | .runCallback => runCallback s
  | .cancelPut id => cancelPut s id
  | .cancelGet id => cancelGet s id
  | .tick t => { s with core := { s.core with now := t } }

def run (s : RState) (ops : List Op) : RState := ops.foldl step s

def headPutBlocked (s : RState) : Bool :=
  match s.putQ with
  | [] => true
  | r :: _ => (doPut s.core r).isNone

def headGetBlocked (s : RState) : Bool :=
  if s.core.kind = .filterStore then s.getQ.all (fun g => (doGet s.core g).isNone)
  else match s.getQ with
    | [] => true
    | g :: _ => (doGet s.core g).isNone

end USim.SimPyRes
