import USimModel.Props.Machine
import USimModel.Lemmas.TStep
/-!
# The whole machine: the times written into the trace never decrease
# (C01, first clause, as an observer sees it: for every program and every number of steps)

The trace is what the correspondence compares with the implementation event by event, and what the Lean judges
read.  `Lemmas/TView.lean` / `TStep.lean` show that code inside an activation only prepends events stamped with the
current clock; `Props/Machine.lean` shows that the clock of a simulation never goes back.  Together: as long as no
nested simulation is open, the time stamps of the trace are sorted (`trace_sorted_run`, `initWorld_trace_sorted`).
(A nested `run()` has a clock of its own - its events carry that clock, and the statement of C01 speaks about one
simulation; the hypothesis `saved = []` says exactly "no nested simulation is open".)
-/
set_option linter.unusedVariables false
set_option linter.unusedSimpArgs false
namespace USim.Machine
open TimeLike USim.Prim.Kernel
namespace World

/-- the trace (newest event first) carries non-increasing time stamps from the head on, none later than the clock -/
def TraceOk (w : World Rat) : Prop :=
  (w.trace.map (·.time)).Pairwise (· ≥ ·) ∧ ∀ e ∈ w.trace, e.time ≤ w.time

theorem traceOk_of_text {w w' : World Rat} (h : TExt w.tv w'.tv) (ok : TraceOk w) : TraceOk w' := by
  obtain ⟨ht, l, hl, hs⟩ := h
  simp only [tv] at ht hl hs
  refine ⟨?_, ?_⟩
  · rw [hl, List.map_append, List.pairwise_append]
    refine ⟨?_, ok.1, ?_⟩
    · rw [List.pairwise_map]
      exact List.pairwise_of_forall_mem_list (fun a ha b hb => by rw [hs a ha, hs b hb]; exact Rat.le_refl)
    · intro x hx y hy
      simp only [List.mem_map] at hx hy
      obtain ⟨ex, hex, rfl⟩ := hx
      obtain ⟨ey, hey, rfl⟩ := hy
      rw [hs ex hex]
      exact ok.2 ey hey
  · intro e he
    rw [hl] at he
    rw [ht]
    rcases List.mem_append.mp he with h1 | h1
    · rw [hs e h1]; exact Rat.le_refl
    · exact ok.2 e h1

theorem tv_activate (w : World Rat) (t : ActId) (s : Option SigId) : (w.activate t s).tv = w.tv := by
  unfold activate; tv_a
theorem trace_activate (w : World Rat) (t : ActId) (s : Option SigId) : (w.activate t s).trace = w.trace :=
  congrArg TV.trace (tv_activate w t s)

/-- one transition of the running activity: events stamped with the clock are prepended, or a nested run starts
(and nothing is written) -/
theorem microStep_tstep (w : World Rat) :
    TExt w.tv w.microStep.tv ∨ (w.microStep.trace = w.trace ∧ ∃ sv, w.microStep.saved = sv :: w.saved) := by
  unfold microStep
  cases hc : w.ctl with
  | nil => exact Or.inl (TExt.refl _)
  | cons x rest =>
    obtain ⟨a, mode⟩ := x
    simp only []
    cases hf : (w.act a).frames with
    | nil => exact Or.inl (by simp only []; rw [tv_finishAct]; exact TExt.refl _)
    | cons f fs =>
      cases mode with
      | raise e => exact Or.inl (stepRaise_text w a f fs e (TExt.refl _))
      | ret v =>
        simp only []
        by_cases hn : ∃ progs start ss, f = .seq (.nestedRun progs start :: ss)
        · obtain ⟨progs, start, ss, rfl⟩ := hn
          right
          simp only [stepRet, execStmt]
          have hk : ∀ (l : List (Prog Rat)) (p : World Rat × List Activation),
              (l.foldl (fun (p : World Rat × List Activation) prog =>
                let (w, x) := p.1.newAct [.seq prog, .coroutineEnd] true (10000 + 100 * p.1.nestedRuns + p.2.length)
                (w, p.2 ++ [{ target := x, signal := none }])) p).1.tv = p.1.tv :=
            fun l p => tv_foldl_pair _ (by intro p x; rfl) l p
          have hk' : ∀ (l : List (Prog Rat)) (p : World Rat × List Activation),
              (l.foldl (fun (p : World Rat × List Activation) prog =>
                let (w, x) := p.1.newAct [.seq prog, .coroutineEnd] true (10000 + 100 * p.1.nestedRuns + p.2.length)
                (w, p.2 ++ [{ target := x, signal := none }])) p).1.kv = p.1.kv :=
            fun l p => kv_foldl_pair _ (by intro p x; rfl) l p
          have h1 := congrArg TV.trace (hk progs (w.setFrames a (.nestedRun :: .seq ss :: fs), []))
          have h2 := congrArg KV.saved (hk' progs (w.setFrames a (.nestedRun :: .seq ss :: fs), []))
          simp only [tv, kv] at h1 h2
          refine ⟨?_, ⟨{ time := w.time, turn := w.turn, pending := w.pending, queue := w.queue, ctl := w.ctl }, ?_⟩⟩
          · rw [h1]; rfl
          · rw [h2]; rfl
        · left
          exact stepRet_text w a f fs v (fun p st ss h => hn ⟨p, st, ss, h⟩) (TExt.refl _)

/-- **one step keeps the trace sorted** while no nested simulation is open before and after it -/
theorem trace_sorted_step {w w' : World Rat} (ok : KOk w.kv) (tok : TraceOk w) (h : w.step = some w')
    (hs : w.saved = []) (hs' : w'.saved = []) : TraceOk w' := by
  have hc := step_cases ok h
  unfold step at h
  split at h
  · -- the loop itself: nothing is written, the clock does not go back
    have htr : w'.trace = w.trace := by
      unfold kernelStep at h
      have hret : ∀ {w w' : World Rat}, w.nestedReturn = some w' → w'.trace = w.trace := by
        intro w w' h
        unfold nestedReturn at h
        split at h
        · cases h
        · simp only at h
          split at h <;> (cases h; simp)
      split at h
      · exact hret h
      · split at h
        · simp only at h
          split at h
          all_goals
            split at h
            · simp only [Option.some.injEq] at h; subst h; rw [trace_activate]
            · simp only [Option.some.injEq] at h; subst h; rfl
        · split at h
          · cases h; rfl
          · exact hret h
    have hle : w.time ≤ w'.time := by
      rcases hc with ⟨_, ht⟩ | ⟨sv, hsv, _⟩ | ⟨sv, hsv, _⟩
      · exact ht
      · rw [hs'] at hsv; cases hsv
      · rw [hs] at hsv; cases hsv
    exact ⟨by rw [htr]; exact tok.1, fun e he => Rat.le_trans (tok.2 e (by rw [← htr]; exact he)) hle⟩
  · cases h
    rcases microStep_tstep w with h1 | ⟨_, sv, hsv⟩
    · exact traceOk_of_text h1 tok
    · rw [hs'] at hsv; cases hsv

/-- **for every number of steps**: if no nested simulation is open at any point of the run, the trace stays sorted -/
theorem trace_sorted_run (n : Nat) : ∀ (w : World Rat), KOk w.kv → TraceOk w →
    (∀ k, k ≤ n → (w.runFuel k).1.saved = []) → TraceOk (w.runFuel n).1 := by
  induction n with
  | zero => intro w _ tok _; exact tok
  | succ n ih =>
    intro w ok tok hs
    have h0 : w.saved = [] := hs 0 (Nat.zero_le _)
    unfold runFuel
    split
    · exact tok
    · rename_i w' hst
      have h1 : w'.saved = [] := by
        have := hs 1 (by omega)
        simpa [runFuel, hst] using this
      refine ih w' (step_ok ok hst) (trace_sorted_step ok tok hst h0 h1) ?_
      intro k hk
      have := hs (k + 1) (by omega)
      simpa [runFuel, hst] using this

end World

/-- **C01 as an observer sees it, for every program**: run the initial world of any program for any number of steps
with assertions on; if no nested simulation is open along the way, the time stamps of the trace - the very trace that
is compared with the implementation event by event - never decrease and never exceed the clock -/
theorem initWorld_trace_sorted (start : Rat) (d : Decls Rat) (roots : List (Prog Rat)) (till : Option Rat) (n : Nat)
    (hs : ∀ k, k ≤ n → ((initWorld { debug := true } start d roots till).runFuel k).1.saved = []) :
    World.TraceOk ((initWorld { debug := true } start d roots till).runFuel n).1 := by
  refine World.trace_sorted_run n _ (initWorld_ok start d roots till).1 ?_ hs
  have : (initWorld { debug := true } start d roots till).trace = [] := by
    unfold initWorld
    simp only []
    have h0 : (initDecls { debug := true } start d).trace = ([] : List (Event Rat)) := by
      unfold initDecls
      simp only []
      have hf : ∀ {α} (f : World Rat → α → World Rat) (hf : ∀ w x, (f w x).trace = w.trace) (l : List α) (w : World Rat),
          (l.foldl f w).trace = w.trace := by
        intro α f hf l
        induction l with
        | nil => intro w; rfl
        | cons x xs ih => intro w; simp only [List.foldl_cons, ih, hf]
      repeat rw [hf _ (by intro w x; first | rfl | (split <;> rfl))]
    split
    · have hk : ∀ (l : List (Prog Rat)) (p : World Rat × List Activation),
          (l.foldl (fun (p : World Rat × List Activation) prog =>
            let (w, a) := p.1.newAct [.seq prog, .coroutineEnd] true p.2.length
            (w, p.2 ++ [{ target := a, signal := none }])) p).1.tv = p.1.tv :=
        fun l p => World.tv_foldl_pair _ (by intro p x; rfl) l p
      have := congrArg TV.trace (hk roots (initDecls { debug := true } start d, []))
      simp only [World.tv] at this
      simp only []
      rw [this, h0]
    · simp only [World.newAct]
      exact h0
  exact ⟨by rw [this]; simp, by rw [this]; simp⟩

end USim.Machine
