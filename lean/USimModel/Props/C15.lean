import USimModel.Props.C01
import USimModel.Machine.Run
/-!
# C15 - run() ends at quiescence, reports failures and keeps simulations isolated
-/
namespace USim.Prim.Kernel
open USim.Machine

/-- **run() returns only at quiescence**: the loop stops exactly when neither the current time
step nor the wait queue holds an activation -/
theorem run_returns_iff_quiescent (k : K) : k.next = .quiescent ↔ (k.pending = [] ∧ k.queue = []) := by
  constructor
  · exact next_quiescent k
  · rintro ⟨hp, hq⟩
    simp [K.next, hp, hq]

/-- an unreceived return value is an error: `_run_coroutine` raises ActivityLeak exactly when the
coroutine returned a value (any value, also a falsy one) -/
theorem leak_iff_value (v : Option Int) : USim.Gen.Kernel.leaks v = true ↔ v ≠ none := by
  cases v <;> simp [USim.Gen.Kernel.leaks]

/-- `StateHandler.assign` keeps a stack: whatever happens inside, leaving restores what was
visible before - after the outermost run nothing, after a nested run the enclosing loop -/
theorem assign_restores (stack : List Nat) (loop : Nat) :
    USim.Gen.Kernel.assignExit (USim.Gen.Kernel.assignEnter stack loop) = stack := rfl

theorem nested_assign_restores (stack : List Nat) (outer inner : Nat) :
    USim.Gen.Kernel.assignExit (USim.Gen.Kernel.assignEnter (USim.Gen.Kernel.assignEnter stack outer) inner)
      = USim.Gen.Kernel.assignEnter stack outer := rfl

end USim.Prim.Kernel

namespace USim.Machine.World
open USim.Machine

/-- the machine: a root coroutine that ends with a value crashes the run with ActivityLeak, one
that ends without a value does not, an exception that leaves it is what `run()` raises (same object) -/
theorem finish_root (w : World Rat) (a : ActId) (x : ActId × Mode) (h : w.ctl = [x]) :
    (w.finishAct a (.ret .unit)).crashed = w.crashed ∧
    (∀ i, ((w.finishAct a (.ret (.int i))).crashed.map (fun e => (w.finishAct a (.ret (.int i))).exn e)) = some .activityLeak) ∧
    (∀ e, (w.finishAct a (.raise e)).crashed = some e) := by
  refine ⟨?_, ?_, ?_⟩
  · simp [finishAct, setAct, h]
  · intro i
    simp [finishAct, setAct, h, newExn, exn]
  · intro e
    simp [finishAct, setAct, h]

/-- a nested `run()` leaves the enclosing simulation's clock, current step and wait queue exactly
as they were -/
theorem nested_return_restores (w : World Rat) (sv : Saved Rat) (rest : List (Saved Rat)) (h : w.saved = sv :: rest) :
    ∃ w', w.nestedReturn = some w' ∧ w'.time = sv.time ∧ w'.turn = sv.turn ∧ w'.pending = sv.pending ∧
      w'.queue = sv.queue ∧ w'.saved = rest := by
  unfold nestedReturn
  rw [h]
  cases hc : w.crashed with
  | none => exact ⟨_, rfl, by simp [setMode]; split <;> simp⟩
  | some e => exact ⟨_, rfl, by simp [setMode]; split <;> simp⟩

end USim.Machine.World
