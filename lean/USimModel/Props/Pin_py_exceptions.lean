import USimModel.Gen.Pins
/-! every definition of `usim/py/exceptions.py` is the one the model was written against (extract/gen_pins.py) -/
namespace USim.Pins

theorem py_exceptions_as_modelled : USim.Gen.Pins.changed_py_exceptions = [] := rfl

end USim.Pins
