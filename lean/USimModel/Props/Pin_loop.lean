import USimModel.Gen.Pins
/-! every definition of `usim/_core/loop.py` is the one the model was written against (extract/gen_pins.py) -/
namespace USim.Pins

theorem loop_as_modelled : USim.Gen.Pins.changed_loop = [] := rfl

end USim.Pins
