import USimModel.Gen.Pins
/-! every definition of `usim/_core/waitq.py` is the one the model was written against (extract/gen_pins.py) -/
namespace USim.Pins

theorem waitq_as_modelled : USim.Gen.Pins.changed_waitq = [] := rfl

end USim.Pins
