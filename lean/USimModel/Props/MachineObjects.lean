import USimModel.Lemmas.OStep
/-!
# The whole machine: what is said once about an object stays said
# (C04, C05, C10, C11, C15, C18 - for every program and every number of steps)

`Lemmas/OView.lean` / `OStep.lean` show that no statement, frame or primitive of the machine

* modifies an exception object (they are only ever created),
* changes the identity of a scope, removes or reorders a recorded child failure, re-opens a scope that was closed to new
  tasks (`_interruptable = False`) or adds a child to such a scope,
* re-opens a closed queue or channel, or adds an item to the buffer of a closed queue,
* changes the value of an event of the SimPy layer that has one.

Here this is lifted to runs (`step_oext`, `run_oext`) and read off clause by clause:

* `exception_objects_immutable` - C05 "the very exception its own body raised", "exactly the exception objects with which
  direct children .. failed", C15 "re-raises .. unchanged": whatever table entry a handler, a `Concurrent` or `run()` refers
  to, it is the object that was raised;
* `closed_scope_gains_no_child` - C04 "spawning into a scope that has ended is refused": the lists of (volatile) children of
  a closed scope only ever shrink, and it stays closed;
* `failures_append_only` - C05 "each once and in order of occurrence": the failures a scope has recorded stay a prefix of
  what it records later;
* `closed_queue_forever` - C10 "`put` on a closed queue raises StreamClosed and stores nothing": closed for ever, and the
  buffer from then on is always a suffix of what it was (items are only taken from the front);
* `queue_fifo_forever` - C10 "receives complete in the order the items were put": the buffer only loses items at the front and
  gains items at the back;
* `closed_channel_forever` - C11;
* `event_triggered_once` - C18 "an event is triggered at most once": a value, once there, is the value for ever;
* `callbacks_processed_once` - C18 "its callbacks run exactly once": processed callbacks are never armed again.
-/
set_option linter.unusedVariables false
set_option linter.unusedSimpArgs false
namespace USim.Machine
open TimeLike USim.Prim.Kernel
namespace World

theorem activate_oext {o0 : OV} (w : World Rat) (t : ActId) (s : Option SigId)
    (h0 : OX(o0, w)) : OX(o0, (w.activate t s)) := by
  unfold activate; ox h0

theorem ov_of_setMode (w : World Rat) (m : Mode) : (w.setMode m).ov = w.ov := by unfold setMode; split <;> rfl

theorem oext_refl (w : World Rat) : OX(w.ov, w) := OExt.refl' _ _ _ _ _

/-- one transition of the running activity -/
theorem microStep_ostep {o0 : OV} (w : World Rat) (h0 : OX(o0, w)) : OX(o0, w.microStep) := by
  unfold microStep
  cases hc : w.ctl with
  | nil => exact h0
  | cons x rest =>
    obtain ⟨a, mode⟩ := x
    simp only []
    cases hf : (w.act a).frames with
    | nil => exact finishAct_oext w a mode h0
    | cons f fs =>
      cases mode with
      | raise e => exact stepRaise_oext w a f fs e h0
      | ret v =>
        simp only []
        by_cases hn : ∃ progs start ss, f = .seq (.nestedRun progs start :: ss)
        · obtain ⟨progs, start, ss, rfl⟩ := hn
          simp only [stepRet, execStmt]
          have h1 := oext_foldl_pair (o0 := o0) (fun (p : World Rat × List Activation) (prog : Prog Rat) =>
                let (w, x) := p.1.newAct [.seq prog, .coroutineEnd] true (10000 + 100 * p.1.nestedRuns + p.2.length)
                (w, p.2 ++ [{ target := x, signal := none }]))
              (by intro p x h; exact h) progs
              (w.setFrames a (.nestedRun :: .seq ss :: fs), []) h0
          exact h1
        · exact stepRet_oext w a f fs v (fun p st ss h => hn ⟨p, st, ss, h⟩) h0

/-- **one step of the machine** -/
theorem step_oext {w w' : World Rat} (h : w.step = some w') : OX(w.ov, w') := by
  unfold step at h
  split at h
  · have hret : ∀ {w w' : World Rat}, w.nestedReturn = some w' → w'.ov = w.ov := by
      intro w w' h
      unfold nestedReturn at h
      split at h
      · cases h
      · simp only at h
        split at h <;> (cases h; rw [ov_of_setMode]; rfl)
    unfold kernelStep at h
    split at h
    · exact oext_of_ov (hret h) (oext_refl w)
    · split at h
      · simp only at h
        split at h
        all_goals
          split at h
          · simp only [Option.some.injEq] at h; subst h; exact activate_oext _ _ _ (oext_refl _)
          · simp only [Option.some.injEq] at h; subst h; exact oext_refl _
      · split at h
        · cases h; exact oext_refl _
        · exact oext_of_ov (hret h) (oext_refl w)
  · cases h; exact microStep_ostep w (oext_refl w)

/-- **any number of steps of any program** -/
theorem run_oext (n : Nat) : ∀ (w : World Rat), OX(w.ov, (w.runFuel n).1) := by
  induction n with
  | zero => intro w; exact oext_refl w
  | succ n ih =>
    intro w
    unfold runFuel
    split
    · exact oext_refl w
    · rename_i w' hst
      exact OExt.trans' (step_oext hst) (ih w')

theorem getD_of_arrExt {α : Type} [Inhabited α] {R : α → α → Prop} {a0 a : Array α} (h : ArrExt R a0 a) (i : Nat) (d : α)
    (hi : i < a0.size) : a0.getD i d = a0.getD i default ∧ a.getD i d = a.getD i default := by
  have hi' := Nat.lt_of_lt_of_le hi h.1
  simp [Array.getD_eq_getD_getElem?, hi, hi']

/-- **exception objects are immutable**: the entry `e` of the table is the same object after any number of steps -/
theorem exception_objects_immutable (n : Nat) (w : World Rat) (e : ExnId) (he : e < w.exns.size) :
    (w.runFuel n).1.exn e = w.exn e := by
  have hx := (run_oext n w).exns
  have k := hx.2 e he
  have g := getD_of_arrExt hx e .genExit he
  unfold exn
  rw [g.2, k]
  exact g.1.symm

/-- **a scope that is closed to new tasks never gains a child** (and stays closed): `Scope.do` refuses, whatever the
program tries, for ever -/
theorem closed_scope_gains_no_child (n : Nat) (w : World Rat) (s : ScopeId) (hs : s < w.scopes.size)
    (hc : (w.scope s).interruptable = false) :
    ((w.runFuel n).1.scope s).interruptable = false ∧
    ((w.runFuel n).1.scope s).children.Sublist (w.scope s).children ∧
    ((w.runFuel n).1.scope s).volatileChildren.Sublist (w.scope s).volatileChildren :=
  ((run_oext n w).scopes.2 s hs).2.2.2.2.2.2.2.2 hc

/-- **the failures a scope has recorded are never removed or reordered** -/
theorem failures_append_only (n : Nat) (w : World Rat) (s : ScopeId) (hs : s < w.scopes.size) :
    (w.scope s).failures <+: ((w.runFuel n).1.scope s).failures :=
  ((run_oext n w).scopes.2 s hs).2.2.2.2.2.2.2.1

/-- **a scope is the same scope for ever**: same `_body_done` flag, same private cancel signal, same instance -/
theorem scope_identity (n : Nat) (w : World Rat) (s : ScopeId) (hs : s < w.scopes.size) :
    ((w.runFuel n).1.scope s).bodyDone = (w.scope s).bodyDone ∧ ((w.runFuel n).1.scope s).cancelSelf = (w.scope s).cancelSelf ∧
    ((w.runFuel n).1.scope s).name = (w.scope s).name ∧ ((w.runFuel n).1.scope s).inst = (w.scope s).inst :=
  let k := (run_oext n w).scopes.2 s hs
  ⟨k.1, k.2.1, k.2.2.1, k.2.2.2.1⟩

/-- **an `until` scope listens to the same notification, with the same interrupt signal, on behalf of the same activity, for
ever** (C07: what ends the block is the notification it was entered with) -/
theorem scope_listens_forever (n : Nat) (w : World Rat) (s : ScopeId) (hs : s < w.scopes.size) :
    ((w.runFuel n).1.scope s).activity = (w.scope s).activity ∧
    ((w.runFuel n).1.scope s).notification = (w.scope s).notification ∧
    ((w.runFuel n).1.scope s).interrupt = (w.scope s).interrupt :=
  let k := (run_oext n w).scopes.2 s hs
  ⟨k.2.2.2.2.1, k.2.2.2.2.2.1, k.2.2.2.2.2.2.1⟩

/-- **a closed queue stays closed and nothing is ever added to it**: its buffer is a suffix of what it was -/
theorem closed_queue_forever (n : Nat) (w : World Rat) (q : Name) (hq : q < w.queues.size)
    (hc : (w.queues.getD q default).closed = true) :
    ((w.runFuel n).1.queues.getD q default).closed = true ∧
    ((w.runFuel n).1.queues.getD q default).buffer <:+ (w.queues.getD q default).buffer :=
  ((run_oext n w).queues.2 q hq).2.2.1 hc

/-- **a queue is FIFO for every program**: after any number of steps its buffer is what it was, minus some items taken from
the *front*, plus some items added at the *back* - nothing is ever reordered, inserted in the middle or removed from
anywhere but the head -/
theorem queue_fifo_forever (n : Nat) (w : World Rat) (q : Name) (hq : q < w.queues.size) :
    ∃ k ys, ((w.runFuel n).1.queues.getD q default).buffer = (w.queues.getD q default).buffer.drop k ++ ys :=
  ((run_oext n w).queues.2 q hq).2.2.2

/-- a queue keeps its notification and its read mutex -/
theorem queue_identity (n : Nat) (w : World Rat) (q : Name) (hq : q < w.queues.size) :
    ((w.runFuel n).1.queues.getD q default).notif = (w.queues.getD q default).notif ∧
    ((w.runFuel n).1.queues.getD q default).mutex = (w.queues.getD q default).mutex :=
  let k := (run_oext n w).queues.2 q hq
  ⟨k.1, k.2.1⟩

/-- **a closed channel stays closed** -/
theorem closed_channel_forever (n : Nat) (w : World Rat) (c : Name) (hq : c < w.chans.size)
    (hc : (w.chans.getD c default).closed = true) : ((w.runFuel n).1.chans.getD c default).closed = true :=
  ((run_oext n w).chans.2 c hq).2 hc

/-- **an event is triggered at most once**: once it has a value (`succeed`, `fail`, `trigger`, a timeout firing, a
process ending), that value - result or exception object - is its value after any number of steps of any program -/
theorem event_triggered_once (n : Nat) (w : World Rat) (e : Nat) (he : e < w.py.events.size)
    (hv : (w.pyEv e).value.isSome = true) : ((w.runFuel n).1.pyEv e).value = (w.pyEv e).value :=
  ((run_oext n w).events.2 e he).2.2.1 hv

/-- **the callbacks of an event run at most once**: `Event._invoke_callbacks` processes them only while the list exists and
sets it to `None`; from then on no callback is ever armed on that event again (`callbacks` stays `None`), whatever the
program does -/
theorem callbacks_processed_once (n : Nat) (w : World Rat) (e : Nat) (he : e < w.py.events.size)
    (hc : (w.pyEv e).callbacks = none) : ((w.runFuel n).1.pyEv e).callbacks = none :=
  ((run_oext n w).events.2 e he).2.2.2 hc

/-- an event keeps its flag and its kind -/
theorem event_identity (n : Nat) (w : World Rat) (e : Nat) (he : e < w.py.events.size) :
    ((w.runFuel n).1.pyEv e).flag = (w.pyEv e).flag ∧ ((w.runFuel n).1.pyEv e).kind = (w.pyEv e).kind :=
  let k := (run_oext n w).events.2 e he
  ⟨k.1, k.2.1⟩

/-! ### the second trigger is refused, and refusing changes nothing (the step the lemma above rests on) -/

/-- `Event.succeed/fail/trigger` on an event that has a value: the call raises and the world is untouched -/
theorem second_trigger_refused (w : World Rat) (e : Nat) (v : Int × Option ExnId) (cv : List Nat)
    (hv : (w.pyEv e).value.isSome = true) : w.pySetValue e v cv = (w, some .pyTriggeredTwice) := by
  unfold pySetValue; rw [if_pos hv]

/-! ### the hypotheses are satisfiable (non-vacuity) -/
example : ∃ w : World Rat, 0 < w.scopes.size ∧ (w.scope 0).interruptable = false ∧ (w.scope 0).children = [3] :=
  ⟨{ (default : World Rat) with scopes := #[{ bodyDone := 0, cancelSelf := 0, interruptable := false, children := [3] }] },
   by decide, rfl, rfl⟩
example : ∃ w : World Rat, 0 < w.queues.size ∧ (w.queues.getD 0 default).closed = true :=
  ⟨{ (default : World Rat) with queues := #[{ notif := 0, mutex := 0, closed := true, buffer := [1, 2] }] }, by decide, rfl⟩
example : ∃ w : World Rat, 0 < w.py.events.size ∧ (w.pyEv 0).value.isSome = true :=
  ⟨{ (default : World Rat) with py := { events := #[{ flag := 0, value := some (7, none) }] } }, by decide, rfl⟩

end World
end USim.Machine
