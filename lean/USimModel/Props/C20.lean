import USimModel.Machine.Run
import USimModel.Props.C02
import USimModel.Gen.Timing
import USimModel.Gen.Scope
/-!
# C20 - every awaitable operation yields to the other runnable activities at least once

For **every** world state (not only reachable ones): the primitives `postpone`/`suspend` always
hibernate the running activity, and each listed operation reaches one of them (or a wait) before it
can complete.  Together with the FIFO order of the current time step (C02: `fifo_now`,
`awakeAll_order`) every activity that was runnable before runs before the operation completes.
-/
namespace USim.Machine.World
open USim.Machine

variable (w : World Rat)

/-- the running activity is suspended and removed from the control stack -/
def Hibernated (w' : World Rat) (a : ActId) : Prop :=
  (w'.act a).status = .suspended

theorem hibernate_suspends (a : ActId) (fs : List (Frame Rat)) (h : a < w.acts.size) :
    Hibernated (w.hibernate a fs) a := by
  unfold Hibernated hibernate
  simp only
  split <;> simp [act, setAct, Array.getD, h, Array.getElem_modify, newExn]

/-- **`postpone()` always hibernates**, with its wake-up scheduled *behind* everything that is already
runnable in this time step -/
theorem postpone_hibernates (a : ActId) (fs : List (Frame Rat)) (h : a < w.acts.size) :
    Hibernated (w.doPostpone a fs) a ∧
    ∃ wake, (w.doPostpone a fs).pending = w.pending ++ [⟨a, some wake⟩] := by
  unfold doPostpone
  simp only
  refine ⟨?_, ?_⟩
  · apply hibernate_suspends
    simp [scheduleNow, setSig, newSig, newExn, h]
  · refine ⟨w.sigs.size, ?_⟩
    unfold hibernate
    simp only
    split <;> simp [scheduleNow, setSig, newSig, newExn, setAct]

/-! the listed operations reach `postpone` / a suspension before completing: -/

theorem setFlag_postpones (a : ActId) (fs : List (Frame Rat)) (f : Name) (b : Bool) (c : CondId)
    (hb : lookup w.flagIds f = some c) (v : Bool) (inv : CondId) (hk : (w.cond c).kind = .flag v inv) :
    ∃ w' : World Rat, w.execStmt a fs (.setFlag f b) = w'.doPostpone a fs := by
  simp only [execStmt, hb]
  have : ((w.emit a "setflag" [↑f, if b = true then 1 else 0]).cond c).kind = .flag v inv := by simpa [emit, cond] using hk
  simp only [this]
  exact ⟨_, rfl⟩

theorem sleep_zero_postpones (a : ActId) (fs : List (Frame Rat)) :
    ∃ (w' : World Rat) (fs' : List (Frame Rat)), w.execStmt a fs (.sleep 0) = w'.doPostpone a fs' := by
  simp only [execStmt]
  have h1 : TimeLike.lt (0 : Rat) (TimeLike.zero : Rat) = false := by decide
  have h2 : TimeLike.beq (0 : Rat) (TimeLike.zero : Rat) = true := by decide
  simp only [h1, h2, Bool.false_eq_true, if_false, if_true]
  exact ⟨_, _, rfl⟩

theorem setTracked_postpones (a : ActId) (fs : List (Frame Rat)) (x : Name) (v : Int) :
    ∃ w' : World Rat, w.execStmt a fs (.setTracked x v) = w'.doPostpone a fs := ⟨_, rfl⟩

theorem qClose_postpones (a : ActId) (fs : List (Frame Rat)) (q : Name) :
    ∃ w' : World Rat, w.execStmt a fs (.qClose q) = w'.doPostpone a fs := ⟨_, rfl⟩

theorem cClose_postpones (a : ActId) (fs : List (Frame Rat)) (c : Name) :
    ∃ w' : World Rat, w.execStmt a fs (.cClose c) = w'.doPostpone a fs := ⟨_, rfl⟩

theorem qPut_postpones_or_raises (a : ActId) (fs : List (Frame Rat)) (q : Name) (v : Int) :
    (∃ w' : World Rat, w.execStmt a fs (.qPut q v) = w'.doPostpone a fs) ∨ (w.queues.getD q default).closed = true := by
  by_cases h : (w.queues.getD q default).closed = true
  · exact Or.inr h
  · left
    simp only [execStmt, emit]
    simp only [Bool.not_eq_true] at h
    simp only [h, Bool.false_eq_true, if_false]
    exact ⟨_, rfl⟩

theorem cPut_postpones_or_raises (a : ActId) (fs : List (Frame Rat)) (c : Name) (v : Int) :
    (∃ w' : World Rat, w.execStmt a fs (.cPut c v) = w'.doPostpone a fs) ∨ (w.chans.getD c default).closed = true := by
  by_cases h : (w.chans.getD c default).closed = true
  · exact Or.inr h
  · left
    simp only [execStmt, emit]
    simp only [Bool.not_eq_true] at h
    simp only [h, Bool.false_eq_true, if_false]
    exact ⟨_, rfl⟩

/-- a scope block whose body has finished always sets its flag and postpones before anything else
(`await self._body_done.set()`), also when it has no children at all -/
theorem scope_exit_postpones (a : ActId) (s : ScopeId) (fs : List (Frame Rat)) (v : Val) :
    ∃ w' : World Rat, w.stepRet a (.scopeBody s) fs v = w'.doPostpone a (.scopeExitSet s :: fs) := ⟨_, rfl⟩

/-- a condition that already holds is awaited by postponing first (`if self: yield from postpone()`) -/
theorem await_true_condition_postpones (a : ActId) (fs : List (Frame Rat)) (c : CondId) (v : Bool) (inv : CondId)
    (hk : (w.cond c).kind = .flag v inv) (ht : w.eval c = true) :
    w.doCondAwait a fs c = w.doPostpone a (.condLoop c :: fs) := by
  simp [doCondAwait, hk, ht]

/-- a zero-volume transfer postpones, on a finite and on an infinite pipe (finding F6, repaired) -/
theorem transfer_zero_postpones (a : ActId) (fs : List (Frame Rat)) (p : Name) :
    ∃ (w' : World Rat) (fs' : List (Frame Rat)), w.execStmt a fs (.transfer p 0 none) = w'.doPostpone a fs' := by
  simp only [execStmt, emit]
  have h1 : TimeLike.lt (0 : Rat) (TimeLike.zero : Rat) = false := by decide
  have h2 : TimeLike.beq (0 : Rat) (TimeLike.zero : Rat) = true := by decide
  simp only [h1, h2, Bool.or_self, Bool.and_false, Bool.false_eq_true, if_false, if_true]
  split <;> exact ⟨_, _, rfl⟩

theorem skeletons_pinned : USim.Gen.Timing.skeletonsMatched = 48 ∧ USim.Gen.Scope.skeletonsMatched = 33 := ⟨rfl, rfl⟩

end USim.Machine.World
