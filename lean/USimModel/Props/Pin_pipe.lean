import USimModel.Gen.Pins
/-! every definition of `usim/_basics/pipe.py` is the one the model was written against (extract/gen_pins.py) -/
namespace USim.Pins

theorem pipe_as_modelled : USim.Gen.Pins.changed_pipe = [] := rfl

end USim.Pins
