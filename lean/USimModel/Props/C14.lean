import USimModel.Gen.Ticker
/-!
# C14 - interval() ticks on a fixed grid, delay() pauses a fixed span, for any body

Theorems about the step arithmetic of `interval`/`delay` as regenerated from `timing.py`.
-/
namespace USim.Ticker
open USim.Gen.Ticker

/-- the clock value at which the iterator resumes its body (by C01: `suspend(d)` resumes at
`now + d`, `postpone()` in the same time step) -/
def resumeAt (now : Rat) : Wait → Rat
  | .suspend d => now + d
  | .postpone => now
  | .exceeded => now

/-- every step that does not raise hibernates: a suspension for a positive time or a postponement -/
def yields : Wait → Bool
  | .suspend d => decide (d > 0)
  | .postpone => true
  | .exceeded => false

/-- **IntervalExceeded exactly when the body took longer than the period** -/
theorem interval_exceeded_iff (period last now : Rat) :
    intervalStep period last now = .exceeded ↔ now - last > period := by
  unfold intervalStep
  simp only
  by_cases h : last + period - now < 0
  · simp only [h, decide_true, if_true, true_iff]; grind
  · simp only [h, decide_false, Bool.false_eq_true, if_false]
    have hn : ¬ now - last > period := by grind
    constructor
    · intro h'; split at h' <;> simp at h'
    · intro h'; exact absurd h' hn

/-- **the next tick is on the grid**: whatever the body did, as long as it took at most one period,
the iterator resumes at exactly `last + period` - and it always yields to the loop first -/
theorem interval_next_tick (period last now : Rat) (h : now - last ≤ period) :
    resumeAt now (intervalStep period last now) = last + period ∧ yields (intervalStep period last now) = true := by
  unfold intervalStep
  simp only
  split
  · rename_i h1; simp only [decide_eq_true_eq] at h1; grind
  · split
    · rename_i h1 h2
      simp only [decide_eq_true_eq] at h2
      refine ⟨by simp only [resumeAt]; grind, by simp [yields, h2]⟩
    · rename_i h1 h2
      simp only [decide_eq_true_eq] at h1 h2
      refine ⟨by simp only [resumeAt]; grind, rfl⟩

/-- the ticks of `interval(period)` started at `start` when the k-th body run takes `ds[k]` -/
def ticks (period : Rat) : Rat → List Rat → List Rat
  | last, [] => [resumeAt last (intervalStep period last last)]
  | last, d :: ds =>
    -- first wait: from the previous tick itself (no body has run yet for the very first one)
    let t := resumeAt last (intervalStep period last last)
    t :: (match intervalStep period t (t + d) with
          | .exceeded => []
          | w => ticksFrom period t (resumeAt (t + d) w) ds)
where
  ticksFrom (period : Rat) : Rat → Rat → List Rat → List Rat
    | _, t, [] => [t]
    | _, t, d :: ds =>
      t :: (match intervalStep period t (t + d) with
            | .exceeded => []
            | w => ticksFrom period t (resumeAt (t + d) w) ds)

/-- **fixed grid** (one step of the induction): after a tick at `t`, a body run of duration
`0 ≤ d ≤ period` is followed by a tick at exactly `t + period` -/
theorem grid_step (period t d : Rat) (h0 : 0 ≤ d) (hd : d ≤ period) :
    resumeAt (t + d) (intervalStep period t (t + d)) = t + period := by
  have := (interval_next_tick period t (t + d) (by grind)).1
  exact this

/-- **fixed grid**: the k-th tick is at `start + k·period` for every sequence of body durations
that never exceed the period -/
theorem interval_grid (period start : Rat) (hp : 0 ≤ period) :
    ∀ (k : Nat) (ds : List Rat), (∀ d ∈ ds, 0 ≤ d ∧ d ≤ period) → k ≤ ds.length →
      -- the time of tick number k+1 when the first k bodies took ds[0..k)
      (ds.take k).foldl (fun t d => resumeAt (t + d) (intervalStep period t (t + d))) (start + period)
        = start + period * ((k + 1 : Nat) : Rat) := by
  intro k
  induction k with
  | zero => intro ds _ _; simp
  | succ k ih =>
    intro ds hds hk
    have hlt : k < ds.length := by omega
    rw [List.take_succ, List.foldl_append, ih ds hds (by omega)]
    have hd := hds ds[k] (List.getElem_mem hlt)
    simp only [List.getElem?_eq_getElem hlt, Option.toList_some, List.foldl_cons, List.foldl_nil]
    rw [grid_step period _ _ hd.1 hd.2]
    push_cast
    grind

/-- the first wait of `interval(period)` ends at `start + period` -/
theorem interval_first_tick (period start : Rat) (hp : 0 ≤ period) :
    resumeAt start (intervalStep period start start) = start + period :=
  (interval_next_tick period start start (by grind)).1

/-- **delay() pauses exactly `period`** after the end of each body run, and always yields -/
theorem delay_gap (period now : Rat) (hp : 0 ≤ period) :
    resumeAt now (delayStep period) = now + period ∧ yields (delayStep period) = true := by
  unfold delayStep
  split
  · rename_i h; simp only [decide_eq_true_eq] at h; exact ⟨rfl, by simp [yields, h]⟩
  · rename_i h; simp only [decide_eq_true_eq] at h
    refine ⟨by simp only [resumeAt]; grind, rfl⟩

/-- **negative periods are rejected** by both iterators -/
theorem negative_rejected (period : Rat) (h : period < 0) : intervalRejects period = true ∧ delayRejects period = true := by
  simp [intervalRejects, delayRejects, h]

theorem nonnegative_accepted (period : Rat) (h : 0 ≤ period) : intervalRejects period = false ∧ delayRejects period = false := by
  have : ¬ period < 0 := by grind
  simp [intervalRejects, delayRejects, this]

example : intervalStep 2 1 (7/2) = .exceeded := (interval_exceeded_iff 2 1 (7/2)).mpr (by grind)

end USim.Ticker
