import USimModel.Gen.Pins
/-! every definition of `usim/_primitives/flag.py` is the one the model was written against (extract/gen_pins.py) -/
namespace USim.Pins

theorem flag_as_modelled : USim.Gen.Pins.changed_flag = [] := rfl

end USim.Pins
