import USimModel.Gen.Pins
/-! every definition of `usim/py/resources/base.py` is the one the model was written against (extract/gen_pins.py) -/
namespace USim.Pins

theorem py_res_base_as_modelled : USim.Gen.Pins.changed_py_res_base = [] := rfl

end USim.Pins
