import USimModel.Props.Machine
import USimModel.Lemmas.QStep
/-!
# The whole machine: a task never goes back
# (C06: the status of a task only moves forward - for every program)

`Task.status` is computed from two things: the stored result (`_result`) and, while there is none, whether the
task's coroutine (`__runner__`) has been started.  `Lemmas/QView.lean` / `QStep.lean` show that no statement, frame or
primitive ever takes a stored result away, changes which coroutine runs a task, or puts a coroutine back into the state
"created".  Here: along every run of every program the tables of tasks and activities only grow in this sense
(`step_qext`, `run_qext`), hence the **phase** of a task - 0 = created, 1 = running, 2 = finished (success, failed or
cancelled) - never decreases (`status_forward`), a finished task stays finished (`finished_forever`) and is the same task
with the same `done` condition for ever (`task_identity`).

What is **not** a theorem, because it is false (known finding F18, `Props/C06.lean`): that the stored result itself
never changes - a task closed inside `try/finally` whose clean-up raises has its `TaskClosed` result overwritten.
-/
set_option linter.unusedVariables false
set_option linter.unusedSimpArgs false
namespace USim.Machine
open TimeLike USim.Prim.Kernel
namespace World

theorem activate_qext {t0 : Array Task} {a0 : Array (Activity Rat)} (w : World Rat) (t : ActId) (s : Option SigId)
    (h0 : QExt t0 a0 w.tasks w.acts) : QExt t0 a0 (w.activate t s).tasks (w.activate t s).acts := by
  unfold activate; qx h0

/-- one transition of the running activity -/
theorem microStep_qstep {t0 : Array Task} {a0 : Array (Activity Rat)} (w : World Rat) (h0 : QExt t0 a0 w.tasks w.acts) :
    QExt t0 a0 w.microStep.tasks w.microStep.acts := by
  unfold microStep
  cases hc : w.ctl with
  | nil => exact h0
  | cons x rest =>
    obtain ⟨a, mode⟩ := x
    simp only []
    cases hf : (w.act a).frames with
    | nil => exact finishAct_qext w a mode h0
    | cons f fs =>
      cases mode with
      | raise e => exact stepRaise_qext w a f fs e h0
      | ret v =>
        simp only []
        by_cases hn : ∃ progs start ss, f = .seq (.nestedRun progs start :: ss)
        · obtain ⟨progs, start, ss, rfl⟩ := hn
          simp only [stepRet, execStmt]
          have h1 := qext_foldl_pair (t0 := t0) (a0 := a0) (fun (p : World Rat × List Activation) (prog : Prog Rat) =>
                let (w, x) := p.1.newAct [.seq prog, .coroutineEnd] true (10000 + 100 * p.1.nestedRuns + p.2.length)
                (w, p.2 ++ [{ target := x, signal := none }]))
              (by intro p x h; exact newAct_qext _ _ _ _ h) progs
              (w.setFrames a (.nestedRun :: .seq ss :: fs), []) (setFrames_qext w a _ h0)
          exact h1
        · exact stepRet_qext w a f fs v (fun p st ss h => hn ⟨p, st, ss, h⟩) h0

/-- **one step of the machine** -/
theorem step_qext {w w' : World Rat} (h : w.step = some w') : QExt w.tasks w.acts w'.tasks w'.acts := by
  unfold step at h
  split at h
  · have hret : ∀ {w w' : World Rat}, w.nestedReturn = some w' → w'.tasks = w.tasks ∧ w'.acts = w.acts := by
      intro w w' h
      unfold nestedReturn at h
      split at h
      · cases h
      · simp only at h
        split at h <;> (cases h; simp)
    unfold kernelStep at h
    split at h
    · rw [(hret h).1, (hret h).2]; exact QExt.refl _ _
    · split at h
      · simp only at h
        split at h
        all_goals
          split at h
          · simp only [Option.some.injEq] at h; subst h; exact activate_qext _ _ _ (QExt.refl _ _)
          · simp only [Option.some.injEq] at h; subst h; exact QExt.refl _ _
      · split at h
        · cases h; exact QExt.refl _ _
        · rw [(hret h).1, (hret h).2]; exact QExt.refl _ _
  · cases h; exact microStep_qstep w (QExt.refl _ _)

/-- **any number of steps of any program** -/
theorem run_qext (n : Nat) : ∀ (w : World Rat), QExt w.tasks w.acts (w.runFuel n).1.tasks (w.runFuel n).1.acts := by
  induction n with
  | zero => intro w; exact QExt.refl _ _
  | succ n ih =>
    intro w
    unfold runFuel
    split
    · exact QExt.refl _ _
    · rename_i w' hst
      exact (step_qext hst).trans (ih w')

/-- the phase of a task as `Task.status` computes it: 0 = CREATED, 1 = RUNNING, 2 = SUCCESS / FAILED / CANCELLED -/
def phase (w : World Rat) (t : TaskId) : Nat :=
  match (w.task t).result with
  | some _ => 2
  | none => if (w.act (w.task t).runner).status == .created then 0 else 1

/-- `phase` is the phase of `statusCode` (the value the `status` probe of the scenario language reports) -/
theorem phase_statusCode (w : World Rat) (t : TaskId) :
    w.phase t = (match w.statusCode t with | 1 => 0 | 2 => 1 | _ => 2) := by
  unfold phase statusCode
  cases hr : (w.task t).result with
  | none =>
    simp only
    cases hs : ((w.act (w.task t).runner).status == ActStatus.created) <;> rfl
  | some r =>
    obtain ⟨v, e⟩ := r
    cases e with
    | none => rfl
    | some e => simp only; cases w.exn e <;> rfl

/-- **the status of a task only moves forward**, whatever the program does, for every number of steps -/
theorem status_forward (n : Nat) (w : World Rat) (t : TaskId) (ht : t < w.tasks.size) :
    w.phase t ≤ (w.runFuel n).1.phase t := by
  have hx := run_qext n w
  have k := hx.tkeep t ht
  generalize (w.runFuel n).1 = w' at hx k ⊢
  show (match (w.tasks.getD t default).result with
      | some _ => 2
      | none => if ((w.acts.getD (w.tasks.getD t default).runner default).status == ActStatus.created) = true then 0 else 1) ≤
    (match (w'.tasks.getD t default).result with
      | some _ => 2
      | none => if ((w'.acts.getD (w'.tasks.getD t default).runner default).status == ActStatus.created) = true then 0 else 1)
  rw [k.1]
  have hk := k.2.2.2.2
  generalize (w.tasks.getD t default).runner = r at *
  generalize (w.tasks.getD t default).result = R at *
  generalize (w'.tasks.getD t default).result = R' at *
  cases R with
  | some x =>
    cases R' with
    | some y => exact Nat.le_refl 2
    | none => exact absurd (hk rfl) (by simp)
  | none =>
    cases R' with
    | some y =>
      show (if _ then 0 else 1) ≤ 2
      split <;> decide
    | none =>
      show (if _ then 0 else 1) ≤ (if _ then 0 else 1)
      by_cases hs : ((w.acts.getD r default).status == ActStatus.created) = true
      · rw [if_pos hs]; exact Nat.zero_le _
      · rw [if_neg hs]
        by_cases hb : r < w.acts.size
        · have hne : (w.acts.getD r default).status ≠ .created := by
            intro hc; rw [hc] at hs; exact hs rfl
          have h4 := hx.akeep _ hb hne
          have hs' : ¬ ((w'.acts.getD r default).status == ActStatus.created) = true := by
            intro h5
            apply h4
            cases h6 : (w'.acts.getD r default).status <;> first | rfl | (rw [h6] at h5; cases h5)
          rw [if_neg hs']; exact Nat.le_refl 1
        · exfalso
          apply hs
          have h7 : w.acts.getD r default = default := by
            rw [Array.getD_eq_getD_getElem?, Array.getElem?_eq_none (Nat.le_of_not_lt hb)]; rfl
          rw [h7]; rfl

/-- **a finished task stays finished** -/
theorem finished_forever (n : Nat) (w : World Rat) (t : TaskId) (ht : t < w.tasks.size)
    (h : (w.task t).result.isSome = true) : ((w.runFuel n).1.task t).result.isSome = true :=
  ((run_qext n w).tkeep t ht).2.2.2.2 h

/-- **a task is the same task for ever**: same coroutine, same parent scope, same volatility, same `done` condition -/
theorem task_identity (n : Nat) (w : World Rat) (t : TaskId) (ht : t < w.tasks.size) :
    ((w.runFuel n).1.task t).runner = (w.task t).runner ∧ ((w.runFuel n).1.task t).parent = (w.task t).parent ∧
    ((w.runFuel n).1.task t).volatile = (w.task t).volatile ∧ ((w.runFuel n).1.task t).done = (w.task t).done :=
  let k := (run_qext n w).tkeep t ht
  ⟨k.1, k.2.1, k.2.2.1, k.2.2.2.1⟩

end World
end USim.Machine
