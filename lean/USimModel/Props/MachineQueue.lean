import USimModel.Lemmas.OStep
import USimModel.Prim.Stream
/-!
# The machine's queue code is the open queue model, transition by transition (C10)

`Prim/Stream.lean` models `Queue` as a state machine over `put x` / `pop` / `close` / `other`; `Props/C10.lean` proves for every
sequence of these actions that every accepted item is received exactly once and in order.  The machine - the executable model
that is compared with the real usim turn by turn - has queue code of its own (the statements `qPut`, `qClose`, the frame
`qGetPop` in which a receiver that holds the read mutex takes its item, and the `put` of `first()`'s monitor).  For **every
world** the effect of each of them on the queue's buffer and closed-flag is the transition of the open model, and the item
that `pop` removes is the value handed to the receiver.  (`Props/MachineObjects.lean: queue_fifo_forever` shows for whole runs
that nothing else ever touches a buffer except at its two ends.)
-/
set_option linter.unusedVariables false
set_option linter.unusedSimpArgs false
namespace USim.Machine
open TimeLike USim.Prim.Kernel
namespace World
variable (w : World Rat)

/-- the queue `q` of the world as a state of the open model (buffer and closed-flag; the histories are not part of a world) -/
def absQueue (w : World Rat) (q : Name) : USim.Prim.Stream.QSt :=
  { buffer := (w.queues.getD q default).buffer, closed := (w.queues.getD q default).closed }

theorem getD_modify_at {α} [Inhabited α] (a : Array α) (i : Nat) (f : α → α) (h : i < a.size) :
    (a.modify i f).getD i default = f (a.getD i default) := by
  rw [Array.getD_eq_getD_getElem?, Array.getD_eq_getD_getElem?, Array.getElem?_modify]
  simp [h]

theorem absQueue_congr {w1 w2 : World Rat} (q : Name) (h : w1.queues = w2.queues) : w1.absQueue q = w2.absQueue q := by
  unfold absQueue; rw [h]

/-! ### continuations that do not touch the queues -/
theorem retTo_q (a : ActId) (fs : List (Frame Rat)) (v : Val) : (w.retTo a fs v).queues = w.queues := by
  unfold retTo; rw [ov_setMode_queues]; rfl
theorem raiseTo_q (a : ActId) (fs : List (Frame Rat)) (e : ExnId) : (w.raiseTo a fs e).queues = w.queues := by
  unfold raiseTo; rw [ov_setMode_queues]; rfl
theorem raiseNew_q (a : ActId) (fs : List (Frame Rat)) (c : ExnCls) : (w.raiseNew a fs c).queues = w.queues := by
  unfold raiseNew; dsimp only; rw [raiseTo_q]; rfl
theorem hibernate_q (a : ActId) (fs : List (Frame Rat)) : (w.hibernate a fs).queues = w.queues := by
  unfold hibernate; dsimp only; split <;> rfl
theorem doPostpone_q (a : ActId) (fs : List (Frame Rat)) : (w.doPostpone a fs).queues = w.queues := by
  unfold doPostpone; dsimp only; rw [hibernate_q, ov_scheduleNow_queues]; rfl
theorem awakeNext_q (c : CondId) : (w.awakeNext c).1.queues = w.queues := by
  unfold awakeNext; split
  · rfl
  · dsimp only; rw [ov_scheduleNow_queues]; rfl

theorem awakeAll_q (c : CondId) : (w.awakeAll c).queues = w.queues := by
  unfold awakeAll; dsimp only
  have hfold : ∀ (l : List (ActId × SigId)) (w0 : World Rat),
      (l.foldl (fun w (p : ActId × SigId) => w.scheduleNow p.1 (some p.2)) w0).queues = w0.queues := by
    intro l; induction l with
    | nil => intro w0; rfl
    | cons x xs ih => intro w0; rw [List.foldl_cons, ih, ov_scheduleNow_queues]
  rw [hfold]; rfl

/-! ### what each piece of queue code does to the table of queues -/
theorem qPut_closed_eq (a : ActId) (fs : List (Frame Rat)) (q : Name) (v : Int) (h : (w.queues.getD q default).closed = true) :
    w.execStmt a fs (.qPut q v) =
      ((({ w with putCount := w.putCount + 1 } : World Rat).emit a "putreq" [q, v * 1000 + w.putCount]).emit a "putrej"
        [q, v * 1000 + w.putCount]).raiseNew a fs .streamClosed := by
  simp only [execStmt]; rw [if_pos h]

theorem qPut_open_queues (a : ActId) (fs : List (Frame Rat)) (q : Name) (v : Int) (h : (w.queues.getD q default).closed = false) :
    (w.execStmt a fs (.qPut q v)).queues =
      w.queues.modify q (fun x => { x with buffer := x.buffer ++ [v * 1000 + w.putCount] }) := by
  simp only [execStmt]; rw [if_neg (by rw [h]; simp)]
  rw [doPostpone_q, awakeNext_q]; rfl

theorem qClose_queues (a : ActId) (fs : List (Frame Rat)) (q : Name) :
    (w.execStmt a fs (.qClose q)).queues =
      if (w.queues.getD q default).closed then w.queues else w.queues.modify q (fun x => { x with closed := true }) := by
  simp only [execStmt]; rw [doPostpone_q]
  cases h : (w.queues.getD q default).closed
  · simp only [Bool.not_false, if_true, Bool.false_eq_true, if_false]
    rw [awakeAll_q]; rfl
  · simp only [Bool.not_true, Bool.false_eq_true, if_false, if_true]; rfl

theorem qGetPop_eq (a : ActId) (fs : List (Frame Rat)) (v : Val) (q : Name) (x : Int) (rest : List Int)
    (h : (w.queues.getD q default).buffer = x :: rest) :
    w.stepRet a (.qGetPop q) fs v =
      ({ w with queues := w.queues.modify q (fun y => { y with buffer := rest }) } : World Rat).retTo a fs (.int x) := by
  simp only [stepRet, h]

theorem qGetPop_empty_queues (a : ActId) (fs : List (Frame Rat)) (v : Val) (q : Name) (h : (w.queues.getD q default).buffer = []) :
    (w.stepRet a (.qGetPop q) fs v).queues = w.queues := by
  simp only [stepRet, h]
  by_cases hc : (w.queues.getD q default).closed = true
  · rw [if_pos hc, raiseNew_q]
  · rw [if_neg hc, raiseNew_q]

/-- **`Queue.put`**: an open queue takes the item at the *end* of its buffer; a closed queue takes nothing (and the call
raises StreamClosed, `qPut_closed_eq`) - the action `put` -/
theorem qPut_refines (a : ActId) (fs : List (Frame Rat)) (q : Name) (v : Int) (hq : q < w.queues.size) :
    ((w.execStmt a fs (.qPut q v)).absQueue q).buffer =
      (USim.Prim.Stream.qstep (w.absQueue q) (.put (v * 1000 + w.putCount))).buffer ∧
    ((w.execStmt a fs (.qPut q v)).absQueue q).closed =
      (USim.Prim.Stream.qstep (w.absQueue q) (.put (v * 1000 + w.putCount))).closed := by
  cases h : (w.queues.getD q default).closed
  · have e := qPut_open_queues w a fs q v h
    simp only [absQueue, USim.Prim.Stream.qstep, e, getD_modify_at _ _ _ hq, h, Bool.false_eq_true, if_false, and_self]
  · have e := qPut_closed_eq w a fs q v h
    rw [e, absQueue_congr q (raiseNew_q _ _ _ _)]
    simp only [absQueue, USim.Prim.Stream.qstep, h, if_true]
    exact ⟨rfl, h.symm ▸ rfl⟩

/-- **`Queue.close`** - the action `close`: closed from now on, the buffer is kept -/
theorem qClose_refines (a : ActId) (fs : List (Frame Rat)) (q : Name) (hq : q < w.queues.size) :
    ((w.execStmt a fs (.qClose q)).absQueue q).buffer = (USim.Prim.Stream.qstep (w.absQueue q) .close).buffer ∧
    ((w.execStmt a fs (.qClose q)).absQueue q).closed = (USim.Prim.Stream.qstep (w.absQueue q) .close).closed := by
  have e := qClose_queues w a fs q
  cases h : (w.queues.getD q default).closed
  · rw [h] at e
    simp only [Bool.false_eq_true, if_false] at e
    simp only [absQueue, USim.Prim.Stream.qstep, e, getD_modify_at _ _ _ hq, and_self]
  · rw [h] at e
    simp only [if_true] at e
    simp only [absQueue, USim.Prim.Stream.qstep, e, h, and_self]

/-- **the receiver that holds the read mutex takes its item** (`return self._buffer.popleft()`) - the action `pop`: the *head*
of the buffer leaves - and it is the value the receiver is resumed with (`qGetPop_eq`) -/
theorem qGetPop_refines (a : ActId) (fs : List (Frame Rat)) (v : Val) (q : Name) (hq : q < w.queues.size) :
    ((w.stepRet a (.qGetPop q) fs v).absQueue q).buffer = (USim.Prim.Stream.qstep (w.absQueue q) .pop).buffer ∧
    ((w.stepRet a (.qGetPop q) fs v).absQueue q).closed = (USim.Prim.Stream.qstep (w.absQueue q) .pop).closed := by
  cases hbuf : (w.queues.getD q default).buffer with
  | nil =>
    have e := qGetPop_empty_queues w a fs v q hbuf
    simp only [absQueue, USim.Prim.Stream.qstep, e, hbuf, and_self]
  | cons x rest =>
    rw [qGetPop_eq w a fs v q x rest hbuf, absQueue_congr q (retTo_q _ _ _ _)]
    have e : ({ w with queues := w.queues.modify q (fun y => { y with buffer := rest }) } : World Rat).queues =
        w.queues.modify q (fun y => { y with buffer := rest }) := rfl
    simp only [absQueue, USim.Prim.Stream.qstep, e, getD_modify_at _ _ _ hq, hbuf, and_self]

/-! ### non-vacuity: a queue with two buffered items -/
def exampleQueueWorld : World Rat :=
  { (default : World Rat) with queues := #[{ notif := 0, mutex := 0, buffer := [4001, 7002] }] }
example : ((exampleQueueWorld.stepRet 0 (.qGetPop 0) [] .unit).absQueue 0).buffer = [7002] := by
  have h := (qGetPop_refines exampleQueueWorld 0 [] .unit 0 (by decide)).1
  rw [h]; rfl

end World
end USim.Machine
