import USimModel.Gen.Pins
/-! every definition of `usim/_primitives/condition.py` is the one the model was written against (extract/gen_pins.py) -/
namespace USim.Pins

theorem condition_as_modelled : USim.Gen.Pins.changed_condition = [] := rfl

end USim.Pins
