import USimModel.Prim.Stream
import USimModel.Gen.Stream
/-!
# C10 - Queue delivers every accepted item exactly once, in order
-/
namespace USim.Prim.Stream

/-- **exactly once, in order**: after every sequence of puts, completed receives, closes and
arbitrary aborts of participants, (items received) ++ (items buffered) = (items accepted), as
sequences.  Hence no accepted item is lost or duplicated and receives complete in put order. -/
theorem exactly_once_in_order (acts : List QAct) (s : QSt) (h : s.received ++ s.buffer = s.accepted) :
    (qrun s acts).received ++ (qrun s acts).buffer = (qrun s acts).accepted := by
  induction acts generalizing s with
  | nil => exact h
  | cons a as ih =>
    apply ih
    cases a with
    | put x =>
      simp only [qstep]
      split
      · exact h
      · simp [← h]
    | pop =>
      simp only [qstep]
      split
      · exact h
      · rename_i x rest hb
        rw [hb] at h
        simp [← h]
    | close => exact h
    | other => exact h

theorem exactly_once_from_empty (acts : List QAct) :
    (qrun {} acts).received ++ (qrun {} acts).buffer = (qrun {} acts).accepted :=
  exactly_once_in_order acts {} rfl

/-- cancelling / interrupting / closing a participant at any suspension point neither loses nor
duplicates an item: such an action changes nothing the property talks about -/
theorem abort_preserves (s : QSt) : qstep s .other = s := rfl

/-- **close**: once closed, `put` raises and stores nothing; buffered items are still received
(pop works as before); the queue stays closed -/
theorem put_on_closed (s : QSt) (x : Int) (h : s.closed = true) :
    (qstep s (.put x)).buffer = s.buffer ∧ (qstep s (.put x)).accepted = s.accepted ∧
    (qstep s (.put x)).rejected = s.rejected ++ [x] := by
  simp [qstep, h]

theorem closed_stays (acts : List QAct) (s : QSt) (h : s.closed = true) : (qrun s acts).closed = true := by
  induction acts generalizing s with
  | nil => exact h
  | cons a as ih =>
    apply ih
    cases a <;> simp [qstep, h]
    split <;> simp [h]

theorem buffered_still_received (s : QSt) (x : Int) (rest : List Int) (hb : s.buffer = x :: rest) :
    (qstep s .pop).received = s.received ++ [x] ∧ (qstep s .pop).buffer = rest := by
  simp [qstep, hb]

/-- nothing is received that was not accepted before, and never from an empty buffer -/
theorem pop_empty (s : QSt) (hb : s.buffer = []) : qstep s .pop = s := by simp [qstep, hb]

/-! ### tie to `streams.py` (regenerated on every run) -/
theorem tie_put (s : QSt) (x : Int) : USim.Gen.Stream.queuePut s x = qstep s (.put x) := rfl
theorem tie_pop (s : QSt) : USim.Gen.Stream.queuePop s = qstep s .pop := rfl
theorem tie_close (s : QSt) : USim.Gen.Stream.queueClose s = qstep s .close := rfl

example : (qrun {} [.put 1, .put 2, .other, .pop, .close, .put 3, .pop, .pop]).received = [1, 2] := by decide

end USim.Prim.Stream
