import USimModel.Prim.Lock
import USimModel.Gen.Lock
/-!
# C09 - Lock: mutual exclusion, re-entrancy, FIFO hand-off, always released

Theorems about the open lock model, for **every** sequence of `enter / resume / abort / exit`
actions by any number of activities (= every schedule and every fault injected at any suspension
point).  The model's transitions are tied to `locks.py` by `Gen/Lock.lean` (regenerated on every
run) and to the executable machine by the exact trace correspondence.
-/
namespace USim.Prim.Lock

theorem release_inv (s : LockSt) (hw : s.woken = []) (hd : s.depth = 0) (hn : s.waiting.Nodup) : Inv (release s) := by
  unfold release
  cases hq : s.waiting with
  | nil =>
    exact ⟨fun _ => ⟨hd, by simp [hq], hw⟩, Or.inl hw, fun b h => by simp at h, fun b h => by simp at h, by simp [hq]⟩
  | cons b rest =>
    rw [hq] at hn
    have hb := (List.nodup_cons.mp hn)
    refine ⟨fun h => by simp at h, Or.inr ⟨b, by simp [hw], rfl, hd⟩, ?_, ?_, hb.2⟩
    · intro c hc _; simp at hc; simp [hw, hc]
    · intro c hc; simp at hc; subst hc; exact hb.1

theorem step_inv (s : LockSt) (act : Act) (h : Inv s) : Inv (step s act) := by
  unfold step
  split
  · rename_i hen
    obtain ⟨hfree, hwoken, hdes, hown, hnd⟩ := h
    cases act with
    | enter a =>
      simp only [enabled, Bool.and_eq_true, Bool.not_eq_true', List.contains_eq_mem, decide_eq_false_iff_not] at hen
      simp only [apply]
      cases ho : s.owner with
      | none =>
        obtain ⟨h1, h2, h3⟩ := hfree ho
        exact ⟨fun h => by simp at h, Or.inl h3, fun b _ hd => by simp at hd, fun b hb => by simp at hb; subst hb; exact hen.1, hnd⟩
      | some o =>
        simp only
        split
        · rename_i hoa
          simp at hoa; subst hoa
          have hw : s.woken = [] := by
            rcases hwoken with hw | ⟨b, hb, hob, _⟩
            · exact hw
            · rw [ho] at hob; simp at hob; subst hob; rw [hb] at hen; simp at hen
          exact ⟨fun h => by simp [ho] at h, Or.inl hw, fun b _ hd => by simp at hd, fun b hb => hown b (by simpa [ho] using hb), hnd⟩
        · rename_i hoa
          simp at hoa
          refine ⟨fun h => by simp [ho] at h, ?_, ?_, ?_, ?_⟩
          · simpa [ho] using hwoken
          · intro b hb hd; exact hdes b (by simpa [ho] using hb) hd
          · intro b hb; simp [ho] at hb; subst hb
            have := hown o ho
            simp [this]; exact hoa
          · exact List.nodup_append.mpr ⟨hnd, by simp, by simp; exact fun x hx h => hen.1 (h ▸ hx)⟩
    | resume a =>
      simp only [enabled, List.contains_eq_mem, decide_eq_true_eq] at hen
      simp only [apply]
      rcases hwoken with hw | ⟨b, hb, hob, hd⟩
      · rw [hw] at hen; simp at hen
      · rw [hb] at hen; simp at hen; subst hen
        exact ⟨fun h => by simp [hob] at h, Or.inl (by simp [hb]), fun c _ hd' => by simp at hd', hown, hnd⟩
    | abort a =>
      simp only [apply]
      split
      · rename_i hin
        simp at hin
        refine ⟨?_, hwoken, hdes, ?_, hnd.erase a⟩
        · intro ho; have := (hfree ho).2.1; rw [this] at hin; simp at hin
        · intro b hb hmem; exact hown b hb (List.mem_of_mem_erase hmem)
      · rename_i hnin
        simp only [enabled, List.contains_eq_mem, Bool.or_eq_true, decide_eq_true_eq] at hen
        simp at hnin
        have hinw : a ∈ s.woken := by
          rcases hen with h | h
          · exact absurd h hnin
          · exact h
        rcases hwoken with hw | ⟨b, hb, hob, hd⟩
        · rw [hw] at hinw; simp at hinw
        · rw [hb] at hinw; simp at hinw; subst hinw
          have hw' : (s.woken.erase a) = [] := by simp [hb]
          simp only [hob, beq_self_eq_true, if_true]
          exact release_inv { s with woken := s.woken.erase a } hw' hd hnd
    | exit a =>
      simp only [enabled, Bool.and_eq_true, beq_iff_eq, decide_eq_true_eq] at hen
      have hw : s.woken = [] := by
        rcases hwoken with hw | ⟨b, _, _, hd⟩
        · exact hw
        · have := hen.2; omega
      simp only [apply]
      split
      · rename_i hz
        simp at hz
        exact release_inv { s with depth := s.depth - 1 } hw hz hnd
      · rename_i hz
        simp at hz
        exact ⟨fun h => by simp [hen.1] at h, Or.inl hw, fun b _ hd => absurd hd hz, hown, hnd⟩
  · exact h

/-- the invariant holds after every action sequence -/
theorem run_inv (acts : List Act) : ∀ (s : LockSt), Inv s → Inv (run s acts) := by
  induction acts with
  | nil => intro s h; exact h
  | cons a as ih => intro s h; exact ih _ (step_inv s a h)

theorem init_inv : Inv {} :=
  ⟨fun _ => ⟨rfl, rfl, rfl⟩, Or.inl rfl, fun b h => by simp at h, fun b h => by simp at h, by simp⟩

/-- **mutual exclusion**: in every reachable state at most one activity is inside the block -/
theorem mutex (acts : List Act) (a b : Nat) (ha : inside (run {} acts) a = true) (hb : inside (run {} acts) b = true) :
    a = b := by
  simp only [inside, Bool.and_eq_true, beq_iff_eq] at ha hb
  have := ha.1.symm.trans hb.1
  simpa using this

/-- an activity gets inside only as the owner: `enter`/`resume` never let a second one in -/
theorem enter_only_when_free_or_owner (s : LockSt) (a : Nat) (hs : Inv s)
    (h : inside (step s (.enter a)) a = true) (hn : inside s a = false) :
    s.owner = none ∨ (s.owner = some a ∧ s.depth = 0) := by
  unfold step at h
  split at h
  · simp only [apply] at h
    cases ho : s.owner with
    | none => exact Or.inl rfl
    | some o =>
      right
      simp only [ho] at h
      split at h
      · rename_i hoa
        simp at hoa; subst hoa
        refine ⟨rfl, ?_⟩
        simp only [inside, ho, beq_self_eq_true, Bool.true_and, decide_eq_false_iff_not, Nat.not_lt, Nat.le_zero_eq] at hn
        exact hn
      · rename_i hoa
        simp [inside, ho] at h
        exact absurd h.1 (by simpa using hoa)
  · rw [hn] at h; exact absurd h (by simp)

/-- **re-entrancy**: leaving an inner block (depth > 1) keeps ownership; only the outermost exit
releases -/
theorem reentrant_depth (s : LockSt) (a : Nat) (ho : s.owner = some a) (hd : s.depth > 1) :
    (step s (.exit a)).owner = some a ∧ (step s (.exit a)).depth = s.depth - 1 ∧
    (step s (.exit a)).waiting = s.waiting := by
  have hen : enabled s (.exit a) = true := by simp [enabled, ho]; omega
  simp only [step, hen, if_true, apply]
  have : ¬ (s.depth - 1 = 0) := by omega
  simp [this, ho]

/-- **always released**: whenever nobody is inside, nobody waits and no designated owner is on its
way, the lock is free - after any history of exits, exceptions, cancellations, closes -/
theorem always_released (acts : List Act) (h1 : (run {} acts).depth = 0) (h2 : (run {} acts).waiting = [])
    (h3 : (run {} acts).woken = []) : (run {} acts).owner = none := by
  have hinv := run_inv acts {} init_inv
  cases ho : (run {} acts).owner with
  | none => rfl
  | some b =>
    have := hinv.designated b ho h1
    rw [h3] at this
    exact absurd this (by simp)

/-- **FIFO hand-off** (1): ownership is only ever passed to the *oldest* waiter -/
theorem designation_is_head (s : LockSt) (act : Act) (b : Nat)
    (hnew : b ∈ (step s act).woken) (hold : ¬ b ∈ s.woken) : s.waiting.head? = some b := by
  unfold step at hnew
  split at hnew
  · cases act with
    | enter a =>
      simp only [apply] at hnew
      split at hnew
      · exact absurd hnew hold
      · split at hnew <;> exact absurd hnew hold
    | resume a => exact absurd (List.mem_of_mem_erase hnew) hold
    | abort a =>
      simp only [apply] at hnew
      split at hnew
      · exact absurd hnew hold
      · split at hnew
        · unfold release at hnew
          cases hq : s.waiting with
          | nil => simp [hq] at hnew; exact absurd (List.mem_of_mem_erase hnew) hold
          | cons c rest =>
            simp [hq] at hnew
            rcases hnew with h | h
            · exact absurd (List.mem_of_mem_erase h) hold
            · simp [h]
        · exact absurd (List.mem_of_mem_erase hnew) hold
    | exit a =>
      simp only [apply] at hnew
      split at hnew
      · unfold release at hnew
        cases hq : s.waiting with
        | nil => simp [hq] at hnew; exact absurd hnew hold
        | cons c rest =>
          simp [hq] at hnew
          rcases hnew with h | h
          · exact absurd h hold
          · simp [h]
      · exact absurd hnew hold
  · exact absurd hnew hold

/-- **FIFO hand-off** (2): a new request goes to the end of the line, and no action reorders the
waiters: the waiting list after any action is a sublist of (old list ++ new requester) -/
theorem waiting_order_preserved (s : LockSt) (act : Act) :
    (step s act).waiting.Sublist (match act with | .enter a => s.waiting ++ [a] | _ => s.waiting) := by
  unfold step
  split
  · cases act with
    | enter a =>
      simp only [apply]
      split
      · exact List.sublist_append_left _ _
      · split
        · exact List.sublist_append_left _ _
        · exact List.Sublist.refl _
    | resume a => exact List.Sublist.refl _
    | abort a =>
      simp only [apply]
      split
      · exact List.erase_sublist
      · split
        · unfold release
          cases hq : s.waiting with
          | nil => simp
          | cons c rest => simp
        · exact List.Sublist.refl _
    | exit a =>
      simp only [apply]
      split
      · unfold release
        cases hq : s.waiting with
        | nil => simp
        | cons c rest => simp
      · exact List.Sublist.refl _
  · cases act <;> simp

/-- **available**: true exactly when the lock is free or owned by the asking activity -/
theorem available_iff (s : LockSt) (a : Nat) : available s a = true ↔ (s.owner = none ∨ s.owner = some a) := by
  unfold available
  cases s.owner <;> simp

/-! ### tie to `locks.py` (definitions regenerated from the source on every run) -/

theorem tie_available (s : LockSt) (a : Nat) : USim.Gen.Lock.available s a = available s a := rfl
theorem tie_release (s : LockSt) : USim.Gen.Lock.release s = release s := rfl
theorem tie_enter (s : LockSt) (a : Nat) : USim.Gen.Lock.aenterStart s a = apply s (.enter a) := rfl
theorem tie_resume (s : LockSt) (a : Nat) : USim.Gen.Lock.aenterResume s a = apply s (.resume a) := rfl
theorem tie_abort (s : LockSt) (a : Nat) : USim.Gen.Lock.aenterAbort s a = apply s (.abort a) := rfl
theorem tie_exit (s : LockSt) (a : Nat) : USim.Gen.Lock.aexit s = apply s (.exit a) := rfl

/-! ### non-vacuity: a contended history with a cancelled designated owner -/
example : (run {} [.enter 1, .enter 2, .enter 3, .exit 1, .abort 2]).owner = some 3 := by decide
example : (run {} [.enter 1, .enter 2, .enter 3, .exit 1, .abort 2, .resume 3, .exit 3]).owner = none := by decide

end USim.Prim.Lock
