import USimModel.Lemmas.SimPyRes
/-!
# C19 - SimPy resources keep capacity, conserve content, serve requests in policy order

Property theorems (for every history of operations, unbounded).  The `_do_put/_do_get/_trigger_*`
definitions of the model are proved equal to the definitions regenerated from the source in
`Props/C19Tie.lean`.
-/
namespace USim.SimPyRes

/-! ### Container -/

def ContainerBounds (c : Core) : Prop :=
  c.kind = .container ∧ 0 ≤ c.level ∧ ∀ cap, c.capacity = some cap → c.level ≤ cap

/-- Container levels stay within `[0, capacity]` after every history of put/get/cancel operations
with positive amounts, processed in any order. -/
theorem container_bounds (s : RState) (ops : List Op)
    (h0 : ContainerBounds s.core)
    (hq : (∀ r ∈ s.putQ, 0 < r.amount) ∧ (∀ g ∈ s.getQ, 0 < g.amount))
    (hops : OpsWF (fun r => 0 < r.amount) (fun g => 0 < g.amount) ops) :
    ContainerBounds (run s ops).core := by
  refine (run_inv ContainerBounds (fun r => 0 < r.amount) (fun g => 0 < g.amount)
    ?_ ?_ ?_ ?_ ops s ⟨h0, hq.1, hq.2⟩ hops).1
  · intro c r c' ⟨hk, hl, hc⟩ hr h
    simp only [doPut, hk] at h
    split at h
    · rename_i hroom
      simp only [Option.some.injEq] at h; subst h
      refine ⟨by simp [succeedPut, hk], by simp [succeedPut]; omega, ?_⟩
      intro cap hcap
      simp only [succeedPut] at hcap ⊢
      simp only [hasRoom, hcap] at hroom
      simp at hroom; omega
    · simp at h
  · intro c g c' ⟨hk, hl, hc⟩ hg h
    simp only [doGet, hk] at h
    split at h
    · rename_i hge
      simp only [Option.some.injEq] at h; subst h
      refine ⟨by simp [succeedGet, hk], by simp [succeedGet]; omega, ?_⟩
      intro cap hcap
      have := hc cap (by simpa [succeedGet] using hcap)
      simp [succeedGet]; omega
    · simp at h
  · intro c p h; exact h
  · intro c t h; exact h

/-- net amount granted so far according to the grant log (a Container's get logs its amount) -/
def netGranted : List Grant → Int
  | [] => 0
  | .put _ a :: l => a + netGranted l
  | .get _ a :: l => netGranted l - a
  | .preempted .. :: l => netGranted l

theorem netGranted_append (a b : List Grant) : netGranted (a ++ b) = netGranted a + netGranted b := by
  induction a with
  | nil => simp [netGranted]
  | cons x xs ih => cases x <;> simp [netGranted, ih] <;> omega

/-- Container conservation: the level always equals the initial level plus all granted puts minus
all granted gets, after every history. -/
theorem container_conservation (s : RState) (ops : List Op) (init : Int)
    (hk : s.core.kind = .container) (h0 : s.core.level = init + netGranted s.core.log) :
    (run s ops).core.level = init + netGranted (run s ops).core.log := by
  have := (run_inv (fun c => c.kind = .container ∧ c.level = init + netGranted c.log)
    (fun _ => True) (fun _ => True) ?_ ?_ ?_ ?_ ops s ⟨⟨hk, h0⟩, by simp, by simp⟩ ?_).1
  · exact this.2
  · intro c r c' ⟨hk, hl⟩ _ h
    simp only [doPut, hk] at h
    split at h
    · simp only [Option.some.injEq] at h; subst h
      simp [succeedPut, hk, netGranted_append, netGranted]; omega
    · simp at h
  · intro c g c' ⟨hk, hl⟩ _ h
    simp only [doGet, hk] at h
    split at h
    · simp only [Option.some.injEq] at h; subst h
      simp [succeedGet, hk, netGranted_append, netGranted]; omega
    · simp at h
  · intro c p h; exact h
  · intro c t h; exact h
  · induction ops with
    | nil => trivial
    | cons op ops ih => cases op <;> simp [OpsWF, ih]

/-! ### Resource: never more users than capacity -/

def isResourceKind (k : Kind) : Prop := k = .resource ∨ k = .priorityResource ∨ k = .preemptive

def UsersWithinCapacity (c : Core) : Prop :=
  isResourceKind c.kind ∧ ∀ cap, c.capacity = some cap → (c.users.length : Int) ≤ cap

theorem resourceDoPut_capacity (c c' : Core) (r : PutReq)
    (hcap : ∀ cap, c.capacity = some cap → (c.users.length : Int) ≤ cap)
    (h : resourceDoPut c r = some c') :
    c'.kind = c.kind ∧ c'.capacity = c.capacity ∧
    ∀ cap, c.capacity = some cap → (c'.users.length : Int) ≤ cap := by
  simp only [resourceDoPut] at h
  split at h
  · rename_i hroom
    simp only [Option.some.injEq] at h; subst h
    refine ⟨by simp [succeedPut], by simp [succeedPut], ?_⟩
    intro cap hc
    simp only [hasRoom, hc] at hroom
    simp only [succeedPut]
    split <;> simp [length_insertBy] at hroom ⊢ <;> omega
  · simp at h

theorem preemptStep_props (c : Core) (r : PutReq) :
    (preemptStep c r).kind = c.kind ∧ (preemptStep c r).capacity = c.capacity ∧
    (preemptStep c r).users.length ≤ c.users.length := by
  simp only [preemptStep]
  split
  · split
    · split <;> simp
    · simp
  · simp

/-- A Resource (plain, priority or preemptive) never has more users than its capacity, after every
history of request/release/cancel operations. -/
theorem resource_capacity (s : RState) (ops : List Op) (h0 : UsersWithinCapacity s.core) :
    UsersWithinCapacity (run s ops).core := by
  refine (run_inv UsersWithinCapacity (fun _ => True) (fun _ => True)
    ?_ ?_ ?_ ?_ ops s ⟨h0, by simp, by simp⟩ ?_).1
  · intro c r c' ⟨hk, hc⟩ _ h
    rcases hk with hk | hk | hk
    · simp only [doPut, hk] at h
      obtain ⟨h1, h2, h3⟩ := resourceDoPut_capacity c c' r hc h
      exact ⟨by rw [h1]; exact Or.inl hk, fun cap hcap => h3 cap (h2 ▸ hcap)⟩
    · simp only [doPut, hk] at h
      obtain ⟨h1, h2, h3⟩ := resourceDoPut_capacity c c' r hc h
      exact ⟨by rw [h1]; exact Or.inr (Or.inl hk), fun cap hcap => h3 cap (h2 ▸ hcap)⟩
    · simp only [doPut, hk] at h
      obtain ⟨p1, p2, p3⟩ := preemptStep_props c r
      have hc' : ∀ cap, (preemptStep c r).capacity = some cap → ((preemptStep c r).users.length : Int) ≤ cap := by
        intro cap hcap
        have := hc cap (p2 ▸ hcap)
        omega
      obtain ⟨h1, h2, h3⟩ := resourceDoPut_capacity _ c' r hc' h
      exact ⟨by rw [h1, p1]; exact Or.inr (Or.inr hk), fun cap hcap => h3 cap (h2 ▸ hcap)⟩
  · intro c g c' ⟨hk, hc⟩ _ h
    have hlen : ∀ (l : List PutReq), ((removeFirst (fun u => u.id == g.request) l).length : Int) ≤ l.length := by
      intro l; have := length_removeFirst_le (fun u : PutReq => u.id == g.request) l; omega
    rcases hk with hk | hk | hk <;>
    · simp only [doGet, hk, Option.some.injEq] at h
      subst h
      refine ⟨by simp [succeedGet, isResourceKind, hk], ?_⟩
      intro cap hcap
      have := hc cap (by simpa [succeedGet] using hcap)
      have := hlen c.users
      simp [succeedGet]; omega
  · intro c p h; exact h
  · intro c t h; exact h
  · induction ops with
    | nil => trivial
    | cons op ops ih => cases op <;> simp [OpsWF, ih]

end USim.SimPyRes

namespace USim.SimPyRes

/-! ### Store: every stored item is handed out exactly once, in FIFO order -/

def putItems : List Grant → List Int
  | [] => []
  | .put _ a :: l => a :: putItems l
  | _ :: l => putItems l

def gotItems : List Grant → List Int
  | [] => []
  | .get _ v :: l => v :: gotItems l
  | _ :: l => gotItems l

theorem putItems_append (a b : List Grant) : putItems (a ++ b) = putItems a ++ putItems b := by
  induction a with
  | nil => simp [putItems]
  | cons x xs ih => cases x <;> simp [putItems, ih]

theorem gotItems_append (a b : List Grant) : gotItems (a ++ b) = gotItems a ++ gotItems b := by
  induction a with
  | nil => simp [gotItems]
  | cons x xs ih => cases x <;> simp [gotItems, ih]

/-- Store: (items handed out so far) ++ (items still stored) = (items accepted so far), as
sequences - so every item is handed out at most once, none is lost, and the order is FIFO. -/
theorem store_fifo_once (s : RState) (ops : List Op)
    (hk : s.core.kind = .store) (h0 : gotItems s.core.log ++ s.core.items = putItems s.core.log) :
    gotItems (run s ops).core.log ++ (run s ops).core.items = putItems (run s ops).core.log := by
  have := (run_inv (fun c => c.kind = .store ∧ gotItems c.log ++ c.items = putItems c.log)
    (fun _ => True) (fun _ => True) ?_ ?_ ?_ ?_ ops s ⟨⟨hk, h0⟩, by simp, by simp⟩ ?_).1
  · exact this.2
  · intro c r c' ⟨hk, hl⟩ _ h
    simp only [doPut, hk] at h
    split at h
    · simp only [Option.some.injEq] at h; subst h
      simp [succeedPut, hk, putItems_append, gotItems_append, putItems, gotItems, ← hl]
    · simp at h
  · intro c g c' ⟨hk, hl⟩ _ h
    simp only [doGet, hk] at h
    split at h
    · simp at h
    · rename_i x xs hx
      simp only [Option.some.injEq] at h; subst h
      simp [succeedGet, hk, putItems_append, gotItems_append, putItems, gotItems, ← hl, hx]
  · intro c p h; exact h
  · intro c t h; exact h
  · induction ops with
    | nil => trivial
    | cons op ops ih => cases op <;> simp [OpsWF, ih]

/-! ### PriorityStore: smallest item first -/

theorem insertBy_sorted (x : Int) (l : List Int) (h : l.Pairwise (· ≤ ·)) :
    (insertBy (fun a b => decide (a ≤ b)) x l).Pairwise (· ≤ ·) := by
  induction l with
  | nil => simp [insertBy]
  | cons y ys ih =>
    simp only [insertBy]
    rw [List.pairwise_cons] at h
    split
    · rename_i hle
      rw [List.pairwise_cons]
      refine ⟨?_, ih h.2⟩
      intro z hz
      rcases (mem_insertBy _ _ _ _).mp hz with hz | hz
      · subst hz; simpa using hle
      · exact h.1 z hz
    · rename_i hle
      simp only [decide_eq_true_eq, Int.not_le] at hle
      rw [List.pairwise_cons]
      refine ⟨?_, List.pairwise_cons.mpr h⟩
      intro z hz
      rcases List.mem_cons.mp hz with hz | hz
      · subst hz; omega
      · have := h.1 z hz; omega

/-- PriorityStore: the stored items are kept sorted, so every get hands out a smallest stored item. -/
theorem priority_store_sorted (s : RState) (ops : List Op)
    (hk : s.core.kind = .priorityStore) (h0 : s.core.items.Pairwise (· ≤ ·)) :
    (run s ops).core.items.Pairwise (· ≤ ·) := by
  have := (run_inv (fun c => c.kind = .priorityStore ∧ c.items.Pairwise (· ≤ ·))
    (fun _ => True) (fun _ => True) ?_ ?_ ?_ ?_ ops s ⟨⟨hk, h0⟩, by simp, by simp⟩ ?_).1
  · exact this.2
  · intro c r c' ⟨hk, hl⟩ _ h
    simp only [doPut, hk] at h
    split at h
    · simp only [Option.some.injEq] at h; subst h
      exact ⟨by simp [succeedPut, hk], by simpa [succeedPut] using insertBy_sorted r.amount c.items hl⟩
    · simp at h
  · intro c g c' ⟨hk, hl⟩ _ h
    simp only [doGet, hk] at h
    split at h
    · simp at h
    · rename_i x xs hx
      simp only [Option.some.injEq] at h; subst h
      rw [hx, List.pairwise_cons] at hl
      exact ⟨by simp [succeedGet, hk], by simpa [succeedGet] using hl.2⟩
  · intro c p h; exact h
  · intro c t h; exact h
  · induction ops with
    | nil => trivial
    | cons op ops ih => cases op <;> simp [OpsWF, ih]

theorem priority_store_min_first (c c' : Core) (g : GetReq) (hk : c.kind = .priorityStore)
    (hs : c.items.Pairwise (· ≤ ·)) (h : doGet c g = some c') :
    ∃ v, c'.log = c.log ++ [.get g.id v] ∧ v ∈ c.items ∧ ∀ x ∈ c.items, v ≤ x := by
  simp only [doGet, hk] at h
  split at h
  · simp at h
  · rename_i x xs hx
    simp only [Option.some.injEq] at h; subst h
    refine ⟨x, by simp [succeedGet], by simp [hx], ?_⟩
    intro y hy
    rw [hx, List.pairwise_cons] at hs
    rw [hx] at hy
    rcases List.mem_cons.mp hy with hy | hy
    · omega
    · exact hs.1 y hy

/-! ### FilterStore: first accepted item, and no blocking by requests that match nothing -/

theorem filter_store_first_match (c c' : Core) (g : GetReq) (hk : c.kind = .filterStore)
    (h : doGet c g = some c') :
    ∃ v, c.items.find? g.filter = some v ∧ c'.log = c.log ++ [.get g.id v] ∧
         c'.items = removeFirst g.filter c.items := by
  simp only [doGet, hk] at h
  split at h
  · simp at h
  · rename_i x hx
    simp only [Option.some.injEq] at h; subst h
    exact ⟨x, hx, by simp [succeedGet], by simp [succeedGet]⟩

theorem find?_removeFirst_none {α} (p q : α → Bool) (l : List α) (h : l.find? p = none) :
    (removeFirst q l).find? p = none := by
  rw [List.find?_eq_none] at h ⊢
  intro x hx
  exact h x (mem_removeFirst _ _ _ hx)

/-- a FilterStore request that matches no item stays unmatched when items are taken away -/
theorem filter_blocked_mono (c c' : Core) (g g' : GetReq) (hk : c.kind = .filterStore)
    (hb : doGet c g = none) (h : doGet c g' = some c') : doGet c' g = none := by
  obtain ⟨v, _, _, hitems⟩ := filter_store_first_match c c' g' hk h
  have hk' : c'.kind = .filterStore := by
    simp only [doGet, hk] at h
    split at h
    · simp at h
    · simp only [Option.some.injEq] at h; subst h; simp [succeedGet, hk]
  simp only [doGet, hk] at hb
  simp only [doGet, hk', hitems]
  split at hb
  · rename_i hnone
    rw [find?_removeFirst_none _ _ _ hnone]
  · simp at hb

theorem serveAll_kind (q : List GetReq) : ∀ (c : Core), c.kind = .filterStore →
    (serveAll doGet c q).1.kind = .filterStore := by
  induction q with
  | nil => intro c h; simpa [serveAll]
  | cons g gs ih =>
    intro c hk
    simp only [serveAll]
    split
    · rename_i c' hc'
      apply ih
      simp only [doGet, hk] at hc'
      split at hc'
      · simp at hc'
      · simp only [Option.some.injEq] at hc'; subst hc'; simp [succeedGet, hk]
    · exact ih c hk

theorem serveAll_keeps_blocked (g : GetReq) (q : List GetReq) : ∀ (c : Core), c.kind = .filterStore →
    doGet c g = none → doGet (serveAll doGet c q).1 g = none := by
  induction q with
  | nil => intro c _ h; simpa [serveAll]
  | cons x xs ih =>
    intro c hk hb
    simp only [serveAll]
    split
    · rename_i c' hc'
      have hk' : c'.kind = .filterStore := by
        have := serveAll_kind [x] c hk
        simpa [serveAll, hc'] using this
      exact ih c' hk' (filter_blocked_mono c c' g x hk hb hc')
    · exact ih c hk hb

/-- **no head-of-line blocking**: after a FilterStore processed its get queue, *every* request
still pending - not only the head - matches no stored item. -/
theorem filter_store_no_head_blocking (q : List GetReq) : ∀ (c : Core), c.kind = .filterStore →
    ∀ g ∈ (serveAll doGet c q).2, doGet (serveAll doGet c q).1 g = none := by
  induction q with
  | nil => intro c _ g hg; simp [serveAll] at hg
  | cons x xs ih =>
    intro c hk g hg
    cases hx : doGet c x with
    | some c' =>
      simp only [serveAll, hx] at hg ⊢
      have hk' : c'.kind = .filterStore := by
        have := serveAll_kind [x] c hk
        simpa [serveAll, hx] using this
      exact ih c' hk' g hg
    | none =>
      simp only [serveAll, hx] at hg ⊢
      rcases List.mem_cons.mp hg with hg | hg
      · subst hg
        exact serveAll_keeps_blocked g xs c hk hx
      · exact ih c hk g hg

/-! ### Grant order -/

/-- The requests granted by one processing of a queue are a *prefix* of the queue: pending
requests are granted in queue order (request order; for priority resources the queue is kept
sorted by `(priority, time, not preempt)`, see `priority_queue_sorted`). -/
theorem grants_are_queue_prefix (s : RState) :
    ∃ granted, s.putQ = granted ++ (triggerPut s).putQ := by
  simpa [triggerPut] using serve_prefix doPut s.putQ s.core

theorem Key.le_total (a b : Key) (h : Key.le a b = false) : Key.le b a = true := by
  unfold Key.le Key.lt at *
  cases ha : a.noPreempt <;> cases hb : b.noPreempt <;> simp_all <;> omega

theorem Key.le_trans (a b c : Key) (h1 : Key.le a b = true) (h2 : Key.le b c = true) :
    Key.le a c = true := by
  unfold Key.le Key.lt at *
  cases ha : a.noPreempt <;> cases hb : b.noPreempt <;> cases hc : c.noPreempt <;> simp_all <;> omega

theorem insertBy_key_sorted (r : PutReq) (l : List PutReq)
    (h : l.Pairwise (fun a b => Key.le a.key b.key = true)) :
    (insertBy (fun a b => Key.le a.key b.key) r l).Pairwise (fun a b => Key.le a.key b.key = true) := by
  have total := Key.le_total
  have trans := Key.le_trans
  induction l with
  | nil => simp [insertBy]
  | cons y ys ih =>
    simp only [insertBy]
    rw [List.pairwise_cons] at h
    split
    · rename_i hle
      rw [List.pairwise_cons]
      refine ⟨?_, ih h.2⟩
      intro z hz
      rcases (mem_insertBy _ _ _ _).mp hz with hz | hz
      · subst hz; exact hle
      · exact h.1 z hz
    · rename_i hle
      simp only [Bool.not_eq_true] at hle
      have hxy := total _ _ hle
      rw [List.pairwise_cons]
      refine ⟨?_, List.pairwise_cons.mpr h⟩
      intro z hz
      rcases List.mem_cons.mp hz with hz | hz
      · subst hz; exact hxy
      · exact trans _ _ _ hxy (h.1 z hz)

end USim.SimPyRes

namespace USim.SimPyRes

/-! ### Eager granting: a grantable head request never stays pending at the end of a time step -/

theorem doPut_grows (c c' : Core) (r : PutReq) (h : doPut c r = some c') :
    c'.kind = c.kind ∧ c'.capacity = c.capacity ∧ Cb.afterPut ∈ c'.pending ∧ ∀ x ∈ c.pending, x ∈ c'.pending := by
  unfold doPut at h
  split at h <;> (try unfold resourceDoPut at h) <;> split at h <;>
    first
    | (simp at h; done)
    | (simp only [Option.some.injEq] at h; subst h; simp [succeedPut, preemptStep]
       try (repeat' split) <;> simp_all)

theorem doGet_grows (c c' : Core) (g : GetReq) (h : doGet c g = some c') :
    c'.kind = c.kind ∧ c'.capacity = c.capacity ∧ Cb.afterGet ∈ c'.pending ∧ ∀ x ∈ c.pending, x ∈ c'.pending := by
  unfold doGet at h
  split at h <;> (try split at h) <;>
    first
    | (simp at h; done)
    | (simp only [Option.some.injEq] at h; subst h; simp [succeedGet]
       try (repeat' split) <;> simp_all)

theorem doPut_isNone_irrel (c : Core) (r : PutReq) (p : List Cb) :
    (doPut { c with pending := p } r).isNone = (doPut c r).isNone := by
  unfold doPut resourceDoPut preemptStep
  cases c.kind <;> simp <;> (repeat' split) <;> simp_all

theorem doGet_isNone_irrel (c : Core) (g : GetReq) (p : List Cb) :
    (doGet { c with pending := p } g).isNone = (doGet c g).isNone := by
  unfold doGet
  cases c.kind <;> simp <;> (repeat' split) <;> simp_all

section
variable {α : Type} (f : Core → α → Option Core) (cb : Cb)
variable (hf : ∀ c a c', f c a = some c' → c'.kind = c.kind ∧ cb ∈ c'.pending ∧ ∀ x ∈ c.pending, x ∈ c'.pending)
include hf

theorem serve_mono : ∀ (q : List α) (c : Core),
    (serve f c q).1.kind = c.kind ∧ (∀ x ∈ c.pending, x ∈ (serve f c q).1.pending) ∧
    ((serve f c q).1 = c ∨ cb ∈ (serve f c q).1.pending) := by
  intro q
  induction q with
  | nil => intro c; simp [serve]
  | cons a as ih =>
    intro c
    cases ha : f c a with
    | none => simp [serve, ha]
    | some c' =>
      simp only [serve, ha]
      obtain ⟨k1, k2, k3⟩ := hf c a c' ha
      obtain ⟨i1, i2, i3⟩ := ih c'
      refine ⟨by rw [i1, k1], fun x hx => i2 x (k3 x hx), Or.inr ?_⟩
      rcases i3 with h | h
      · rw [h]; exact k2
      · exact h

theorem serveAll_mono : ∀ (q : List α) (c : Core),
    (serveAll f c q).1.kind = c.kind ∧ (∀ x ∈ c.pending, x ∈ (serveAll f c q).1.pending) ∧
    ((serveAll f c q).1 = c ∨ cb ∈ (serveAll f c q).1.pending) := by
  intro q
  induction q with
  | nil => intro c; simp [serveAll]
  | cons a as ih =>
    intro c
    cases ha : f c a with
    | none => simpa [serveAll, ha] using ih c
    | some c' =>
      simp only [serveAll, ha]
      obtain ⟨k1, k2, k3⟩ := hf c a c' ha
      obtain ⟨i1, i2, i3⟩ := ih c'
      refine ⟨by rw [i1, k1], fun x hx => i2 x (k3 x hx), Or.inr ?_⟩
      rcases i3 with h | h
      · rw [h]; exact k2
      · exact h
end

def Eager (s : RState) : Prop :=
  (headPutBlocked s = true ∨ Cb.afterGet ∈ s.core.pending) ∧
  (headGetBlocked s = true ∨ Cb.afterPut ∈ s.core.pending)

theorem triggerPut_headBlocked (s : RState) : headPutBlocked (triggerPut s) = true := by
  unfold headPutBlocked triggerPut
  simp only
  split
  · rfl
  · rename_i r rest h
    simp [serve_blocked doPut s.putQ s.core r rest h]

theorem triggerGet_headBlocked (s : RState) : headGetBlocked (triggerGet s) = true := by
  unfold headGetBlocked triggerGet serveGets
  by_cases hk : s.core.kind = .filterStore
  · have hk' := serveAll_kind s.getQ s.core hk
    simp only [hk, if_true, hk']
    rw [List.all_eq_true]
    intro g hg
    simp [filter_store_no_head_blocking s.getQ s.core hk g hg]
  · have hk' : (serve doGet s.core s.getQ).1.kind = s.core.kind :=
      (serve_mono doGet Cb.afterGet (fun c a c' h => by
        obtain ⟨a1, _, a3, a4⟩ := doGet_grows c c' a h; exact ⟨a1, a3, a4⟩) s.getQ s.core).1
    simp only [hk, if_false, hk']
    split
    · rfl
    · rename_i g rest h
      simp [serve_blocked doGet s.getQ s.core g rest h]

theorem triggerPut_eager (s : RState)
    (hg : headGetBlocked s = true ∨ Cb.afterPut ∈ s.core.pending)
    : Eager (triggerPut s) ∧ (∀ x ∈ s.core.pending, x ∈ (triggerPut s).core.pending) := by
  obtain ⟨m1, m2, m3⟩ := serve_mono doPut Cb.afterPut (fun c a c' h => by
        obtain ⟨a1, _, a3, a4⟩ := doPut_grows c c' a h; exact ⟨a1, a3, a4⟩) s.putQ s.core
  refine ⟨⟨Or.inl (triggerPut_headBlocked s), ?_⟩, fun x hx => by simpa [triggerPut] using m2 x hx⟩
  rcases m3 with h | h
  · rcases hg with hg | hg
    · left
      unfold headGetBlocked triggerPut at *
      simp only [h] at *
      exact hg
    · right; simpa [triggerPut] using m2 _ hg
  · right; simpa [triggerPut] using h

theorem serveGets_mono (c : Core) (q : List GetReq) :
    (serveGets c q).1.kind = c.kind ∧ (∀ x ∈ c.pending, x ∈ (serveGets c q).1.pending) ∧
    ((serveGets c q).1 = c ∨ Cb.afterGet ∈ (serveGets c q).1.pending) := by
  have hf : ∀ c a c', doGet c a = some c' → c'.kind = c.kind ∧ Cb.afterGet ∈ c'.pending ∧ ∀ x ∈ c.pending, x ∈ c'.pending := by
    intro c a c' h
    obtain ⟨a1, _, a3, a4⟩ := doGet_grows c c' a h; exact ⟨a1, a3, a4⟩
  unfold serveGets
  split
  · exact serveAll_mono doGet Cb.afterGet hf q c
  · exact serve_mono doGet Cb.afterGet hf q c

theorem triggerGet_eager (s : RState)
    (hp : headPutBlocked s = true ∨ Cb.afterGet ∈ s.core.pending)
    : Eager (triggerGet s) ∧ (∀ x ∈ s.core.pending, x ∈ (triggerGet s).core.pending) := by
  obtain ⟨m1, m2, m3⟩ := serveGets_mono s.core s.getQ
  refine ⟨⟨?_, Or.inl (triggerGet_headBlocked s)⟩, fun x hx => by simpa [triggerGet] using m2 x hx⟩
  rcases m3 with h | h
  · rcases hp with hp | hp
    · left
      unfold headPutBlocked triggerGet at *
      simp only [h] at *
      exact hp
    · right; simpa [triggerGet] using m2 _ hp
  · right; simpa [triggerGet] using h


theorem headPutBlocked_pending (s : RState) (p : List Cb) :
    headPutBlocked { s with core := { s.core with pending := p } } = headPutBlocked s := by
  unfold headPutBlocked
  simp only
  split
  · rfl
  · exact doPut_isNone_irrel s.core _ p

theorem headGetBlocked_pending (s : RState) (p : List Cb) :
    headGetBlocked { s with core := { s.core with pending := p } } = headGetBlocked s := by
  unfold headGetBlocked
  simp only
  split
  · congr 1; funext g; exact doGet_isNone_irrel s.core g p
  · split
    · rfl
    · exact doGet_isNone_irrel s.core _ p

/-- `Eager` is an invariant of every operation except `cancel` (which the property does not list
as something that triggers granting). -/
theorem eager_step (s : RState) (op : Op) (h : Eager s)
    (hop : match op with | .cancelPut _ => False | .cancelGet _ => False | .tick _ => False | _ => True) :
    Eager (step s op) := by
  cases op with
  | newPut r =>
    simp only [step, newPut]
    exact (triggerPut_eager { s with putQ := enqueuePut s.core.kind r s.putQ } h.2).1
  | newGet g =>
    simp only [step, newGet]
    exact (triggerGet_eager { s with getQ := s.getQ ++ [g] } h.1).1
  | runCallback =>
    simp only [step, runCallback]
    split
    · exact h
    · rename_i rest hp
      refine (triggerGet_eager _ ?_).1
      rcases h.1 with h1 | h1
      · left; rw [headPutBlocked_pending]; exact h1
      · right; rw [hp] at h1; simpa using h1
    · rename_i rest hp
      refine (triggerPut_eager _ ?_).1
      rcases h.2 with h1 | h1
      · left; rw [headGetBlocked_pending]; exact h1
      · right; rw [hp] at h1; simpa using h1
  | cancelPut id => exact hop.elim
  | cancelGet id => exact hop.elim
  | tick t => exact hop.elim

def NoCancel : List Op → Prop
  | [] => True
  | .cancelPut _ :: _ => False
  | .cancelGet _ :: _ => False
  | .tick _ :: _ => False
  | _ :: ops => NoCancel ops

theorem eager_run : ∀ (ops : List Op) (s : RState), Eager s → NoCancel ops → Eager (run s ops) := by
  intro ops
  induction ops with
  | nil => intro s h _; exact h
  | cons op ops ih =>
    intro s h hn
    simp only [run, List.foldl_cons]
    apply ih
    · apply eager_step s op h
      cases op <;> simp_all [NoCancel]
    · cases op <;> simp_all [NoCancel]

/-- **head granted eagerly**: starting from a settled resource, after any sequence of new
requests and processed put/get/release events, once no callback is pending (= the end of the time
step, by the kernel's drain property C01) the head request of the put queue and the head request
of the get queue (for a FilterStore: every pending get) cannot be granted. -/
theorem head_granted_eagerly (s : RState) (ops : List Op) (h : Eager s) (hn : NoCancel ops)
    (hq : (run s ops).core.pending = []) :
    headPutBlocked (run s ops) = true ∧ headGetBlocked (run s ops) = true := by
  have := eager_run ops s h hn
  unfold Eager at this
  rw [hq] at this
  simpa using this

/-! ### cancel -/

/-- cancelling a pending request removes exactly that request and touches nothing else -/
theorem cancel_put_exact (s : RState) (id : Nat) :
    (cancelPut s id).core = s.core ∧ (cancelPut s id).getQ = s.getQ ∧
    (∀ r ∈ (cancelPut s id).putQ, r ∈ s.putQ) ∧
    (∀ r ∈ s.putQ, r.id ≠ id → r ∈ (cancelPut s id).putQ) ∧
    (s.putQ.length ≤ (cancelPut s id).putQ.length + 1) := by
  refine ⟨rfl, rfl, fun r hr => mem_removeFirst _ _ _ hr, ?_, ?_⟩
  · intro r hr hne
    exact mem_removeFirst_of_not _ r _ hr (by simpa using hne)
  · exact length_le_removeFirst_succ _ _

/-- releasing gives back exactly the released request: the other users are untouched -/
theorem release_exact (c c' : Core) (g : GetReq) (hk : isResourceKind c.kind) (h : doGet c g = some c') :
    c'.users = removeFirst (fun u => u.id == g.request) c.users ∧
    (∀ u ∈ c.users, u.id ≠ g.request → u ∈ c'.users) := by
  have hu : c'.users = removeFirst (fun u => u.id == g.request) c.users := by
    rcases hk with hk | hk | hk <;>
    · simp only [doGet, hk, Option.some.injEq] at h; subst h; simp [succeedGet]
  refine ⟨hu, ?_⟩
  rw [hu]
  intro u hu' hne
  exact mem_removeFirst_of_not _ u _ hu' (by simpa using hne)

/-! ### preemption rule -/

/-- A PreemptiveResource evicts a user iff it is full, the request preempts and its key is strictly
better than the key of the *worst* (last in key order) current user; the evicted user is that
worst user and the `Preempted` record names the preempting process and the victim's `usage_since`. -/
theorem preempt_rule (c : Core) (r : PutReq) :
    (preemptStep c r ≠ c ↔
      (hasRoom c.capacity c.users.length 1 = false ∧ r.preempt = true ∧
        ∃ cand, c.users.getLast? = some cand ∧ Key.lt r.key cand.key = true)) ∧
    (∀ cand, c.users.getLast? = some cand → hasRoom c.capacity c.users.length 1 = false →
      r.preempt = true → Key.lt r.key cand.key = true →
      preemptStep c r = { c with users := c.users.dropLast,
                                 log := c.log ++ [.preempted cand.id cand.proc r.proc cand.usageSince] }) := by
  constructor
  · unfold preemptStep
    constructor
    · intro h
      split at h
      · rename_i hcond
        simp only [Bool.and_eq_true, Bool.not_eq_true'] at hcond
        split at h
        · rename_i cand hcand
          split at h
          · rename_i hlt; exact ⟨hcond.1, hcond.2, cand, hcand, hlt⟩
          · exact absurd rfl h
        · exact absurd rfl h
      · exact absurd rfl h
    · rintro ⟨h1, h2, cand, h3, h4⟩
      simp only [h1, h2, h3, h4, Bool.not_false, Bool.and_self, if_true]
      intro heq
      have := congrArg Core.log heq
      simp at this
  · intro cand h1 h2 h3 h4
    simp [preemptStep, h1, h2, h3, h4]

end USim.SimPyRes
