import USimModel.Gen.Timing
/-!
Skeleton fingerprints: the hand-modelled coroutine skeletons of `timing.py`, `notification.py`,
`condition.py` and `flag.py` (what the machine's frames mirror) are pinned to the source.  An edit
to any of them makes this obligation *broken*; whether a property is violated is then decided by
the exact trace correspondence and the judges (never by this file alone).
-/
namespace USim.Skeletons

theorem timing_notification_condition_flag_pinned : USim.Gen.Timing.skeletonsMatched = 48 := rfl

end USim.Skeletons
