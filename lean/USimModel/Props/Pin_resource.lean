import USimModel.Gen.Pins
/-! every definition of `usim/_basics/resource.py` is the one the model was written against (extract/gen_pins.py) -/
namespace USim.Pins

theorem resource_as_modelled : USim.Gen.Pins.changed_resource = [] := rfl

end USim.Pins
