import USimModel.Gen.Pins
/-! every definition of `usim/_concurrent/basics.py` is the one the model was written against (extract/gen_pins.py) -/
namespace USim.Pins

theorem basics_as_modelled : USim.Gen.Pins.changed_basics = [] := rfl

end USim.Pins
