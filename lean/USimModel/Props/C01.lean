import USimModel.Prim.KernelModel
import USimModel.Gen.Kernel
import USimModel.Lemmas.PushBucket
/-!
# C01 - virtual time is monotone; timed waits resume exactly at their date
# (Layer K: for every behaviour of the activities that respects `schedule`'s assertion)

The same theorems serve C02 (FIFO order, backends) and C15 (quiescence).
-/
namespace USim.Prim.Kernel
open USim.Machine

/-- a `schedule` command whose assertion holds keeps the wait queue sorted and in the future -/
theorem apply_ok (k : K) (c : Cmd) (h : QueueOk k) (hc : c.ok k) : QueueOk (k.apply c) ∧ (k.apply c).time = k.time := by
  cases c with
  | now a => exact ⟨h, rfl⟩
  | later key a =>
    refine ⟨⟨pushBucket_sorted key a k.queue h.1, ?_⟩, rfl⟩
    intro t ht
    rcases (mem_keys_pushBucket key a k.queue t).mp ht with rfl | ht
    · exact hc
    · exact h.2 t ht

/-- **the clock never decreases**, and it only moves when the current time step is drained
(**all work scheduled for t runs before the clock moves past t**) -/
theorem next_run (k k' : K) (a : Activation) (h : QueueOk k) (hn : k.next = .run a k') :
    k'.time = k.time ∧ QueueOk k' ∧ k.pending = a :: k'.pending := by
  unfold K.next at hn
  split at hn
  · rename_i a' rest hp
    simp only [Next.run.injEq] at hn
    obtain ⟨rfl, rfl⟩ := hn
    exact ⟨rfl, h, hp⟩
  · split at hn <;> simp at hn

theorem next_advance (k k' : K) (h : QueueOk k) (hn : k.next = .advance k') :
    k.time < k'.time ∧ QueueOk k' ∧ k.pending = [] ∧
    (∃ rest, k.queue = (k'.time, k'.pending) :: rest ∧ k'.queue = rest) := by
  unfold K.next at hn
  split at hn
  · simp at hn
  · rename_i hp
    split at hn
    · rename_i t bucket q hq
      simp only [Next.advance.injEq] at hn
      subst hn
      obtain ⟨hs, hf⟩ := h
      rw [hq] at hs hf
      simp only [keys, List.map_cons, List.pairwise_cons, List.mem_cons] at hs hf
      refine ⟨hf t (Or.inl rfl), ⟨hs.2, ?_⟩, hp, ⟨q, hq, rfl⟩⟩
      intro t' ht'
      exact hs.1 t' ht'
    · simp at hn

theorem next_quiescent (k : K) (hn : k.next = .quiescent) : k.pending = [] ∧ k.queue = [] := by
  unfold K.next at hn
  split at hn
  · simp at hn
  · rename_i hp
    split at hn
    · simp at hn
    · rename_i hq; exact ⟨hp, hq⟩

/-- the bucket of a key -/
def bucketOf (key : Rat) (q : List (Rat × List Activation)) : List Activation :=
  ((q.find? (·.1 == key)).map (·.2)).getD []

/-- **FIFO**: scheduling for a date appends to the end of that date's bucket and leaves every
other bucket alone; together with `next_run` (pop from the front) and `Cmd.now` (append to the
end of the current step) activations for the same time run in the order they were scheduled -/
theorem bucketOf_of_not_mem (t : Rat) (q : List (Rat × List Activation)) (h : ¬ t ∈ keys q) : bucketOf t q = [] := by
  induction q with
  | nil => rfl
  | cons p ps ih =>
    simp only [keys, List.map_cons, List.mem_cons, not_or] at h
    have : (p.1 == t) = false := by simpa using fun h' => h.1 h'.symm
    simp only [bucketOf, List.find?_cons, this]
    exact ih h.2

theorem pushBucket_bucket (key : Rat) (a : Activation) (q : List (Rat × List Activation)) (t : Rat)
    (hs : (keys q).Pairwise (· < ·)) :
    bucketOf t (pushBucket key a q) = if t = key then bucketOf t q ++ [a] else bucketOf t q := by
  induction q with
  | nil =>
    simp only [pushBucket, bucketOf, List.find?_cons, List.find?_nil]
    by_cases h : t = key
    · subst h; simp
    · have : (key == t) = false := by simpa using fun h' => h h'.symm
      simp [h, this]
  | cons p ps ih =>
    obtain ⟨k, b⟩ := p
    simp only [keys, List.map_cons, List.pairwise_cons] at hs
    simp only [pushBucket, beq_rat, lt_rat]
    split
    · rename_i hk
      simp only [beq_iff_eq] at hk
      subst hk
      simp only [bucketOf, List.find?_cons]
      by_cases h : t = k
      · subst h; simp
      · have : (k == t) = false := by simpa using fun h' => h h'.symm
        simp [h, this]
    · rename_i hk
      simp only [beq_iff_eq] at hk
      split
      · rename_i hlt
        simp only [decide_eq_true_eq] at hlt
        by_cases h : t = key
        · subst h
          have hnot : ¬ t ∈ keys ((k, b) :: ps) := by
            simp only [keys, List.map_cons, List.mem_cons, not_or]
            refine ⟨fun h' => hk h'.symm, ?_⟩
            intro hm
            have := hs.1 t hm
            grind
          rw [bucketOf_of_not_mem t _ hnot]
          simp [bucketOf]
        · have : (key == t) = false := by simpa using fun h' => h h'.symm
          simp [bucketOf, List.find?_cons, h, this]
      · have ih' := ih hs.2
        simp only [bucketOf, List.find?_cons] at ih' ⊢
        by_cases hkt : (k == t) = true
        · simp only [beq_iff_eq] at hkt
          subst hkt
          have : ¬ k = key := hk
          simp [this]
        · simp only [Bool.not_eq_true] at hkt
          simp only [hkt]
          exact ih'

/-- **an activation runs exactly at its date**: the bucket that becomes the current time step when
the clock moves to `t` is the bucket keyed `t` (with `pushBucket_bucket`: a wake-up scheduled for
`now + d` or for date `t` is executed when the clock reads exactly that value) -/
theorem advance_runs_bucket_of_new_time (k k' : K) (h : QueueOk k) (hn : k.next = .advance k') :
    k'.pending = bucketOf k'.time k.queue := by
  obtain ⟨_, _, _, rest, hq, _⟩ := next_advance k k' h hn
  simp [bucketOf, hq]

/-! ### the heap backend serves buckets in the same order (C02: backend independence) -/

theorem minKey_spec (l : List Rat) (m : Rat) (h : minKey l = some m) : m ∈ l ∧ ∀ x ∈ l, m ≤ x := by
  induction l generalizing m with
  | nil => simp [minKey] at h
  | cons x xs ih =>
    simp only [minKey] at h
    cases hm : minKey xs with
    | none =>
      simp only [hm, Option.some.injEq] at h
      subst h
      cases xs with
      | nil => simp
      | cons y ys => simp [minKey] at hm; split at hm <;> simp at hm
    | some m' =>
      simp only [hm, Option.some.injEq] at h
      obtain ⟨h1, h2⟩ := ih m' hm
      subst h
      split
      · rename_i hle
        refine ⟨by simp, ?_⟩
        intro y hy
        rcases List.mem_cons.mp hy with rfl | hy
        · grind
        · have := h2 y hy; grind
      · rename_i hle
        refine ⟨by simp [h1], ?_⟩
        intro y hy
        rcases List.mem_cons.mp hy with rfl | hy
        · grind
        · exact h2 y hy

/-- `HQWaitQueue.pop` returns the bucket of the smallest key (as `SortedDict.popitem(0)` does) -/
theorem hq_pop_min (h : HQ) (key : Rat) (b : List Activation) (h' : HQ) (hp : h.pop = some ((key, b), h')) :
    key ∈ h.keys ∧ (∀ x ∈ h.keys, key ≤ x) ∧ b = bucketOf key h.data := by
  unfold HQ.pop at hp
  cases hm : minKey h.keys with
  | none => simp [hm] at hp
  | some m =>
    simp only [hm, Option.some.injEq, Prod.mk.injEq] at hp
    obtain ⟨⟨rfl, rfl⟩, _⟩ := hp
    obtain ⟨h1, h2⟩ := minKey_spec _ _ hm
    exact ⟨h1, h2, rfl⟩

theorem bucketOf_cons (t k : Rat) (b : List Activation) (ps : List (Rat × List Activation)) :
    bucketOf t ((k, b) :: ps) = if k = t then b else bucketOf t ps := by
  simp only [bucketOf, List.find?_cons]
  by_cases h : k = t
  · subst h; simp
  · have : (k == t) = false := by simpa using h
    simp [this, h]

theorem bucketOf_map_append (key : Rat) (a : Activation) (t : Rat) (data : List (Rat × List Activation)) :
    bucketOf t (data.map (fun p => if p.1 == key then (p.1, p.2 ++ [a]) else p)) =
      if t = key ∧ data.any (·.1 == key) then bucketOf t data ++ [a] else bucketOf t data := by
  induction data with
  | nil => simp [bucketOf]
  | cons p ps ih =>
    obtain ⟨k, b⟩ := p
    simp only [List.map_cons, List.any_cons]
    by_cases hk : k = key
    · subst hk
      simp only [beq_self_eq_true, if_true, Bool.true_or, and_true, bucketOf_cons]
      by_cases ht : k = t
      · subst ht; simp
      · have ht' : ¬ t = k := fun h => ht h.symm
        simp only [ht, ht', if_false]
        simpa [ht'] using ih
    · have hk' : (k == key) = false := by simpa using hk
      simp only [hk', Bool.false_or, Bool.false_eq_true, if_false, bucketOf_cons]
      by_cases ht : k = t
      · subst ht
        have : ¬ k = key := hk
        simp [this]
      · simp only [ht, if_false]
        exact ih
theorem bucketOf_append_new (key : Rat) (a : Activation) (t : Rat) (data : List (Rat × List Activation))
    (h : data.any (·.1 == key) = false) :
    bucketOf t (data ++ [(key, [a])]) = if t = key then [a] else bucketOf t data := by
  induction data with
  | nil =>
    by_cases ht : t = key
    · subst ht; simp [bucketOf]
    · have : (key == t) = false := by simpa using fun h' => ht h'.symm
      simp [bucketOf, ht, this]
  | cons p ps ih =>
    simp only [List.any_cons, Bool.or_eq_false_iff] at h
    simp only [List.cons_append, bucketOf, List.find?_cons] at ih ⊢
    by_cases h1 : (p.1 == t) = true
    · simp only [h1]
      simp only [beq_iff_eq] at h1
      have hk : ¬ t = key := by intro h'; subst h'; simp [h1] at h
      simp [hk]
    · simp only [Bool.not_eq_true] at h1
      simp only [h1]
      exact ih h.2

/-- `HQWaitQueue.push` appends to the end of the key's bucket (creating it if needed) and leaves the
other buckets alone - the same bucket contents as `SDWaitQueue.push` / `pushBucket` -/
theorem hq_push_bucket (h : HQ) (key : Rat) (a : Activation) (t : Rat) :
    bucketOf t (h.push key a).data = if t = key then bucketOf t h.data ++ [a] else bucketOf t h.data := by
  unfold HQ.push
  split
  · rename_i hany
    rw [bucketOf_map_append]
    simp [hany]
  · rename_i hany
    simp only [Bool.not_eq_true] at hany
    rw [bucketOf_append_new _ _ _ _ hany]
    by_cases ht : t = key
    · subst ht
      have : bucketOf t h.data = [] := by
        apply bucketOf_of_not_mem
        intro hm
        simp only [keys, List.mem_map] at hm
        obtain ⟨p, hp, hpt⟩ := hm
        rw [List.any_eq_false] at hany
        exact hany p hp (by simp [hpt])
      simp [this]
    · simp [ht]

end USim.Prim.Kernel

namespace USim.Prim.Kernel
open USim.Machine

/-! ### tie: the kernel functions regenerated from `loop.py` / `waitq.py` -/

theorem tie_run_events (k : K) : USim.Gen.Kernel.runEventsNext k = k.next := rfl
theorem tie_hq_push (h : HQ) (key : Rat) (a : Activation) : USim.Gen.Kernel.hqPush h key a = h.push key a := rfl
theorem tie_sd_push (key : Rat) (a : Activation) (q : List (Rat × List Activation)) :
    USim.Gen.Kernel.sdPush key a q = pushBucket key a q := rfl

/-- the machine's `schedule` (debug mode) puts an activation exactly where `Loop.schedule` does:
`delay d` -> bucket `time + d` (only if `d > 0`), `at t` -> bucket `t` itself (only if `t > time`),
otherwise the end of the current time step; the clock is untouched -/
theorem tie_schedule_delay (w : World Rat) (a : ActId) (s : Option SigId) (d : Rat) (hd : w.cfg.debug = true) :
    match USim.Gen.Kernel.scheduleTarget w.time (some d) none, w.schedule a s (.delay d) with
    | some (some key), some w' => w'.queue = pushBucket key ⟨a, s⟩ w.queue ∧ w'.time = w.time ∧ w'.pending = w.pending
    | none, none => True
    | _, _ => False := by
  simp only [USim.Gen.Kernel.scheduleTarget, World.schedule, hd, TimeLike.gt, TimeLike.lt, TimeLike.zero, TimeLike.add]
  by_cases h : (0 : Rat) < d
  · have h' : d > 0 := h
    simp [h, h']
    cases s <;> simp [World.setSig]
  · have h' : ¬ d > 0 := h
    simp [h, h']

theorem tie_schedule_at (w : World Rat) (a : ActId) (s : Option SigId) (t : Rat) (hd : w.cfg.debug = true) :
    match USim.Gen.Kernel.scheduleTarget w.time none (some t), w.schedule a s (.at_ t) with
    | some (some key), some w' => key = t ∧ w'.queue = pushBucket t ⟨a, s⟩ w.queue ∧ w'.time = w.time ∧ w'.pending = w.pending
    | none, none => True
    | _, _ => False := by
  simp only [USim.Gen.Kernel.scheduleTarget, World.schedule, hd, TimeLike.gt, TimeLike.lt]
  by_cases h : w.time < t
  · have h' : t > w.time := h
    simp [h, h']
    cases s <;> simp [World.setSig]
  · have h' : ¬ t > w.time := h
    simp [h, h']

theorem tie_schedule_now (w : World Rat) (a : ActId) (s : Option SigId) :
    USim.Gen.Kernel.scheduleTarget w.time none none = some none ∧
    (w.scheduleNow a s).pending = w.pending ++ [⟨a, s⟩] ∧ (w.scheduleNow a s).queue = w.queue ∧
    (w.scheduleNow a s).time = w.time := by
  refine ⟨rfl, ?_, ?_, ?_⟩ <;> cases s <;> simp [World.scheduleNow, World.setSig]

/-- **a delay resumes at exactly (clock at the wait + d)**: the wake-up of `suspend(delay=d)` goes
into the bucket keyed `time + d`, and that bucket is what runs when the clock reads `time + d`
(`advance_runs_bucket_of_new_time`) -/
theorem delay_wakeup_key (w w' : World Rat) (a : ActId) (s : SigId) (d : Rat) (hd : w.cfg.debug = true)
    (hs : (keys w.queue).Pairwise (· < ·)) (h : w.schedule a (some s) (.delay d) = some w') :
    (⟨a, some s⟩ : Activation) ∈ bucketOf (w.time + d) w'.queue := by
  have := tie_schedule_delay w a (some s) d hd
  rw [h] at this
  cases hk : USim.Gen.Kernel.scheduleTarget w.time (some d) none with
  | none => simp [hk] at this
  | some k =>
    cases k with
    | none => simp [hk] at this
    | some key =>
      simp only [hk] at this
      have hkey : key = w.time + d := by
        simp only [USim.Gen.Kernel.scheduleTarget] at hk
        split at hk
        · simp at hk
        · split at hk <;> simp_all
      rw [this.1, pushBucket_bucket key _ _ _ hs, hkey]
      simp

end USim.Prim.Kernel
