import USimModel.Props.MachineFifo
import USimModel.Props.C20
/-!
# The current time step is a FIFO queue - over any number of steps (C02, C20)

`Props/MachineFifo.lean: step_fifo` says what **one** step of the machine does to the deque of the current time step: the
interpreter appends, the loop takes the first element, or - only when it is empty - the next time step begins.  Here the first
two are iterated: as long as the machine stays in the time step (and at the same nesting depth of simulations), after **any number
of steps** the deque is what it was, minus some elements at the *front*, plus some at the *back* (`within_time_step_fifo`).
Hence (`never_overtaken`): an activation that was put behind others - this is what every postponing operation
does with its own wake-up, `Props/C20.lean: postpone_hibernates` - is not taken by the loop before all of them were, and nothing is ever put in front of it.
-/
set_option linter.unusedVariables false
namespace USim.Machine
open TimeLike
namespace World

/-- steps of the machine that stay inside the current time step at the same nesting depth -/
inductive WithinStep : World Rat → World Rat → Prop
  | refl (w : World Rat) : WithinStep w w
  | next {w w' w'' : World Rat} : WithinStep w w' → w'.step = some w'' → w''.saved = w'.saved →
      ¬ (w'.pending = [] ∧ ∃ b, w'.queue = (w''.time, b) :: w''.queue ∧ w''.pending = b) → WithinStep w w''

theorem drop_append_trans {α} (x y z : List α) (h1 : ∃ k ys, y = x.drop k ++ ys) (h2 : ∃ k zs, z = y.drop k ++ zs) :
    ∃ k zs, z = x.drop k ++ zs := by
  obtain ⟨k1, ys, rfl⟩ := h1
  obtain ⟨k2, zs, rfl⟩ := h2
  refine ⟨k1 + k2, ys.drop (k2 - (x.drop k1).length) ++ zs, ?_⟩
  rw [List.drop_append, List.drop_drop, List.append_assoc]

/-- **inside a time step the deque only loses elements at the front and gains elements at the back**, whatever the program does -/
theorem within_time_step_fifo {w w' : World Rat} (h : WithinStep w w') :
    ∃ k l, w'.pending = w.pending.drop k ++ l := by
  induction h with
  | refl => exact ⟨0, [], by simp⟩
  | next _ hstep hsaved hnot ih =>
    rename_i w1 w2
    refine drop_append_trans _ _ _ ih ?_
    rcases step_fifo hstep hsaved with ⟨l, hl⟩ | ⟨act, ha⟩ | hb
    · exact ⟨0, l, by rw [hl]; rfl⟩
    · exact ⟨1, [], by rw [ha]; simp⟩
    · exact absurd hb hnot

/-- **an activation is never overtaken**: let `x` stand in the deque behind the activations `pre`.  After any number of steps inside
the time step, either `x` is still waiting and what is ahead of it is a suffix of `pre` (nothing was put in front of it), or `x`
has been taken by the loop - and then everything of `pre` was taken before it: only a suffix of what stood *behind* `x` is left -/
theorem never_overtaken {w w' : World Rat} (h : WithinStep w w') (pre post : List Activation) (x : Activation)
    (hw : w.pending = pre ++ x :: post) :
    (∃ pre' l, w'.pending = pre' ++ x :: post ++ l ∧ pre' <:+ pre) ∨ (∃ j l, w'.pending = post.drop j ++ l) := by
  obtain ⟨k, l, hk⟩ := within_time_step_fifo h
  rw [hw] at hk
  by_cases hle : k ≤ pre.length
  · left
    refine ⟨pre.drop k, l, ?_, List.drop_suffix _ _⟩
    rw [hk, List.drop_append, Nat.sub_eq_zero_of_le hle]
    simp
  · right
    have hlt : pre.length < k := Nat.lt_of_not_le hle
    refine ⟨k - pre.length - 1, l, ?_⟩
    rw [hk, List.drop_append, List.drop_eq_nil_of_le (Nat.le_of_lt hlt), List.nil_append]
    obtain ⟨m, hm⟩ : ∃ m, k - pre.length = m + 1 := ⟨k - pre.length - 1, by omega⟩
    rw [hm, List.drop_succ_cons]
    simp

/-- **C20 for every program**: an operation that postpones (`doPostpone`) puts its own wake-up behind everything that is runnable,
and it stays there: after any number of steps inside the time step the deque is *the old deque followed by that wake-up*, minus
`k` elements at the front, plus whatever was appended later.  The wake-up is taken only when `k` exceeds the length of the old
deque - when every activation that was runnable at the moment of the postponement has been taken before it -/
theorem postponed_runs_after_everything_runnable (w : World Rat) (a : ActId) (fs : List (Frame Rat)) (ha : a < w.acts.size)
    {w' : World Rat} (h : WithinStep (w.doPostpone a fs) w') :
    ∃ wake k l, w'.pending = (w.pending ++ [({ target := a, signal := some wake } : Activation)]).drop k ++ l := by
  obtain ⟨_, wake, hp⟩ := postpone_hibernates w a fs ha
  obtain ⟨k, l, hk⟩ := within_time_step_fifo h
  exact ⟨wake, k, l, by rw [hk, hp]⟩

end World
end USim.Machine
