import USimModel.Gen.Pins
/-! every definition of `usim/_basics/tracked.py` is the one the model was written against (extract/gen_pins.py) -/
namespace USim.Pins

theorem tracked_as_modelled : USim.Gen.Pins.changed_tracked = [] := rfl

end USim.Pins
