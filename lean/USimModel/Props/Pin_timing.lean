import USimModel.Gen.Pins
/-! every definition of `usim/_primitives/timing.py` is the one the model was written against (extract/gen_pins.py) -/
namespace USim.Pins

theorem timing_as_modelled : USim.Gen.Pins.changed_timing = [] := rfl

end USim.Pins
