import USimModel.Props.Machine
import USimModel.Lemmas.PStep
/-!
# The whole machine: the current time step is a FIFO queue
# (C02: deterministic first-in first-out order, for every program)

`pending` is the deque of activations of the current time step.  `Lemmas/PView.lean` / `PStep.lean` show that the
interpreter of programs (every statement, frame and primitive) only **appends** to it; here: the loop only takes its
**first** element, and a new time step starts with the bucket of its date, in the order in which `Loop.schedule`
filled it (`Props/C01.lean`: `pushBucket_bucket`).  So, for every program: what is scheduled earlier for a time step
runs earlier in it - no primitive can reorder, drop or jump the queue.
-/
set_option linter.unusedVariables false
set_option linter.unusedSimpArgs false
namespace USim.Machine
open TimeLike USim.Prim.Kernel
namespace World

theorem pending_activate (w : World Rat) (t : ActId) (s : Option SigId) : (w.activate t s).pending = w.pending := by
  unfold activate
  repeat' (first
    | (with_reducible rfl)
    | (simp only [pvsimp]; done)
    | (have hfst := congrArg Prod.fst ‹_ = (_, _)›; dsimp only at hfst; subst hfst)
    | split
    | (dsimp only; split))

/-- one transition of the running activity only appends to the pending list - or starts a nested run, which saves it -/
theorem microStep_pstep (w : World Rat) :
    PExt w.pending w.microStep.pending ∨
    (w.microStep.pending = [] ∧ ∃ sv : Saved Rat, w.microStep.saved = sv :: w.saved ∧ sv.pending = w.pending) := by
  unfold microStep
  cases hc : w.ctl with
  | nil => exact Or.inl (PExt.refl _)
  | cons x rest =>
    obtain ⟨a, mode⟩ := x
    simp only []
    cases hf : (w.act a).frames with
    | nil =>
      exact Or.inl (finishAct_pext w a mode (PExt.refl _))
    | cons f fs =>
      cases mode with
      | raise e => exact Or.inl (stepRaise_pext w a f fs e (PExt.refl _))
      | ret v =>
        simp only []
        by_cases hn : ∃ progs start ss, f = .seq (.nestedRun progs start :: ss)
        · obtain ⟨progs, start, ss, rfl⟩ := hn
          right
          simp only [stepRet, execStmt]
          have hk' : ∀ (l : List (Prog Rat)) (p : World Rat × List Activation),
              (l.foldl (fun (p : World Rat × List Activation) prog =>
                let (w, x) := p.1.newAct [.seq prog, .coroutineEnd] true (10000 + 100 * p.1.nestedRuns + p.2.length)
                (w, p.2 ++ [{ target := x, signal := none }])) p).1.kv = p.1.kv :=
            fun l p => kv_foldl_pair _ (by intro p x; rfl) l p
          have h2 := congrArg KV.saved (hk' progs (w.setFrames a (.nestedRun :: .seq ss :: fs), []))
          simp only [kv] at h2
          refine ⟨trivial, ⟨{ time := w.time, turn := w.turn, pending := w.pending, queue := w.queue, ctl := w.ctl }, ?_, rfl⟩⟩
          rw [h2]; rfl
        · left
          exact stepRet_pext w a f fs v (fun p st ss h => hn ⟨p, st, ss, h⟩) (PExt.refl _)

/-- **C02 on the machine: the current time step is a FIFO queue.**  One step of the machine, at an unchanged nesting
depth, does exactly one of three things to the pending list: the interpreter **appends** to it; the loop takes its
**first** element (and runs it, or drops it if it was revoked); or - only when it is empty - the loop moves on and the
bucket of the next date becomes the new list -/
theorem step_fifo {w w' : World Rat} (h : w.step = some w') (hs : w'.saved = w.saved) :
    (∃ l, w'.pending = w.pending ++ l) ∨
    (∃ act, w.pending = act :: w'.pending) ∨
    (w.pending = [] ∧ ∃ b, w.queue = (w'.time, b) :: w'.queue ∧ w'.pending = b) := by
  unfold step at h
  split at h
  · unfold kernelStep at h
    have hret : ∀ {w w' : World Rat}, w.nestedReturn = some w' → w'.saved ≠ w.saved := by
      intro w w' h
      unfold nestedReturn at h
      split at h
      · cases h
      · rename_i sv rest hsv
        have : w'.saved = rest := by
          simp only at h
          split at h <;> (cases h; simp)
        rw [this, hsv]
        intro hh
        have := congrArg List.length hh
        simp at this
    split at h
    · exact absurd hs (hret h)
    · split at h
      · rename_i act rest hp
        right; left
        refine ⟨act, ?_⟩
        simp only at h
        split at h
        all_goals
          split at h
          · simp only [Option.some.injEq] at h
            subst h
            rw [pending_activate]; exact hp
          · simp only [Option.some.injEq] at h
            subst h; exact hp
      · rename_i hp
        split at h
        · rename_i t bucket q hq
          cases h
          right; right
          exact ⟨hp, bucket, hq, rfl⟩
        · exact absurd hs (hret h)
  · cases h
    rcases microStep_pstep w with h1 | ⟨_, sv, hsv, _⟩
    · exact Or.inl h1
    · rw [hsv] at hs
      have := congrArg List.length hs
      simp at this

end World
end USim.Machine
