import USimModel.Machine.Run
import USimModel.Props.C14
/-!
# The machine's ticker is the translated step function of `interval()` / `delay()` (C14) - for every world

`Props/C14.lean` proves the grid theorems about `USim.Gen.Ticker.intervalStep` / `delayStep`, which are **translated from
`timing.py` on every run**.  The machine has its own `tickNext`.  Here: for every world, what `tickNext` does is exactly the
decision of the translated function at the world's clock - raise `IntervalExceeded`, suspend for the remaining time, or postpone.
So the grid theorems are theorems about the machine (and through the correspondence about the code that runs).
-/
set_option linter.unusedVariables false
namespace USim.Machine
open TimeLike USim.Gen.Ticker
namespace World
variable (w : World Rat)

/-- **one step of `interval(period)` in the machine = the translated `intervalStep` at the current clock** -/
theorem tickNext_interval (a : ActId) (fs : List (Frame Rat)) (period last : Rat) (remaining : Nat) (body : List (Stmt Rat))
    (hr : remaining ≠ 0) :
    w.tickNext a fs true period last remaining body =
      match intervalStep period last w.time with
      | .exceeded => w.raiseNew a fs .intervalExceeded
      | .suspend d => w.doSuspend a (.tickWait true period last remaining body :: fs) (.delay d)
      | .postpone => w.doPostpone a (.tickWait true period last remaining body :: fs) := by
  unfold tickNext intervalStep
  have h0 : (remaining == 0) = false := by simpa using hr
  simp only [h0, Bool.false_eq_true, if_false, if_true]
  show (if TimeLike.lt (last + period - w.time) (0 : Rat) = true then _ else _) = _
  by_cases h1 : last + period - w.time < 0
  · have : TimeLike.lt (last + period - w.time) (0 : Rat) = true := by show decide _ = true; simpa using h1
    simp only [this, if_true, h1, decide_true]
  · have : TimeLike.lt (last + period - w.time) (0 : Rat) = false := by show decide _ = false; simpa using h1
    simp only [this, Bool.false_eq_true, if_false, h1, decide_false]
    by_cases h2 : last + period - w.time > 0
    · have g : TimeLike.gt (TimeLike.sub (TimeLike.add last period) w.time) (TimeLike.zero : Rat) = true := by
        show decide (_ : Prop) = true; exact decide_eq_true h2
      simp only [h2, decide_true, if_true]
      rw [if_pos g]; rfl
    · have g : TimeLike.gt (TimeLike.sub (TimeLike.add last period) w.time) (TimeLike.zero : Rat) = false := by
        show decide (_ : Prop) = false; exact decide_eq_false h2
      simp only [h2, decide_false, Bool.false_eq_true, if_false]
      rw [if_neg (by rw [g]; simp)]

/-- **one step of `delay(period)` in the machine = the translated `delayStep`** -/
theorem tickNext_delay (a : ActId) (fs : List (Frame Rat)) (period last : Rat) (remaining : Nat) (body : List (Stmt Rat))
    (hr : remaining ≠ 0) :
    w.tickNext a fs false period last remaining body =
      match delayStep period with
      | .suspend d => w.doSuspend a (.tickWait false period last remaining body :: fs) (.delay d)
      | _ => w.doPostpone a (.tickWait false period last remaining body :: fs) := by
  unfold tickNext delayStep
  have h0 : (remaining == 0) = false := by simpa using hr
  simp only [h0, Bool.false_eq_true, if_false]
  by_cases h2 : period > 0
  · have g : TimeLike.gt period (TimeLike.zero : Rat) = true := by show decide (_ : Prop) = true; exact decide_eq_true h2
    rw [if_pos g]; simp only [h2, decide_true, if_true]
  · have g : TimeLike.gt period (TimeLike.zero : Rat) = false := by show decide (_ : Prop) = false; exact decide_eq_false h2
    rw [if_neg (by rw [g]; simp)]; simp only [h2, decide_false, Bool.false_eq_true, if_false]

end World
end USim.Machine
