import USimModel.Gen.Pins
/-! every definition of `usim/_primitives/notification.py` is the one the model was written against (extract/gen_pins.py) -/
namespace USim.Pins

theorem notification_as_modelled : USim.Gen.Pins.changed_notification = [] := rfl

end USim.Pins
