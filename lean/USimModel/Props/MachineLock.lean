import USimModel.Lemmas.CStep
import USimModel.Prim.Lock
/-!
# The machine's lock code is the open lock model, transition by transition (C09)

`Prim/Lock.lean` is an open model of `usim/_primitives/locks.py`: a lock as a state machine whose actions are the entry
points of the code and the moves of the environment; `Props/C09.lean` proves mutual exclusion, re-entrancy, FIFO hand-off and
"always released" for every sequence of its actions.  The *machine* - the executable model that the correspondence compares
with the real usim, turn by turn - has lock code of its own (`acquireLock`, `lockAcquired`, `lockRelease`, the frames
`lockWait` / `lockBody`).  This file ties the two by proof, for **every world**: the effect of each piece of the machine's
lock code on `absLock` (owner, nesting depth, the activities in the lock's queue, oldest first) is the transition of the open
model (`Prim.Lock.apply`), component by component.  What the machine adds - the turn order, the wake-up signals, what the
continuation does - is outside the abstraction; `woken` (wake-ups in flight) is not tracked by `absLock` and not compared.
-/
set_option linter.unusedVariables false
set_option linter.unusedSimpArgs false
namespace USim.Machine
open TimeLike USim.Prim.Kernel
namespace World
variable (w : World Rat)

/-- the lock `l` of the world as a state of the open model (wake-ups in flight are not tracked) -/
def absLock (w : World Rat) (l : Name) : USim.Prim.Lock.LockSt :=
  { owner := (w.locks.getD l default).owner, depth := (w.locks.getD l default).depth,
    waiting := (w.cond (w.locks.getD l default).notif).waiting.map (·.1), woken := [] }

theorem getD_modify_self {α} [Inhabited α] (a : Array α) (i : Nat) (f : α → α) (h : i < a.size) :
    (a.modify i f).getD i default = f (a.getD i default) := by
  rw [Array.getD_eq_getD_getElem?, Array.getD_eq_getD_getElem?, Array.getElem?_modify]
  simp [h]

@[simp] theorem setCond_locks (c : CondId) (f : Cond Rat → Cond Rat) : (w.setCond c f).locks = w.locks := rfl
@[simp] theorem setCond_conds (c : CondId) (f : Cond Rat → Cond Rat) : (w.setCond c f).conds = w.conds.modify c f := rfl
theorem cond_def (c : CondId) : w.cond c = w.conds.getD c default := rfl

/-- **`Lock.__release__`** hands the lock to the *oldest* waiter and takes it out of the queue; with nobody waiting the lock
becomes free - exactly `Prim.Lock.release` -/
theorem lockRelease_refines (l : Name) (hl : l < w.locks.size)
    (hn : (w.locks.getD l default).notif < w.conds.size) :
    ((w.lockRelease l).absLock l).owner = (USim.Prim.Lock.release (w.absLock l)).owner ∧
    ((w.lockRelease l).absLock l).depth = (USim.Prim.Lock.release (w.absLock l)).depth ∧
    ((w.lockRelease l).absLock l).waiting = (USim.Prim.Lock.release (w.absLock l)).waiting := by
  unfold lockRelease awakeNext absLock USim.Prim.Lock.release
  cases hw : (w.cond (w.locks.getD l default).notif).waiting with
  | nil =>
    simp only [hw, List.map_nil]
    have e : ({ w with locks := w.locks.modify l fun x => { x with owner := none } } : World Rat).cond
        (w.locks.getD l default).notif = w.cond (w.locks.getD l default).notif := rfl
    refine ⟨?_, ?_, ?_⟩
    · show ((w.locks.modify l _).getD l default).owner = none
      rw [getD_modify_self _ _ _ hl]
    · show ((w.locks.modify l _).getD l default).depth = _
      rw [getD_modify_self _ _ _ hl]
    · show List.map _ (World.cond _ ((w.locks.modify l _).getD l default).notif).waiting = []
      rw [getD_modify_self _ _ _ hl]
      show List.map _ (w.cond (w.locks.getD l default).notif).waiting = []
      rw [hw]; rfl
  | cons p rest =>
    obtain ⟨b, s⟩ := p
    simp only [hw, List.map_cons]
    have e1 : ((w.setCond (w.locks.getD l default).notif fun x => { x with waiting := rest }).scheduleNow b (some s)).locks = w.locks := by
      rw [cv_scheduleNow_locks]; rfl
    have e2 : ((w.setCond (w.locks.getD l default).notif fun x => { x with waiting := rest }).scheduleNow b (some s)).conds =
        w.conds.modify (w.locks.getD l default).notif (fun x => { x with waiting := rest }) := by
      rw [cv_scheduleNow_conds]; rfl
    refine ⟨?_, ?_, ?_⟩
    · show ((World.locks _).modify l _ |>.getD l default).owner = some b
      rw [e1, getD_modify_self _ _ _ hl]
    · show ((World.locks _).modify l _ |>.getD l default).depth = _
      rw [e1, getD_modify_self _ _ _ hl]
    · show List.map _ ((World.conds _).getD ((World.locks _).modify l _ |>.getD l default).notif default).waiting = _
      rw [e1, getD_modify_self _ _ _ hl, e2]
      show List.map _ ((w.conds.modify (w.locks.getD l default).notif _).getD (w.locks.getD l default).notif default).waiting = _
      rw [getD_modify_self _ _ _ hn]

/-! ### helpers: what the continuations do not touch -/
theorem retTo_lc (a : ActId) (fs : List (Frame Rat)) (v : Val) :
    (w.retTo a fs v).locks = w.locks ∧ (w.retTo a fs v).conds = w.conds := by
  unfold retTo; exact ⟨by rw [cv_setMode_locks]; rfl, by rw [cv_setMode_conds]; rfl⟩
theorem raiseTo_lc (a : ActId) (fs : List (Frame Rat)) (e : ExnId) :
    (w.raiseTo a fs e).locks = w.locks ∧ (w.raiseTo a fs e).conds = w.conds := by
  unfold raiseTo; exact ⟨by rw [cv_setMode_locks]; rfl, by rw [cv_setMode_conds]; rfl⟩
theorem hibernate_lc (a : ActId) (fs : List (Frame Rat)) :
    (w.hibernate a fs).locks = w.locks ∧ (w.hibernate a fs).conds = w.conds := by
  unfold hibernate; dsimp only; split <;> exact ⟨rfl, rfl⟩

theorem absLock_congr {w1 w2 : World Rat} (l : Name) (h1 : w1.locks = w2.locks) (h2 : w1.conds = w2.conds) :
    w1.absLock l = w2.absLock l := by
  unfold absLock cond; rw [h1, h2]

/-- a world whose lock `l` was updated by `f` (same notification), nothing else: its abstraction -/
theorem absLock_modify (l : Name) (hl : l < w.locks.size) (f : Lock → Lock) (hf : ∀ x, (f x).notif = x.notif) :
    (({ w with locks := w.locks.modify l f } : World Rat).absLock l) =
      { owner := (f (w.locks.getD l default)).owner, depth := (f (w.locks.getD l default)).depth,
        waiting := (w.absLock l).waiting, woken := [] } := by
  unfold absLock
  show ({ owner := ((w.locks.modify l f).getD l default).owner, depth := ((w.locks.modify l f).getD l default).depth,
          waiting := List.map _ (w.conds.getD ((w.locks.modify l f).getD l default).notif default).waiting, woken := [] } :
          USim.Prim.Lock.LockSt) = _
  rw [getD_modify_self _ _ _ hl, hf]; rfl

/-- the abstraction of a world whose lock table is `w.locks` with entry `l` updated by `f` (same notification) and whose
conditions are those of `w` -/
theorem absLock_of (w' : World Rat) (l : Name) (hl : l < w.locks.size) (f : Lock → Lock) (hf : ∀ x, (f x).notif = x.notif)
    (h1 : w'.locks = w.locks.modify l f) (h2 : w'.conds = w.conds) :
    w'.absLock l = { owner := (f (w.locks.getD l default)).owner, depth := (f (w.locks.getD l default)).depth,
                     waiting := (w.absLock l).waiting, woken := [] } := by
  unfold absLock cond
  rw [h1, h2, getD_modify_self _ _ _ hl, hf]

theorem lockAcquired_locks (a : ActId) (fs : List (Frame Rat)) (l : Name) (stmts : List (Stmt Rat)) :
    (w.lockAcquired a fs l (.body stmts)).locks = w.locks.modify l (fun x => { x with depth := x.depth + 1 }) := by
  unfold lockAcquired; dsimp only; rw [(retTo_lc _ _ _ _).1]; rfl
theorem lockAcquired_conds (a : ActId) (fs : List (Frame Rat)) (l : Name) (stmts : List (Stmt Rat)) :
    (w.lockAcquired a fs l (.body stmts)).conds = w.conds := by
  unfold lockAcquired; dsimp only; rw [(retTo_lc _ _ _ _).2]; rfl

/-- **the lock is owned by `a` from now on** (`self._depth += 1` and the continuation of the block): one level deeper,
nothing else -/
theorem lockAcquired_abs (a : ActId) (fs : List (Frame Rat)) (l : Name) (stmts : List (Stmt Rat)) (hl : l < w.locks.size) :
    (w.lockAcquired a fs l (.body stmts)).absLock l =
      { owner := (w.absLock l).owner, depth := (w.absLock l).depth + 1, waiting := (w.absLock l).waiting, woken := [] } :=
  absLock_of w _ l hl (fun x => { x with depth := x.depth + 1 }) (fun _ => rfl) (lockAcquired_locks w a fs l stmts)
    (lockAcquired_conds w a fs l stmts)

theorem acquireLock_free (a : ActId) (fs : List (Frame Rat)) (l : Name) (stmts : List (Stmt Rat)) (hl : l < w.locks.size)
    (hw : (w.locks.getD l default).owner = none) :
    (w.acquireLock a fs l (.body stmts)).absLock l =
      { owner := some a, depth := (w.absLock l).depth + 1, waiting := (w.absLock l).waiting, woken := [] } := by
  have e : w.acquireLock a fs l (.body stmts) =
      ({ w with locks := w.locks.modify l (fun x => { x with owner := some a }) } : World Rat).lockAcquired a fs l (.body stmts) := by
    unfold acquireLock; dsimp only; rw [hw]
  rw [e]
  have hl' : l < ({ w with locks := w.locks.modify l (fun x => { x with owner := some a }) } : World Rat).locks.size := by
    show l < (w.locks.modify l _).size; simpa using hl
  rw [lockAcquired_abs _ a fs l stmts hl']
  rw [absLock_of w ({ w with locks := w.locks.modify l (fun x => { x with owner := some a }) } : World Rat) l hl
    (fun x => { x with owner := some a }) (fun _ => rfl) rfl rfl]
  rfl

theorem acquireLock_owner (a : ActId) (fs : List (Frame Rat)) (l : Name) (stmts : List (Stmt Rat)) (hl : l < w.locks.size)
    (hw : (w.locks.getD l default).owner = some a) :
    (w.acquireLock a fs l (.body stmts)).absLock l =
      { owner := some a, depth := (w.absLock l).depth + 1, waiting := (w.absLock l).waiting, woken := [] } := by
  have e : w.acquireLock a fs l (.body stmts) = w.lockAcquired a fs l (.body stmts) := by
    unfold acquireLock; dsimp only; rw [hw]; simp
  rw [e, lockAcquired_abs _ a fs l stmts hl]
  have : (w.absLock l).owner = some a := hw
  rw [this]

theorem acquireLock_contended (a : ActId) (fs : List (Frame Rat)) (l : Name) (stmts : List (Stmt Rat)) (o : ActId)
    (hn : (w.locks.getD l default).notif < w.conds.size) (hp : (w.cond (w.locks.getD l default).notif).kind = .plain)
    (hw : (w.locks.getD l default).owner = some o) (hoa : o ≠ a) :
    (w.acquireLock a fs l (.body stmts)).absLock l =
      { owner := some o, depth := (w.absLock l).depth, waiting := (w.absLock l).waiting ++ [a], woken := [] } := by
  have hb : (o == a) = false := by simpa using hoa
  have e : w.acquireLock a fs l (.body stmts) =
      w.doNotifAwait a (.lockWait l (.body stmts) :: fs) (w.locks.getD l default).notif := by
    unfold acquireLock; dsimp only; rw [hw]; simp [hb]
  rw [e]
  -- the newcomer subscribes to the lock's notification and hibernates
  have hk : ((w.newSig .wake).1.cond (w.locks.getD l default).notif).kind = .plain := hp
  have e2 : w.doNotifAwait a (.lockWait l (.body stmts) :: fs) (w.locks.getD l default).notif =
      (((w.newSig .wake).1.setCond (w.locks.getD l default).notif
          (fun x => { x with waiting := x.waiting ++ [(a, (w.newSig .wake).2)] })).hibernate a
        (.notifHib (w.locks.getD l default).notif (w.newSig .wake).2 :: .lockWait l (.body stmts) :: fs)) := by
    unfold doNotifAwait; simp only [subscribe, hk]
  rw [e2, absLock_congr l (hibernate_lc _ _ _).1 (hibernate_lc _ _ _).2]
  unfold absLock cond
  have e3 : ((w.newSig .wake).1.setCond (w.locks.getD l default).notif
      (fun x => { x with waiting := x.waiting ++ [(a, (w.newSig .wake).2)] })).locks = w.locks := rfl
  have e4 : ((w.newSig .wake).1.setCond (w.locks.getD l default).notif
      (fun x => { x with waiting := x.waiting ++ [(a, (w.newSig .wake).2)] })).conds =
      w.conds.modify (w.locks.getD l default).notif (fun x => { x with waiting := x.waiting ++ [(a, (w.newSig .wake).2)] }) := rfl
  rw [e3, e4, getD_modify_self _ _ _ hn, hw]
  simp only [List.map_append, List.map_cons, List.map_nil]

/-- **`Lock.__aenter__` up to its first suspension is the action `enter`** of the open model: a free lock is taken, the
owner goes one level deeper, everybody else joins the *end* of the queue -/
theorem acquireLock_refines (a : ActId) (fs : List (Frame Rat)) (l : Name) (stmts : List (Stmt Rat)) (hl : l < w.locks.size)
    (hn : (w.locks.getD l default).notif < w.conds.size) (hp : (w.cond (w.locks.getD l default).notif).kind = .plain) :
    ((w.acquireLock a fs l (.body stmts)).absLock l).owner = (USim.Prim.Lock.apply (w.absLock l) (.enter a)).owner ∧
    ((w.acquireLock a fs l (.body stmts)).absLock l).depth = (USim.Prim.Lock.apply (w.absLock l) (.enter a)).depth ∧
    ((w.acquireLock a fs l (.body stmts)).absLock l).waiting = (USim.Prim.Lock.apply (w.absLock l) (.enter a)).waiting := by
  have ho : (w.absLock l).owner = (w.locks.getD l default).owner := rfl
  cases hw : (w.locks.getD l default).owner with
  | none =>
    rw [acquireLock_free w a fs l stmts hl hw]
    unfold USim.Prim.Lock.apply
    rw [ho, hw]
    exact ⟨rfl, rfl, rfl⟩
  | some o =>
    by_cases hoa : o = a
    · subst hoa
      rw [acquireLock_owner w o fs l stmts hl hw]
      unfold USim.Prim.Lock.apply
      rw [ho, hw]
      simp
    · rw [acquireLock_contended w a fs l stmts o hn hp hw hoa]
      have hb : (o == a) = false := by simpa using hoa
      unfold USim.Prim.Lock.apply
      rw [ho, hw]
      simp [hb]

/-- **the wake-up of the designated waiter is delivered** (`lockWait` receives a value): the action `resume` - one level deeper -/
theorem lockResume_refines (a : ActId) (fs : List (Frame Rat)) (v : Val) (l : Name) (stmts : List (Stmt Rat)) (hl : l < w.locks.size) :
    ((w.stepRet a (.lockWait l (.body stmts)) fs v).absLock l).owner = (w.absLock l).owner ∧
    ((w.stepRet a (.lockWait l (.body stmts)) fs v).absLock l).depth = (USim.Prim.Lock.apply (w.absLock l) (.resume a)).depth ∧
    ((w.stepRet a (.lockWait l (.body stmts)) fs v).absLock l).waiting = (USim.Prim.Lock.apply (w.absLock l) (.resume a)).waiting := by
  simp only [stepRet]
  rw [lockAcquired_abs _ a fs l stmts hl]
  exact ⟨rfl, rfl, rfl⟩

theorem lockRelease_lc (l : Name) :
    (w.lockRelease l).locks = (w.awakeNext (w.locks.getD l default).notif).1.locks.modify l
      (fun x => { x with owner := (w.awakeNext (w.locks.getD l default).notif).2 }) := rfl

/-- **`Lock.__aexit__` is the action `exit`**: one level up; leaving the outermost block releases the lock (to the oldest
waiter, or nobody); an inner exit keeps the lock -/
theorem lockExit_refines (a : ActId) (fs : List (Frame Rat)) (v : Val) (l : Name) (hl : l < w.locks.size)
    (hn : (w.locks.getD l default).notif < w.conds.size) :
    ((w.stepRet a (.lockBody l false) fs v).absLock l).owner = (USim.Prim.Lock.apply (w.absLock l) (.exit a)).owner ∧
    ((w.stepRet a (.lockBody l false) fs v).absLock l).depth = (USim.Prim.Lock.apply (w.absLock l) (.exit a)).depth ∧
    ((w.stepRet a (.lockBody l false) fs v).absLock l).waiting = (USim.Prim.Lock.apply (w.absLock l) (.exit a)).waiting := by
  -- the world after `self._depth -= 1`
  let w1 : World Rat := { w with locks := w.locks.modify l (fun x => { x with depth := x.depth - 1 }) }
  have h1 : w1.absLock l = { owner := (w.absLock l).owner, depth := (w.absLock l).depth - 1, waiting := (w.absLock l).waiting, woken := [] } :=
    absLock_of w w1 l hl (fun x => { x with depth := x.depth - 1 }) (fun _ => rfl) rfl rfl
  have hl1 : l < w1.locks.size := by show l < (w.locks.modify l _).size; simpa using hl
  have hn1 : (w1.locks.getD l default).notif < w1.conds.size := by
    show ((w.locks.modify l _).getD l default).notif < w.conds.size
    rw [getD_modify_self _ _ _ hl]; exact hn
  have e : w.stepRet a (.lockBody l false) fs v =
      (if (w1.locks.getD l default).depth == 0 then w1.lockRelease l else w1).retTo a fs v := by
    simp only [stepRet, Bool.false_eq_true, if_false]; rfl
  rw [e, absLock_congr l (retTo_lc _ _ _ _).1 (retTo_lc _ _ _ _).2]
  have hd : (w1.locks.getD l default).depth = (w.absLock l).depth - 1 := congrArg USim.Prim.Lock.LockSt.depth h1
  have h1' : w1.absLock l = { (w.absLock l) with depth := (w.absLock l).depth - 1 } := h1
  by_cases h0 : (w.absLock l).depth - 1 = 0
  · have hb : ((w1.locks.getD l default).depth == 0) = true := by rw [hd, h0]; rfl
    have key : USim.Prim.Lock.apply (w.absLock l) (.exit a) =
        USim.Prim.Lock.release { (w.absLock l) with depth := (w.absLock l).depth - 1 } := by
      unfold USim.Prim.Lock.apply; simp [h0]
    rw [hb, if_pos rfl, key, ← h1']
    exact lockRelease_refines w1 l hl1 hn1
  · have hb : ((w1.locks.getD l default).depth == 0) = false := by rw [hd]; simpa using h0
    have key : USim.Prim.Lock.apply (w.absLock l) (.exit a) = { (w.absLock l) with depth := (w.absLock l).depth - 1 } := by
      unfold USim.Prim.Lock.apply; simp [h0]
    rw [hb, if_neg (by simp), key, ← h1']
    exact ⟨rfl, rfl, rfl⟩

/-- **an exception reaches an activity that waits in `Lock.__aenter__`** (cancellation, `until`, close - after the `finally`
of the wait has unsubscribed it): `except: if self._owner == current: __release__()` - the second half of the action
`abort`: a waiter that had already been designated passes the lock on, any other leaves the lock alone -/
theorem lockAbort_refines (a : ActId) (fs : List (Frame Rat)) (e : ExnId) (l : Name) (cont : LockCont Rat) (hl : l < w.locks.size)
    (hn : (w.locks.getD l default).notif < w.conds.size) :
    let s := w.absLock l
    let s' := if s.owner == some a then USim.Prim.Lock.release s else s
    ((w.stepRaise a (.lockWait l cont) fs e).absLock l).owner = s'.owner ∧
    ((w.stepRaise a (.lockWait l cont) fs e).absLock l).depth = s'.depth ∧
    ((w.stepRaise a (.lockWait l cont) fs e).absLock l).waiting = s'.waiting := by
  intro s s'
  have e1 : w.stepRaise a (.lockWait l cont) fs e =
      (if (w.locks.getD l default).owner == some a then w.lockRelease l else w).raiseTo a fs e := by
    simp only [stepRaise]
  rw [e1, absLock_congr l (raiseTo_lc _ _ _ _).1 (raiseTo_lc _ _ _ _).2]
  have ho : s.owner = (w.locks.getD l default).owner := rfl
  by_cases h : ((w.locks.getD l default).owner == some a) = true
  · have hs : s' = USim.Prim.Lock.release s := by show (if _ then _ else _) = _; rw [ho, if_pos h]
    rw [if_pos h, hs]
    exact lockRelease_refines w l hl hn
  · have hs : s' = s := by show (if _ then _ else _) = _; rw [ho, if_neg h]
    rw [if_neg h, hs]
    exact ⟨rfl, rfl, rfl⟩

/-! ### what the theorems say on a concrete world (non-vacuity): lock 0 owned by activity 5, activities 7 and 8 queued -/
def exampleWorld : World Rat :=
  { (default : World Rat) with
    locks := #[{ notif := 0, owner := some 5, depth := 1 }],
    conds := #[{ kind := .plain, waiting := [(7, 0), (8, 1)] }] }

example : (exampleWorld.absLock 0) = { owner := some 5, depth := 1, waiting := [7, 8], woken := [] } := rfl
example : ((exampleWorld.lockRelease 0).absLock 0).owner = some 7 ∧ ((exampleWorld.lockRelease 0).absLock 0).waiting = [8] := by
  have h := lockRelease_refines exampleWorld 0 (by decide) (by decide)
  exact ⟨h.1, h.2.2⟩

end World
end USim.Machine
