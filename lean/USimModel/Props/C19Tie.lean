import USimModel.SimPyRes
import USimModel.Gen.SimPyRes
/-!
# C19 - tie between the model's decision logic and the definitions regenerated from
`usim/py/resources/*.py` on every run.
-/
namespace USim.SimPyRes
open USim.Gen.SimPyRes

theorem tie_container_put (s : Core) (r : PutReq) (hk : s.kind = .container) :
    containerDoPut s r = doPut s r := by
  simp only [containerDoPut, doPut, hk, hasRoom, extGe, extSub, ToExt.toExt]
  cases s.capacity <;> simp

theorem tie_container_get (s : Core) (g : GetReq) (hk : s.kind = .container) :
    containerDoGet s g = doGet s g := by
  simp [containerDoGet, doGet, hk, extGe, ToExt.toExt]

theorem tie_store_put (s : Core) (r : PutReq) (hk : s.kind = .store ∨ s.kind = .filterStore) :
    storeDoPut s r = doPut s r := by
  rcases hk with hk | hk <;>
  · simp only [storeDoPut, doPut, hk, hasRoom, extLt, ToExt.toExt]
    cases s.capacity <;> simp <;> (split <;> simp_all <;> omega)

theorem tie_priority_store_put (s : Core) (r : PutReq) (hk : s.kind = .priorityStore) :
    priorityStoreDoPut s r = doPut s r := by
  simp only [priorityStoreDoPut, doPut, hk, hasRoom, extLt, ToExt.toExt]
  cases s.capacity <;> simp <;> (split <;> simp_all <;> omega)

theorem tie_store_get (s : Core) (g : GetReq) (hk : s.kind = .store) : storeDoGet s g = doGet s g := by
  simp only [storeDoGet, doGet, hk]
  cases s.items <;> rfl

theorem tie_priority_store_get (s : Core) (g : GetReq) (hk : s.kind = .priorityStore) :
    priorityStoreDoGet s g = doGet s g := by
  simp only [priorityStoreDoGet, doGet, hk]
  cases s.items <;> rfl

theorem tie_filter_store_get (s : Core) (g : GetReq) (hk : s.kind = .filterStore) :
    filterStoreDoGet s g = doGet s g := by
  simp only [filterStoreDoGet, doGet, hk]
  cases List.find? g.filter s.items <;> rfl

theorem tie_resource_put (s : Core) (r : PutReq) (hk : s.kind = .resource ∨ s.kind = .priorityResource) :
    resourceDoPutGen s r = doPut s r := by
  rcases hk with hk | hk <;>
  · simp only [resourceDoPutGen, doPut, resourceDoPut, hk, hasRoom, extLt, ToExt.toExt]
    cases s.capacity <;> simp <;> (split <;> simp_all <;> omega)

theorem resourceDoPutGen_eq (s : Core) (r : PutReq) : resourceDoPutGen s r = resourceDoPut s r := by
  simp only [resourceDoPutGen, resourceDoPut, hasRoom, extLt, ToExt.toExt]
  cases s.capacity <;> simp <;> (split <;> simp_all <;> omega)

theorem extGe_hasRoom (n : Nat) (cap : Option Int) : extGe n cap = !(hasRoom cap n 1) := by
  cases cap with
  | none => simp [extGe, hasRoom, ToExt.toExt]
  | some c =>
    simp only [extGe, hasRoom, ToExt.toExt]
    by_cases h : c ≤ (n : Int)
    · have : ¬ (c - (n : Int) ≥ 1) := by omega
      simp [h, this]
    · have : (c - (n : Int) ≥ 1) := by omega
      simp [h, this]

theorem tie_preemptive_put (s : Core) (r : PutReq) (hk : s.kind = .preemptive) :
    preemptiveDoPutGen s r = doPut s r := by
  have h1 : doPut s r = resourceDoPut (preemptStep s r) r := by simp [doPut, hk]
  rw [h1]
  simp only [preemptiveDoPutGen, resourceDoPutGen_eq, preemptStep, extGe_hasRoom]
  congr 1

theorem tie_resource_get (s : Core) (g : GetReq)
    (hk : s.kind = .resource ∨ s.kind = .priorityResource ∨ s.kind = .preemptive) :
    resourceDoGetGen s g = doGet s g := by
  rcases hk with hk | hk | hk <;> simp only [resourceDoGetGen, doGet, hk]

theorem tie_trigger_put (s : RState) :
    triggerPut s = { s with core := (baseTriggerPut doPut s.core s.putQ).1,
                            putQ := (baseTriggerPut doPut s.core s.putQ).2 } := rfl

theorem tie_trigger_get (s : RState) :
    triggerGet s =
      if s.core.kind = .filterStore then
        { s with core := (filterStoreTriggerGet doGet s.core s.getQ).1,
                 getQ := (filterStoreTriggerGet doGet s.core s.getQ).2 }
      else { s with core := (baseTriggerGet doGet s.core s.getQ).1,
                    getQ := (baseTriggerGet doGet s.core s.getQ).2 } := by
  simp only [triggerGet, serveGets, filterStoreTriggerGet, baseTriggerGet]
  split <;> rfl

theorem tie_new_put (s : RState) (r : PutReq) :
    newPut s r = putInit (fun r q => if isSortedKind s.core.kind then sortedEnqueue r q else q ++ [r])
      triggerPut s r := by
  simp only [newPut, putInit, enqueuePut, sortedEnqueue]

theorem tie_new_get (s : RState) (g : GetReq) : newGet s g = getInit triggerGet s g := rfl

theorem tie_cancel (s : RState) (id : Nat) :
    cancelPut s id = putCancel s id ∧ cancelGet s id = getCancel s id := ⟨rfl, rfl⟩

theorem tie_request_key (p now : Int) (pre : Bool) : requestKey p now pre = ⟨p, now, !pre⟩ := rfl

end USim.SimPyRes
