import USimModel.Lemmas.KStep
/-!
# The whole machine: the clock of every simulation only moves forward
# (C01, first clause, for every program, every schedule and every number of steps)

`World.step` is the executable machine that is compared with the implementation turn by turn
(`Machine/Run.lean`).  The theorems here are about *every* world it can reach, whatever the program:

* `step_cases`: one step either leaves the enclosing simulations alone and does not move the clock
  backwards, or starts a nested `run()` (saving the clock), or returns from one (restoring exactly it);
* `step_ok`: the kernel invariant `KOk` (assertions on; every wait queue sorted, with no date before its
  clock) is preserved, so the above holds along every run;
* `runFuel_base_clock`, `initWorld_clock`: from the initial world of any program, after any number of
  steps, the clock of the outermost simulation is at least the start time and never decreased on the way.

Layer K (`Props/C01.lean`) proves the same for the kernel under *arbitrary* scheduling commands; what this
file adds is that the interpreter of programs (statements, frames, primitives - 1 900 lines of definitions)
touches the kernel only through `Loop.schedule`, `run()` and the loop itself.
-/
set_option linter.unusedVariables false
set_option linter.unusedSimpArgs false
namespace USim.Machine
open TimeLike USim.Prim.Kernel

/-- a wait queue fit for the clock `now`: dates strictly increasing, none in the past -/
def LevelOk (now : Rat) (q : List (Rat × List Activation)) : Prop :=
  (keys q).Pairwise (· < ·) ∧ ∀ t ∈ keys q, now ≤ t

/-- kernel invariant: assertions on, and every simulation (the running one and the enclosing ones) has a fit wait queue -/
structure KOk (k : KV) : Prop where
  debug : k.cfg.debug = true
  cur : LevelOk k.time k.queue
  saved : ∀ sv ∈ k.saved, LevelOk sv.time sv.queue

/-- a nested `run()` starts: the current kernel is saved, a fresh one begins with its start bucket -/
structure KEnter (k k' : KV) : Prop where
  cfg : k'.cfg = k.cfg
  saved : ∃ sv : Saved Rat, k'.saved = sv :: k.saved ∧ sv.time = k.time ∧ sv.queue = k.queue
  queue : ∃ acts, k'.queue = [(k'.time, acts)]

/-- the innermost `run()` returns: the saved kernel is restored -/
structure KLeave (k k' : KV) : Prop where
  cfg : k'.cfg = k.cfg
  saved : ∃ sv : Saved Rat, k.saved = sv :: k'.saved ∧ k'.time = sv.time ∧ k'.queue = sv.queue

/-- the loop moves on to the next bucket -/
structure KAdvance (k k' : KV) : Prop where
  cfg : k'.cfg = k.cfg
  saved : k'.saved = k.saved
  queue : ∃ b, k.queue = (k'.time, b) :: k'.queue

theorem KExt.ok {k k' : KV} (h : KExt k k') (ok : KOk k) : KOk k' := by
  refine ⟨by rw [h.cfg]; exact ok.debug, ⟨h.sorted ok.debug ok.cur.1, ?_⟩, by rw [h.saved]; exact ok.saved⟩
  intro t ht
  rw [h.time]
  rcases h.later ok.debug t ht with h1 | h1
  · exact ok.cur.2 t h1
  · exact Rat.le_of_lt h1

theorem KEnter.ok {k k' : KV} (h : KEnter k k') (ok : KOk k) : KOk k' := by
  obtain ⟨sv, hs, ht, hq⟩ := h.saved
  obtain ⟨acts, ha⟩ := h.queue
  refine ⟨by rw [h.cfg]; exact ok.debug, ?_, ?_⟩
  · rw [ha]; exact ⟨by simp [keys], by simp [keys]⟩
  · intro x hx
    rw [hs] at hx
    rcases List.mem_cons.mp hx with rfl | hx
    · rw [ht, hq]; exact ok.cur
    · exact ok.saved x hx

theorem KLeave.ok {k k' : KV} (h : KLeave k k') (ok : KOk k) : KOk k' := by
  obtain ⟨sv, hs, ht, hq⟩ := h.saved
  refine ⟨by rw [h.cfg]; exact ok.debug, ?_, ?_⟩
  · rw [ht, hq]; exact ok.saved sv (by rw [hs]; exact List.mem_cons_self)
  · intro x hx; exact ok.saved x (by rw [hs]; exact List.mem_cons_of_mem _ hx)

theorem KAdvance.ok {k k' : KV} (h : KAdvance k k') (ok : KOk k) : KOk k' ∧ k.time ≤ k'.time := by
  obtain ⟨b, hq⟩ := h.queue
  have hs := ok.cur.1
  have hl := ok.cur.2
  rw [hq] at hs hl
  simp only [keys, List.map_cons, List.pairwise_cons, List.mem_cons, forall_eq_or_imp] at hs hl
  refine ⟨⟨by rw [h.cfg]; exact ok.debug, ⟨hs.2, ?_⟩, by rw [h.saved]; exact ok.saved⟩, hl.1⟩
  intro t ht
  exact Rat.le_of_lt (hs.1 t (by simpa [keys] using ht))

namespace World

/-! ### the interpreter -/

/-- **one transition of the running activity** extends the kernel view or starts a nested run -/
theorem microStep_kstep (w : World Rat) : KExt w.kv w.microStep.kv ∨ KEnter w.kv w.microStep.kv := by
  unfold microStep
  cases hc : w.ctl with
  | nil => exact Or.inl (KExt.refl _)
  | cons x rest =>
    obtain ⟨a, mode⟩ := x
    simp only []
    cases hf : (w.act a).frames with
    | nil => exact Or.inl (by simp only []; rw [kv_finishAct]; exact KExt.refl _)
    | cons f fs =>
      cases mode with
      | raise e => exact Or.inl (stepRaise_kext w a f fs e (KExt.refl _))
      | ret v =>
        simp only []
        by_cases hn : ∃ progs start ss, f = .seq (.nestedRun progs start :: ss)
        · obtain ⟨progs, start, ss, rfl⟩ := hn
          right
          simp only [stepRet, execStmt]
          have hk : ∀ (l : List (Prog Rat)) (p : World Rat × List Activation),
              (l.foldl (fun (p : World Rat × List Activation) prog =>
                let (w, x) := p.1.newAct [.seq prog, .coroutineEnd] true (10000 + 100 * p.1.nestedRuns + p.2.length)
                (w, p.2 ++ [{ target := x, signal := none }])) p).1.kv = p.1.kv :=
            fun l p => kv_foldl_pair _ (by intro p x; rfl) l p
          have h1 := hk progs (w.setFrames a (.nestedRun :: .seq ss :: fs), [])
          have e1 := congrArg KV.cfg h1
          have e3 := congrArg KV.saved h1
          simp only [kv] at e1 e3
          refine ⟨?_, ⟨{ time := w.time, turn := w.turn, pending := w.pending, queue := w.queue, ctl := w.ctl }, ?_, rfl, rfl⟩, ⟨_, rfl⟩⟩
          · simp only [kv]; rw [e1]; rfl
          · simp only [kv]; rw [e3]; rfl
        · left
          exact stepRet_kext w a f fs v (fun p st ss h => hn ⟨p, st, ss, h⟩) (KExt.refl _)

theorem kv_activate (w : World Rat) (t : ActId) (s : Option SigId) : (w.activate t s).kv = w.kv := by
  unfold activate; kv_a

/-- **one step of the machine** -/
theorem step_kinds {w w' : World Rat} (h : w.step = some w') :
    KExt w.kv w'.kv ∨ KEnter w.kv w'.kv ∨ KLeave w.kv w'.kv ∨ KAdvance w.kv w'.kv := by
  unfold step at h
  have hret : ∀ {w w' : World Rat}, w.nestedReturn = some w' → KLeave w.kv w'.kv := by
    intro w w' h
    unfold nestedReturn at h
    split at h
    · cases h
    · rename_i sv rest hs
      have : w'.kv = ⟨w.cfg, sv.time, rest, sv.queue⟩ := by
        simp only at h
        split at h <;> (cases h; simp [kv])
      refine ⟨by rw [this]; rfl, ⟨sv, by rw [this]; exact hs, by rw [this], by rw [this]⟩⟩
  split at h
  · unfold kernelStep at h
    split at h
    · exact Or.inr (Or.inr (Or.inl (hret h)))
    · split at h
      · rename_i act rest hp
        left
        simp only at h
        split at h
        all_goals
          split at h
          · simp only [Option.some.injEq] at h
            subst h
            rw [kv_activate]; exact KExt.refl _
          · simp only [Option.some.injEq] at h
            subst h; exact KExt.refl _
      · split at h
        · rename_i t bucket q hq
          cases h
          exact Or.inr (Or.inr (Or.inr ⟨rfl, rfl, ⟨bucket, hq⟩⟩))
        · exact Or.inr (Or.inr (Or.inl (hret h)))
  · cases h
    rcases microStep_kstep w with h1 | h1
    · exact Or.inl h1
    · exact Or.inr (Or.inl h1)

/-- **C01, second clause**: the clock of a simulation moves only when its current time step is drained - no
activity is running and nothing is pending for the old time (all work scheduled for `t` ran before the clock passed `t`) -/
theorem clock_moves_only_when_drained {w w' : World Rat} (h : w.step = some w') (hs : w'.saved = w.saved)
    (ht : w'.time ≠ w.time) : w.ctl = [] ∧ w.pending = [] ∧ ∃ b, w.queue = (w'.time, b) :: w'.queue := by
  unfold step at h
  split at h
  · rename_i hc
    unfold kernelStep at h
    have hret : ∀ {w w' : World Rat}, w.nestedReturn = some w' → w'.saved ≠ w.saved := by
      intro w w' h
      unfold nestedReturn at h
      split at h
      · cases h
      · rename_i sv rest hsv
        have : w'.saved = rest := by
          simp only at h
          split at h <;> (cases h; simp)
        rw [this, hsv]
        intro hh
        have := congrArg List.length hh
        simp at this
    split at h
    · exact absurd hs (hret h)
    · split at h
      · rename_i act rest hp
        exfalso
        apply ht
        simp only at h
        split at h
        all_goals
          split at h
          · simp only [Option.some.injEq] at h
            subst h
            have := congrArg KV.time (kv_activate { w with pending := rest, turn := w.turn + 1 } act.target act.signal)
            exact this
          · simp only [Option.some.injEq] at h
            subst h; rfl
      · rename_i hp
        split at h
        · rename_i t bucket q hq
          cases h
          exact ⟨hc, hp, bucket, hq⟩
        · exact absurd hs (hret h)
  · cases h
    exfalso
    rcases microStep_kstep w with h1 | h1
    · exact ht (by have := h1.time; simpa [kv] using this)
    · obtain ⟨sv, hsv, _, _⟩ := h1.saved
      simp only [kv] at hsv
      rw [hsv] at hs
      have := congrArg List.length hs
      simp at this

/-- **C15: `run()` returns exactly at quiescence or when a failure escaped**: the machine stops iff no activity is
running, no nested simulation is open and either an exception escaped the loop or neither the current time step
nor the wait queue holds anything -/
theorem step_none_iff (w : World Rat) :
    w.step = none ↔ w.ctl = [] ∧ w.saved = [] ∧ (w.crashed.isSome = true ∨ (w.pending = [] ∧ w.queue = [])) := by
  have hret : ∀ (w : World Rat), w.nestedReturn = none ↔ w.saved = [] := by
    intro w
    unfold nestedReturn
    split
    · rename_i h; simp [h]
    · rename_i sv rest h
      simp only [h]
      constructor
      · intro hh; split at hh <;> cases hh
      · intro hh; cases hh
  unfold step
  split
  · rename_i hc
    unfold kernelStep
    split
    · rename_i hcr
      rw [hret]
      simp [hc, hcr]
    · rename_i hcr
      split
      · rename_i act rest hp
        simp only [hc, hp, hcr]
        constructor
        · intro hh
          exfalso
          split at hh <;> (split at hh <;> cases hh)
        · rintro ⟨_, _, h1 | ⟨h1, _⟩⟩
          · exact absurd h1 (by simp at hcr; simp [hcr])
          · cases h1
      · rename_i hp
        split
        · rename_i t b q hq
          simp [hc, hp, hq, hcr]
        · rename_i hq
          rw [hret]
          simp [hc, hp, hq, hcr]
  · rename_i hc
    constructor
    · intro hh; cases hh
    · rintro ⟨h1, _⟩
      exact absurd h1 (by intro hh; exact hc hh)

/-- **the invariant is kept by every step** -/
theorem step_ok {w w' : World Rat} (ok : KOk w.kv) (h : w.step = some w') : KOk w'.kv := by
  rcases step_kinds h with h1 | h1 | h1 | h1
  · exact h1.ok ok
  · exact h1.ok ok
  · exact h1.ok ok
  · exact (h1.ok ok).1

/-- **C01, first clause, on the machine**: a step never moves the clock of the running simulation backwards;
the only other things that happen to clocks are that a nested `run()` saves the current one when it starts and
that exactly this one is back when it returns -/
theorem step_cases {w w' : World Rat} (ok : KOk w.kv) (h : w.step = some w') :
    (w'.saved = w.saved ∧ w.time ≤ w'.time) ∨
    (∃ sv : Saved Rat, w'.saved = sv :: w.saved ∧ sv.time = w.time) ∨
    (∃ sv : Saved Rat, w.saved = sv :: w'.saved ∧ w'.time = sv.time) := by
  rcases step_kinds h with h1 | h1 | h1 | h1
  · exact Or.inl ⟨h1.saved, by have := h1.time; simp only [kv] at this; rw [this]; exact Rat.le_refl⟩
  · obtain ⟨sv, hs, ht, _⟩ := h1.saved
    exact Or.inr (Or.inl ⟨sv, hs, ht⟩)
  · obtain ⟨sv, hs, ht, _⟩ := h1.saved
    exact Or.inr (Or.inr ⟨sv, hs, ht⟩)
  · exact Or.inl ⟨h1.saved, (h1.ok ok).2⟩

/-! ### along every run -/

/-- the clock of the outermost simulation -/
def baseClock (w : World Rat) : Rat :=
  match w.saved.getLast? with
  | some sv => sv.time
  | none => w.time

theorem step_base_clock {w w' : World Rat} (ok : KOk w.kv) (h : w.step = some w') : w.baseClock ≤ w'.baseClock := by
  unfold baseClock
  rcases step_cases ok h with ⟨hs, ht⟩ | ⟨sv, hs, ht⟩ | ⟨sv, hs, ht⟩
  · rw [hs]; split
    · exact Rat.le_refl
    · exact ht
  · rw [hs]
    cases hw : w.saved with
    | nil => simp [ht]
    | cons x xs =>
      rw [List.getLast?_cons_cons]
      cases hl : (x :: xs).getLast? with
      | none => exact absurd hl (by simp)
      | some y => exact Rat.le_refl
  · rw [hs]
    cases hw : w'.saved with
    | nil => simp [ht]
    | cons x xs =>
      rw [List.getLast?_cons_cons]
      cases hl : (x :: xs).getLast? with
      | none => exact absurd hl (by simp)
      | some y => exact Rat.le_refl

/-- **for every number of steps**: the invariant holds and the outermost clock has not decreased -/
theorem runFuel_base_clock (n : Nat) : ∀ (w : World Rat), KOk w.kv →
    KOk (w.runFuel n).1.kv ∧ w.baseClock ≤ (w.runFuel n).1.baseClock := by
  induction n with
  | zero => intro w ok; exact ⟨ok, Rat.le_refl⟩
  | succ n ih =>
    intro w ok
    unfold runFuel
    split
    · exact ⟨ok, Rat.le_refl⟩
    · rename_i w' hs
      have := ih w' (step_ok ok hs)
      exact ⟨this.1, Rat.le_trans (step_base_clock ok hs) this.2⟩

end World

/-! ### every program -/

theorem kv_initDecls (cfg : Config) (start : Rat) (d : Decls Rat) :
    (initDecls cfg start d).kv = ⟨cfg, start, [], []⟩ := by
  unfold initDecls
  simp only []
  repeat rw [World.kv_foldl _ (by intro w x; first | rfl | (split <;> rfl))]
  rfl

/-- the kernel view of the initial world of **any** program: the clock reads `start`, no enclosing simulation,
one bucket - at `start` - in the wait queue -/
theorem initWorld_kv (cfg : Config) (start : Rat) (d : Decls Rat) (roots : List (Prog Rat)) (till : Option Rat) :
    ∃ acts, (initWorld cfg start d roots till).kv = ⟨cfg, start, [], [(start, acts)]⟩ := by
  have e : ∀ (w1 : World Rat) (acts : List Activation), w1.kv = ⟨cfg, start, [], []⟩ →
      ({ w1 with queue := [(start, acts)] } : World Rat).kv = ⟨cfg, start, [], [(start, acts)]⟩ := by
    intro w1 acts h1
    have e1 := congrArg KV.cfg h1
    have e2 := congrArg KV.time h1
    have e3 := congrArg KV.saved h1
    simp only [World.kv] at e1 e2 e3
    simp only [World.kv, e1, e2, e3]
  have h0 := kv_initDecls cfg start d
  unfold initWorld
  simp only []
  split
  · have hk : ∀ (l : List (Prog Rat)) (p : World Rat × List Activation),
        (l.foldl (fun (p : World Rat × List Activation) prog =>
          let (w, a) := p.1.newAct [.seq prog, .coroutineEnd] true p.2.length
          (w, p.2 ++ [{ target := a, signal := none }])) p).1.kv = p.1.kv :=
      fun l p => World.kv_foldl_pair _ (by intro p x; rfl) l p
    exact ⟨_, e _ _ ((hk roots (initDecls cfg start d, [])).trans h0)⟩
  · exact ⟨_, e _ _ (by rw [← h0]; rfl)⟩

/-- the initial world of **any** program (declarations, root activities, start time, optional `till`) satisfies the
kernel invariant when assertions are on, and its outermost clock reads `start` -/
theorem initWorld_ok (start : Rat) (d : Decls Rat) (roots : List (Prog Rat)) (till : Option Rat) :
    KOk (initWorld { debug := true } start d roots till).kv ∧
    (initWorld { debug := true } start d roots till).baseClock = start := by
  obtain ⟨acts, h⟩ := initWorld_kv { debug := true } start d roots till
  refine ⟨?_, ?_⟩
  · rw [h]
    exact ⟨rfl, ⟨by simp [keys], by simp [keys]⟩, by simp⟩
  · have e2 := congrArg KV.time h
    have e3 := congrArg KV.saved h
    simp only [World.kv] at e2 e3
    simp [World.baseClock, e2, e3]

/-- **C01 on the machine, for every program and every number of steps**: run the initial world of any program
(any declarations, root activities, start time, `till`) for any number of steps with assertions on - the clock of the
simulation is never before the start time, the kernel invariant holds, and (`step_cases`, `step_base_clock`) no step on
the way moved a clock backwards -/
theorem initWorld_clock (start : Rat) (d : Decls Rat) (roots : List (Prog Rat)) (till : Option Rat) (n : Nat) :
    let w := ((initWorld { debug := true } start d roots till).runFuel n).1
    KOk w.kv ∧ start ≤ w.baseClock := by
  have h0 := initWorld_ok start d roots till
  have := World.runFuel_base_clock n _ h0.1
  rw [h0.2] at this
  exact this

/- (non-vacuity: `initWorld_clock` has no hypothesis at all - `initWorld_ok` shows that the initial world of every
program meets the invariant `runFuel_base_clock` asks for.) -/

end USim.Machine
