import USimModel.Lemmas.QStep
import USimModel.Lemmas.OStep
/-!
# `Task.cancel` on the whole machine, clause by clause (C06) - for every world

The open lifecycle model (`Prim/Task.lean`, `Props/C06.lean`) says what `cancel` does in each phase of a task for every order of
actions.  Here the same three cases are theorems about the machine's own code - the executable model that is compared with the
real usim turn by turn:

* `cancel_finished_noop` - "cancelling a finished task does nothing": the statement only logs and returns; no table changes;
* `cancel_created_stores` - a task that has not started gets its outcome at once (`TaskCancelled(task, token)`, a new exception
  object), its coroutine is not touched (it stays "created"), and `precancelled_start_runs_nothing`: when that coroutine gets
  its first turn it ends without executing a single statement of the payload - "prevents any of its code from running";
* `cancel_running_schedules` - a started task keeps running for now: the result stays open, a `CancelTask` signal is made and
  queued for the task's coroutine **at the end of the current time step** - "raises the cancellation inside it .. in the same
  time step".
-/
set_option linter.unusedVariables false
set_option linter.unusedSimpArgs false
namespace USim.Machine
open TimeLike USim.Prim.Kernel
namespace World
variable (w : World Rat)

/-- **cancelling a finished task does nothing** (it is logged, nothing else) -/
theorem cancel_finished_noop (a : ActId) (fs : List (Frame Rat)) (tname : Name) (tok : Int) (t : TaskId)
    (ht : lookup w.taskNames tname = some t) (hr : (w.task t).result.isSome = true) :
    w.execStmt a fs (.cancel tname tok) = (w.emit a "cancel" [1000 + t, w.statusCode t, tok]).retTo a fs .unit := by
  simp only [execStmt, ht]
  have : ((w.emit a "cancel" [1000 + (t : Int), w.statusCode t, tok]).task t).result.isSome = true := hr
  rw [if_pos this]

/-- **a task cancelled before it started ends without running any of its code**: the first turn of its coroutine sees the stored
outcome, reports to the scope and returns - the payload `prog` is dropped -/
theorem precancelled_start_runs_nothing (a : ActId) (fs : List (Frame Rat)) (v : Val) (t : TaskId) (d at_ : Option Rat)
    (prog : List (Stmt Rat)) (hr : (w.task t).result.isSome = true) :
    w.stepRet a (.taskStart t d at_ prog) fs v = (w.childFinished t false).retTo a fs .unit := by
  simp only [stepRet]; rw [if_pos hr]

/-- **cancelling a task that has not started** stores `TaskCancelled(task, token)` - a new exception object - as its outcome at
once and leaves its coroutine alone -/
theorem cancel_created_stores (a : ActId) (fs : List (Frame Rat)) (tname : Name) (tok : Int) (t : TaskId)
    (ht : lookup w.taskNames tname = some t) (hr : (w.task t).result = none) (hlt : t < w.tasks.size)
    (hc : (w.act (w.task t).runner).status = .created) :
    ((w.execStmt a fs (.cancel tname tok)).task t).result = some (0, some w.exns.size) ∧
    (w.execStmt a fs (.cancel tname tok)).exn w.exns.size = .taskCancelled t tok := by
  have e : w.execStmt a fs (.cancel tname tok) =
      ((((w.emit a "cancel" [1000 + t, w.statusCode t, tok]).newExn (.taskCancelled t tok)).1.setTask t
        (fun x => { x with result := some (0, some w.exns.size) })).setDone t).retTo a fs .unit := by
    simp only [execStmt, ht]
    have h1 : ((w.emit a "cancel" [1000 + (t : Int), w.statusCode t, tok]).task t).result.isSome = false := by
      show (w.task t).result.isSome = false; rw [hr]; rfl
    have h2 : (((w.emit a "cancel" [1000 + (t : Int), w.statusCode t, tok]).act
        ((w.emit a "cancel" [1000 + (t : Int), w.statusCode t, tok]).task t).runner).status == ActStatus.created) = true := by
      show ((w.act (w.task t).runner).status == ActStatus.created) = true; rw [hc]; rfl
    rw [if_neg (by rw [h1]; simp), if_pos h2]
    rfl
  rw [e]
  have q1 : ∀ (w0 : World Rat), (w0.setDone t).tasks = w0.tasks ∧ (w0.setDone t).exns = w0.exns := by
    intro w0
    unfold setDone awakeAll
    dsimp only
    have hfold : ∀ (l : List (ActId × SigId)) (w1 : World Rat),
        (l.foldl (fun w (p : ActId × SigId) => w.scheduleNow p.1 (some p.2)) w1).tasks = w1.tasks ∧
        (l.foldl (fun w (p : ActId × SigId) => w.scheduleNow p.1 (some p.2)) w1).exns = w1.exns := by
      intro l; induction l with
      | nil => intro w1; exact ⟨rfl, rfl⟩
      | cons x xs ih => intro w1; rw [List.foldl_cons]; exact ⟨(ih _).1.trans (qv_scheduleNow_tasks _ _ _), (ih _).2.trans (ov_scheduleNow_exns _ _ _)⟩
    exact ⟨(hfold _ _).1, (hfold _ _).2⟩
  have r1 : ∀ (w0 : World Rat) v, (w0.retTo a fs v).tasks = w0.tasks ∧ (w0.retTo a fs v).exns = w0.exns := by
    intro w0 v; unfold retTo; exact ⟨by rw [qv_setMode_tasks]; rfl, by rw [ov_setMode_exns]; rfl⟩
  constructor
  · unfold World.task
    rw [(r1 _ _).1, (q1 _).1]
    show (((w.tasks.modify t (fun x => { x with result := some (0, some w.exns.size) }) : Array Task).getD t default)).result = _
    rw [Array.getD_eq_getD_getElem?, Array.getElem?_modify]
    simp [hlt]
  · unfold World.exn
    rw [(r1 _ _).2, (q1 _).2]
    show (Array.getD (w.exns.push _) w.exns.size _) = _
    simp

/-- **cancelling a started task** leaves its outcome open, makes a `CancelTask` signal for it and queues that signal for the
task's coroutine at the *end* of the running time step (after everything that is already runnable) -/
theorem cancel_running_schedules (a : ActId) (fs : List (Frame Rat)) (tname : Name) (tok : Int) (t : TaskId)
    (ht : lookup w.taskNames tname = some t) (hr : (w.task t).result = none) (hlt : t < w.tasks.size)
    (hc : (w.act (w.task t).runner).status ≠ .created) :
    ((w.execStmt a fs (.cancel tname tok)).task t).result = none ∧
    ((w.execStmt a fs (.cancel tname tok)).task t).cancellations = (w.task t).cancellations ++ [w.sigs.size] ∧
    (w.execStmt a fs (.cancel tname tok)).pending = w.pending ++ [{ target := (w.task t).runner, signal := some w.sigs.size }] ∧
    ((w.execStmt a fs (.cancel tname tok)).sig w.sigs.size).kind = .cancelTask t tok := by
  let w0 := w.emit a "cancel" [1000 + (t : Int), w.statusCode t, tok]
  let w1 := (w0.newSig (.cancelTask t tok)).1.setTask t (fun x => { x with cancellations := x.cancellations ++ [w.sigs.size] })
  have e : w.execStmt a fs (.cancel tname tok) = (w1.scheduleNow (w.task t).runner (some w.sigs.size)).retTo a fs .unit := by
    simp only [execStmt, ht]
    have h1 : ((w.emit a "cancel" [1000 + (t : Int), w.statusCode t, tok]).task t).result.isSome = false := by
      show (w.task t).result.isSome = false; rw [hr]; rfl
    have h2 : (((w.emit a "cancel" [1000 + (t : Int), w.statusCode t, tok]).act
        ((w.emit a "cancel" [1000 + (t : Int), w.statusCode t, tok]).task t).runner).status == ActStatus.created) = false := by
      show ((w.act (w.task t).runner).status == ActStatus.created) = false
      cases hs : (w.act (w.task t).runner).status <;> first | rfl | exact absurd hs hc
    rw [if_neg (by rw [h1]; simp), if_neg (by rw [h2]; simp)]
    have hrun : (w1.task t).runner = (w.task t).runner := by
      show ((w.tasks.modify t _ : Array Task).getD t default).runner = (w.tasks.getD t default).runner
      rw [Array.getD_eq_getD_getElem?, Array.getD_eq_getD_getElem?, Array.getElem?_modify]
      simp [hlt]
    show (w1.scheduleNow (w1.task t).runner (some w.sigs.size)).retTo a fs .unit = _
    rw [hrun]
  rw [e]
  have r1 : ∀ (wx : World Rat) v, (wx.retTo a fs v).tasks = wx.tasks ∧ (wx.retTo a fs v).pending = wx.pending ∧ (wx.retTo a fs v).sigs = wx.sigs := by
    intro wx v; unfold retTo setMode
    split <;> exact ⟨rfl, rfl, rfl⟩
  have htasks : ∀ r, (w1.scheduleNow r (some w.sigs.size)).tasks =
      w.tasks.modify t (fun x => { x with cancellations := x.cancellations ++ [w.sigs.size] }) := by
    intro r; rw [qv_scheduleNow_tasks]; rfl
  have hget : ((w.tasks.modify t (fun x => { x with cancellations := x.cancellations ++ [w.sigs.size] }) : Array Task).getD t default) =
      { (w.tasks.getD t default) with cancellations := (w.tasks.getD t default).cancellations ++ [w.sigs.size] } := by
    rw [Array.getD_eq_getD_getElem?, Array.getD_eq_getD_getElem?, Array.getElem?_modify]
    simp [hlt]
  refine ⟨?_, ?_, ?_, ?_⟩
  · unfold World.task; rw [(r1 _ _).1, htasks, hget]; exact hr
  · unfold World.task; rw [(r1 _ _).1, htasks, hget]
  · rw [(r1 _ _).2.1]; unfold scheduleNow; rfl
  · unfold World.sig
    rw [(r1 _ _).2.2]
    unfold scheduleNow setSig
    show (((w.sigs.push _).modify w.sigs.size _ : Array Sig).getD w.sigs.size default).kind = _
    rw [Array.getD_eq_getD_getElem?, Array.getElem?_modify]
    simp

end World
end USim.Machine
