import USimModel.Prim.Resources
import USimModel.Gen.Resources
/-!
# C12 - Resources are conserved: never negative, never leaked, claims never wait
-/
namespace USim.Prim.Resources

theorem vsub_nonneg (a d : Vec) (h : vge a d = true) : nonneg (vsub a d) := by
  intro x hx
  simp only [vsub, List.mem_map] at hx
  obtain ⟨p, hp, rfl⟩ := hx
  simp only [vge, List.all_eq_true, decide_eq_true_eq] at h
  have := h p hp
  omega

theorem vadd_nonneg (a d : Vec) (ha : nonneg a) (hd : nonneg d) : nonneg (vadd a d) := by
  intro x hx
  simp only [vadd, List.mem_map] at hx
  obtain ⟨p, hp, rfl⟩ := hx
  have h1 := ha p.1 (List.of_mem_zip hp).1
  have h2 := hd p.2 (List.of_mem_zip hp).2
  omega

def WF (s : RSt) : Prop := nonneg s.avail ∧ ∀ b ∈ s.blocks, nonneg b.debits

def actOK : Act → Prop
  | .request d => nonneg d
  | .increase d => nonneg d
  | _ => True

theorem mem_modify {α} (l : List α) (i : Nat) (f : α → α) (x : α) (h : x ∈ l.modify i f) : ∃ y ∈ l, x = y ∨ x = f y := by
  induction l generalizing i with
  | nil => simp at h
  | cons a as ih =>
    cases i with
    | zero =>
      simp only [List.modify_zero_cons, List.mem_cons] at h
      rcases h with h | h
      · exact ⟨a, by simp, Or.inr h⟩
      · exact ⟨x, by simp [h], Or.inl rfl⟩
    | succ i =>
      simp only [List.modify_succ_cons, List.mem_cons] at h
      rcases h with h | h
      · exact ⟨a, by simp, Or.inl h⟩
      · obtain ⟨y, hy, hxy⟩ := ih i h
        exact ⟨y, by simp [hy], hxy⟩

theorem setPhase_blocks_wf (s : RSt) (i : Nat) (p : Phase) (h : ∀ b ∈ s.blocks, nonneg b.debits) :
    ∀ b ∈ (setPhase s i p).blocks, nonneg b.debits := by
  intro b hb
  obtain ⟨y, hy, hxy⟩ := mem_modify _ _ _ _ hb
  rcases hxy with rfl | rfl
  · exact h _ hy
  · exact h y hy

theorem debitsOf_nonneg (s : RSt) (i : Nat) (h : ∀ b ∈ s.blocks, nonneg b.debits) : nonneg (debitsOf s i) := by
  unfold debitsOf
  cases hb : s.blocks[i]? with
  | none => intro x hx; simp at hx
  | some b => simpa using h b (List.mem_of_getElem? hb)

/-- **never negative**: the available level of every resource stays >= 0 after every sequence of
requests, acquisitions (guarded by the vector availability test in the same step), releases,
aborts at any point, increases and (guarded) decreases -/
theorem never_negative_step (s : RSt) (a : Act) (h : WF s) (ha : actOK a) : WF (step s a) := by
  obtain ⟨hav, hbl⟩ := h
  cases a with
  | request d =>
    refine ⟨hav, ?_⟩
    intro b hb
    simp only [step, List.mem_append, List.mem_singleton] at hb
    rcases hb with hb | rfl
    · exact hbl b hb
    · exact ha
  | acquire i =>
    simp only [step]
    split
    · rename_i hc
      simp only [Bool.and_eq_true, decide_eq_true_eq] at hc
      exact ⟨vsub_nonneg _ _ hc.2, setPhase_blocks_wf _ i _ hbl⟩
    · exact ⟨hav, hbl⟩
  | claimFail i =>
    simp only [step]
    split
    · exact ⟨hav, setPhase_blocks_wf _ i _ hbl⟩
    · exact ⟨hav, hbl⟩
  | inserted i =>
    simp only [step]
    split
    · exact ⟨hav, setPhase_blocks_wf _ i _ hbl⟩
    · exact ⟨hav, hbl⟩
  | release1 i =>
    simp only [step]
    split
    · exact ⟨hav, setPhase_blocks_wf _ i _ hbl⟩
    · exact ⟨hav, hbl⟩
  | release2 i =>
    simp only [step]
    split
    · exact ⟨vadd_nonneg _ _ hav (debitsOf_nonneg s i hbl), setPhase_blocks_wf _ i _ hbl⟩
    · exact ⟨hav, hbl⟩
  | abort i =>
    simp only [step]
    split <;> first | exact ⟨hav, setPhase_blocks_wf _ i _ hbl⟩ | exact ⟨hav, hbl⟩
  | increase d => exact ⟨vadd_nonneg _ _ hav ha, hbl⟩
  | decrease d =>
    simp only [step]
    split
    · rename_i hc; exact ⟨vsub_nonneg _ _ hc, hbl⟩
    · exact ⟨hav, hbl⟩

theorem never_negative (acts : List Act) : ∀ (s : RSt), WF s → (∀ a ∈ acts, actOK a) → WF (run s acts) := by
  induction acts with
  | nil => intro s h _; exact h
  | cons a as ih =>
    intro s h ha
    exact ih _ (never_negative_step s a h (ha a (by simp))) (fun b hb => ha b (by simp [hb]))

/-- **borrow is atomic**: the availability test and the debit are one step; acquiring changes the
level by exactly the whole amount or not at all -/
theorem borrow_atomic (s : RSt) (i : Nat) :
    (step s (.acquire i)).avail = s.avail ∨
    (vge s.avail (debitsOf s i) = true ∧ (step s (.acquire i)).avail = vsub s.avail (debitsOf s i)) := by
  simp only [step]
  split
  · rename_i hc
    simp only [Bool.and_eq_true, decide_eq_true_eq] at hc
    exact Or.inr ⟨hc.2, by simp [setPhase]⟩
  · exact Or.inl rfl

/-- **claims never wait**: a claim either acquires in the step in which it tests (`acquire`) or fails
in that step (`claimFail`): exactly one of the two is enabled for a waiting block -/
theorem claim_never_waits (s : RSt) (i : Nat) (h : phaseOf s i = some .waiting) :
    (vge s.avail (debitsOf s i) = true ∧ phaseOf (step s (.acquire i)) i = some .removed ∧ step s (.claimFail i) = s) ∨
    (vge s.avail (debitsOf s i) = false ∧ phaseOf (step s (.claimFail i)) i = some (.aborted false) ∧ step s (.acquire i) = s) := by
  have hph : ∀ (t : RSt) (p : Phase), t.blocks.length = s.blocks.length → phaseOf (setPhase t i p) i = some p := by
    intro t p hl
    unfold phaseOf at h ⊢
    simp only [setPhase, List.getElem?_modify_eq]
    cases hb : s.blocks[i]? with
    | none => simp [hb] at h
    | some b =>
      have hi : i < s.blocks.length := (List.getElem?_eq_some_iff.mp hb).1
      have hi' : i < t.blocks.length := hl ▸ hi
      simp [List.getElem?_eq_getElem hi']
  cases hg : vge s.avail (debitsOf s i) with
  | true =>
    left
    refine ⟨rfl, ?_, ?_⟩
    · simp only [step, h, hg, decide_true, Bool.and_self, if_true]
      exact hph _ _ rfl
    · simp [step, h, hg]
  | false =>
    right
    refine ⟨rfl, ?_, ?_⟩
    · simp only [step, h, hg, decide_true, Bool.not_false, Bool.and_self, if_true]
      exact hph _ _ rfl
    · simp [step, h, hg]

end USim.Prim.Resources

namespace USim.Prim.Resources.Scalar

theorem owed_append (a b : List Block) : owed (a ++ b) = owed a + owed b := by
  induction a with
  | nil => simp [owed]
  | cons x xs ih => simp [owed, ih]; omega

/-- changing the phase of block `i` changes what is owed by exactly that block's contribution -/
theorem owed_setPhase (bs : List Block) (i : Nat) (p q : Phase) (h : phaseOfL bs i = some q) :
    owed (setPhaseL bs i p) = owed bs - (if deb q then debitOfL bs i else 0) + (if deb p then debitOfL bs i else 0) := by
  induction bs generalizing i with
  | nil => simp [phaseOfL] at h
  | cons b bs ih =>
    cases i with
    | zero =>
      simp only [phaseOfL, Option.some.injEq] at h
      simp only [setPhaseL, owed, debitOfL, debiting, h]
      by_cases hp : deb p = true <;> by_cases hq : deb q = true <;> simp [hp, hq] <;> omega
    | succ i =>
      simp only [phaseOfL] at h
      simp only [setPhaseL, owed, debitOfL]
      rw [ih i h]; omega

theorem conservation_step (s : SSt) (a : Act) (h : s.avail + owed s.blocks = s.supply) :
    (step s a).avail + owed (step s a).blocks = (step s a).supply := by
  cases a with
  | request d => simp [step, owed_append, owed, debiting, deb]; exact h
  | acquire i g =>
    simp only [step]
    split
    · rename_i hc
      simp only [Bool.and_eq_true, decide_eq_true_eq] at hc
      dsimp only
      rw [owed_setPhase _ _ _ _ hc.1]
      simp [deb]; omega
    · exact h
  | inserted i =>
    simp only [step]
    split
    · rename_i hc
      dsimp only
      rw [owed_setPhase _ _ _ _ hc]
      simp [deb]; omega
    · exact h
  | release1 i =>
    simp only [step]
    split
    · rename_i hc
      dsimp only
      rw [owed_setPhase _ _ _ _ hc]
      simp [deb]; omega
    · exact h
  | release2 i =>
    simp only [step]
    split
    · rename_i hc
      dsimp only
      rw [owed_setPhase _ _ _ _ hc]
      simp [deb]; omega
    · exact h
  | abort i =>
    simp only [step]
    split
    · rename_i hc; dsimp only; rw [owed_setPhase _ _ _ _ hc]; simp [deb]; omega
    · rename_i hc; dsimp only; rw [owed_setPhase _ _ _ _ hc]; simp [deb]; omega
    · rename_i hc; dsimp only; rw [owed_setPhase _ _ _ _ hc]; simp [deb]; omega
    · exact h
  | increase d => simp [step]; omega
  | decrease d => simp [step]; omega

/-- **conservation**: after every history - *including* cancellations and interruptions at every
suspension point - available = supply - (debits of blocks acquiring, holding, releasing or
aborted while the supply was debited) -/
theorem conservation (acts : List Act) : ∀ (s : SSt), s.avail + owed s.blocks = s.supply →
    (run s acts).avail + owed (run s acts).blocks = (run s acts).supply := by
  induction acts with
  | nil => intro s h; exact h
  | cons a as ih => intro s h; exact ih _ (conservation_step s a h)

/-- The clause "whatever a block borrowed is returned when the block is left by any route" is
**false** for the unchanged code (finding F4): a block cancelled in the postponement right after
the supply was debited is left for good, and the debit is never returned. -/
theorem returned_on_every_exit_false :
    ¬ (∀ (acts : List Act), let s := run { avail := 10, supply := 10 } acts
        (∀ b ∈ s.blocks, b.phase = .done ∨ b.phase = .aborted false ∨ b.phase = .aborted true) → s.avail = s.supply) := by
  intro h
  have := h [.request 4, .acquire 0 true, .abort 0] (by decide)
  revert this
  decide

def noLeak (b : Block) : Bool := match b.phase with | .aborted true => false | _ => true

/-- `returned_on_every_exit_partial`: if no block was aborted while the supply was debited (i.e.
no exception arrived inside the acquire/release postponements) then at quiescence - every block
done or given up - the available level equals the supply -/
theorem returned_on_every_exit_partial (s : SSt) (h : s.avail + owed s.blocks = s.supply)
    (hq : ∀ b ∈ s.blocks, b.phase = .done ∨ b.phase = .aborted false) : s.avail = s.supply := by
  have : owed s.blocks = 0 := by
    have : ∀ (bs : List Block), (∀ b ∈ bs, b.phase = .done ∨ b.phase = .aborted false) → owed bs = 0 := by
      intro bs
      induction bs with
      | nil => intro _; rfl
      | cons b bs ih =>
        intro hb
        have h1 := hb b (by simp)
        have h2 := ih (fun x hx => hb x (by simp [hx]))
        rcases h1 with h1 | h1 <;> simp [owed, debiting, deb, h1, h2]
    exact this _ hq
  omega

/-- the bounds of the statement: with non-negative debits, available <= supply always, and
available >= supply - (everything acquiring, held, releasing or leaked) with equality -/
theorem available_le_supply (s : SSt) (h : s.avail + owed s.blocks = s.supply) (hd : ∀ b ∈ s.blocks, 0 ≤ b.debit) :
    s.avail ≤ s.supply := by
  have : ∀ (bs : List Block), (∀ b ∈ bs, 0 ≤ b.debit) → 0 ≤ owed bs := by
    intro bs
    induction bs with
    | nil => intro _; simp [owed]
    | cons b bs ih =>
      intro hb
      have h1 := hb b (by simp)
      have h2 := ih (fun x hx => hb x (by simp [hx]))
      simp only [owed]; split <;> omega
  have := this _ hd
  omega

example : (run { avail := 10, supply := 10 } [.request 4, .acquire 0 true, .inserted 0, .request 7, .acquire 1 false,
    .release1 0, .release2 0, .acquire 1 true]).avail = 3 := by decide

end USim.Prim.Resources.Scalar

namespace USim.Prim.Resources
/-! ### tie to `resource.py` (regenerated on every run) -/
theorem tie_guard (avail debits : Vec) : USim.Gen.Resources.available avail debits = vge avail debits := rfl
theorem tie_remove (avail debits : Vec) : USim.Gen.Resources.removeResources avail debits = vsub avail debits := rfl
theorem tie_insert (avail debits : Vec) : USim.Gen.Resources.insertResources avail debits = vadd avail debits := rfl
end USim.Prim.Resources
