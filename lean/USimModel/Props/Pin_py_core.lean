import USimModel.Gen.Pins
/-! every definition of `usim/py/core.py` is the one the model was written against (extract/gen_pins.py) -/
namespace USim.Pins

theorem py_core_as_modelled : USim.Gen.Pins.changed_py_core = [] := rfl

end USim.Pins
