import USimModel.Machine.Run
import USimModel.Gen.Scope
/-!
# C04 - no task outlives its scope (structured concurrency containment)

Proved (for every world state): the scope's child bookkeeping and the refusal of late spawns.
The global containment invariant over all reachable machine states is **not** proved; it is
covered by the exact trace correspondence and the judge (partial).
-/
namespace USim.Machine.World
open USim.Machine

variable (w : World Rat)

theorem erase_keeps {α} [BEq α] [LawfulBEq α] (l : List α) (t x : α) (h : x ∈ l) (hne : x ≠ t) : x ∈ l.erase t := by
  exact (List.mem_erase_of_ne hne).mpr h

/-- `__child_finished__` (child did not fail) removes exactly the finishing child from the scope's
list of children it waits for; volatile children are untouched -/
theorem childFinished_children (t : TaskId) (s : ScopeId) (hs : (w.task t).parent = s)
    (hv : (w.task t).volatile = false) (hlt : s < w.scopes.size) :
    ((w.childFinished t false).scope s).children = (w.scope s).children.erase t ∧
    ((w.childFinished t false).scope s).volatileChildren = (w.scope s).volatileChildren := by
  unfold childFinished
  simp [hs, hv, setScope, scope, Array.getD, hlt, Array.getElem_modify]

theorem childFinished_volatile (t : TaskId) (s : ScopeId) (hs : (w.task t).parent = s)
    (hv : (w.task t).volatile = true) (hlt : s < w.scopes.size) :
    ((w.childFinished t false).scope s).volatileChildren = (w.scope s).volatileChildren.erase t ∧
    ((w.childFinished t false).scope s).children = (w.scope s).children := by
  unfold childFinished
  simp [hs, hv, setScope, scope, Array.getD, hlt, Array.getElem_modify]

theorem setMode_fields (m : Mode) :
    (w.setMode m).tasks = w.tasks ∧ (w.setMode m).pending = w.pending ∧ (w.setMode m).queue = w.queue ∧
    (w.setMode m).acts = w.acts ∧ (w.setMode m).exns = w.exns := by
  unfold setMode; split <;> simp

/-- **spawning into a scope that has ended is refused**: `do` raises ScopeClosed, no task is
created and nothing is scheduled -/
theorem spawn_after_end_refused (a : ActId) (fs : List (Frame Rat)) (scopeN taskN : Name) (prog : Prog Rat)
    (after at_ : Option Rat) (vol : Bool) (sid : ScopeId)
    (hb : lookup w.scopeNames scopeN = some sid) (hend : (w.scope sid).interruptable = false) :
    let w' := w.execStmt a fs (.spawn scopeN taskN prog after at_ vol)
    w'.tasks = w.tasks ∧ w'.pending = w.pending ∧ w'.queue = w.queue ∧ w'.acts.size = w.acts.size ∧
    w'.exn w.exns.size = .scopeClosed := by
  simp only [execStmt, hb, hend, Bool.not_false, if_true, raiseNew, raiseTo, newExn]
  obtain ⟨h1, h2, h3, h4, h5⟩ := setMode_fields
    ({ w with exns := w.exns.push ExnCls.scopeClosed }.setFrames a fs) (.raise w.exns.size)
  refine ⟨?_, ?_, ?_, ?_, ?_⟩
  · rw [h1]; rfl
  · rw [h2]; rfl
  · rw [h3]; rfl
  · rw [h4]; simp [setFrames, setAct]
  · simp only [exn, h5]; simp [setFrames, setAct]

theorem scope_skeletons_pinned : USim.Gen.Scope.skeletonsMatched = 33 := rfl

end USim.Machine.World
