import USimModel.Concurrent
import USimModel.Gen.Concurrent
/-!
# C17 - `Concurrent[...]` handlers select exactly the documented sets of failures

Property theorems only.  `Gen.Concurrent.*` is regenerated from the repository's source on
every check; the specification (`matchSpec`) is written by hand in `USimModel/Concurrent.lean`.
-/
namespace USim.Concurrent
open USim.Gen.Concurrent

/-- **Tie**: the code's one-level check is exactly the documented rule, for every child-level
relation `m` (hence at every nesting depth), every list of listed types and of children. -/
theorem gen_check_iff_spec {α β : Type} (m : α → β → Bool) (rs : List α) (hs : List β) (incl : Bool) :
    subclasscheckSpecialisation m hs incl rs = true ↔ matchSpec m rs hs incl := by
  unfold subclasscheckSpecialisation matchSpec
  cases incl <;> simp [List.any_eq_true]

theorem rule_iff_spec {α β : Type} (m : α → β → Bool) (rs : List α) (hs : List β) (incl : Bool) :
    matchRule m rs hs incl = true ↔ matchSpec m rs hs incl := by
  unfold matchRule matchSpec
  cases incl <;> simp [List.any_eq_true]

theorem gen_check_eq_rule {α β : Type} (m : α → β → Bool) (rs : List α) (hs : List β) (incl : Bool) :
    subclasscheckSpecialisation m hs incl rs = matchRule m rs hs incl := by
  rw [Bool.eq_iff_iff, gen_check_iff_spec, rule_iff_spec]

/-- The nested matcher unfolds to the one-level rule applied to itself. -/
theorem matchesT_conc (hi : Hier) (rs : List RTy) (hs : List HTy) (incl : Bool) :
    matchesT hi (.conc rs) (.conc hs incl) = matchRule (matchesT hi) rs hs incl := by
  rw [matchesT]; unfold matchRule
  simp [List.all_subtype, List.any_subtype]

/-- **Tie**: `issubclass(Concurrent[children], Concurrent[hs(, ...)])` as computed by the code's
`__subclasscheck__` (not the identical class, same template, specialised handler) is the
nested documented rule. -/
theorem matchesT_eq_code (hi : Hier) (rs : List RTy) (hs : List HTy) (incl : Bool) (tmpl : Nat) :
    subclasscheck false (some tmpl) tmpl false
        (subclasscheckSpecialisation (matchesT hi) hs incl rs)
      = matchesT hi (.conc rs) (.conc hs incl) := by
  rw [matchesT_conc, gen_check_eq_rule]; simp [subclasscheck]

/-- bare `Concurrent` matches every failure; a class without `.template` (plain exception)
never is a subclass of a `Concurrent` handler; a foreign template never matches. -/
theorem code_bare_matches_all (tmpl : Nat) (b chk : Bool) :
    subclasscheck b (some tmpl) tmpl true chk = true := by
  cases b <;> simp [subclasscheck]

theorem code_plain_never (b chk : Bool) (tmpl : Nat) :
    subclasscheck false none tmpl b chk = false := by
  simp [subclasscheck]

theorem code_foreign_template (t1 t2 : Nat) (h : t1 ≠ t2) (b chk : Bool) :
    subclasscheck false (some t1) t2 b chk = false := by
  simp [subclasscheck, h]

/-- The full statement of the matching clause, at every nesting depth: `Concurrent[hs]` matches a
failure with children types `rs` iff every listed type is matched by some child and (without
`...`) every child matches some listed type. -/
theorem match_iff (hi : Hier) (rs : List RTy) (hs : List HTy) (incl : Bool) :
    matchesT hi (.conc rs) (.conc hs incl) = true ↔
      (∀ h ∈ hs, ∃ r ∈ rs, matchesT hi r h = true) ∧
      (incl = true ∨ ∀ r ∈ rs, ∃ h ∈ hs, matchesT hi r h = true) := by
  rw [matchesT_conc, rule_iff_spec]; rfl

theorem match_bare (hi : Hier) (rs : List RTy) : matchesT hi (.conc rs) .bare = true := by
  rw [matchesT]

/-- Order and multiplicity of children and of listed types are irrelevant: the verdict depends
only on the *sets*. -/
theorem set_invariant {α β : Type} (m : α → β → Bool) (rs rs' : List α) (hs hs' : List β) (incl : Bool)
    (hr : ∀ x, x ∈ rs ↔ x ∈ rs') (hh : ∀ x, x ∈ hs ↔ x ∈ hs') :
    subclasscheckSpecialisation m hs incl rs = subclasscheckSpecialisation m hs' incl rs' := by
  rw [Bool.eq_iff_iff, gen_check_iff_spec, gen_check_iff_spec]
  unfold matchSpec
  simp only [hr, hh]

theorem perm_invariant {α β : Type} (m : α → β → Bool) (rs rs' : List α) (hs hs' : List β) (incl : Bool)
    (hr : rs.Perm rs') (hh : hs.Perm hs') :
    subclasscheckSpecialisation m hs incl rs = subclasscheckSpecialisation m hs' incl rs' :=
  set_invariant m rs rs' hs hs' incl (fun _ => hr.mem_iff) (fun _ => hh.mem_iff)

theorem dup_invariant {α β : Type} (m : α → β → Bool) (r : α) (rs : List α) (h : β) (hs : List β)
    (incl : Bool) (hr : r ∈ rs) (hh : h ∈ hs) :
    subclasscheckSpecialisation m (h :: hs) incl (r :: rs) = subclasscheckSpecialisation m hs incl rs := by
  apply set_invariant
  · intro x; simp; intro hx; exact hx ▸ hr
  · intro x; simp; intro hx; exact hx ▸ hh

/-- `isinstance(e, H)` is by definition `issubclass(type(e), H)`. -/
theorem isinstance_eq_issubclass {ι τ : Type} (typeOf : ι → τ) (sc : τ → Bool) (e : ι) :
    instancecheck typeOf sc e = sc (typeOf e) := rfl

end USim.Concurrent

namespace USim.Concurrent
open USim.Gen.Concurrent

/-! ### the identity short-cut `if cls is subclass: return True` agrees with the rule -/

theorem matches_refl_aux (hi : Hier) (hrefl : ∀ c, hi.sub c c = true) :
    ∀ n (r : RTy), sizeOf r ≤ n → matchesT hi r r.asHandler = true := by
  intro n
  induction n with
  | zero => intro r h; cases r <;> simp at h <;> omega
  | succ n ih =>
    intro r h
    cases r with
    | leaf c => simp [RTy.asHandler, matchesT, hrefl]
    | conc cs =>
      rw [RTy.asHandler, matchesT_conc, rule_iff_spec]
      have hmem : ∀ c ∈ cs, matchesT hi c c.asHandler = true := by
        intro c hc
        apply ih
        have := List.sizeOf_lt_of_mem hc
        simp at h; omega
      constructor
      · intro h' hh'
        simp at hh'
        obtain ⟨c, hc, rfl⟩ := hh'
        exact ⟨c, hc, hmem c hc⟩
      · right
        intro r hr
        exact ⟨r.asHandler, by simp; exact ⟨r, hr, rfl⟩, hmem r hr⟩

/-- A failure always matches its own (identical) class, so the code's identity short-cut never
contradicts the documented rule (for a reflexive class hierarchy). -/
theorem matches_own_class (hi : Hier) (hrefl : ∀ c, hi.sub c c = true) (r : RTy) :
    matchesT hi r r.asHandler = true :=
  matches_refl_aux hi hrefl (sizeOf r) r (Nat.le_refl _)

/-! ### `except` (finding F3: CPython matches `except` clauses by MRO, not by `__subclasscheck__`) -/

def hierLookup : Hier := { sub := fun d c => d == c || (d == 1 && c == 0), concBelow := fun _ => false }

/-- The clause "`isinstance`, `issubclass` and an `except` clause all agree" is **false** for the
unchanged code: with `KeyError(1) <: LookupError(0)`, `Concurrent(KeyError())` is matched by
`Concurrent[LookupError]` according to the rule but not caught by `except Concurrent[LookupError]`. -/
theorem except_agrees_false :
    ¬ (∀ (hi : Hier) (r : RTy) (h : HTy), exceptMatches hi r h = matchesT hi r h) := by
  intro hall
  have h := hall hierLookup (.conc [.leaf 1]) (.conc [.leaf 0] false)
  have h1 : matchesT hierLookup (.conc [.leaf 1]) (.conc [.leaf 0] false) = true := by
    rw [matchesT_conc]; simp [matchRule, matchesT, hierLookup]
  have h2 : exceptMatches hierLookup (.conc [.leaf 1]) (.conc [.leaf 0] false) = false := by
    simp [exceptMatches, RTy.asHandler, sameClass]
  rw [h1, h2] at h; exact Bool.noConfusion h

/-- What remains true of `except` (`…_partial`): for plain classes, for the bare template and for
plain-vs-Concurrent combinations it agrees with the rule. -/
theorem except_agrees_partial (hi : Hier) (r : RTy) (h : HTy)
    (hh : (∃ c, h = .leaf c) ∨ h = .bare ∨ (∃ d, r = .leaf d)) :
    exceptMatches hi r h = matchesT hi r h := by
  rcases hh with ⟨c, rfl⟩ | rfl | ⟨d, rfl⟩
  · cases r <;> simp [exceptMatches, matchesT]
  · cases r <;> simp [exceptMatches, matchesT]
  · cases h <;> simp [exceptMatches, matchesT]

/-! ### flattened() -/

theorem leavesL_append (a b : List Exn) : leavesL (a ++ b) = leavesL a ++ leavesL b := by
  induction a with
  | nil => simp [leavesL]
  | cons c cs ih => simp [leavesL, ih]

mutual
theorem flat_leaves : (e : Exn) → leavesL e.flatChildren = e.leaves
  | .leaf i => by simp [Exn.flatChildren, leavesL, Exn.leaves]
  | .conc cs => by simp [Exn.flatChildren, Exn.leaves]; exact flat_leavesL cs
theorem flat_leavesL : (cs : List Exn) → leavesL (flatChildrenL cs) = leavesL cs
  | [] => by simp [flatChildrenL]
  | c :: cs => by
    simp [flatChildrenL, leavesL, leavesL_append, flat_leaves c, flat_leavesL cs]
end

/-- `flattened()` preserves the leaf exceptions and their order. -/
theorem flattened_leaves (e : Exn) : e.flattened.leaves = e.leaves := by
  cases e with
  | leaf i => rfl
  | conc cs =>
    simp only [Exn.flattened]
    split
    · simp [Exn.leaves, flat_leavesL]
    · rfl

mutual
theorem flat_noConc : (e : Exn) → ∀ c ∈ e.flatChildren, c.isConc = false
  | .leaf i => by simp [Exn.flatChildren, Exn.isConc]
  | .conc cs => by simp only [Exn.flatChildren]; exact flat_noConcL cs
theorem flat_noConcL : (cs : List Exn) → ∀ c ∈ flatChildrenL cs, c.isConc = false
  | [] => by simp [flatChildrenL]
  | c :: cs => by
    intro x hx
    simp only [flatChildrenL, List.mem_append] at hx
    rcases hx with h | h
    · exact flat_noConc c x h
    · exact flat_noConcL cs x h
end

/-- the result of `flattened()` has no nested `Concurrent` -/
theorem flattened_is_flat (cs : List Exn) : ∀ c ∈ (Exn.conc cs).flattened.children, c.isConc = false := by
  simp only [Exn.flattened]
  split
  · exact flat_noConcL cs
  · rename_i h
    intro c hc
    simp [Exn.children] at hc
    simp only [Bool.not_eq_true, List.any_eq_false] at h
    simpa using h c hc

theorem flatChildrenL_of_flat (cs : List Exn) (h : cs.any Exn.isConc = false) : flatChildrenL cs = cs := by
  induction cs with
  | nil => rfl
  | cons c cs ih =>
    simp only [List.any_cons, Bool.or_eq_false_iff] at h
    cases c with
    | leaf i => simp [flatChildrenL, Exn.flatChildren, ih h.2]
    | conc ds => simp [Exn.isConc] at h

theorem flattened_children (c : Exn) (hc : c.isConc = true) : c.flattened.children = c.flatChildren := by
  cases c with
  | leaf i => simp [Exn.isConc] at hc
  | conc ds =>
    simp only [Exn.flattened, Exn.flatChildren]
    split
    · rfl
    · rename_i h; simp only [Bool.not_eq_true] at h; simp [Exn.children, flatChildrenL_of_flat ds h]

/-- **Tie**: the code's `flattened` (translated, with the recursive call `child.flattened().children`
instantiated by the model) computes the model's `flattened`. -/
theorem gen_flattened_eq (cs : List Exn) :
    flattened Exn.isConc (fun c => c.flattened.children) cs
      = if cs.any Exn.isConc then some (flatChildrenL cs) else none := by
  unfold flattened
  by_cases h : cs.any Exn.isConc = true
  · simp only [h, Bool.not_true, Bool.false_eq_true, if_false, if_true]
    congr 1
    clear h
    induction cs with
    | nil => rfl
    | cons c cs ih =>
      simp only [List.map_cons, List.flatten_cons, flatChildrenL, ih]
      congr 1
      cases hc : c.isConc
      · cases c with
        | leaf i => simp [Exn.flatChildren]
        | conc ds => simp [Exn.isConc] at hc
      · simp [flattened_children c hc]
  · simp [h]

/-- flattening twice is flattening once -/
theorem flattened_idem (e : Exn) : e.flattened.flattened = e.flattened := by
  cases e with
  | leaf i => rfl
  | conc cs =>
    by_cases h : cs.any Exn.isConc = true
    · have hflat : (flatChildrenL cs).any Exn.isConc = false := by
        rw [List.any_eq_false]; intro c hc; simp [flat_noConcL cs c hc]
      simp [Exn.flattened, h, hflat]
    · simp [Exn.flattened, h]

/-! ### equal specialisations are the identical class -/

/-- Once a class exists for a set of parameters, every later request for an equal set - in any
order, with any duplicates, after any other requests - returns that same class. -/
theorem cache_hit_stable {α} (same : List α → List α → Bool) (c : Cache α) (a b : List α) (k : Nat)
    (h : c.lookup same a = some k) : ((c.get same b).2).lookup same a = some k := by
  unfold Cache.get
  split
  · exact h
  · unfold Cache.lookup at h ⊢
    simp only [List.find?_append]
    cases hf : List.find? (fun e => same e.1 a) c.entries with
    | none => simp [hf] at h
    | some e => simpa [hf] using h

theorem cache_get_then_lookup {α} (same : List α → List α → Bool)
    (hsymm : ∀ x y, same x y = true → same y x = true)
    (htrans : ∀ x y z, same x y = true → same y z = true → same x z = true)
    (c : Cache α) (a a' : List α) (haa : same a a' = true) :
    ((c.get same a).2).lookup same a' = some (c.get same a).1 := by
  unfold Cache.get
  cases hl : c.lookup same a with
  | some k =>
    simp only
    unfold Cache.lookup at hl ⊢
    cases hf : List.find? (fun e => same e.1 a) c.entries with
    | none => simp [hf] at hl
    | some e =>
      have hp := List.find?_some hf
      simp only [hf, Option.map_some, Option.some.injEq] at hl
      -- the first entry matching `a` is also the first entry matching `a'`
      have : List.find? (fun e => same e.1 a') c.entries = some e := by
        have heq : (fun e : List α × Nat => same e.1 a') = (fun e => same e.1 a) := by
          funext e'
          rw [Bool.eq_iff_iff]
          constructor
          · intro h1; exact htrans _ _ _ h1 (hsymm _ _ haa)
          · intro h1; exact htrans _ _ _ h1 haa
        rw [heq]; exact hf
      simp [this, hl]
  | none =>
    simp only
    unfold Cache.lookup at hl ⊢
    have hnone : List.find? (fun e => same e.1 a') c.entries = none := by
      rw [List.find?_eq_none]
      intro e he hsame
      have hfa : List.find? (fun e => same e.1 a) c.entries = none := by
        cases hf : List.find? (fun e => same e.1 a) c.entries with
        | none => rfl
        | some e => simp [hf] at hl
      rw [List.find?_eq_none] at hfa
      exact hfa e he (htrans _ _ _ hsame (hsymm _ _ haa))
    simp [List.find?_append, hnone, haa]

/-- **specialisation identity**: `Concurrent[a]` and a later `Concurrent[a']` with the same set of
parameters are the same class object, whatever other specialisations were requested in between. -/
theorem specialisation_identity {α} (same : List α → List α → Bool)
    (hsymm : ∀ x y, same x y = true → same y x = true)
    (htrans : ∀ x y z, same x y = true → same y z = true → same x z = true)
    (c : Cache α) (a a' : List α) (between : List (List α)) (haa : same a a' = true) :
    let c1 := (c.get same a).2
    let c2 := between.foldl (fun c b => (c.get same b).2) c1
    (c2.get same a').1 = (c.get same a).1 := by
  intro c1 c2
  have h1 : c1.lookup same a' = some (c.get same a).1 := cache_get_then_lookup same hsymm htrans c a a' haa
  have h2 : c2.lookup same a' = some (c.get same a).1 := by
    show (between.foldl (fun c b => (c.get same b).2) c1).lookup same a' = _
    generalize c1 = cc at h1
    induction between generalizing cc with
    | nil => exact h1
    | cons b bs ih => exact ih _ (cache_hit_stable same cc a' b _ h1)
  have hget : ∀ (cc : Cache α) (x : List α) (k : Nat), cc.lookup same x = some k → (cc.get same x).1 = k := by
    intro cc x k hk; unfold Cache.get; rw [hk]
  exact hget c2 a' _ h2

/-! ### non-vacuity -/
example : matchesT hierLookup (.conc [.leaf 1, .leaf 1]) (.conc [.leaf 0] false) = true := by
  rw [matchesT_conc]; simp [matchRule, matchesT, hierLookup]
example : (Exn.conc [.conc [.leaf 1, .leaf 2], .leaf 3]).flattened = .conc [.leaf 1, .leaf 2, .leaf 3] := by rfl

end USim.Concurrent
