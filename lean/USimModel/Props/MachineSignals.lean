import USimModel.Props.Machine
import USimModel.Lemmas.SStep
/-!
# The whole machine: a withdrawn wake-up never fires
# (C03: no signal is delivered after its wait has ended - for every program)

`postpone`, `suspend`, every wait on a notification and every cancellation work with `Interrupt` objects ("signals")
that are scheduled for an activity and **revoked** when the wait ends in any other way (`Props/C03.lean`:
`wake_revoked_on_every_exit`).  `Lemmas/SView.lean` / `SStep.lean` show that no statement, frame or primitive ever
un-revokes a signal or changes what a signal is.  Here: along every run of every program a revoked signal stays revoked
(`revoked_forever`), and the loop drops the activation of a revoked signal whenever its turn comes, without resuming
anybody (`revoked_activation_dropped`).
-/
set_option linter.unusedVariables false
set_option linter.unusedSimpArgs false
namespace USim.Machine
open TimeLike USim.Prim.Kernel
namespace World

theorem sigs_activate (w : World Rat) (t : ActId) (s : Option SigId) : (w.activate t s).sigs = w.sigs := by
  unfold activate
  repeat' (first
    | (with_reducible rfl)
    | (simp only [svsimp]; done)
    | (have hfst := congrArg Prod.fst ‹_ = (_, _)›; dsimp only at hfst; subst hfst)
    | split
    | (dsimp only; split))

/-- one transition of the running activity only adds signals and keeps every revocation -/
theorem microStep_sstep (w : World Rat) : SExt w.sigs w.microStep.sigs := by
  unfold microStep
  cases hc : w.ctl with
  | nil => exact SExt.refl _
  | cons x rest =>
    obtain ⟨a, mode⟩ := x
    simp only []
    cases hf : (w.act a).frames with
    | nil => exact finishAct_sext w a mode (SExt.refl _)
    | cons f fs =>
      cases mode with
      | raise e => exact stepRaise_sext w a f fs e (SExt.refl _)
      | ret v =>
        simp only []
        by_cases hn : ∃ progs start ss, f = .seq (.nestedRun progs start :: ss)
        · obtain ⟨progs, start, ss, rfl⟩ := hn
          simp only [stepRet, execStmt]
          have hk : ∀ (l : List (Prog Rat)) (p : World Rat × List Activation),
              (l.foldl (fun (p : World Rat × List Activation) prog =>
                let (w, x) := p.1.newAct [.seq prog, .coroutineEnd] true (10000 + 100 * p.1.nestedRuns + p.2.length)
                (w, p.2 ++ [{ target := x, signal := none }])) p).1.sigs = p.1.sigs := by
            intro l
            induction l with
            | nil => intro p; rfl
            | cons y ys ih => intro p; simp only [List.foldl_cons]; rw [ih]; rfl
          have h1 := hk progs (w.setFrames a (.nestedRun :: .seq ss :: fs), [])
          have : SExt w.sigs (progs.foldl (fun (p : World Rat × List Activation) prog =>
                let (w, x) := p.1.newAct [.seq prog, .coroutineEnd] true (10000 + 100 * p.1.nestedRuns + p.2.length)
                (w, p.2 ++ [{ target := x, signal := none }])) (w.setFrames a (.nestedRun :: .seq ss :: fs), [])).1.sigs := by
            rw [h1]; exact SExt.refl _
          exact this
        · exact stepRet_sext w a f fs v (fun p st ss h => hn ⟨p, st, ss, h⟩) (SExt.refl _)

/-- **one step of the machine** -/
theorem step_sext {w w' : World Rat} (h : w.step = some w') : SExt w.sigs w'.sigs := by
  unfold step at h
  split at h
  · have hret : ∀ {w w' : World Rat}, w.nestedReturn = some w' → w'.sigs = w.sigs := by
      intro w w' h
      unfold nestedReturn at h
      split at h
      · cases h
      · simp only at h
        split at h <;> (cases h; simp)
    unfold kernelStep at h
    split at h
    · rw [hret h]; exact SExt.refl _
    · split at h
      · simp only at h
        split at h
        all_goals
          split at h
          · simp only [Option.some.injEq] at h; subst h; rw [sigs_activate]; exact SExt.refl _
          · simp only [Option.some.injEq] at h; subst h; exact SExt.refl _
      · split at h
        · cases h; exact SExt.refl _
        · rw [hret h]; exact SExt.refl _
  · cases h; exact microStep_sstep w

/-- **a revoked signal stays revoked, whatever the program does, for every number of steps** (and it stays the same
signal: same kind, same exception object) -/
theorem revoked_forever (n : Nat) : ∀ (w : World Rat) (s : SigId), s < w.sigs.size → (w.sig s).revoked = true →
    ((w.runFuel n).1.sig s).revoked = true ∧ ((w.runFuel n).1.sig s).kind = (w.sig s).kind ∧
    ((w.runFuel n).1.sig s).exn = (w.sig s).exn := by
  induction n with
  | zero => intro w s _ h; exact ⟨h, rfl, rfl⟩
  | succ n ih =>
    intro w s hs h
    unfold runFuel
    split
    · exact ⟨h, rfl, rfl⟩
    · rename_i w' hst
      have hx := step_sext hst
      have k := hx.keep s hs
      have h' : (w'.sig s).revoked = true := k.2.2 h
      have := ih w' s (Nat.lt_of_lt_of_le hs hx.size) h'
      exact ⟨this.1, this.2.1.trans k.1, this.2.2.trans k.2.1⟩

/-- **the loop drops a revoked activation**: when the next activation of the current time step carries a revoked
signal, the step only removes it - no activity is resumed, nothing else changes -/
theorem revoked_activation_dropped (w : World Rat) (act : Activation) (rest : List Activation) (s : SigId)
    (hc : w.ctl = []) (hcr : w.crashed = none) (hp : w.pending = act :: rest) (hs : act.signal = some s)
    (hr : (w.sig s).revoked = true) : w.step = some { w with pending := rest } := by
  unfold step
  simp only [hc]
  unfold kernelStep
  simp only [hcr, hp, hs]
  have h2 : ¬ ((({ w with pending := rest } : World Rat).sig s).revoked = false) := by
    show ¬ ((w.sig s).revoked = false)
    rw [hr]; simp
  simp only [Bool.not_eq_true', Option.isSome_none, Bool.false_eq_true, ↓reduceIte]
  split
  · rename_i hv; exact absurd hv h2
  · simp only [hc]

/-- **a withdrawn wake-up never fires**: once a signal is revoked, then after any number of steps of any program, when
an activation carrying it reaches the head of the current time step, the loop removes it and resumes nobody -/
theorem revoked_never_fires (n : Nat) (w : World Rat) (s : SigId) (hsz : s < w.sigs.size)
    (hr : (w.sig s).revoked = true) (act : Activation) (rest : List Activation)
    (hc : (w.runFuel n).1.ctl = []) (hcr : (w.runFuel n).1.crashed = none)
    (hp : (w.runFuel n).1.pending = act :: rest) (hs : act.signal = some s) :
    (w.runFuel n).1.step = some { (w.runFuel n).1 with pending := rest } :=
  revoked_activation_dropped _ act rest s hc hcr hp hs (revoked_forever n w s hsz hr).1

end World
end USim.Machine
