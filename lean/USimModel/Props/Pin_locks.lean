import USimModel.Gen.Pins
/-! every definition of `usim/_primitives/locks.py` is the one the model was written against (extract/gen_pins.py) -/
namespace USim.Pins

theorem locks_as_modelled : USim.Gen.Pins.changed_locks = [] := rfl

end USim.Pins
