import USimModel.Props.MachineTicker
/-!
# More operations that end in a postponement (C20) - for every world

`Props/C20.lean` shows for the kernel primitive what "yields" means on the machine (`postpone_hibernates`: the activity is
suspended and its wake-up is appended **behind** everything that is runnable in the current time step) and that setting flags
and tracked values, `put` / `close` on streams, leaving a scope and awaiting a condition that already holds end in it.  Here the
rest of the operations the statement lists, each as an equation "what the machine does = `(...).doPostpone a <frames>`":
changing the levels of a supply, every step of acquiring and giving back a borrowed amount (also the helper activities of a
forcefully closed block), taking an item that is already buffered, and a tick whose time has come.
-/
set_option linter.unusedVariables false
namespace USim.Machine
open TimeLike USim.Gen.Ticker
namespace World
variable (w : World Rat)

/-- **borrowing** - the supply is debited, then the activity postpones -/
theorem borrow_acquire_postpones (a : ActId) (fs : List (Frame Rat)) (v : Val) (r b : Name) (body : List (Stmt Rat)) :
    w.stepRet a (.borrowWait r b body) fs v =
      (w.setLevels r (vecSub (w.res.getD r default).levels (w.res.getD b default).debits)).doPostpone a (.borrowRemoved r b body :: fs) := by
  simp only [stepRet]

/-- ... the own share is filled, then the activity postpones once more before the body starts -/
theorem borrow_insert_postpones (a : ActId) (fs : List (Frame Rat)) (v : Val) (r b : Name) (body : List (Stmt Rat)) :
    w.stepRet a (.borrowRemoved r b body) fs v =
      (w.setLevels b (vecAdd (w.res.getD b default).levels (w.res.getD b default).debits)).doPostpone a (.borrowInserted r b body :: fs) := by
  simp only [stepRet]

/-- **giving back**, first step (the own share is emptied): postpones -/
theorem borrow_release1_postpones (a : ActId) (fs : List (Frame Rat)) (v : Val) (r b : Name) :
    w.stepRet a (.borrowBody r b) fs v =
      ((w.emit a "bbody" [0]).setLevels b (vecSub ((w.emit a "bbody" [0]).res.getD b default).levels
        ((w.emit a "bbody" [0]).res.getD b default).debits)).doPostpone a (.borrowExit1 r b none :: fs) := by
  simp only [stepRet]

/-- **giving back**, second step (the supply is credited): postpones again -/
theorem borrow_release2_postpones (a : ActId) (fs : List (Frame Rat)) (v : Val) (r b : Name) (orig : Option ExnId) :
    w.stepRet a (.borrowExit1 r b orig) fs v =
      (w.setLevels r (vecAdd (w.res.getD r default).levels (w.res.getD b default).debits)).doPostpone a (.borrowExit2 orig :: fs) := by
  simp only [stepRet]

/-- the helper activities that give back what a forcefully closed block held postpone as well -/
theorem resAdjust_postpones (a : ActId) (fs : List (Frame Rat)) (v : Val) (r : Name) (amounts : List Int) (insert : Bool) :
    w.stepRet a (.resAdjust r amounts insert) fs v =
      (w.setLevels r (if insert then vecAdd (w.res.getD r default).levels amounts
        else vecSub (w.res.getD r default).levels amounts)).doPostpone a fs := by
  simp only [stepRet]

/-- **`increase`** of a supply (valid amounts): the levels are stored, listeners woken, and the caller postpones -/
theorem increase_postpones (a : ActId) (fs : List (Frame Rat)) (r : Name) (rid : Nat) (amounts : List Int)
    (hl : lookup w.resNames r = some rid) (hv : amounts.any (fun x => x < 0 && !((0 : Nat) == 2 && x == -1)) = false) :
    w.execStmt a fs (.resChange r 0 amounts) =
      ((w.emit a "reschange" ((r : Int) :: ((0 : Nat) : Int) :: amounts)).setLevels rid
        (vecAdd ((w.emit a "reschange" ((r : Int) :: ((0 : Nat) : Int) :: amounts)).res.getD rid default).levels amounts)).doPostpone a fs := by
  simp only [execStmt, hl]
  rw [if_neg (by rw [hv]; simp)]

/-- **taking an item that is already buffered** (`Queue.get` with the read mutex held): postpones before the item is popped -/
theorem queue_get_buffered_postpones (a : ActId) (fs : List (Frame Rat)) (q : Name)
    (h : (w.queues.getD q default).buffer.isEmpty = false) :
    w.queueGetEnter a fs q = w.doPostpone a (.qGetPop q :: fs) := by
  unfold queueGetEnter
  simp only [h, Bool.not_false, if_true]

/-- **a tick whose time has come** (`interval(p)` with nothing left to wait, e.g. `p = 0`, or a body that took exactly `p`):
the iterator postpones before it yields again -/
theorem tick_due_postpones (a : ActId) (fs : List (Frame Rat)) (period last : Rat) (remaining : Nat) (body : List (Stmt Rat))
    (hr : remaining ≠ 0) (h : intervalStep period last w.time = .postpone) :
    w.tickNext a fs true period last remaining body = w.doPostpone a (.tickWait true period last remaining body :: fs) := by
  rw [tickNext_interval w a fs period last remaining body hr, h]

/-- **`delay(0)`**: every step postpones -/
theorem delay_zero_postpones (a : ActId) (fs : List (Frame Rat)) (last : Rat) (remaining : Nat) (body : List (Stmt Rat))
    (hr : remaining ≠ 0) :
    w.tickNext a fs false 0 last remaining body = w.doPostpone a (.tickWait false 0 last remaining body :: fs) := by
  rw [tickNext_delay w a fs 0 last remaining body hr]
  rfl

end World
end USim.Machine
