import USimModel.Lemmas.CStep
import USimModel.Prim.Resources
/-!
# The machine's resource arithmetic is the open resource model's (C12) - for every world

`Prim/Resources.lean` models a supply and its borrow blocks as phases; `Props/C12.lean` proves conservation for every sequence
of actions.  In the machine the phases of a block are *frames* (`borrowWait`, `borrowRemoved`, `borrowInserted`, `borrowBody`,
`borrowExit1`, `borrowExit2`), so there is no table to abstract; what can be tied by proof is what each frame does to the
**level vector** of the supply: taking is `vsub` of exactly the block's debits in one step (the frame `borrowWait` is only
reached once the whole amount is available - `acquire`), giving back is `vadd` of exactly the debits (`release2`), and nothing
else happens to the supply's level in these steps.  `setLevels_levels`: storing a level vector notifies listeners and changes
nothing but the stored vector.
-/
set_option linter.unusedVariables false
set_option linter.unusedSimpArgs false
namespace USim.Machine
open TimeLike USim.Prim.Kernel
namespace World
variable (w : World Rat)

theorem getD_modify_res {α} [Inhabited α] (a : Array α) (i : Nat) (f : α → α) (h : i < a.size) :
    (a.modify i f).getD i default = f (a.getD i default) := by
  rw [Array.getD_eq_getD_getElem?, Array.getD_eq_getD_getElem?, Array.getElem?_modify]
  simp [h]

theorem vecSub_is_vsub (a b : List Int) : vecSub a b = USim.Prim.Resources.vsub a b := rfl
theorem vecAdd_is_vadd (a b : List Int) : vecAdd a b = USim.Prim.Resources.vadd a b := rfl

theorem awakeAll_res (c : CondId) : (w.awakeAll c).res = w.res := by
  unfold awakeAll; dsimp only
  have hfold : ∀ (l : List (ActId × SigId)) (w0 : World Rat),
      (l.foldl (fun w (p : ActId × SigId) => w.scheduleNow p.1 (some p.2)) w0).res = w0.res := by
    intro l; induction l with
    | nil => intro w0; rfl
    | cons x xs ih => intro w0; rw [List.foldl_cons, ih, cv_scheduleNow_res]
  rw [hfold]; rfl

/-- **storing a level vector** (`Tracked.set` on the levels): the vector is stored, listeners whose test holds are woken,
the table of supplies is otherwise untouched -/
theorem setLevels_res (r : Name) (lv : List Int) :
    (w.setLevels r lv).res = w.res.modify r (fun x => { x with levels := lv }) := by
  unfold setLevels; dsimp only
  have hfold : ∀ (l : List CondId) (w0 : World Rat),
      (l.foldl (fun w c => if w.eval c then w.awakeAll c else w) w0).res = w0.res := by
    intro l; induction l with
    | nil => intro w0; rfl
    | cons x xs ih =>
      intro w0; rw [List.foldl_cons, ih]
      split
      · exact awakeAll_res w0 x
      · rfl
  rw [hfold]

theorem setLevels_levels (r : Name) (lv : List Int) (hr : r < w.res.size) :
    ((w.setLevels r lv).res.getD r default).levels = lv := by
  rw [setLevels_res, getD_modify_res _ _ _ hr]

theorem hibernate_res (a : ActId) (fs : List (Frame Rat)) : (w.hibernate a fs).res = w.res := by
  unfold hibernate; dsimp only; split <;> rfl
theorem doPostpone_res (a : ActId) (fs : List (Frame Rat)) : (w.doPostpone a fs).res = w.res := by
  unfold doPostpone; dsimp only; rw [hibernate_res, cv_scheduleNow_res]; rfl

/-- **a borrow takes the whole amount in one step** (`acquire`): the frame that runs when the availability test has passed
subtracts exactly the block's debits from the supply's level - `vsub` - and then postpones -/
theorem borrow_takes_debits (a : ActId) (fs : List (Frame Rat)) (v : Val) (r b : Name) (body : List (Stmt Rat)) (hr : r < w.res.size) :
    ((w.stepRet a (.borrowWait r b body) fs v).res.getD r default).levels =
      USim.Prim.Resources.vsub (w.res.getD r default).levels (w.res.getD b default).debits := by
  simp only [stepRet]
  rw [doPostpone_res, setLevels_levels _ _ _ hr]; rfl

/-- **leaving the block gives back exactly what was taken** (`release2`): `vadd` of the block's debits to the supply's level -/
theorem borrow_returns_debits (a : ActId) (fs : List (Frame Rat)) (v : Val) (r b : Name) (orig : Option ExnId) (hr : r < w.res.size) :
    ((w.stepRet a (.borrowExit1 r b orig) fs v).res.getD r default).levels =
      USim.Prim.Resources.vadd (w.res.getD r default).levels (w.res.getD b default).debits := by
  simp only [stepRet]
  rw [doPostpone_res, setLevels_levels _ _ _ hr]; rfl

/-- the helper activities that give the resources of a *forcefully closed* block back (`resAdjust`) do the same arithmetic -/
theorem resAdjust_arith (a : ActId) (fs : List (Frame Rat)) (v : Val) (r : Name) (amounts : List Int) (insert : Bool) (hr : r < w.res.size) :
    ((w.stepRet a (.resAdjust r amounts insert) fs v).res.getD r default).levels =
      if insert then USim.Prim.Resources.vadd (w.res.getD r default).levels amounts
      else USim.Prim.Resources.vsub (w.res.getD r default).levels amounts := by
  simp only [stepRet]
  rw [doPostpone_res, setLevels_levels _ _ _ hr]
  cases insert <;> rfl

/-- in the two steps in between (own share filled / emptied) the supply `r` is not touched when the share `b` is another object -/
theorem borrow_inner_steps_keep_supply (a : ActId) (fs : List (Frame Rat)) (v : Val) (r b : Name) (body : List (Stmt Rat)) (hrb : b ≠ r) :
    ((w.stepRet a (.borrowRemoved r b body) fs v).res.getD r default).levels = (w.res.getD r default).levels := by
  simp only [stepRet]
  rw [doPostpone_res, setLevels_res]
  rw [Array.getD_eq_getD_getElem?, Array.getD_eq_getD_getElem?, Array.getElem?_modify]
  simp [hrb]

end World
end USim.Machine
