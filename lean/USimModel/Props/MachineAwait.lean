import USimModel.Machine.Run
/-!
# `await c` on the whole machine: the wait loop is left only when `c` evaluates true (C08) - for every world

`Condition.__await__` is `while not self: <wait for a notification>` (after one unconditional postponement when the condition
holds on entry, `Props/C20.lean: await_true_condition_postpones`).  In the machine the loop head is the frame `condLoop c`
(flags, comparisons, `done`, time conditions ...) or `connStart c` (`a & b`, `a | b`): every time the waiter gets a turn there, the
condition is evaluated **at that moment**, and the await completes - with `True` - exactly if it holds; otherwise the waiter
subscribes again and hibernates.  There is no other way out of the loop except an exception.
-/
set_option linter.unusedVariables false
namespace USim.Machine
open TimeLike
namespace World
variable (w : World Rat)

/-- the waiter gets its turn and the condition is **false** now: it does not return, it waits again -/
theorem await_stays_while_false (a : ActId) (fs : List (Frame Rat)) (v : Val) (c : CondId) (h : w.eval c = false) :
    w.stepRet a (.condLoop c) fs v = w.doNotifAwait a (.condLoop c :: fs) c := by
  simp only [stepRet]; rw [if_neg (by rw [h]; simp)]

/-- the waiter gets its turn and the condition is **true** now: `await c` completes, with the value `True` -/
theorem await_completes_when_true (a : ActId) (fs : List (Frame Rat)) (v : Val) (c : CondId) (h : w.eval c = true) :
    w.stepRet a (.condLoop c) fs v = w.retTo a fs (.bool true) := by
  simp only [stepRet]; rw [if_pos h]

/-- hence: **`await c` completes only at a moment at which `c` evaluates true** - if the loop head returns to the frames below
with a value, the condition holds in that very world -/
theorem await_completes_only_when_true (a : ActId) (fs : List (Frame Rat)) (v : Val) (c : CondId)
    (h : w.stepRet a (.condLoop c) fs v = w.retTo a fs (.bool true))
    (hne : w.doNotifAwait a (.condLoop c :: fs) c ≠ w.retTo a fs (.bool true)) : w.eval c = true := by
  cases he : w.eval c
  · exact absurd ((await_stays_while_false w a fs v c he).symm.trans h) hne
  · rfl

/-- the same for connectives (`a & b`, `a | b`): true now - the await completes -/
theorem connective_completes_when_true (a : ActId) (fs : List (Frame Rat)) (v : Val) (c : CondId) (h : w.eval c = true) :
    w.stepRet a (.connStart c) fs v = w.retTo a fs (.bool true) := by
  simp only [stepRet]; rw [if_pos h]

/-- an exception that reaches the loop head leaves it as it is (nothing is swallowed there) -/
theorem await_passes_exceptions_on (a : ActId) (fs : List (Frame Rat)) (e : ExnId) (c : CondId) :
    w.stepRaise a (.condLoop c) fs e = w.raiseTo a fs e := by
  simp only [stepRaise]

/-! ### what a derived condition evaluates to: and / or / not of the *current* values of its operands

(`Props/MachineStructure.lean: connective_children_forever, inverse_forever` - the operands are for ever the ones it was built
from; `Props/C08.lean` - `~` of an expression is its negation, De Morgan included) -/

/-- `a & b & ...` is true exactly when every operand is true now -/
theorem eval_conjunction (f : Nat) (c : CondId) (cs : List CondId) (h : (w.cond c).kind = .all cs) :
    w.evalCond (f + 1) c = cs.all (w.evalCond f) := by
  simp only [evalCond, h]

/-- `a | b | ...` is true exactly when some operand is true now -/
theorem eval_disjunction (f : Nat) (c : CondId) (cs : List CondId) (h : (w.cond c).kind = .any cs) :
    w.evalCond (f + 1) c = cs.any (w.evalCond f) := by
  simp only [evalCond, h]

/-- `~flag` is true exactly when the flag is false now -/
theorem eval_inverse_flag (f : Nat) (c fl : CondId) (h : (w.cond c).kind = .invFlag fl) :
    w.evalCond (f + 1) c = !(w.evalCond f fl) := by
  simp only [evalCond, h]

/-- `~task.done` is true exactly when `task.done` is false now -/
theorem eval_not_done (f : Nat) (c d : CondId) (h : (w.cond c).kind = .notDone d) :
    w.evalCond (f + 1) c = !(w.evalCond f d) := by
  simp only [evalCond, h]

/-- a comparison of a tracked value is evaluated on the value stored now -/
theorem eval_comparison (f : Nat) (c : CondId) (x : Name) (op : Nat) (v : Int) (h : (w.cond c).kind = .cmp x op v) :
    w.evalCond (f + 1) c = cmpOp op (w.tracked.getD x default).value v := by
  simp only [evalCond, h]

/-- a time condition is evaluated on the clock as it reads now -/
theorem eval_time (f : Nat) (c : CondId) (d : Rat) :
    ((∃ s, (w.cond c).kind = .after d s) → w.evalCond (f + 1) c = TimeLike.ge w.time d) ∧
    ((w.cond c).kind = .before d → w.evalCond (f + 1) c = TimeLike.lt w.time d) := by
  constructor
  · rintro ⟨s, h⟩; simp only [evalCond, h]
  · intro h; simp only [evalCond, h]

end World
end USim.Machine
