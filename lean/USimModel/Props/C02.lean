import USimModel.Props.C01
import USimModel.Machine.Step
import USimModel.Gen.Tracked
/-!
# C02 - the trace is a function of the program alone (deterministic FIFO turn order)

The model has no oracle: `World.step` is a Lean *function* of the world, and the initial world is
a function of the program, so the model trace is a function of the program.  What is proved here
are the ordering facts the statement names; configuration independence of the *implementation*
(process, hash seed, heap layout, backend, `-O`) is a runtime fact checked by the multi-configuration
differential (the model has no addresses).
-/
namespace USim.Prim.Kernel
open USim.Machine

/-- **FIFO turn order**: two activations scheduled for the same date run in scheduling order -/
theorem fifo_same_time (key : Rat) (a1 a2 : Activation) (q : List (Rat × List Activation))
    (hs : (keys q).Pairwise (· < ·)) :
    bucketOf key (pushBucket key a2 (pushBucket key a1 q)) = bucketOf key q ++ [a1, a2] := by
  rw [pushBucket_bucket key a2 _ key (pushBucket_sorted key a1 q hs), pushBucket_bucket key a1 q key hs]
  simp

/-- ... and activations made runnable for the current time step run in the order they were made
runnable, after everything that was already pending -/
theorem fifo_now (k : K) (a1 a2 : Activation) :
    ((k.apply (.now a1)).apply (.now a2)).pending = k.pending ++ [a1, a2] := by
  simp [K.apply]

/-- **backend independence**: the heap backend and the sorted-dict backend hand out the same
bucket contents (`hq_push_bucket` vs `pushBucket_bucket`) and both pop the smallest key
(`hq_pop_min` vs the sorted list's head), for every sequence of pushes -/
theorem backend_same_buckets (h : HQ) (q : List (Rat × List Activation)) (key : Rat) (a : Activation)
    (hs : (keys q).Pairwise (· < ·)) (hsame : ∀ t, bucketOf t h.data = bucketOf t q) :
    ∀ t, bucketOf t (h.push key a).data = bucketOf t (pushBucket key a q) := by
  intro t
  rw [hq_push_bucket, pushBucket_bucket key a q t hs, hsame t]

end USim.Prim.Kernel

namespace USim.Machine.World
open USim.Machine

theorem scheduleNow_pending (w : World Rat) (a : ActId) (s : Option SigId) :
    (w.scheduleNow a s).pending = w.pending ++ [⟨a, s⟩] := by
  cases s <;> simp [scheduleNow, setSig]

theorem scheduleNow_fold_pending (l : List (ActId × SigId)) : ∀ (w : World Rat),
    (l.foldl (fun w (p : ActId × SigId) => w.scheduleNow p.1 (some p.2)) w).pending
      = w.pending ++ l.map (fun p => (⟨p.1, some p.2⟩ : Activation)) := by
  induction l with
  | nil => intro w; simp
  | cons p ps ih =>
    intro w
    simp only [List.foldl_cons, List.map_cons]
    rw [ih, scheduleNow_pending]
    simp

/-- **wake order**: triggering a notification wakes its waiters in subscription order
(`__awake_all__`), after everything already runnable -/
theorem awakeAll_order (w : World Rat) (c : CondId) :
    (w.awakeAll c).pending = w.pending ++ (w.cond c).waiting.map (fun p => (⟨p.1, some p.2⟩ : Activation)) := by
  unfold awakeAll
  rw [scheduleNow_fold_pending]
  simp [setCond]

/-- **assertion mode**: a `schedule` call that passes its assertion does the same thing with
assertions compiled away -/
theorem schedule_debug_irrelevant (w w' : World Rat) (a : ActId) (s : Option SigId) (wh : When Rat)
    (hd : w.cfg.debug = true) (h : w.schedule a s wh = some w') :
    (World.schedule { w with cfg := { debug := false } } a s wh).map (fun (x : World Rat) => (x.pending, x.queue, x.time))
      = some (w'.pending, w'.queue, w'.time) := by
  cases wh with
  | now => simp only [schedule, Option.some.injEq] at h ⊢; subst h; cases s <;> simp [setSig]
  | delay d =>
    simp only [schedule, hd, Bool.true_and] at h ⊢
    split at h
    · simp at h
    · simp only [Option.some.injEq] at h; subst h
      cases s <;> simp [setSig]
  | at_ t =>
    simp only [schedule, hd, Bool.true_and] at h ⊢
    split at h
    · simp at h
    · simp only [Option.some.injEq] at h; subst h
      cases s <;> simp [setSig]

end USim.Machine.World

namespace USim.Skeletons
/-- `tracked.py`: listeners live in an insertion-ordered container and are notified in that order -/
theorem tracked_pinned : USim.Gen.Tracked.skeletonsMatched = 10 := rfl
end USim.Skeletons
