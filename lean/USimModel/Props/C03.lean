import USimModel.Machine.Run
import USimModel.Gen.Scope
import USimModel.Gen.Timing
/-!
# C03 - the kernel never fails on its own: no leaked signal, internal error or livelock

Proved here (for every world state, not only reachable ones): the clean-up that every exit path
of the suspension primitives performs, and the kernel's handling of revoked and stale activations.
The global invariants ("every live signal has its frame on its owner's stack", termination) are
**not** proved; they are covered by the exact trace correspondence and the judge (partial).
-/
namespace USim.Machine.World
open USim.Machine

variable (w : World Rat)

@[simp] theorem sig_setFrames (a : ActId) (fs : List (Frame Rat)) (s : SigId) : (w.setFrames a fs).sig s = w.sig s := rfl
@[simp] theorem sig_setMode (m : Mode) (s : SigId) : (w.setMode m).sig s = w.sig s := by
  unfold setMode; split <;> rfl
@[simp] theorem sig_retTo (a : ActId) (fs : List (Frame Rat)) (v : Val) (s : SigId) : (w.retTo a fs v).sig s = w.sig s := by
  simp [retTo]
@[simp] theorem sig_raiseTo (a : ActId) (fs : List (Frame Rat)) (e : ExnId) (s : SigId) : (w.raiseTo a fs e).sig s = w.sig s := by
  simp [raiseTo]

theorem revoke_revoked (s : SigId) (h : s < w.sigs.size) : ((w.revoke s).sig s).revoked = true := by
  simp [revoke, setSig, sig, Array.getD, h, Array.getElem_modify]

/-- **postpone()/suspend() always revoke their wake-up**: whatever is thrown into an activity that
sits in `postpone`/`suspend` - its own wake-up, a cancellation, a scope interrupt, GeneratorExit -
the wake-up signal is revoked when the frame is left, so it can never be delivered later -/
theorem wake_revoked_on_every_exit (a : ActId) (wake : SigId) (fs : List (Frame Rat)) (e : ExnId)
    (h : wake < w.sigs.size) : ((w.stepRaise a (.wakeHib wake) fs e).sig wake).revoked = true := by
  simp only [stepRaise]
  split <;> simp [revoke_revoked w wake h]

theorem wake_revoked_on_return (a : ActId) (wake : SigId) (fs : List (Frame Rat)) (v : Val)
    (h : wake < w.sigs.size) : ((w.stepRet a (.wakeHib wake) fs v).sig wake).revoked = true := by
  simp [stepRet, revoke_revoked w wake h]

/-- **a revoked activation never runs**: the loop drops it without resuming anybody -/
theorem revoked_never_runs (act : Activation) (rest : List Activation) (s : SigId)
    (hp : w.pending = act :: rest) (hs : act.signal = some s) (hr : (w.sig s).revoked = true)
    (hc : w.crashed = none) :
    w.kernelStep = some { w with pending := rest } := by
  have hr' : (w.sigs[s]?.getD default).revoked = true := by simpa [sig, Array.getD_eq_getD_getElem?] using hr
  simp [kernelStep, hc, hp, hs, sig, Array.getD_eq_getD_getElem?, hr']

/-- resuming a finished or closed coroutine is *reported* (the "cannot reuse already awaited
coroutine" error ends the run); the model does not hide it -/
theorem stale_activation_is_reported (target : ActId) (signal : Option SigId)
    (h : (w.act target).status = .finished ∨ (w.act target).status = .closed) :
    ∃ e, (w.activate target signal).crashed = some e ∧ (w.activate target signal).exn e = .reuse := by
  unfold activate
  rcases h with h | h <;> simp [h, newExn, exn]

/-- the skeletons mirrored by the machine's frames are pinned to the source -/
theorem skeletons_pinned : USim.Gen.Timing.skeletonsMatched = 48 ∧ USim.Gen.Scope.skeletonsMatched = 33 := ⟨rfl, rfl⟩

end USim.Machine.World
