import USimModel.Gen.Pins
/-! every definition of `usim/_core/handler.py` is the one the model was written against (extract/gen_pins.py) -/
namespace USim.Pins

theorem handler_as_modelled : USim.Gen.Pins.changed_handler = [] := rfl

end USim.Pins
