import USimModel.Gen.Pins
/-! every definition of `usim/__init__.py` is the one the model was written against (extract/gen_pins.py) -/
namespace USim.Pins

theorem init_as_modelled : USim.Gen.Pins.changed_init = [] := rfl

end USim.Pins
