import USimModel.Gen.Pins
/-! every definition of `usim/py/_awaitable.py` is the one the model was written against (extract/gen_pins.py) -/
namespace USim.Pins

theorem py_awaitable_as_modelled : USim.Gen.Pins.changed_py_awaitable = [] := rfl

end USim.Pins
