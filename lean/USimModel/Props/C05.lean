import USimModel.Gen.Scope
import USimModel.Machine.Types
/-!
# C05 - a scope fails as itself or as Concurrent: exactly right content

Decision logic of `Scope.__aexit__` (`_collect_exceptions`, `_propagate_exceptions`, the
SUPPRESS/PROMOTE tuples) as regenerated from `context.py`, against a hand-written specification.
-/
namespace USim.ScopeLogic
open USim.Gen.Scope

/-- specification: which child outcomes are cancellations / closures (never reported) -/
def isCancellationOrClosure : ExcKind → Bool
  | .taskCancelled | .taskClosed | .generatorExit => true
  | _ => false

/-- specification: the privileged exception types that are never wrapped -/
def isPrivileged : ExcKind → Bool
  | .systemExit | .keyboardInterrupt | .assertionError => true
  | _ => false

theorem suppress_is_spec (k : ExcKind) : suppressConcurrent.contains k = isCancellationOrClosure k := by
  cases k <;> decide

theorem promote_is_spec (k : ExcKind) : promoteConcurrent.contains k = isPrivileged k := by
  cases k <;> decide

variable {ε : Type} (kind : ε → ExcKind)

theorem go_spec (rest acc : List ε) :
    collectExceptions.go kind rest acc =
      match rest.find? (fun e => isPrivileged (kind e)) with
      | some p => (some p, [])
      | none => (none, acc.reverse ++ rest.filter (fun e => !isCancellationOrClosure (kind e))) := by
  induction rest generalizing acc with
  | nil => simp [collectExceptions.go]
  | cons e es ih =>
    simp only [collectExceptions.go, promote_is_spec, suppress_is_spec, List.find?_cons, List.filter_cons]
    by_cases hp : isPrivileged (kind e) = true
    · simp [hp]
    · simp only [Bool.not_eq_true] at hp
      simp only [hp, Bool.false_eq_true, if_false]
      by_cases hs : isCancellationOrClosure (kind e) = true
      · simp only [hs, Bool.not_true, Bool.false_eq_true, if_false]
        rw [ih]
      · simp only [Bool.not_eq_true] at hs
        simp only [hs, Bool.not_false, if_true]
        rw [ih]
        cases es.find? (fun e => isPrivileged (kind e)) <;> simp

/-- `_collect_exceptions`: the first privileged child failure if there is one; otherwise exactly the
child failures that are not cancellations/closures, each once, in order of occurrence -/
theorem collect_spec (failures : List ε) :
    collectExceptions kind failures =
      match failures.find? (fun e => isPrivileged (kind e)) with
      | some p => (some p, [])
      | none => (none, failures.filter (fun e => !isCancellationOrClosure (kind e))) := by
  unfold collectExceptions
  rw [go_spec]
  cases failures.find? (fun e => isPrivileged (kind e)) <;> simp

/-- is the exception the block itself is handling a privileged one? -/
def bodyPriv (kind : ε → ExcKind) : Option ε → Bool
  | some e => isPrivileged (kind e)
  | none => false

/-- the decision of `_propagate_exceptions` in closed form -/
theorem propagate_eq (failures : List ε) (exc : Option ε) (own : Bool) :
    propagateExceptions kind failures exc own =
      if bodyPriv kind exc then .reraise
      else match failures.find? (fun e => isPrivileged (kind e)) with
        | some p => .raisePrivileged p
        | none =>
          if own || exc.isNone then
            (match failures.filter (fun e => !isCancellationOrClosure (kind e)) with
             | [] => .swallow
             | c :: cs => .raiseConcurrent (c :: cs))
          else .reraise := by
  unfold propagateExceptions
  rw [collect_spec]
  cases exc with
  | none =>
    simp only [bodyPriv, Bool.false_eq_true, if_false, Option.isNone_none, Bool.or_true, if_true]
    cases failures.find? (fun e => isPrivileged (kind e)) with
    | some p => rfl
    | none => simp only; cases failures.filter (fun e => !isCancellationOrClosure (kind e)) <;> rfl
  | some e =>
    simp only [bodyPriv, promote_is_spec, Option.isNone_some, Bool.or_false]
    by_cases hp : isPrivileged (kind e) = true
    · simp [hp]
    · simp only [hp, if_false]
      cases failures.find? (fun e => isPrivileged (kind e)) with
      | some p => cases own <;> rfl
      | none =>
        cases own
        · rfl
        · simp only [if_true]; cases failures.filter (fun e => !isCancellationOrClosure (kind e)) <;> rfl

/-- **exact content of a Concurrent**: it is raised only when the block itself has no exception of
its own (none, or the scope's own interrupt), no child failed with a privileged type, and then it
carries exactly the direct children's failure objects that are not cancellations, closures or
forced exits - each once, in order of occurrence, and at least one -/
theorem concurrent_content (failures : List ε) (exc : Option ε) (own : Bool) (cs : List ε)
    (h : propagateExceptions kind failures exc own = .raiseConcurrent cs) :
    cs = failures.filter (fun e => !isCancellationOrClosure (kind e)) ∧ cs ≠ [] ∧
    (∀ e ∈ failures, isPrivileged (kind e) = false) ∧ (exc = none ∨ own = true) ∧
    (∀ e ∈ cs, isCancellationOrClosure (kind e) = false) := by
  rw [propagate_eq] at h
  by_cases hpe : bodyPriv kind exc = true
  · rw [if_pos hpe] at h; cases h
  · rw [if_neg hpe] at h
    cases hf : failures.find? (fun e => isPrivileged (kind e)) with
    | some p => rw [hf] at h; cases h
    | none =>
      rw [hf] at h
      by_cases hown : (own || exc.isNone) = true
      · simp only [hown, if_true] at h
        cases hfil : failures.filter (fun e => !isCancellationOrClosure (kind e)) with
        | nil => rw [hfil] at h; cases h
        | cons c rest =>
          rw [hfil] at h
          simp only [Outcome.raiseConcurrent.injEq] at h
          subst h
          refine ⟨rfl, by simp, ?_, ?_, ?_⟩
          · intro e he
            have := List.find?_eq_none.mp hf e he
            simpa using this
          · simp only [Bool.or_eq_true, Option.isNone_iff_eq_none] at hown
            rcases hown with h1 | h1
            · exact Or.inr h1
            · exact Or.inl h1
          · intro e he
            rw [← hfil] at he
            simpa using (List.mem_filter.mp he).2
      · simp only [hown, if_false] at h; cases h

/-- **never both**: when the block's own body raised a regular exception (not the scope's own
signal, not privileged), the block ends with that very exception or with an unwrapped privileged
child exception - never with a Concurrent, and the body's exception is never swallowed -/
theorem body_exception_wins (failures : List ε) (e : ε) (hnp : isPrivileged (kind e) = false) :
    propagateExceptions kind failures (some e) false = .reraise ∨
    ∃ p ∈ failures, isPrivileged (kind p) = true ∧ propagateExceptions kind failures (some e) false = .raisePrivileged p := by
  rw [propagate_eq]
  simp only [bodyPriv, hnp, Bool.false_eq_true, if_false, Bool.false_or, Option.isNone_some]
  cases hf : failures.find? (fun x => isPrivileged (kind x)) with
  | none => exact Or.inl rfl
  | some p => exact Or.inr ⟨p, List.mem_of_find?_eq_some hf, by simpa using List.find?_some hf, rfl⟩

/-- a privileged exception of the body itself always propagates unchanged -/
theorem privileged_body_propagates (failures : List ε) (e : ε) (own : Bool) (hp : isPrivileged (kind e) = true) :
    propagateExceptions kind failures (some e) own = .reraise := by
  rw [propagate_eq]; simp [bodyPriv, hp]

/-- **privileged first**: a privileged child failure is propagated unwrapped (the first one), whatever
else failed -/
theorem privileged_first (failures : List ε) (exc : Option ε) (own : Bool) (p : ε)
    (hf : failures.find? (fun x => isPrivileged (kind x)) = some p)
    (hb : ∀ e, exc = some e → isPrivileged (kind e) = false) :
    propagateExceptions kind failures exc own = .raisePrivileged p := by
  rw [propagate_eq, hf]
  cases exc with
  | none => simp [bodyPriv]
  | some e => simp [bodyPriv, hb e rfl]

/-- no failures at all: the block ends silently (own signal / no exception) or with its own exception -/
theorem no_failures (exc : Option ε) (own : Bool) :
    propagateExceptions kind ([] : List ε) exc own = .swallow ∨ propagateExceptions kind [] exc own = .reraise := by
  rw [propagate_eq]
  simp only [List.find?_nil, List.filter_nil]
  split
  · exact Or.inr rfl
  · split
    · exact Or.inl rfl
    · exact Or.inr rfl

/-- the coroutine skeletons of context.py / task.py / basics.py that the machine mirrors are pinned -/
theorem scope_task_skeletons_pinned : USim.Gen.Scope.skeletonsMatched = 33 := rfl

/-- the machine's classification agrees with the specification used here -/
theorem machine_classification_agrees :
    (USim.Machine.isCancellationOrClosure (.taskCancelled 0 0) = true) ∧
    (USim.Machine.isCancellationOrClosure (.taskClosed false) = true) ∧
    (USim.Machine.isCancellationOrClosure .genExit = true) ∧
    (USim.Machine.isCancellationOrClosure (.user 0 0) = false) ∧
    (USim.Machine.isPrivilegedCls (.user 5 0) = true) ∧ (USim.Machine.isPrivilegedCls (.user 6 0) = true) ∧
    (USim.Machine.isPrivilegedCls (.user 7 0) = true) ∧ (USim.Machine.isPrivilegedCls (.user 0 0) = false) := by
  decide

end USim.ScopeLogic
