import USimModel.Gen.Pins
/-! every definition of `usim/_basics/_resource_level.py` is the one the model was written against (extract/gen_pins.py) -/
namespace USim.Pins

theorem resource_level_as_modelled : USim.Gen.Pins.changed_resource_level = [] := rfl

end USim.Pins
