import USimModel.Gen.Pins
/-! every definition of `usim/_basics/streams.py` is the one the model was written against (extract/gen_pins.py) -/
namespace USim.Pins

theorem streams_as_modelled : USim.Gen.Pins.changed_streams = [] := rfl

end USim.Pins
