import USimModel.Lemmas.CStep
/-!
# The whole machine: conditions keep their operands, listeners are never dropped
# (C02, C08, C09, C13 - for every program and every number of steps)

`Lemmas/CView.lean` / `CStep.lean` show that no statement, frame or primitive of the machine changes the *shape* of a
condition object (its class and operands), removes or reorders a listener of a tracked value or of a resource level,
gives a lock another notification or a pipe another congestion notification.  Lifted to runs:

* `condition_shape_forever` - C08 "derived conditions follow boolean algebra on the current values": `a & b` is for ever the
  conjunction of exactly the operands it was built from (in that order), `~flag` stays the inverse of that flag,
  `task.done` stays about that task, a comparison keeps its operands and a time condition its date;
* `connective_children_forever`, `inverse_forever`, `inverse_pair_forever` - the readings used most;
* `tracked_listeners_append_only`, `resource_listeners_append_only` - C08 "never missed" / C02 notification order: a
  comparison that listens to a value is told about every later change, and the order of notification is the order of
  subscription, for ever;
* `lock_notification_forever` (C09), `pipe_identity_forever` (C13).
-/
set_option linter.unusedVariables false
set_option linter.unusedSimpArgs false
namespace USim.Machine
open TimeLike USim.Prim.Kernel
namespace World

theorem activate_cext {o0 : CV} (w : World Rat) (t : ActId) (s : Option SigId)
    (h0 : CX(o0, w)) : CX(o0, (w.activate t s)) := by
  unfold activate; cx h0

theorem cv_of_setMode (w : World Rat) (m : Mode) : (w.setMode m).cv = w.cv := by unfold setMode; split <;> rfl

theorem cext_refl (w : World Rat) : CX(w.cv, w) := CExt.refl' _ _ _ _ _

/-- one transition of the running activity -/
theorem microStep_cstep {o0 : CV} (w : World Rat) (h0 : CX(o0, w)) : CX(o0, w.microStep) := by
  unfold microStep
  cases hc : w.ctl with
  | nil => exact h0
  | cons x rest =>
    obtain ⟨a, mode⟩ := x
    simp only []
    cases hf : (w.act a).frames with
    | nil => exact finishAct_cext w a mode h0
    | cons f fs =>
      cases mode with
      | raise e => exact stepRaise_cext w a f fs e h0
      | ret v =>
        simp only []
        by_cases hn : ∃ progs start ss, f = .seq (.nestedRun progs start :: ss)
        · obtain ⟨progs, start, ss, rfl⟩ := hn
          simp only [stepRet, execStmt]
          have h1 := cext_foldl_pair (o0 := o0) (fun (p : World Rat × List Activation) (prog : Prog Rat) =>
                let (w, x) := p.1.newAct [.seq prog, .coroutineEnd] true (10000 + 100 * p.1.nestedRuns + p.2.length)
                (w, p.2 ++ [{ target := x, signal := none }]))
              (by intro p x h; exact h) progs
              (w.setFrames a (.nestedRun :: .seq ss :: fs), []) h0
          exact h1
        · exact stepRet_cext w a f fs v (fun p st ss h => hn ⟨p, st, ss, h⟩) h0

/-- **one step of the machine** -/
theorem step_cext {w w' : World Rat} (h : w.step = some w') : CX(w.cv, w') := by
  unfold step at h
  split at h
  · have hret : ∀ {w w' : World Rat}, w.nestedReturn = some w' → w'.cv = w.cv := by
      intro w w' h
      unfold nestedReturn at h
      split at h
      · cases h
      · simp only at h
        split at h <;> (cases h; rw [cv_of_setMode]; rfl)
    unfold kernelStep at h
    split at h
    · exact cext_of_cv (hret h) (cext_refl w)
    · split at h
      · simp only at h
        split at h
        all_goals
          split at h
          · simp only [Option.some.injEq] at h; subst h; exact activate_cext _ _ _ (cext_refl _)
          · simp only [Option.some.injEq] at h; subst h; exact cext_refl _
      · split at h
        · cases h; exact cext_refl _
        · exact cext_of_cv (hret h) (cext_refl w)
  · cases h; exact microStep_cstep w (cext_refl w)

/-- **any number of steps of any program** -/
theorem run_cext (n : Nat) : ∀ (w : World Rat), CX(w.cv, (w.runFuel n).1) := by
  induction n with
  | zero => intro w; exact cext_refl w
  | succ n ih =>
    intro w
    unfold runFuel
    split
    · exact cext_refl w
    · rename_i w' hst
      exact CExt.trans' (step_cext hst) (ih w')

/-- **a condition object keeps its class and its operands** -/
theorem condition_shape_forever (n : Nat) (w : World Rat) (c : CondId) (hc : c < w.conds.size) :
    ((w.runFuel n).1.cond c).kind.shape = (w.cond c).kind.shape :=
  (run_cext n w).conds.2 c hc

/-- `a & b` / `a | b` keep exactly their operands, in their order -/
theorem connective_children_forever (n : Nat) (w : World Rat) (c : CondId) (hc : c < w.conds.size) (cs : List CondId) :
    ((w.cond c).kind = .all cs → ((w.runFuel n).1.cond c).kind = .all cs) ∧
    ((w.cond c).kind = .any cs → ((w.runFuel n).1.cond c).kind = .any cs) := by
  have h := condition_shape_forever n w c hc
  constructor <;> intro hk <;> rw [hk] at h <;>
    (generalize ((w.runFuel n).1.cond c).kind = k at h ⊢; cases k <;> simp_all [CondKind.shape])

/-- `~flag` stays the inverse of the same flag; a flag keeps its inverse -/
theorem inverse_forever (n : Nat) (w : World Rat) (c : CondId) (hc : c < w.conds.size) (f : CondId) :
    ((w.cond c).kind = .invFlag f → ((w.runFuel n).1.cond c).kind = .invFlag f) ∧
    (∀ v, (w.cond c).kind = .flag v f → ∃ v', ((w.runFuel n).1.cond c).kind = .flag v' f) := by
  have h := condition_shape_forever n w c hc
  constructor
  · intro hk; rw [hk] at h
    generalize ((w.runFuel n).1.cond c).kind = k at h ⊢; cases k <;> simp_all [CondKind.shape]
  · intro v hk; rw [hk] at h
    generalize ((w.runFuel n).1.cond c).kind = k at h ⊢; cases k <;> simp_all [CondKind.shape]

/-- **double inversion, structurally**: a flag and its inverse that point at each other do so for ever - `~~flag` is the flag
itself after any number of steps of any program (C08 "double inversion") -/
theorem inverse_pair_forever (n : Nat) (w : World Rat) (c i : CondId) (hc : c < w.conds.size) (hi : i < w.conds.size) (v : Bool)
    (h1 : (w.cond c).kind = .flag v i) (h2 : (w.cond i).kind = .invFlag c) :
    (∃ v', ((w.runFuel n).1.cond c).kind = .flag v' i) ∧ ((w.runFuel n).1.cond i).kind = .invFlag c :=
  ⟨(inverse_forever n w c hc i).2 v h1, (inverse_forever n w i hi c).1 h2⟩

/-- **the listeners of a tracked value are never dropped or reordered** -/
theorem tracked_listeners_append_only (n : Nat) (w : World Rat) (x : Name) (hx : x < w.tracked.size) :
    (w.tracked.getD x default).listeners <+: ((w.runFuel n).1.tracked.getD x default).listeners :=
  (run_cext n w).tracked.2 x hx

/-- **the listeners of a resource level are never dropped or reordered**; a borrowed share keeps its supply -/
theorem resource_listeners_append_only (n : Nat) (w : World Rat) (r : Name) (hr : r < w.res.size) :
    (w.res.getD r default).listeners <+: ((w.runFuel n).1.res.getD r default).listeners ∧
    ((w.runFuel n).1.res.getD r default).parent = (w.res.getD r default).parent :=
  (run_cext n w).res.2 r hr

/-- **a lock keeps its notification** (the queue of its waiters is its own, for ever) -/
theorem lock_notification_forever (n : Nat) (w : World Rat) (l : Name) (hl : l < w.locks.size) :
    ((w.runFuel n).1.locks.getD l default).notif = (w.locks.getD l default).notif :=
  (run_cext n w).locks.2 l hl

/-- **a pipe keeps its congestion notification and its throughput** -/
theorem pipe_identity_forever (n : Nat) (w : World Rat) (p : Name) (hp : p < w.pipes.size) :
    ((w.runFuel n).1.pipes.getD p default).congested = (w.pipes.getD p default).congested ∧
    ((w.runFuel n).1.pipes.getD p default).throughput = (w.pipes.getD p default).throughput :=
  (run_cext n w).pipes.2 p hp

/-! ### the hypotheses are satisfiable (non-vacuity) -/
example : ∃ w : World Rat, 0 < w.conds.size ∧ (w.cond 0).kind = .all [1, 2] :=
  ⟨{ (default : World Rat) with conds := #[{ kind := .all [1, 2] }] }, by decide, rfl⟩
example : ∃ w : World Rat, 0 < w.tracked.size ∧ (w.tracked.getD 0 default).listeners = [4, 5] :=
  ⟨{ (default : World Rat) with tracked := #[{ value := 3, listeners := [4, 5] }] }, by decide, rfl⟩

end World
end USim.Machine
