import USimModel.Props.MachineQueue
/-!
# The machine's channel code is the open channel model, transition by transition (C11)

The same tie as `Props/MachineQueue.lean`, for `Channel`: with `absChan w c` = (the consumer buffers in registration order, the
closed-flag, the next registration key), the statement `cPut` is the action `put` of `Prim/Stream.lean` (the message goes to the
end of **every** registered buffer - or nowhere, if the channel is closed), `cClose` is `close`, and the registration of an
iterating consumer (`cIter`) is `subscribe` (a new, empty buffer under a fresh key at the end of the list).  For every world.
-/
set_option linter.unusedVariables false
set_option linter.unusedSimpArgs false
namespace USim.Machine
open TimeLike USim.Prim.Kernel
namespace World
variable (w : World Rat)

/-- what the open model knows about a consumer that a world can see: its key and its buffer -/
def visible (s : USim.Prim.Stream.CSt) : List (Nat × List Int) := s.consumers.map (fun c => (c.key, c.buffer))

/-- the channel `c` of the world as a state of the open model (histories are not part of a world) -/
def absChan (w : World Rat) (c : Name) : USim.Prim.Stream.CSt :=
  { consumers := (w.chans.getD c default).buffers.map (fun b => { key := b.1, buffer := b.2 }),
    closed := (w.chans.getD c default).closed, nextKey := (w.chans.getD c default).nextKey }

theorem vis_comp : ((fun c : USim.Prim.Stream.Consumer => (c.key, c.buffer)) ∘
    fun b : Nat × List Int => ({ key := b.1, buffer := b.2 } : USim.Prim.Stream.Consumer)) = id := by
  funext b; rfl

theorem visible_absChan (c : Name) : visible (w.absChan c) = (w.chans.getD c default).buffers := by
  unfold visible absChan
  simp only [List.map_map]
  rw [vis_comp, List.map_id]

/-! ### continuations that do not touch the channels -/
theorem retTo_ch (a : ActId) (fs : List (Frame Rat)) (v : Val) : (w.retTo a fs v).chans = w.chans := by
  unfold retTo; rw [ov_setMode_chans]; rfl
theorem raiseTo_ch (a : ActId) (fs : List (Frame Rat)) (e : ExnId) : (w.raiseTo a fs e).chans = w.chans := by
  unfold raiseTo; rw [ov_setMode_chans]; rfl
theorem raiseNew_ch (a : ActId) (fs : List (Frame Rat)) (c : ExnCls) : (w.raiseNew a fs c).chans = w.chans := by
  unfold raiseNew; dsimp only; rw [raiseTo_ch]; rfl
theorem hibernate_ch (a : ActId) (fs : List (Frame Rat)) : (w.hibernate a fs).chans = w.chans := by
  unfold hibernate; dsimp only; split <;> rfl
theorem doPostpone_ch (a : ActId) (fs : List (Frame Rat)) : (w.doPostpone a fs).chans = w.chans := by
  unfold doPostpone; dsimp only; rw [hibernate_ch, ov_scheduleNow_chans]; rfl
theorem awakeAll_ch (c : CondId) : (w.awakeAll c).chans = w.chans := by
  unfold awakeAll; dsimp only
  have hfold : ∀ (l : List (ActId × SigId)) (w0 : World Rat),
      (l.foldl (fun w (p : ActId × SigId) => w.scheduleNow p.1 (some p.2)) w0).chans = w0.chans := by
    intro l; induction l with
    | nil => intro w0; rfl
    | cons x xs ih => intro w0; rw [List.foldl_cons, ih, ov_scheduleNow_chans]
  rw [hfold]; rfl

theorem cPut_open_chans (a : ActId) (fs : List (Frame Rat)) (c : Name) (v : Int) (h : (w.chans.getD c default).closed = false) :
    (w.execStmt a fs (.cPut c v)).chans =
      w.chans.modify c (fun x => { x with buffers := x.buffers.map (fun (b : Nat × List Int) => (b.1, b.2 ++ [v * 1000 + w.putCount])) }) := by
  simp only [execStmt]; rw [if_neg (by rw [h]; simp)]
  rw [doPostpone_ch, awakeAll_ch]; rfl

theorem cPut_closed_chans (a : ActId) (fs : List (Frame Rat)) (c : Name) (v : Int) (h : (w.chans.getD c default).closed = true) :
    (w.execStmt a fs (.cPut c v)).chans = w.chans := by
  simp only [execStmt]; rw [if_pos h, raiseNew_ch]; rfl

/-- **`Channel.put`** - the action `put`: the message is appended to *every* registered buffer, in place; a closed channel
takes nothing -/
theorem cPut_refines (a : ActId) (fs : List (Frame Rat)) (c : Name) (v : Int) (hc : c < w.chans.size) :
    ((w.execStmt a fs (.cPut c v)).chans.getD c default).buffers =
      visible (USim.Prim.Stream.cstep (w.absChan c) (.put (v * 1000 + w.putCount))) ∧
    ((w.execStmt a fs (.cPut c v)).chans.getD c default).closed =
      (USim.Prim.Stream.cstep (w.absChan c) (.put (v * 1000 + w.putCount))).closed := by
  cases h : (w.chans.getD c default).closed
  · rw [cPut_open_chans w a fs c v h, getD_modify_at _ _ _ hc]
    simp only [USim.Prim.Stream.cstep, absChan, visible, h, Bool.false_eq_true, if_false, List.map_map, and_true]
    apply List.map_congr_left
    intro b _; rfl
  · rw [cPut_closed_chans w a fs c v h]
    simp only [USim.Prim.Stream.cstep, absChan, h, if_true, and_true]
    exact (visible_absChan w c).symm.trans (by simp only [absChan, h])

/-- **an iterating consumer registers** (`Channel.__aiter__` up to its first suspension) - the action `subscribe`: a new, empty
buffer under the next key, at the end of the list; the other buffers are untouched -/
theorem cIter_refines (a : ActId) (fs : List (Frame Rat)) (c : Name) (n : Nat) (body : List (Stmt Rat)) (hc : c < w.chans.size) :
    ((w.execStmt a fs (.cIter c n body)).chans.getD c default).buffers =
      visible (USim.Prim.Stream.cstep (w.absChan c) .subscribe) ∧
    ((w.execStmt a fs (.cIter c n body)).chans.getD c default).nextKey =
      (USim.Prim.Stream.cstep (w.absChan c) .subscribe).nextKey := by
  have e : (w.execStmt a fs (.cIter c n body)).chans =
      w.chans.modify c (fun x => { x with buffers := x.buffers ++ [((w.chans.getD c default).nextKey, [])],
                                          nextKey := (w.chans.getD c default).nextKey + 1 }) := by
    simp only [execStmt]; rw [retTo_ch]; rfl
  rw [e, getD_modify_at _ _ _ hc]
  simp only [USim.Prim.Stream.cstep, absChan, visible, List.map_append, List.map_map, List.map_cons, List.map_nil, and_true]
  congr 1
  rw [vis_comp, List.map_id]

theorem cClose_chans (a : ActId) (fs : List (Frame Rat)) (c : Name) :
    (w.execStmt a fs (.cClose c)).chans =
      if (w.chans.getD c default).closed then w.chans else w.chans.modify c (fun x => { x with closed := true }) := by
  simp only [execStmt]; rw [doPostpone_ch]
  cases h : (w.chans.getD c default).closed
  · simp only [Bool.not_false, if_true, Bool.false_eq_true, if_false]
    rw [awakeAll_ch]; rfl
  · simp only [Bool.not_true, Bool.false_eq_true, if_false, if_true]; rfl

/-- **`Channel.close`** - the action `close`: closed from now on; every buffer is kept (pending messages are still delivered) -/
theorem cClose_refines (a : ActId) (fs : List (Frame Rat)) (c : Name) (hc : c < w.chans.size) :
    ((w.execStmt a fs (.cClose c)).chans.getD c default).buffers = visible (USim.Prim.Stream.cstep (w.absChan c) .close) ∧
    ((w.execStmt a fs (.cClose c)).chans.getD c default).closed = (USim.Prim.Stream.cstep (w.absChan c) .close).closed := by
  have e := cClose_chans w a fs c
  have hv : visible (USim.Prim.Stream.cstep (w.absChan c) .close) = (w.chans.getD c default).buffers := by
    rw [← visible_absChan w c]; rfl
  cases h : (w.chans.getD c default).closed
  · rw [h] at e
    simp only [Bool.false_eq_true, if_false] at e
    rw [e, getD_modify_at _ _ _ hc, hv]
    exact ⟨rfl, rfl⟩
  · rw [h] at e
    simp only [if_true] at e
    rw [e, hv]
    exact ⟨rfl, h⟩

end World
end USim.Machine
