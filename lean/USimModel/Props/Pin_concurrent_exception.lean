import USimModel.Gen.Pins
/-! every definition of `usim/_primitives/concurrent_exception.py` is the one the model was written against (extract/gen_pins.py) -/
namespace USim.Pins

theorem concurrent_exception_as_modelled : USim.Gen.Pins.changed_concurrent_exception = [] := rfl

end USim.Pins
