import USimModel.Gen.Pins
/-! every definition of `usim/_primitives/context.py` is the one the model was written against (extract/gen_pins.py) -/
namespace USim.Pins

theorem context_as_modelled : USim.Gen.Pins.changed_context = [] := rfl

end USim.Pins
