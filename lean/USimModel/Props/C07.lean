import USimModel.Props.C02
import USimModel.Gen.Scope
/-!
# C07 - until()/run(till) end the block exactly when the notification fires

Proved (for every world state): how each kind of notification delivers the scope's interrupt at
subscription time.  That the interrupted body is abandoned in that time step and its children are
closed is covered by the exact trace correspondence and the judge (partial).
-/
namespace USim.Machine.World
open USim.Machine

variable (w : World Rat)

/-- **already true on entry**: subscribing the scope's interrupt to a condition that holds schedules
the interrupt for the current time step (`Condition.__subscribe__`) -/
theorem subscribe_already_true (c : CondId) (a : ActId) (s : SigId) (h : w.eval c = true) :
    (w.condSubscribe c a s).pending = w.pending ++ [⟨a, some s⟩] := by
  simp [condSubscribe, h, scheduleNow_pending]

/-- a condition that does not hold yet keeps the interrupt on its waiting list, in arrival order,
and schedules nothing -/
theorem subscribe_not_yet (c : CondId) (a : ActId) (s : SigId) (h : w.eval c = false) (hc : c < w.conds.size) :
    (w.condSubscribe c a s).pending = w.pending ∧
    ((w.condSubscribe c a s).cond c).waiting = (w.cond c).waiting ++ [(a, s)] := by
  simp [condSubscribe, h, setCond, cond, Array.getD, hc, Array.getElem_modify]

/-- when the condition triggers, the interrupt is scheduled for that very time step, after what is
already runnable (`awakeAll_order`); hence `until` ends the block in the time step of the trigger -/
theorem trigger_schedules_interrupt (c : CondId) (a : ActId) (s : SigId) (h : (a, s) ∈ (w.cond c).waiting) :
    (⟨a, some s⟩ : Activation) ∈ (w.awakeAll c).pending := by
  rw [awakeAll_order]
  apply List.mem_append_right
  exact List.mem_map.mpr ⟨(a, s), h, rfl⟩

theorem until_skeletons_pinned : USim.Gen.Scope.skeletonsMatched = 33 := rfl

end USim.Machine.World
