import USimModel.Prim.Stream
import USimModel.Gen.Stream
/-!
# C11 - Channel broadcasts every message to every subscribed consumer, in order, once
-/
namespace USim.Prim.Stream

def ConsInv (c : Consumer) : Prop := c.delivered ++ c.buffer = c.since

def ChanInv (s : CSt) : Prop := ∀ c ∈ s.consumers, ConsInv c

theorem cstep_inv (s : CSt) (a : CAct) (h : ChanInv s) : ChanInv (cstep s a) := by
  cases a with
  | subscribe =>
    intro c hc
    simp only [cstep, List.mem_append, List.mem_singleton] at hc
    rcases hc with hc | hc
    · exact h c hc
    · subst hc; simp [ConsInv]
  | put x =>
    simp only [cstep]
    split
    · exact h
    · intro c hc
      simp only [List.mem_map] at hc
      obtain ⟨c0, hc0, rfl⟩ := hc
      have := h c0 hc0
      simp only [ConsInv] at this ⊢
      simp [← this]
  | deliver k =>
    intro c hc
    simp only [cstep, List.mem_map] at hc
    obtain ⟨c0, hc0, rfl⟩ := hc
    have := h c0 hc0
    split
    · split
      · exact this
      · rename_i x rest hb
        simp only [ConsInv] at this ⊢
        rw [hb] at this
        simp [← this]
    · exact this
  | leave k =>
    intro c hc
    simp only [cstep, List.mem_filter] at hc
    exact h c hc.1
  | close => exact h

/-- **broadcast**: for every registered consumer, in every reachable state,
(messages delivered to it) ++ (messages buffered for it) = (messages put since it subscribed) -
exactly once, in put order, whatever the other consumers do and however fast they are. -/
theorem broadcast_exact (acts : List CAct) : ChanInv (crun {} acts) := by
  have : ∀ (s : CSt), ChanInv s → ChanInv (crun s acts) := by
    induction acts with
    | nil => intro s h; exact h
    | cons a as ih => intro s h; exact ih _ (cstep_inv s a h)
  exact this {} (by intro c hc; simp at hc)

/-- **isolation**: a consumer taking a message or leaving (normally, cancelled, interrupted, closed)
changes nothing for any other consumer -/
theorem isolation (s : CSt) (j : Nat) (c : Consumer) (hc : c ∈ s.consumers) (hk : c.key ≠ j) :
    c ∈ (cstep s (.deliver j)).consumers ∧ c ∈ (cstep s (.leave j)).consumers := by
  constructor
  · simp only [cstep, List.mem_map]
    exact ⟨c, hc, by simp [hk]⟩
  · simp only [cstep, List.mem_filter]
    exact ⟨hc, by simpa using hk⟩

/-- the first message a consumer gets is the first one put after it subscribed -/
theorem first_after_subscription (c : Consumer) (h : ConsInv c) (x : Int) (rest : List Int)
    (hd : c.delivered = []) (hb : c.buffer = x :: rest) : c.since.head? = some x := by
  simp only [ConsInv, hd, hb, List.nil_append] at h
  simp [← h]

/-- after `close` nothing more is accepted, pending messages stay deliverable -/
theorem put_on_closed (s : CSt) (x : Int) (h : s.closed = true) : cstep s (.put x) = s := by
  simp [cstep, h]

/-- every exit path deregisters exactly the leaving consumer -/
theorem deregister_exact (s : CSt) (k : Nat) :
    ∀ c ∈ (cstep s (.leave k)).consumers, c.key ≠ k ∧ c ∈ s.consumers := by
  intro c hc
  simp only [cstep, List.mem_filter] at hc
  exact ⟨by simpa using hc.2, hc.1⟩

/-! ### tie to `streams.py` -/
theorem tie_cput (s : CSt) (x : Int) : USim.Gen.Stream.channelPut s x = cstep s (.put x) := rfl
theorem tie_cdeliver (s : CSt) (k : Nat) : USim.Gen.Stream.channelDeliver s k = cstep s (.deliver k) := rfl
theorem tie_cleave (s : CSt) (k : Nat) : USim.Gen.Stream.channelLeave s k = cstep s (.leave k) := rfl
theorem tie_cclose (s : CSt) : USim.Gen.Stream.channelClose s = cstep s .close := rfl

example : ((crun {} [.subscribe, .put 1, .subscribe, .put 2, .deliver 0, .leave 1, .put 3, .deliver 0]).consumers.map (·.delivered)) = [[1, 2]] := by decide

end USim.Prim.Stream
