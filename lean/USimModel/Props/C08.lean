import USimModel.Machine.Step
import USimModel.Gen.Tracked
import USimModel.Gen.Timing
/-!
# C08 - derived conditions follow boolean algebra (`&`, `|`, `~`), double inversion, De Morgan

The code builds `~c` structurally (`__invert__` of every condition class, mirrored by
`invertNorm`/`normExpr` of the machine).  Here: for every valuation of the atoms and every
expression tree, the structurally inverted condition evaluates to the negation.
-/
namespace USim.CondAlgebra
open USim.Machine USim.Machine.World TimeLike

/-- a valuation of the atoms -/
structure Valuation where
  flag : Name → Bool
  time : Rat
  done : Name → Bool
  tracked : Name → Int
  levels : Name → List Int
  named : Name → Bool := fun _ => false

mutual
/-- truth of an expression: atoms by their values, `all`/`any`/`inv` as and/or/not -/
def evalE (v : Valuation) : CExpr Rat → Bool
  | .flag f => v.flag f
  | .after t => decide (t ≤ v.time)
  | .before t => decide (v.time < t)
  | .moment t => v.time == t
  | .eternity => false
  | .instant => true
  | .done t => v.done t
  | .all cs => evalAll v cs
  | .any cs => evalAny v cs
  | .inv c => !(evalE v c)
  | .tracked x op k => cmpOp op (v.tracked x) k
  | .tracked2 x op y => cmpOp op (v.tracked x) (v.tracked y)
  | .resLevel r op k => vecCmp op (v.levels r) k
  | .ref n => v.named n
  | .delay _ => true
  | .andOp a b => evalE v a && evalE v b
  | .orOp a b => evalE v a || evalE v b
def evalAll (v : Valuation) : List (CExpr Rat) → Bool
  | [] => true
  | c :: cs => evalE v c && evalAll v cs
def evalAny (v : Valuation) : List (CExpr Rat) → Bool
  | [] => false
  | c :: cs => evalE v c || evalAny v cs
end

mutual
/-- no comparison of multi-component resource levels inside -/
def scalarOnly : CExpr Rat → Bool
  | .resLevel _ _ _ => false
  | .tracked _ op _ => decide (op < 6)
  | .tracked2 _ op _ => decide (op < 6)
  | .all cs => scalarOnlyL cs
  | .any cs => scalarOnlyL cs
  | .inv c => scalarOnly c
  | _ => true
def scalarOnlyL : List (CExpr Rat) → Bool
  | [] => true
  | c :: cs => scalarOnly c && scalarOnlyL cs
end

/-- the operator table of `AsyncComparison._operator_inverse`, as used by the machine -/
def invOp (op : Nat) : Nat := match op with | 0 => 4 | 4 => 0 | 5 => 1 | 1 => 5 | 2 => 3 | _ => 2

/-- **tie**: the machine's table is the one regenerated from `tracked.py` -/
theorem op_table_tie : ∀ op, op < 6 → invOp op = USim.Gen.Tracked.operatorInverse op := by
  intro op h
  have : op = 0 ∨ op = 1 ∨ op = 2 ∨ op = 3 ∨ op = 4 ∨ op = 5 := by omega
  rcases this with rfl | rfl | rfl | rfl | rfl | rfl <;> rfl

/-- inverting the operator negates a comparison of scalars (a total order) -/
theorem cmp_inverse_negates (op : Nat) (hop : op < 6) (a b : Int) : cmpOp (invOp op) a b = !cmpOp op a b := by
  rcases op with _ | _ | _ | _ | _ | _ | n
  all_goals simp only [invOp, cmpOp]
  · by_cases h : a < b <;> simp [h] <;> omega
  · by_cases h : a ≤ b <;> simp [h] <;> omega
  · cases hh : (a == b) <;> simp [bne, hh]
  · cases hh : (a == b) <;> simp [bne, hh]
  · by_cases h : a < b <;> simp [h] <;> omega
  · by_cases h : a ≤ b <;> simp [h] <;> omega
  · omega

mutual
/-- **`~c` is "not c"** for every expression without multi-component level comparisons, for every
valuation: flags, task completion, time conditions, tracked comparisons, and connectives of any
depth (**De Morgan**: `~(a & b) = ~a | ~b`, `~(a | b) = ~a & ~b`) -/
theorem invert_negates (v : Valuation) : (c c' : CExpr Rat) → scalarOnly c = true → invertNorm c = some c' →
    evalE v c' = !evalE v c
  | .flag f, c', _, h => by simp [invertNorm] at h; subst h; simp [evalE]
  | .done t, c', _, h => by simp [invertNorm] at h; subst h; simp [evalE]
  | .inv (.flag f), c', _, h => by simp [invertNorm] at h; subst h; simp [evalE]
  | .inv (.done t), c', _, h => by simp [invertNorm] at h; subst h; simp [evalE]
  | .inv (.after _), _, _, h => by simp [invertNorm] at h
  | .inv (.before _), _, _, h => by simp [invertNorm] at h
  | .inv (.moment _), _, _, h => by simp [invertNorm] at h
  | .inv .eternity, _, _, h => by simp [invertNorm] at h
  | .inv .instant, _, _, h => by simp [invertNorm] at h
  | .inv (.all _), _, _, h => by simp [invertNorm] at h
  | .inv (.any _), _, _, h => by simp [invertNorm] at h
  | .inv (.inv _), _, _, h => by simp [invertNorm] at h
  | .inv (.tracked _ _ _), _, _, h => by simp [invertNorm] at h
  | .inv (.resLevel _ _ _), _, _, h => by simp [invertNorm] at h
  | .inv (.tracked2 _ _ _), _, _, h => by simp [invertNorm] at h
  | .inv (.ref _), _, _, h => by simp [invertNorm] at h
  | .inv (.delay _), _, _, h => by simp [invertNorm] at h
  | .inv (.andOp ..), _, _, h => by simp [invertNorm] at h
  | .inv (.orOp ..), _, _, h => by simp [invertNorm] at h
  | .ref _, _, _, h => by simp [invertNorm] at h
  | .delay _, _, _, h => by simp [invertNorm] at h
  | .andOp .., _, _, h => by simp [invertNorm] at h
  | .orOp .., _, _, h => by simp [invertNorm] at h
  | .after t, c', _, h => by
      simp [invertNorm] at h; subst h
      simp only [evalE]
      by_cases hh : t ≤ v.time
      · have : ¬ v.time < t := by grind
        simp [hh, this]
      · have : v.time < t := by grind
        simp [hh, this]
  | .before t, c', _, h => by
      simp [invertNorm] at h; subst h
      simp only [evalE]
      by_cases hh : t ≤ v.time
      · have : ¬ v.time < t := by grind
        simp [hh, this]
      · have : v.time < t := by grind
        simp [hh, this]
  | .moment _, _, _, h => by simp [invertNorm] at h
  | .eternity, c', _, h => by simp [invertNorm] at h; subst h; simp [evalE]
  | .instant, c', _, h => by simp [invertNorm] at h; subst h; simp [evalE]
  | .all cs, c', hs, h => by
      simp only [invertNorm, Option.map_eq_some_iff] at h
      obtain ⟨cs', hcs, rfl⟩ := h
      simp only [evalE]
      exact invert_all v cs cs' (by simpa [scalarOnly] using hs) hcs
  | .any cs, c', hs, h => by
      simp only [invertNorm, Option.map_eq_some_iff] at h
      obtain ⟨cs', hcs, rfl⟩ := h
      simp only [evalE]
      exact invert_any v cs cs' (by simpa [scalarOnly] using hs) hcs
  | .tracked x op k, c', hs, h => by
      simp only [invertNorm, Option.some.injEq] at h; subst h
      simp only [evalE]
      exact cmp_inverse_negates op (by simpa [scalarOnly] using hs) _ _
  | .tracked2 x op y, c', hs, h => by
      simp only [invertNorm, Option.some.injEq] at h; subst h
      simp only [evalE]
      exact cmp_inverse_negates op (by simpa [scalarOnly] using hs) _ _
  | .resLevel _ _ _, _, hs, _ => by simp [scalarOnly] at hs
theorem invert_all (v : Valuation) : (cs cs' : List (CExpr Rat)) → scalarOnlyL cs = true → invertNorms cs = some cs' →
    evalAny v cs' = !evalAll v cs
  | [], cs', _, h => by simp [invertNorms] at h; subst h; simp [evalAny, evalAll]
  | c :: cs, cs', hs, h => by
      simp only [invertNorms, Option.bind_eq_some_iff, Option.map_eq_some_iff] at h
      obtain ⟨c1, hc1, rest, hrest, rfl⟩ := h
      simp only [scalarOnlyL, Bool.and_eq_true] at hs
      simp only [evalAny, evalAll, invert_negates v c c1 hs.1 hc1, invert_all v cs rest hs.2 hrest, Bool.not_and]
theorem invert_any (v : Valuation) : (cs cs' : List (CExpr Rat)) → scalarOnlyL cs = true → invertNorms cs = some cs' →
    evalAll v cs' = !evalAny v cs
  | [], cs', _, h => by simp [invertNorms] at h; subst h; simp [evalAny, evalAll]
  | c :: cs, cs', hs, h => by
      simp only [invertNorms, Option.bind_eq_some_iff, Option.map_eq_some_iff] at h
      obtain ⟨c1, hc1, rest, hrest, rfl⟩ := h
      simp only [scalarOnlyL, Bool.and_eq_true] at hs
      simp only [evalAny, evalAll, invert_negates v c c1 hs.1 hc1, invert_any v cs rest hs.2 hrest, Bool.not_or]
end

/-- The same statement for comparisons of multi-component resource levels is **false** on the
unchanged code (finding F13): `~(levels >= x)` is built as `levels < x`, and elementwise `<` is not
the negation of elementwise `>=` - both are false for levels (1, 5) against (2, 2). -/
theorem invert_reslevel_not_negation :
    ∃ (v : Valuation) (c c' : CExpr Rat), invertNorm c = some c' ∧ evalE v c = false ∧ evalE v c' = false := by
  refine ⟨⟨fun _ => false, 0, fun _ => false, fun _ => 0, fun _ => [1, 5], fun _ => false⟩, .resLevel 0 4 [2, 2], .resLevel 0 0 [2, 2], rfl, ?_, ?_⟩ <;>
    decide

/-- **double inversion** and the `&`/`|` readings are definitional in `evalE` -/
theorem eval_and (v : Valuation) (a b : CExpr Rat) : evalE v (.all [a, b]) = (evalE v a && evalE v b) := by
  simp [evalE, evalAll]
theorem eval_or (v : Valuation) (a b : CExpr Rat) : evalE v (.any [a, b]) = (evalE v a || evalE v b) := by
  simp [evalE, evalAny]
theorem double_inversion (v : Valuation) (c : CExpr Rat) : evalE v (.inv (.inv c)) = evalE v c := by
  simp [evalE]

theorem condition_skeletons_pinned : USim.Gen.Timing.skeletonsMatched = 48 ∧ USim.Gen.Tracked.skeletonsMatched = 10 := ⟨rfl, rfl⟩

end USim.CondAlgebra
