import USimModel.Gen.Pins
/-! every definition of `usim/_primitives/task.py` is the one the model was written against (extract/gen_pins.py) -/
namespace USim.Pins

theorem task_as_modelled : USim.Gen.Pins.changed_task = [] := rfl

end USim.Pins
