import USimModel.Gen.Pins
/-! every definition of `usim/py/events.py` is the one the model was written against (extract/gen_pins.py) -/
namespace USim.Pins

theorem py_events_as_modelled : USim.Gen.Pins.changed_py_events = [] := rfl

end USim.Pins
