import USimModel.Lemmas.OStep
/-!
# What a scope records as a failure of a child (C05) - for every world

`Concurrent` is built from the list `failures` of the scope (`propagateExceptions`; its content is characterised in
`Props/C05.lean`, its history in `Props/MachineObjects.lean: failures_append_only`).  Here: **what gets into that list**.
`childFinished t failed` is the machine's `Scope.__child_finished__`; the end of a task's payload calls it with `failed = true`
exactly when the payload ended with an exception that is neither a forceful close (`GeneratorExit`) nor the task's own
`CancelTask` - "it never contains cancellations, closures, internal signals".
-/
set_option linter.unusedVariables false
set_option linter.unusedSimpArgs false
namespace USim.Machine
open TimeLike USim.Prim.Kernel
namespace World
variable (w : World Rat)

theorem getD_modify_sc {α} [Inhabited α] (a : Array α) (i : Nat) (f : α → α) (h : i < a.size) :
    (a.modify i f).getD i default = f (a.getD i default) := by
  rw [Array.getD_eq_getD_getElem?, Array.getD_eq_getD_getElem?, Array.getElem?_modify]
  simp [h]

theorem getD_modify_failures (a : Array Scope) (i j : Nat) (f : Scope → Scope) (hf : ∀ x, (f x).failures = x.failures) :
    ((a.modify i f).getD j default).failures = (a.getD j default).failures := by
  rw [Array.getD_eq_getD_getElem?, Array.getD_eq_getD_getElem?, Array.getElem?_modify]
  by_cases h : i = j
  · subst h
    cases hq : a[i]? with
    | none => simp [hq]
    | some x => simp [hq, hf]
  · simp [h]

/-- **a child that did not fail adds nothing** to the failures of its scope (success, cancellation, closure) -/
theorem childFinished_ok_records_nothing (t : TaskId) (s : ScopeId) :
    ((w.childFinished t false).scope s).failures = (w.scope s).failures := by
  unfold childFinished
  simp only [Bool.false_eq_true, if_false]
  split
  · show (((World.scopes _).modify _ _).getD _ default).failures = _
    apply getD_modify_failures; intro x; rfl
  · show (((World.scopes _).modify _ _).getD _ default).failures = _
    apply getD_modify_failures; intro x; rfl

/-- **a failed child adds exactly its exception object, at the end** of the failures of its own scope -/
theorem childFinished_failed_records (t : TaskId) (v : Int) (e : ExnId) (hr : (w.task t).result = some (v, some e))
    (hs : (w.task t).parent < w.scopes.size) :
    ((w.childFinished t true).scope (w.task t).parent).failures = (w.scope (w.task t).parent).failures ++ [e] := by
  unfold childFinished
  simp only [if_true, hr]
  -- telling the scope to cancel itself schedules a wake-up and leaves the table of scopes alone
  generalize hX : (if (w.scope (w.task t).parent).interruptable = true then
      match (w.scope (w.task t).parent).activity with
      | some act => w.scheduleNow act (some (w.scope (w.task t).parent).cancelSelf)
      | none => w
    else w) = X
  have hXs : X.scopes = w.scopes := by
    rw [← hX]
    split
    · split
      · exact ov_scheduleNow_scopes _ _ _
      · rfl
    · rfl
  have hsc : ((X.setScope (w.task t).parent (fun x => { x with failures := x.failures ++ [e] })).scope (w.task t).parent).failures =
      (w.scope (w.task t).parent).failures ++ [e] := by
    show ((X.scopes.modify _ _).getD _ default).failures = _
    rw [hXs, getD_modify_sc _ _ _ hs]; rfl
  split
  · refine Eq.trans ?_ hsc
    show (((World.scopes _).modify _ _).getD _ default).failures = _
    apply getD_modify_failures; intro x; rfl
  · refine Eq.trans ?_ hsc
    show (((World.scopes _).modify _ _).getD _ default).failures = _
    apply getD_modify_failures; intro x; rfl

end World
end USim.Machine
