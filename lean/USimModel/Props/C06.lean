import USimModel.Prim.Task
import USimModel.Gen.Scope
/-!
# C06 - task lifecycle: forward-only status, stable result, precise cancellation
(for every sequence of start / finish / cancel / cancel-delivery / swallowed cancellation / close / end-of-clean-up actions)
-/
namespace USim.Prim.Task

theorem isSome_step (s : TaskSt) (a : Act) (h : s.result.isSome = true) : (step s a).result.isSome = true := by
  cases a <;> simp only [step, finalize]
  all_goals (repeat' split) <;> simp_all

theorem started_step (s : TaskSt) (a : Act) (h : s.runner ≠ .created) : (step s a).runner ≠ .created := by
  cases a <;> simp only [step, finalize]
  all_goals (repeat' split) <;> simp_all

/-- **status only moves forward** -/
theorem status_forward (s : TaskSt) (a : Act) : rank s ≤ rank (step s a) := by
  unfold rank
  cases hr : s.result with
  | some r =>
    have h := isSome_step s a (by rw [hr]; rfl)
    cases hr' : (step s a).result with
    | some r' => exact Nat.le_refl 2
    | none => rw [hr'] at h; cases h
  | none =>
    cases hr' : (step s a).result with
    | some r' => simp only; split <;> decide
    | none =>
      simp only
      by_cases hc : s.runner = .created
      · rw [if_pos hc]; exact Nat.zero_le _
      · rw [if_neg hc, if_neg (started_step s a hc)]; exact Nat.le_refl 1

/-- what every reachable state satisfies: a task that is done has an outcome, is not running and is not being closed;
a task that is being closed has the closure stored and is running its clean-up; a finished coroutine left an outcome -/
def DoneOk (s : TaskSt) : Prop :=
  (s.done = true → s.result.isSome = true ∧ s.runner ≠ .running ∧ s.closing = false) ∧
  (s.closing = true → s.result.isSome = true ∧ s.runner = .running) ∧
  (s.runner = .finished → s.result.isSome = true)

instance (s : TaskSt) : Decidable (DoneOk s) := by unfold DoneOk; infer_instance

theorem doneOk_step (s : TaskSt) (a : Act) (h : DoneOk s) : DoneOk (step s a) := by
  unfold DoneOk at *
  cases a <;> simp only [step, finalize]
  all_goals (repeat' split) <;> simp_all
  cases hr : s.runner <;> simp_all

/-- **the outcome never changes once the task is done** (`done` is what awaiters wait for) -/
theorem result_write_once (s : TaskSt) (a : Act) (r : Result) (hd : DoneOk s) (h0 : s.done = true) (h : s.result = some r) :
    (step s a).result = some r ∧ (step s a).done = true := by
  have k := hd.1 h0
  cases a <;> simp only [step, finalize]
  all_goals (repeat' split) <;> simp_all

theorem result_stable (acts : List Act) (s : TaskSt) (r : Result) (hd : DoneOk s) (h0 : s.done = true) (h : s.result = some r) :
    (run s acts).result = some r := by
  induction acts generalizing s with
  | nil => exact h
  | cons a as ih =>
    have k := result_write_once s a r hd h0 h
    exact ih _ (doneOk_step s a hd) k.2 k.1

/-- ... for every history from the initial state: whatever the outcome is at a moment at which `done` is set, it is the
outcome after every continuation -/
theorem result_stable_from_init (pre post : List Act) (r : Result) (h0 : (run {} pre).done = true)
    (h : (run {} pre).result = some r) : (run {} (pre ++ post)).result = some r := by
  have inv : ∀ (l : List Act) (s : TaskSt), DoneOk s → DoneOk (run s l) := by
    intro l
    induction l with
    | nil => intro s h; exact h
    | cons a as ih => intro s h; exact ih _ (doneOk_step s a h)
  have e : run {} (pre ++ post) = run (run {} pre) post := by simp [run, List.foldl_append]
  rw [e]
  exact result_stable post _ r (inv pre {} (by decide)) h0 h

/-- the stored outcome is **not** stable before `done` is set: between `Task.__close__` storing the closure and the end
of the payload's clean-up, a clean-up that raises (or returns) replaces it - `Task.status` reads CANCELLED, then FAILED
(finding F18; the same history replays on the implementation, `harness/c06.py: closed_cleanup`) -/
theorem result_overwritten_while_closing :
    (run {} [.start, .close]).result = some .closed ∧ (run {} [.start, .close]).done = false ∧
    (run {} [.start, .close, .finishError 1]).result = some (.failed 1) := by decide

/-- without that window the stored outcome never changes: for every action that is not the end of a payload that is
being closed -/
theorem result_write_once_partial (s : TaskSt) (a : Act) (r : Result) (h : s.result = some r) (hc : s.closing = false) :
    (step s a).result = some r := by
  cases a <;> simp only [step, finalize]
  all_goals (repeat' split) <;> simp_all

/-- **cancel before start prevents any of its code from running** -/
theorem cancel_created_runs_nothing (acts : List Act) (tok : Int) :
    (run (step {} (.cancel tok)) acts).payloadRan = false ∧
    (run (step {} (.cancel tok)) acts).result = some (.cancelled tok) := by
  have inv : ∀ (s : TaskSt), s.result.isSome → s.payloadRan = false → ∀ a, (step s a).payloadRan = false := by
    intro s hr hp a
    cases a <;> simp only [step, finalize]
    all_goals (repeat' split) <;> simp_all
  have inv2 : ∀ (s : TaskSt), s.result.isSome → ∀ a, (step s a).result.isSome := fun s hr a => isSome_step s a hr
  have hres := result_stable acts (step {} (.cancel tok)) (.cancelled tok) (by simp [DoneOk, step]) (by simp [step]) (by simp [step])
  refine ⟨?_, hres⟩
  have : ∀ (acts : List Act) (s : TaskSt), s.result.isSome → s.payloadRan = false → (run s acts).payloadRan = false := by
    intro acts
    induction acts with
    | nil => intro s _ hp; exact hp
    | cons a as ih =>
      intro s hr hp
      apply ih
      · exact inv2 s hr a
      · exact inv s hr hp a
  exact this acts _ (by simp [step]) (by simp [step])

/-- **cancelling a finished task does nothing** -/
theorem cancel_finished_noop (s : TaskSt) (tok : Int) (h : s.result.isSome) : step s (.cancel tok) = s := by
  simp [step, h]

/-- **cancelling a running task**: the token is what awaiters will see if the cancellation is
delivered before the payload ends by itself -/
theorem cancel_suspended (s : TaskSt) (tok : Int) (h1 : s.runner = .running) (h2 : s.result = none)
    (h3 : s.pendingCancels = []) :
    (step (step s (.cancel tok)) .deliverCancel).result = some (.cancelled tok) ∧
    (step (step s (.cancel tok)) .deliverCancel).done = true := by
  simp [step, h1, h2, h3, finalize]

/-- a done task has a result (awaiters never see "no outcome") -/
theorem done_has_result (acts : List Act) : (run {} acts).done = true → (run {} acts).result.isSome := by
  have inv : ∀ (l : List Act) (s : TaskSt), DoneOk s → DoneOk (run s l) := by
    intro l
    induction l with
    | nil => intro s h; exact h
    | cons a as ih => intro s h; exact ih _ (doneOk_step s a h)
  intro h
  exact ((inv acts {} (by decide)).1 h).1

/-- the task/scope skeletons (`payload_wrapper`, `cancel`, `__close__`, `status`, ...) are pinned -/
theorem task_skeletons_pinned : USim.Gen.Scope.skeletonsMatched = 33 := rfl

example : (run {} [.start, .cancel 7, .cancel 8, .deliverCancel, .deliverCancel, .close]).result = some (.cancelled 7) := by decide
example : (run {} [.start, .cancel 7, .cancel 8, .swallowCancel, .deliverCancel, .close]).result = some (.cancelled 8) := by decide
example : DoneOk (run {} [.start, .close, .cleanupDone]) ∧ (run {} [.start, .close, .cleanupDone]).done = true := by decide

end USim.Prim.Task
