import USimModel.Prim.Task
import USimModel.Gen.Scope
/-!
# C06 - task lifecycle: forward-only status, stable result, precise cancellation
(for every sequence of start / finish / cancel / cancel-delivery / close actions)
-/
namespace USim.Prim.Task

/-- **status only moves forward** -/
theorem status_forward (s : TaskSt) (a : Act) : rank s ≤ rank (step s a) := by
  cases a <;> simp only [step, rank, finalize]
  all_goals (repeat' split) <;> simp_all

/-- **the outcome never changes once set** -/
theorem result_write_once (s : TaskSt) (a : Act) (r : Result) (h : s.result = some r) :
    (step s a).result = some r := by
  cases a <;> simp only [step, finalize]
  all_goals (repeat' split) <;> simp_all

theorem result_stable (acts : List Act) (s : TaskSt) (r : Result) (h : s.result = some r) :
    (run s acts).result = some r := by
  induction acts generalizing s with
  | nil => exact h
  | cons a as ih => exact ih _ (result_write_once s a r h)

/-- **cancel before start prevents any of its code from running** -/
theorem cancel_created_runs_nothing (acts : List Act) (tok : Int) :
    (run (step {} (.cancel tok)) acts).payloadRan = false ∧
    (run (step {} (.cancel tok)) acts).result = some (.cancelled tok) := by
  have inv : ∀ (s : TaskSt), s.result.isSome → s.payloadRan = false → ∀ a, (step s a).payloadRan = false := by
    intro s hr hp a
    cases a <;> simp only [step, finalize]
    all_goals (repeat' split) <;> simp_all
  have hres := result_stable acts (step {} (.cancel tok)) (.cancelled tok) (by simp [step])
  refine ⟨?_, hres⟩
  have : ∀ (acts : List Act) (s : TaskSt), s.result.isSome → s.payloadRan = false → (run s acts).payloadRan = false := by
    intro acts
    induction acts with
    | nil => intro s _ hp; exact hp
    | cons a as ih =>
      intro s hr hp
      apply ih
      · cases hr' : s.result with
        | none => simp [hr'] at hr
        | some r => simp [result_write_once s a r hr']
      · exact inv s hr hp a
  exact this acts _ (by simp [step]) (by simp [step])

/-- **cancelling a finished task does nothing** -/
theorem cancel_finished_noop (s : TaskSt) (tok : Int) (h : s.result.isSome) : step s (.cancel tok) = s := by
  simp [step, h]

/-- **cancelling a running task**: the token is what awaiters will see if the cancellation is
delivered before the payload ends by itself -/
theorem cancel_suspended (s : TaskSt) (tok : Int) (h1 : s.runner = .running) (h2 : s.result = none)
    (h3 : s.pendingCancels = []) :
    (step (step s (.cancel tok)) .deliverCancel).result = some (.cancelled tok) ∧
    (step (step s (.cancel tok)) .deliverCancel).done = true := by
  simp [step, h1, h2, h3, finalize]

/-- a done task has a result (awaiters never see "no outcome") -/
theorem done_has_result (acts : List Act) : (run {} acts).done = true → (run {} acts).result.isSome := by
  have : ∀ (acts : List Act) (s : TaskSt), (s.done = true → s.result.isSome) → ((run s acts).done = true → (run s acts).result.isSome) := by
    intro acts
    induction acts with
    | nil => intro s h; exact h
    | cons a as ih =>
      intro s h
      apply ih
      cases a <;> simp only [step, finalize]
      all_goals (repeat' split) <;> simp_all
  exact this acts {} (by simp)

/-- the task/scope skeletons (`payload_wrapper`, `cancel`, `__close__`, `status`, ...) are pinned -/
theorem task_skeletons_pinned : USim.Gen.Scope.skeletonsMatched = 33 := rfl

example : (run {} [.start, .cancel 7, .cancel 8, .deliverCancel, .deliverCancel, .close]).result = some (.cancelled 7) := by decide

end USim.Prim.Task
