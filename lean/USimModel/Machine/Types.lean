/-
The executable whole-machine model of μSim: kernel + activities as frame stacks.

`Types.lean` - data: time class, script language (what "for every program" ranges over),
exceptions, frames, world state.  Everything here is core Lean (no Mathlib) so that the driver can
be compiled natively.
-/
namespace USim.Machine

/-! ### Time -/

/-- arithmetic the kernel and the primitives need; instances: `Rat` (exact - all theorems) and
`Float` (IEEE binary64 - only used by the driver to reproduce CPython's float results) -/
class TimeLike (τ : Type) where
  zero : τ
  add : τ → τ → τ
  sub : τ → τ → τ
  mul : τ → τ → τ
  div : τ → τ → τ
  lt : τ → τ → Bool
  beq : τ → τ → Bool
  ofInt : Int → τ
  repr : τ → String
  /-- for traces: numerator/denominator (floats: bit pattern, 0) -/
  toPair : τ → Int × Int
  /-- Python's builtin `sum(values)` (start `0`) -/
  sum : List τ → τ

namespace TimeLike
variable {τ : Type} [TimeLike τ]
def le (a b : τ) : Bool := lt a b || beq a b
def gt (a b : τ) : Bool := lt b a
def ge (a b : τ) : Bool := le b a
end TimeLike

instance : TimeLike Rat where
  zero := 0
  add := (· + ·)
  sub := (· - ·)
  mul := (· * ·)
  div := (· / ·)
  lt a b := decide (a < b)
  beq a b := a == b
  ofInt i := (i : Rat)
  repr r := if r.den = 1 then toString r.num else s!"{r.num}/{r.den}"
  toPair r := (r.num, r.den)
  sum l := l.foldl (· + ·) 0

/-- CPython >= 3.12 `sum()` over floats (bltinmodule.c): Neumaier's compensated summation; the
first float is added to the integer start value exactly -/
def pySumFloat : List Float → Float
  | [] => 0
  | x :: xs =>
    let rec go : List Float → Float → Float → Float
      | [], f, c => if c != 0 && c.isFinite then f + c else f
      | y :: ys, f, c =>
        let t := f + y
        let c := if f.abs >= y.abs then c + ((f - t) + y) else c + ((y - t) + f)
        go ys t c
    go xs x 0

instance : TimeLike Float where
  zero := 0
  add := (· + ·)
  sub := (· - ·)
  mul := (· * ·)
  div := (· / ·)
  lt a b := a < b
  beq a b := a == b
  ofInt i := Float.ofInt i
  repr f := toString f.toBits
  toPair f := (f.toBits.toNat, 0)
  sum := pySumFloat

abbrev ActId := Nat
abbrev SigId := Nat
abbrev CondId := Nat
abbrev TaskId := Nat
abbrev ScopeId := Nat
abbrev ExnId := Nat
abbrev Name := Nat

/-! ### Script language -/

/-- condition expressions as the program writes them -/
inductive CExpr (τ : Type) where
  | flag (f : Name)                 -- a declared `Flag`
  | after (t : τ)                   -- `time >= t`
  | before (t : τ)                  -- `time < t`
  | moment (t : τ)                  -- `time == t`
  | eternity | instant
  | done (task : Name)              -- `task.done`
  | all (cs : List (CExpr τ))       -- `a & b & ..`
  | any (cs : List (CExpr τ))       -- `a | b | ..`
  | inv (c : CExpr τ)               -- `~c`
  | tracked (x : Name) (op : Nat) (v : Int)   -- `tracked <op> v`  (0 <, 1 <=, 2 ==, 3 !=, 4 >=, 5 >)
  | tracked2 (x : Name) (op : Nat) (y : Name)  -- `tracked_x <op> tracked_y`
  | resLevel (r : Name) (op : Nat) (amounts : List Int)   -- `resources <op> {..}`
  | ref (n : Name)                  -- a condition object bound to a program variable earlier (`defCond`)
  | delay (d : τ)                   -- `time + d` kept as an object (a `Delay` notification: every wait counts from its own start)
  | andOp (a b : CExpr τ)           -- `a & b` through the operators (`Condition.__and__` / `All.__and__`: an `All` operand is spread)
  | orOp (a b : CExpr τ)            -- `a | b` through the operators (`Condition.__or__` / `Any.__or__`)
  deriving Inhabited

/-- what `until(..)` listens to -/
inductive NExpr (τ : Type) where
  | cond (c : CExpr τ)
  | delay (d : τ)                   -- `time + d` (d > 0)
  deriving Inhabited

/-! ### The SimPy compatibility layer (`usim.py`): generator code of processes -/

/-- what `env.run(until=..)` / `env.until(..)` is given -/
inductive PyUntil (τ : Type) where
  | none | time (t : τ) | event (x : Name)
  deriving Inhabited

/-- the code of a SimPy process generator (and of set-up code / native activities using the SimPy
API), one instruction per statement; events live in variables `x` shared by the environment -/
inductive PyInstr (τ : Type) where
  | log (k : Int)
  | newEvent (x : Name)                                   -- `x = env.event()`
  | newTimeout (x : Name) (d : τ) (v : Int)               -- `x = env.timeout(d, v)`
  | newProc (x : Name) (code : List (PyInstr τ))          -- `x = env.process(gen(env))`
  | newCond (x : Name) (isAll : Bool) (members : List Name)   -- `x = env.all_of([..])` / `env.any_of([..])`
  | succeed (x : Name) (v : Int)                          -- `x.succeed(v)` (RuntimeError is caught and logged)
  | fail (x : Name) (cls : Nat)                           -- `x.fail(Exc())`
  | trigger (x y : Name)                                  -- `x.trigger(y)`
  | interrupt (x : Name) (cause : Int)                    -- `x.interrupt(cause)`
  | addCallback (x : Name) (k : Int)                      -- `x.callbacks.append(log k)` if not yet processed
  | probe (x : Name)                                      -- log triggered / processed / ok / value
  | yieldEv (x : Name) (catching : Bool)                     -- `r = yield x`; an exception is logged and, if `catch`, handled
  | yieldTimeout (d : τ) (v : Int) (catching : Bool)         -- `r = yield env.timeout(d, v)`
  | yieldNative (n : NExpr τ) (catching : Bool)              -- `r = yield <usim notification>`
  /-- `r = yield coro()` for a native coroutine `await (time + d); return v` / `raise Exc()` -/
  | yieldCoro (d : τ) (v : Int) (failCls : Option Nat) (catching : Bool)
  | ret (v : Int)
  | raise (cls : Nat)
  deriving Inhabited

/-- exception patterns of a handler -/
inductive Pat where
  | user (cls : Nat)                -- `except <class>` of the program's hierarchy
  | concurrent                      -- bare `Concurrent`
  | taskCancelled | taskClosed | streamClosed | resUnavailable | intervalExceeded | scopeClosed
  | anyException                    -- `except Exception`
  | cancelTask                      -- `except CancelTask`: the payload reacts to (or swallows) its own cancellation
  deriving Inhabited, BEq, Repr

inductive Stmt (τ : Type) where
  | log (k : Int)
  | logNow
  | logCond (c : CExpr τ)                            -- probe: `bool(c)` against the boolean-algebra reading
  | defCond (n : Name) (c : CExpr τ)                 -- `x = <condition expression>`: one object shared by several activities
  | sleep (d : τ)                                    -- `await (time + d)`
  | awaitC (c : CExpr τ)
  | setFlag (f : Name) (b : Bool)
  | scope (name : Name) (untilN : Option (NExpr τ)) (body : List (Stmt τ))
  | spawn (scope : Name) (task : Name) (prog : List (Stmt τ)) (after : Option τ) (at_ : Option τ) (volatile : Bool)
  /-- library: `scope.do(activity)` for a root activity of `usim.run(.., till=T)`: the task's code is the program's
  root activity number `idx` -/
  | spawnRoot (scope : Name) (idx : Nat) (prog : List (Stmt τ))
  | cancel (task : Name) (tok : Int)
  | awaitTask (task : Name)
  | awaitScope (scope : Name)
  | logStatus (task : Name)
  | raise (cls : Nat)
  | tryCatch (body : List (Stmt τ)) (handlers : List (List Pat × List (Stmt τ)))
  | tryFinally (body : List (Stmt τ)) (cleanup : List (Stmt τ))
  | ret (v : Int)                                    -- `return v` from the coroutine
  -- locks
  | withLock (l : Name) (body : List (Stmt τ))
  | logAvail (l : Name)
  -- streams
  | qPut (q : Name) (v : Int) | qGet (q : Name) | qClose (q : Name) | qIter (q : Name) (maxItems : Nat) (body : List (Stmt τ))
  | cPut (c : Name) (v : Int) | cGet (c : Name) | cClose (c : Name) | cIter (c : Name) (maxItems : Nat) (body : List (Stmt τ))
  -- tracked values / resources
  | setTracked (x : Name) (v : Int) | addTracked (x : Name) (v : Int)
  | borrow (r : Name) (amounts : List Int) (bind : Name) (body : List (Stmt τ))
  | claim (r : Name) (amounts : List Int) (bind : Name) (body : List (Stmt τ))
  | resChange (r : Name) (kind : Nat) (amounts : List Int)     -- 0 increase, 1 decrease, 2 set
  | logLevels (r : Name)
  | resPool (order : List Nat)                       -- a throw-away `Resources(**{names in that order})`: logs the order in which its levels iterate
  -- pipe / tickers
  | transfer (p : Name) (total : τ) (throughput : Option τ)
  | interval (period : τ) (maxIter : Nat) (body : List (Stmt τ))
  | delayIter (period : τ) (maxIter : Nat) (body : List (Stmt τ))
  -- flow
  | collect (progs : List (List (Stmt τ)))
  /-- `async for winner in first(*progs, count=count): body` - leaving the loop with `break`
  after `brk` results if given -/
  | first (progs : List (List (Stmt τ))) (count : Option Nat) (brk : Option Nat) (body : List (Stmt τ))
  | monitor (prog : List (Stmt τ)) (q : Name)        -- library: `_first_monitor(contestant, queue)`
  | firstLoop (q : Name) (count : Nat) (brk : Option Nat) (body : List (Stmt τ))   -- library: the `islice` loop of `first`
  | nestedRun (progs : List (List (Stmt τ))) (start : τ)       -- `usim.run(...)` called from inside an activity
  -- usim.py: program level
  | pyUntil (initial : τ) (untilWhat : PyUntil τ) (setup : List (PyInstr τ))   -- `env = Environment(initial); <setup>; await env.until(until)`
  | pyWith (initial : τ) (setup : List (PyInstr τ)) (body : List (Stmt τ)) -- `<setup>; async with env: <body>`
  | pyDo (i : PyInstr τ)                                      -- a (synchronous) SimPy API call made by a native activity
  | pyAwait (x : Name)                                        -- `await x` by a native activity
  -- usim.py: library coroutines (never written by programs)
  | pyStartup                                                 -- `Environment.__aenter__` after entering its scope
  | pyUntilBody (untilWhat : PyUntil τ)
  | pyRunPayload (p : Nat)                                    -- `Process._run_payload`
  | pySleep (d : τ)                                           -- `await (time + d)` inside the library
  | pyTimeoutFire (e : Nat) (v : Int)                         -- `self.succeed(self._fixed_value)` of `Timeout._trigger_timeout`
  | pyInvokeCallbacks (e : Nat)                               -- `Event._invoke_callbacks`
  | pyCheckEvents (e : Nat)                                   -- `Condition._check_events`
  | pyNativeAwait (n : NExpr τ)                               -- `result = await self._awaitable` of `AwaitableEvent`
  | pyNativeDone (p : Nat)                                    -- `self._value = result, None; return True`
  | pyNativeFail (p : Nat) (cls : Nat)                        -- the awaited coroutine raises: `self._value = None, err; return True`
  deriving Inhabited

abbrev Prog (τ : Type) := List (Stmt τ)

/-! ### Exceptions (objects with identity live in `World.exns`) -/

inductive ExnCls where
  | sig (s : SigId)                               -- an `Interrupt` object (wake-up, CancelTask, CancelScope)
  | user (cls : Nat) (label : Nat)
  | genExit
  | taskCancelled (t : TaskId) (tok : Int)
  | taskClosed (volatile : Bool)
  | concurrent (children : List ExnId)
  | streamClosed | resUnavailable | intervalExceeded | scopeClosed
  | assertion (code : Nat)                        -- usim's own `assert` failures
  | notImplemented | valueError
  | activityLeak | reuse                          -- loop level: ActivityLeak, "cannot reuse already awaited coroutine"
  | ignoredExit                                   -- "coroutine ignored GeneratorExit"
  -- usim.py
  | pyInterrupt (cause : Int)                     -- `usim.py.exceptions.Interrupt(cause)`
  | pyTriggeredTwice                              -- RuntimeError("... has already been triggered")
  | stopSimulation                                -- `StopSimulation` (BaseException)
  | stopIteration (v : Int)                       -- the generator returned (internal)
  | stopIterationLeak                             -- RuntimeError("coroutine raised StopIteration")
  | nameError                                     -- a generator used an unbound variable
  deriving Inhabited, BEq, Repr

/-- the program's exception classes: 0 A(Exception), 1 B(A), 2 KeyError(LookupError), 3 LookupError,
4 IndexError(LookupError), 5 SystemExit, 6 KeyboardInterrupt, 7 AssertionError -/
def userSub (d c : Nat) : Bool :=
  d == c || (d == 1 && c == 0) || (d == 2 && c == 3) || (d == 4 && c == 3)

def isPrivilegedCls : ExnCls → Bool
  | .user c _ => c == 5 || c == 6 || c == 7
  | .assertion _ => true
  | _ => false

/-- hand-written specification: is this exception a cancellation / closure (never part of a
`Concurrent`)?  (the code's `SUPPRESS_CONCURRENT` is compared against this in `Props/C05`) -/
def isCancellationOrClosure : ExnCls → Bool
  | .taskCancelled .. => true
  | .taskClosed _ => true
  | .genExit => true
  | _ => false

def isExceptionSubclass : ExnCls → Bool     -- `isinstance(e, Exception)`
  | .user c _ => !(c == 5 || c == 6)
  | .taskCancelled .. | .taskClosed _ | .streamClosed | .resUnavailable | .intervalExceeded
  | .scopeClosed | .assertion _ | .notImplemented | .valueError | .activityLeak | .reuse | .ignoredExit => true
  | .pyInterrupt _ | .pyTriggeredTwice | .stopIteration _ | .stopIterationLeak | .nameError => true
  | _ => false

def patMatches (p : Pat) (e : ExnCls) : Bool :=
  match p, e with
  | .user c, .user d _ => userSub d c
  | .user 7, .assertion _ => true
  | .concurrent, .concurrent _ => true
  | .taskCancelled, .taskCancelled .. => true
  | .taskClosed, .taskClosed _ => true
  | .streamClosed, .streamClosed => true
  | .resUnavailable, .resUnavailable => true
  | .intervalExceeded, .intervalExceeded => true
  | .scopeClosed, .scopeClosed => true
  | .anyException, e => isExceptionSubclass e
  | _, _ => false

/-! ### Runtime objects -/

inductive SigKind where
  | wake                                  -- `Interrupt('postpone'|notification, task)`
  | cancelTask (t : TaskId) (tok : Int)
  | cancelSelf (s : ScopeId)              -- `Scope._cancel_self`
  | scopeInterrupt (s : ScopeId)          -- `InterruptScope._interrupt`
  deriving Inhabited, BEq, Repr

structure Sig where
  kind : SigKind
  scheduled : Bool := false
  revoked : Bool := false
  exn : ExnId := 0                        -- the exception object this signal is
  deriving Inhabited, Repr

inductive CondKind (τ : Type) where
  | flag (value : Bool) (inverse : CondId)
  | invFlag (flag : CondId)
  | after (date : τ) (scheduled : Bool)
  | before (date : τ)
  | moment (date : τ) (transition : CondId)
  | eternity | instant
  | all (children : List CondId) | any (children : List CondId)
  | done (task : TaskId) (value : Bool) (inverse : CondId)
  | notDone (done : CondId)
  | cmp (x : Name) (op : Nat) (v : Int)
  | cmp2 (x : Name) (op : Nat) (y : Name)
  /-- comparison of a resource's level vector: `available <op> amounts` (elementwise) -/
  | resCmp (r : Name) (op : Nat) (amounts : List Int)
  | delay (d : τ)                          -- a `Delay` notification (not a condition)
  | plain                                  -- bare `Notification` (locks, streams, pipes)
  deriving Inhabited

structure Cond (τ : Type) where
  kind : CondKind τ
  waiting : List (ActId × SigId) := []
  deriving Inhabited

inductive TaskPhase where
  | created | running | finished
  deriving Inhabited, BEq, Repr

structure Task where
  runner : ActId
  parent : ScopeId
  volatile : Bool
  /-- `_result`: `none` = not finished; `some (v, none)` = value; `some (_, some e)` = exception -/
  result : Option (Int × Option ExnId) := none
  cancellations : List SigId := []
  done : CondId
  /-- the payload is library code (`_first_monitor`): its end is not an observation of the program -/
  quiet : Bool := false
  deriving Inhabited

structure Scope where
  children : List TaskId := []
  volatileChildren : List TaskId := []
  failures : List ExnId := []
  bodyDone : CondId                        -- `_body_done` flag
  interruptable : Bool := true
  activity : Option ActId := none
  cancelSelf : SigId
  /-- program-level name and instance number (for traces) -/
  name : Name := 0
  inst : Nat := 0
  /-- scope created by a library function (`collect`): not reported in traces -/
  silent : Bool := false
  /-- `InterruptScope`: the notification listened to and the interrupt signal -/
  notification : Option CondId := none
  interrupt : Option SigId := none
  /-- `EnvironmentScope` (usim/py/core.py): StopSimulation is promoted and suppressed -/
  env : Bool := false
  deriving Inhabited

structure Lock where
  notif : CondId
  owner : Option ActId := none
  depth : Nat := 0
  deriving Inhabited

structure Queue where
  buffer : List Int := []
  notif : CondId
  mutex : Name                             -- index into `locks`
  closed : Bool := false
  deriving Inhabited

structure Chan where
  /-- consumer buffers in registration order: (key, buffer) -/
  buffers : List (Nat × List Int) := []
  notif : CondId
  closed : Bool := false
  nextKey : Nat := 0
  deriving Inhabited

structure Tracked where
  value : Int := 0
  listeners : List CondId := []            -- comparisons in subscription order
  deriving Inhabited

/-- `Resources` / `Capacities` / `BorrowedResources`: levels are vectors (one entry per named
resource, sorted by name) held in a `Tracked` -/
structure Res where
  levels : List Int
  /-- comparison objects listening to the level (`Tracked._listeners`), in creation order -/
  listeners : List CondId := []
  /-- `BorrowedResources`: the supply it was taken from and the debits (= upper limit) -/
  parent : Option Name := none
  debits : List Int := []
  deriving Inhabited

structure Pipe (τ : Type) where
  throughput : Option τ                    -- `none` = infinite (UnboundedPipe)
  scale : τ
  scaleIsOne : Bool := true                -- `_throughput_scale != 1.0` test on the exact representation
  subs : List (Nat × τ) := []              -- (identifier, throughput)
  congested : CondId
  nextId : Nat := 0

instance {τ : Type} [TimeLike τ] : Inhabited (Pipe τ) :=
  ⟨{ throughput := none, scale := TimeLike.zero, congested := 0 }⟩

/-! ### Frames: one constructor per control state of the primitives' code -/

inductive Val where
  | unit | int (i : Int) | bool (b : Bool)
  deriving Inhabited, BEq, Repr

/-- what continues once a lock is acquired -/
inductive LockCont (τ : Type) where
  | body (stmts : List (Stmt τ))      -- `async with lock:` block
  | queueGet (q : Name)               -- `Queue._await_message` inside `async with self._read_mutex`
  deriving Inhabited

inductive Frame (τ : Type) where
  /-- a block of program statements -/
  | seq (stmts : List (Stmt τ))
  /-- `postpone()` / `suspend()` inside `await __HIBERNATE__` -/
  | wakeHib (wake : SigId)
  /-- `Notification.__await__` inside its `__subscription__` -/
  | notifHib (c : CondId) (wake : SigId)
  /-- `yield from __HIBERNATE__` with no wake-up (eternity, passed dates) -/
  | foreverHib
  /-- statement-level marker below an `await <condition>`: logs the truth value at resumption -/
  | awaitMark (c : CondId)
  | sleepMark
  | tickEnd
  /-- `Condition.__await__`: inside the `while not self` loop / after the initial postpone -/
  | condLoop (c : CondId)
  /-- `Connective.__await_children__`: waiting for the initial postpone, or hibernating with subscriptions -/
  | connStart (c : CondId)
  | connHib (c : CondId) (subs : List (CondId × SigId))
  /-- `return v` of a coroutine body -/
  | retVal (v : Int)
  /-- returns `true` once the frame above returned (used for awaits that `return True`) -/
  | retTrue
  /-- `Task.__await__`: after `yield from self._done.__await__()` -/
  | taskResult (t : TaskId) (quiet : Bool)
  /-- `payload_wrapper`: waiting for the start delay / running the payload -/
  | taskStart (t : TaskId) (delay : Option τ) (at_ : Option τ) (prog : List (Stmt τ))
  | taskPayload (t : TaskId)
  /-- `async with <scope>` body marker; below it the continuation of the enclosing block -/
  | scopeBody (s : ScopeId)
  /-- `Scope.__aexit__`, regular path: after `await self._body_done.set()`; in `_await_children` -/
  | scopeExitSet (s : ScopeId)
  | scopeExitWait (s : ScopeId) (snapshot : List TaskId)
  /-- `try:` marker -/
  | tryBlock (handlers : List (List Pat × List (Stmt τ)))
  /-- `try: .. finally:` marker; after the cleanup: re-raise the pending exception -/
  | finallyBlock (cleanup : List (Stmt τ))
  | reraise (e : ExnId)
  /-- a handler swallowed an exception while the coroutine was being closed (`coroutine.close()`):
  CPython raises GeneratorExit again at the next enclosing coroutine level (genobject.c `gen_close`) -/
  | closeResume
  /-- lock: waiting in `__aenter__`; body marker -/
  | lockWait (l : Name) (cont : LockCont τ)
  | lockBody (l : Name) (user : Bool)
  /-- `Queue._await_message` after its suspension (postpone on a buffered item / wait for an item) -/
  | qGetPop (q : Name)
  /-- statement-level continuation: log the received value -/
  | gotValue
  | cGotValue (c : Name) (key : Nat)            -- `await channel` returned: the subscription `key` got its message
  /-- `async for x in queue` (Queue.__aiter__): waiting for the next item / running the body -/
  | qIterNext (q : Name) (remaining : Nat) (body : List (Stmt τ))
  | qIterGot (q : Name) (remaining : Nat) (body : List (Stmt τ))
  /-- `await channel` (Channel.__await__) with its registered buffer -/
  | cGetWait (c : Name) (key : Nat)
  /-- `async for x in channel` (Channel.__aiter__) -/
  | cIterLoop (c : Name) (key : Nat) (remaining : Nat) (body : List (Stmt τ))
  | cIterWait (c : Name) (key : Nat) (remaining : Nat) (body : List (Stmt τ))
  | cIterNext (c : Name) (key : Nat) (remaining : Nat)   -- the loop body ended: the iteration asks for the next message
  /-- `BorrowedResources.__aenter__`: waiting for availability; after `__remove_resources__`;
  after `__insert_resources__`; body marker; `__aexit__` after its first step -/
  | borrowWait (r : Name) (b : Name) (body : List (Stmt τ))
  | borrowRemoved (r : Name) (b : Name) (body : List (Stmt τ))
  | borrowInserted (r : Name) (b : Name) (body : List (Stmt τ))
  | borrowBody (r : Name) (b : Name)
  | borrowExit1 (r : Name) (b : Name) (orig : Option ExnId)
  | borrowExit2 (orig : Option ExnId)
  /-- the two coroutines dispatched by `__aexit__` on GeneratorExit -/
  | resAdjust (r : Name) (amounts : List Int) (insert : Bool)
  /-- `Pipe.transfer` inside one window (below the `wakeHib` of suspend/postpone) -/
  | pipeWindow (p : Name) (ident : Nat) (total thr transferred wStart wThr : τ) (congWake : SigId)
  /-- `interval()` / `delay()` async generators: waiting for the next tick; running the body -/
  | tickWait (isInterval : Bool) (period last : τ) (remaining : Nat) (body : List (Stmt τ))
  | tickBody (isInterval : Bool) (period last : τ) (remaining : Nat) (body : List (Stmt τ))
  /-- `collect()`: awaiting the tasks in argument order after its scope ended -/
  | collectAwait (todo : List Name) (acc : List Int)
  /-- `first()`: the monitor of one contestant (`await queue.put(result)` comes next); the
  generator fetching the next result / having got it; the consumer's body running while the
  generator is suspended at its `yield` (with the number of results `islice` still admits and the
  number of results until the consumer's `break`); the end of the `async for` statement
  (`closing`: the abandoned generator is being finalised, `pending`: the exception of the
  consumer's body that goes on afterwards) -/
  | firstMonitor (q : Name)
  | firstNext (q : Name) (remaining : Nat) (brk : Option Nat) (body : List (Stmt τ))
  | firstGot (q : Name) (remaining : Nat) (brk : Option Nat) (body : List (Stmt τ))
  | firstYield (q : Name) (remaining : Nat) (brk : Option Nat) (body : List (Stmt τ))
  | firstEnd (closing : Bool) (pending : Option ExnId)
  /-- usim.py: the generator of process `p` is running; `_run_payload` before its loop / inside the
  `try` of its loop; after `_wait_interruptible`'s wait for event `e`; `Environment.until`'s handlers;
  a native `await event`; `Condition._check_events` waiting; set-up code -/
  | pyGen (p : Nat)
  | pyPayloadStart (p : Nat)
  | pyPayloadLoop (p : Nat)
  | pyWaited (p : Nat) (e : Nat)
  | pyNativeWaited (p : Nat)
  | pyUntilEnd
  | pyWithEnd
  | pyAwaited (e : Nat)
  | pyCheckLoop (e : Nat) (unobserved : List Nat) (observed : Nat)
  | pyCode (code : List (PyInstr τ))
  | raiseStop                                  -- `raise StopSimulation` of `Environment.until`
  /-- statement-level markers: completion of `transfer`, of an `async with borrow/claim` block -/
  | transferDone (p : Name)
  | borrowMark (r : Name)
  /-- marker of a nested `usim.run()`: the caller continues here when the inner loop returns -/
  | nestedRun
  /-- `payload_wrapper` suspended in its start delay -/
  | taskDelay (t : TaskId) (prog : List (Stmt τ))
  /-- `Scope._close_scope`: closing the (volatile) children one by one; `orig` is the exception
  `__aexit__` is handling, `graceful` tells whether we came from the regular-exit path -/
  | scopeClose (s : ScopeId) (todo : List TaskId) (reason : ExnId) (volatileDone : Bool)
      (orig : Option ExnId) (graceful : Bool)
  /-- `After._async_trigger` helper coroutine -/
  | asyncTrigger (c : CondId)
  /-- root marker of a coroutine that must return nothing to the loop -/
  | coroutineEnd
  deriving Inhabited

inductive ActStatus where
  | created | suspended | running | finished | closed
  deriving Inhabited, BEq, Repr

/-! ### usim.py objects -/

inductive PyCb where
  | log (k : Int)
  deriving Inhabited, BEq, Repr

inductive PyKind where
  | plain | timeout | process (p : Nat) | condition (isAll : Bool) (members : List Nat)
  deriving Inhabited, BEq, Repr

structure PyEvent where
  flag : CondId                                      -- `__usimpy_flag__`
  value : Option (Int × Option ExnId) := none        -- `_value`
  callbacks : Option (List PyCb) := some []          -- `None` once processed
  defused : Bool := false
  kind : PyKind := .plain
  /-- the events of a condition's `ConditionValue` -/
  cvalue : List Nat := []
  deriving Inhabited

structure PyProc (τ : Type) where
  event : Nat
  code : List (PyInstr τ)
  iflag : CondId                                     -- `InterruptQueue.__usimpy_flag__`
  causes : List Int := []
  target : Option Nat := none
  step : Nat := 0
  catching : Bool := false
  /-- a native awaitable the generator yielded, and whether `AwaitableEvent.wait_interruptible` saw it finish -/
  native : Option (NExpr τ) := none
  nativeCoro : Option (τ × Int × Option Nat) := none
  nativeDone : Bool := false
  nativeExn : Option ExnId := none
  deriving Inhabited

structure PyState (τ : Type) where
  events : Array PyEvent := #[]
  procs : Array (PyProc τ) := #[]
  names : List (Name × Nat) := []
  /-- the `EnvironmentScope` once `__aenter__` ran (`_loop is not None`) -/
  scope : Option ScopeId := none
  scopeName : Name := 0
  /-- `_startup`: coroutines scheduled before the loop was known -/
  startup : List (List (Stmt τ) × Option τ) := []
  initial : Option τ := none
  deriving Inhabited

structure Activity (τ : Type) where
  frames : List (Frame τ)
  status : ActStatus := .created
  isRoot : Bool := false
  /-- name used in traces: root index, 1000 + task id, -1 for helper coroutines -/
  label : Int := -1
  deriving Inhabited

/-! ### Kernel -/

structure Activation where
  target : ActId
  signal : Option SigId
  deriving Inhabited, BEq, Repr

inductive Mode where
  | ret (v : Val)
  | raise (e : ExnId)
  deriving Inhabited, Repr

/-- one observable event of the trace -/
structure Event (τ : Type) where
  time : τ
  turn : Nat
  act : ActId
  label : Int
  tag : String
  args : List Int
  deriving Inhabited

structure Config where
  debug : Bool := true          -- assertions enabled (`python` vs `python -O`)
  deriving Inhabited

/-- kernel state of an enclosing simulation (nested `run()`) -/
structure Saved (τ : Type) where
  time : τ
  turn : Nat
  pending : List Activation
  queue : List (τ × List Activation)
  ctl : List (ActId × Mode)

structure World (τ : Type) where
  cfg : Config := {}
  time : τ
  turn : Nat := 0
  pending : List Activation := []
  /-- future buckets, keys strictly increasing (`SortedDict` / heap of keys + dict) -/
  queue : List (τ × List Activation) := []
  sigs : Array Sig := #[]
  exns : Array ExnCls := #[]
  acts : Array (Activity τ) := #[]
  conds : Array (Cond τ) := #[]
  tasks : Array Task := #[]
  scopes : Array Scope := #[]
  locks : Array Lock := #[]
  queues : Array Queue := #[]
  chans : Array Chan := #[]
  tracked : Array Tracked := #[]
  res : Array Res := #[]
  pipes : Array (Pipe τ) := #[]
  /-- program-level names: flag name -> cond id, task name -> task id, scope name -> scope id -/
  flagIds : List (Name × CondId) := []
  condNames : List (Name × CondId) := []
  taskNames : List (Name × TaskId) := []
  scopeNames : List (Name × ScopeId) := []
  /-- control stack: the activity executing (top) and the activities that are synchronously closing it -/
  ctl : List (ActId × Mode) := []
  trace : List (Event τ) := []          -- newest first
  /-- an exception that left `_run_coroutine`: ends `run()` -/
  crashed : Option ExnId := none
  userRaises : Nat := 0
  resNames : List (Name × Nat) := []
  /-- kernel states of enclosing simulations while a nested `run()` executes -/
  saved : List (Saved τ) := []
  freshName : Nat := 100000
  nestedRuns : Nat := 0
  scopeInsts : Nat := 0
  /-- number of put operations executed so far (makes every item value unique) -/
  putCount : Nat := 0
  py : PyState τ := {}
  deriving Inhabited

end USim.Machine
