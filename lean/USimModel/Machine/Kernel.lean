import USimModel.Machine.Types
/-
Kernel part of the machine: wait queue, `schedule`, signals, the event loop's selection of the
next activation (`usim/_core/loop.py`, `usim/_core/waitq.py`).
-/
namespace USim.Machine
open TimeLike

variable {τ : Type} [TimeLike τ]

/-- `WaitQueue.push` on the sorted-dict view: append to the bucket of `key`, creating it in order -/
def pushBucket (key : τ) (a : Activation) : List (τ × List Activation) → List (τ × List Activation)
  | [] => [(key, [a])]
  | (k, b) :: rest =>
    if beq k key then (k, b ++ [a]) :: rest
    else if lt key k then (key, [a]) :: (k, b) :: rest
    else (k, b) :: pushBucket key a rest

inductive When (τ : Type) where
  | now | delay (d : τ) | at_ (t : τ)

namespace World

def sig (w : World τ) (s : SigId) : Sig := w.sigs.getD s default
def cond (w : World τ) (c : CondId) : Cond τ := w.conds.getD c default
def act (w : World τ) (a : ActId) : Activity τ := w.acts.getD a default
def task (w : World τ) (t : TaskId) : Task := w.tasks.getD t default
def scope (w : World τ) (s : ScopeId) : Scope := w.scopes.getD s default
def exn (w : World τ) (e : ExnId) : ExnCls := w.exns.getD e .genExit

def setSig (w : World τ) (s : SigId) (f : Sig → Sig) : World τ := { w with sigs := w.sigs.modify s f }
def setCond (w : World τ) (c : CondId) (f : Cond τ → Cond τ) : World τ := { w with conds := w.conds.modify c f }
def setAct (w : World τ) (a : ActId) (f : Activity τ → Activity τ) : World τ := { w with acts := w.acts.modify a f }
def setTask (w : World τ) (t : TaskId) (f : Task → Task) : World τ := { w with tasks := w.tasks.modify t f }
def setScope (w : World τ) (s : ScopeId) (f : Scope → Scope) : World τ := { w with scopes := w.scopes.modify s f }

def newExn (w : World τ) (cls : ExnCls) : World τ × ExnId :=
  ({ w with exns := w.exns.push cls }, w.exns.size)

/-- a new `Interrupt` object (it is an exception object, too) -/
def newSig (w : World τ) (kind : SigKind) : World τ × SigId :=
  let s := w.sigs.size
  let (w, e) := w.newExn (.sig s)
  ({ w with sigs := w.sigs.push { kind := kind, exn := e } }, s)

def newCond (w : World τ) (kind : CondKind τ) : World τ × CondId :=
  ({ w with conds := w.conds.push { kind := kind } }, w.conds.size)

def newAct (w : World τ) (frames : List (Frame τ)) (isRoot : Bool := false) (label : Int := -1) : World τ × ActId :=
  ({ w with acts := w.acts.push { frames := frames, isRoot := isRoot, label := label } }, w.acts.size)

def revoke (w : World τ) (s : SigId) : World τ := w.setSig s (fun x => { x with revoked := true })

/-- `Loop.schedule`.  Returns `none` when a usage assertion fails (debug mode only). -/
def schedule (w : World τ) (target : ActId) (signal : Option SigId) (when : When τ) : Option (World τ) :=
  let mark (w : World τ) : World τ :=
    match signal with
    | some s => w.setSig s (fun x => { x with scheduled := true })
    | none => w
  let a : Activation := { target := target, signal := signal }
  match when with
  | .now => some (mark { w with pending := w.pending ++ [a] })
  | .delay d =>
    if w.cfg.debug && !(gt d (zero : τ)) then none
    else some (mark { w with queue := pushBucket (add w.time d) a w.queue })
  | .at_ t =>
    if w.cfg.debug && !(gt t w.time) then none
    else some (mark { w with queue := pushBucket t a w.queue })

/-- schedule for the current time step (never fails) -/
def scheduleNow (w : World τ) (target : ActId) (signal : Option SigId) : World τ :=
  let w := match signal with
    | some s => w.setSig s (fun x => { x with scheduled := true })
    | none => w
  { w with pending := w.pending ++ [{ target := target, signal := signal }] }

def emit (w : World τ) (a : ActId) (tag : String) (args : List Int) : World τ :=
  { w with trace := { time := w.time, turn := w.turn, act := a, label := (w.acts.getD a default).label,
                      tag := tag, args := args } :: w.trace }

/-- trace event under an explicit label (usim.py: processes and callbacks are not activities of the program) -/
def emitAs (w : World τ) (a : ActId) (label : Int) (tag : String) (args : List Int) : World τ :=
  { w with trace := { time := w.time, turn := w.turn, act := a, label := label, tag := tag, args := args } :: w.trace }

/-- scope-level trace events are suppressed for library-internal scopes -/
def emitScope (w : World τ) (a : ActId) (s : ScopeId) (tag : String) (args : List Int) : World τ :=
  if (w.scope s).silent then w else w.emit a tag args

end World
end USim.Machine
