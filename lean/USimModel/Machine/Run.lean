import USimModel.Machine.Step
/-
Frame transitions (`microStep`), statement execution, the kernel's activation selection and `run`.
-/
namespace USim.Machine
open TimeLike

variable {τ : Type} [TimeLike τ]

namespace World

def valInt : Val → Int
  | .int i => i
  | .bool true => 1
  | _ => 0

/-- `Lock.__release__` (locks.py:80-86) -/
def lockRelease (w : World τ) (l : Name) : World τ :=
  let lk := w.locks.getD l default
  let (w, next) := w.awakeNext lk.notif
  { w with locks := w.locks.modify l (fun x => { x with owner := next }) }

def statusCode (w : World τ) (t : TaskId) : Int :=
  match (w.task t).result with
  | some (_, some e) =>
    match w.exn e with
    | .taskCancelled .. | .taskClosed _ => 4
    | _ => 8
  | some (_, none) => 16
  | none => if (w.act (w.task t).runner).status == .created then 1 else 2

/-- code of a non-`Concurrent` exception object (class and identity label) -/
def exnCode1 (w : World τ) (e : ExnId) : List Int :=
  match w.exn e with
  | .user c l => [0, c, l]
  | .taskCancelled t tok => [1, t, tok]
  | .taskClosed v => [2, if v then 1 else 0]
  | .concurrent _ => [3]
  | .streamClosed => [4]
  | .resUnavailable => [5]
  | .intervalExceeded => [6]
  | .scopeClosed => [7]
  | .notImplemented => [8]
  | .assertion _ => [9]
  | .sig _ => [10]
  | .genExit => [11]
  | .valueError => [12]
  | .activityLeak => [13]
  | .reuse => [14]
  | .ignoredExit => [15]
  | .pyInterrupt c => [16, c]
  | .pyTriggeredTwice => [17]
  | .stopSimulation => [18]
  | .stopIterationLeak => [19]
  | .stopIteration v => [20, v]
  | .nameError => [21]

/-- a stable, implementation-independent description of an exception object for the trace -/
def exnCode (w : World τ) (e : ExnId) : List Int :=
  match w.exn e with
  | .concurrent cs => 3 :: cs.flatMap (w.exnCode1 ·)
  | _ => w.exnCode1 e

/-- number of tasks spawned in scope `s` that are not done -/
def notDone (w : World τ) (s : ScopeId) : Int :=
  ((w.tasks.toList.filter (fun t => t.parent == s && t.result.isNone)).length : Int)

/-- first part of `Scope._close_scope` (context.py:253-257) and entry into the closing loop -/
def beginClose (w : World τ) (a : ActId) (fs : List (Frame τ)) (s : ScopeId)
    (orig : Option ExnId) (graceful : Bool) : World τ :=
  let sc := w.scope s
  -- InterruptScope._disable_interrupts: unsubscribe the scope's interrupt
  let (w, ok) := match sc.notification, sc.interrupt, sc.activity with
    | some n, some i, some act => w.unsubscribe n act i
    | _, _, _ => (w, true)
  if !ok then (w.emitScope a s "sexit" [sc.name, sc.inst, 1, w.notDone s]).raiseNew a fs .valueError
  else
    let w := w.setScope s (fun x => { x with interruptable := false })
    let w := w.revoke sc.cancelSelf
    let (w, reason) := w.newExn (.taskClosed false)
    w.retTo a (.scopeClose s (w.scope s).children reason false orig graceful :: fs) .unit

/-- `Scope._close_children` / `_close_volatile` loop and the end of `__aexit__` -/
def continueClose (w : World τ) (a : ActId) (fs : List (Frame τ)) (s : ScopeId) (todo : List TaskId)
    (reason : ExnId) (volDone : Bool) (orig : Option ExnId) (graceful : Bool) : World τ :=
  match todo with
  | t :: rest =>
    let fr : Frame τ := .scopeClose s rest reason volDone orig graceful
    -- `Task.__close__(reason)` (task.py:206-226)
    if (w.task t).result.isSome then w.retTo a (fr :: fs) .unit
    else
      let w := w.setTask t (fun x => { x with result := some (0, some reason) })
      let r := (w.task t).runner
      match (w.act r).status with
      | .created => (w.setDone t).retTo a (fr :: fs) .unit
      | .suspended =>
        let w := w.setFrames a (fr :: fs)
        let w := w.setAct r (fun x => { x with status := .running })
        let (w, ge) := w.newExn .genExit
        { w with ctl := (r, .raise ge) :: w.ctl }
      | .running => (w.emitScope a s "sexit" [(w.scope s).name, (w.scope s).inst, 1, w.notDone s]).raiseNew a fs .valueError
      | _ => w.retTo a (fr :: fs) .unit
  | [] =>
    if !volDone then
      let (w, reason') := w.newExn (.taskClosed true)
      w.retTo a (.scopeClose s (w.scope s).volatileChildren reason' true orig graceful :: fs) .unit
    else
      let (w, p) := w.propagateExceptions s orig
      let sx (w : World τ) (code : Int) : World τ := w.emitScope a s "sexit" [(w.scope s).name, (w.scope s).inst, code, w.notDone s]
      match p, orig with
      | .swallow, _ => (sx w 0).retTo a fs .unit
      | .reraise, some e => (sx w 1).raiseTo a fs e
      | .reraise, none => (sx w 0).retTo a fs .unit
      | .raiseOther x, _ => (sx w 1).raiseTo a fs x


/-! ### locks, streams, tracked values, resources, pipes: synchronous parts -/

/-- `Queue._await_message` once the read mutex is held (streams.py:155-167) -/
def queueGetEnter (w : World τ) (a : ActId) (fs : List (Frame τ)) (q : Name) : World τ :=
  let qu := w.queues.getD q default
  if !qu.buffer.isEmpty then w.doPostpone a (.qGetPop q :: fs)
  else if qu.closed then w.raiseNew a fs .streamClosed
  else w.doNotifAwait a (.qGetPop q :: fs) qu.notif

/-- continue after the lock is owned by `a` (`self._depth += 1`, locks.py:72) -/
def lockAcquired (w : World τ) (a : ActId) (fs : List (Frame τ)) (l : Name) (cont : LockCont τ) : World τ :=
  let w := { w with locks := w.locks.modify l (fun x => { x with depth := x.depth + 1 }) }
  match cont with
  | .body stmts => (w.emit a "lenter" [l]).retTo a (.seq stmts :: .lockBody l true :: fs) .unit
  | .queueGet q => w.queueGetEnter a (.lockBody l false :: fs) q

/-- `Lock.__aenter__` (locks.py:58-73) -/
def acquireLock (w : World τ) (a : ActId) (fs : List (Frame τ)) (l : Name) (cont : LockCont τ) : World τ :=
  let lk := w.locks.getD l default
  match lk.owner with
  | none =>
    let w := { w with locks := w.locks.modify l (fun x => { x with owner := some a }) }
    w.lockAcquired a fs l cont
  | some o =>
    if o == a then w.lockAcquired a fs l cont
    else w.doNotifAwait a (.lockWait l cont :: fs) lk.notif

def vecAdd (a b : List Int) : List Int := (a.zip b).map (fun p => p.1 + p.2)
def vecSub (a b : List Int) : List Int := (a.zip b).map (fun p => p.1 - p.2)

/-- `Tracked.set` on a resource's level (tracked.py): store, notify listeners whose test holds -/
def setLevels (w : World τ) (r : Name) (levels : List Int) : World τ :=
  let w := { w with res := w.res.modify r (fun x => { x with levels := levels }) }
  (w.res.getD r default).listeners.foldl (fun w c => if w.eval c then w.awakeAll c else w) w

/-- `Tracked.set` on a plain tracked value -/
def setTrackedValue (w : World τ) (x : Name) (v : Int) : World τ :=
  let w := { w with tracked := w.tracked.modify x (fun t => { t with value := v }) }
  (w.tracked.getD x default).listeners.foldl (fun w c => if w.eval c then w.awakeAll c else w) w

/-- `Pipe._throttle_subscribers` (pipe.py) -/
def throttle (w : World τ) (p : Name) : World τ :=
  let pp := w.pipes.getD p default
  let desired : τ := TimeLike.sum (pp.subs.map (·.2))             -- `sum(self._subscriptions.values())`
  match pp.throughput with
  | none =>
    -- infinite throughput: `desired > inf` is false; scale stays / returns to 1
    if !pp.scaleIsOne then
      ({ w with pipes := w.pipes.modify p (fun x => { x with scale := ofInt 1, scaleIsOne := true }) }).awakeAll pp.congested
    else w
  | some thr =>
    if gt desired thr then
      let sc := div thr desired
      ({ w with pipes := w.pipes.modify p (fun x => { x with scale := sc, scaleIsOne := beq sc (ofInt 1) }) }).awakeAll pp.congested
    else if !pp.scaleIsOne then
      ({ w with pipes := w.pipes.modify p (fun x => { x with scale := ofInt 1, scaleIsOne := true }) }).awakeAll pp.congested
    else w

/-- start one window of `Pipe.transfer` (pipe.py: body of the `while transferred < total` loop) -/
def pipeWindowStart (w : World τ) (a : ActId) (fs : List (Frame τ)) (p : Name) (ident : Nat)
    (total thr transferred : τ) : World τ :=
  let pp := w.pipes.getD p default
  let wThr := mul thr pp.scale
  let (w, cw) := w.newSig .wake
  -- `with self._congested.__subscription__()`: plain notification
  let w := w.setCond pp.congested (fun x => { x with waiting := x.waiting ++ [(a, cw)] })
  let delay := div (sub total transferred) wThr
  let fr : Frame τ := .pipeWindow p ident total thr transferred w.time wThr cw
  if gt delay (zero : τ) then w.doSuspend a (fr :: fs) (.delay delay) else w.doPostpone a (fr :: fs)

def pipeFinish (w : World τ) (p : Name) (ident : Nat) : World τ :=
  let w := { w with pipes := w.pipes.modify p (fun x => { x with subs := x.subs.filter (·.1 != ident) }) }
  w.throttle p

/-- next step of `interval()` / `delay()` (timing.py:493-540) -/
def tickNext (w : World τ) (a : ActId) (fs : List (Frame τ)) (isInterval : Bool) (period last : τ)
    (remaining : Nat) (body : List (Stmt τ)) : World τ :=
  if remaining == 0 then (w.emit a "tend" []).retTo a fs .unit      -- the program leaves the loop (`break`)
  else
    let fr : Frame τ := .tickWait isInterval period last remaining body
    if isInterval then
      let rem := sub (add last period) w.time
      if lt rem (zero : τ) then w.raiseNew a fs .intervalExceeded
      else if gt rem (zero : τ) then w.doSuspend a (fr :: fs) (.delay rem)
      else w.doPostpone a (fr :: fs)
    else
      if gt period (zero : τ) then w.doSuspend a (fr :: fs) (.delay period) else w.doPostpone a (fr :: fs)

/-- `resources.borrow(..)` / `.claim(..)` and `BorrowedResources.__aenter__` (resource.py) -/
def borrowEnter (w : World τ) (a : ActId) (fs : List (Frame τ)) (r : Name) (amounts : List Int) (bind : Name)
    (body : List (Stmt τ)) (isClaim : Bool) : World τ :=
  match lookup w.resNames r with
  | none => (w.emit a "unbound" []).retTo a fs .unit
  | some rid =>
    let rs := w.res.getD rid default
    -- `borrow()`: amounts must be >= 0; from a borrowed share: not beyond that share
    let beyond := rs.parent.isSome && !((rs.debits.zip amounts).all (fun p => p.1 ≥ p.2))
    if w.cfg.debug && (amounts.any (· < 0) || beyond) then w.raiseNew a fs (.assertion 4)
    else
      let b := w.res.size
      let w := { w with res := w.res.push { levels := amounts.map (fun _ => 0), parent := some rid, debits := amounts },
                        resNames := (bind, b) :: w.resNames.filter (·.1 != bind) }
      let avail := vecCmp 4 rs.levels amounts
      if isClaim && !avail then w.raiseNew a fs .resUnavailable
      else if !avail then
        -- `await (self._resources._available >= self._debits)`: a new comparison object
        let (w, c) := w.newCond (.resCmp rid 4 amounts)
        let w := { w with res := w.res.modify rid (fun t => { t with listeners := t.listeners ++ [c] }) }
        w.doCondAwait a (.borrowWait rid b body :: fs) c
      else
        (w.setLevels rid (vecSub rs.levels amounts)).doPostpone a (.borrowRemoved rid b body :: fs)

/-- the nearest enclosing `first()` loop is told that its generator is being finalised -/
def markClosing : List (Frame τ) → Option ExnId → List (Frame τ)
  | [], _ => []
  | .firstEnd false none :: fs, pending => .firstEnd true pending :: fs
  | f :: fs, pending => f :: markClosing fs pending


def tArgs (t : τ) : List Int := [(toPair t).1, (toPair t).2]

/-! ### usim.py - the SimPy compatibility layer (usim/py/core.py, events.py) -/

def pyEv (w : World τ) (e : Nat) : PyEvent := w.py.events.getD e default
def pyProc (w : World τ) (p : Nat) : PyProc τ := w.py.procs.getD p default
def setPyEv (w : World τ) (e : Nat) (f : PyEvent → PyEvent) : World τ :=
  { w with py := { w.py with events := w.py.events.modify e f } }
def setPyProc (w : World τ) (p : Nat) (f : PyProc τ → PyProc τ) : World τ :=
  { w with py := { w.py with procs := w.py.procs.modify p f } }
def pyBind (w : World τ) (x : Name) (e : Nat) : World τ :=
  { w with py := { w.py with names := (x, e) :: w.py.names.filter (·.1 != x) } }

/-- a new `usim.Flag` -/
def newFlag (w : World τ) : World τ × CondId :=
  let c := w.conds.size
  let (w, _) := w.newCond (.flag false (c + 1))
  let (w, _) := w.newCond (.invFlag c)
  (w, c)

/-- `flag._value = True; flag.__trigger__()` (events.py: direct manipulation of the Flag) -/
def flagForceSet (w : World τ) (c : CondId) : World τ :=
  match (w.cond c).kind with
  | .flag _ inv => (w.setCond c (fun x => { x with kind := .flag true inv })).awakeAll c
  | _ => w

/-- `Scope.do(coroutine, after=delay)` on the environment's scope (context.py:168-199); `false` = ScopeClosed -/
def pyScopeDo (w : World τ) (sid : ScopeId) (prog : List (Stmt τ)) (after : Option τ) : World τ × Bool :=
  if !(w.scope sid).interruptable then (w, false)
  else
    let tid := w.tasks.size
    let dc := w.conds.size
    let (w, _) := w.newCond (.done tid false (dc + 1))
    let (w, _) := w.newCond (.notDone dc)
    let (w, r) := w.newAct [.taskStart tid after none prog, .coroutineEnd] false (-2)
    let tk : Task := { runner := r, parent := sid, volatile := false, done := dc, quiet := true }
    let w := { w with tasks := w.tasks.push tk }
    let w := w.scheduleNow r none
    (w.setScope sid (fun x => { x with children := x.children ++ [tid] }), true)

/-- `Environment.schedule(coroutine, delay)` (core.py:207-235): queued until the loop is known -/
def pySchedule (w : World τ) (prog : List (Stmt τ)) (delay : Option τ) : World τ × Bool :=
  let delay := match delay with
    | some d => if beq d (zero : τ) then none else some d
    | none => none
  match w.py.scope with
  | none => ({ w with py := { w.py with startup := w.py.startup ++ [(prog, delay)] } }, true)
  | some sid => w.pyScopeDo sid prog delay

/-- `Event.__init__` -/
def pyNewEvent (w : World τ) (kind : PyKind) : World τ × Nat :=
  let (w, f) := w.newFlag
  let e := w.py.events.size
  ({ w with py := { w.py with events := w.py.events.push { flag := f, kind := kind } } }, e)

/-- `Event._trigger` (events.py:165-169): wake the waiters, schedule the callbacks -/
def pyTrigger (w : World τ) (e : Nat) : World τ × Bool :=
  let w := w.flagForceSet (w.pyEv e).flag
  w.pySchedule [.pyInvokeCallbacks e] none

/-- `Event.succeed` / `Event.fail` / `Event.trigger`: `some cls` = the exception the call raises -/
def pySetValue (w : World τ) (e : Nat) (val : Int × Option ExnId) (cvalue : List Nat := []) : World τ × Option ExnCls :=
  if (w.pyEv e).value.isSome then (w, some .pyTriggeredTwice)
  else
    let w := w.setPyEv e (fun x => { x with value := some val, cvalue := cvalue })
    let (w, ok) := w.pyTrigger e
    (w, if ok then none else some .scopeClosed)

/-- `Process.interrupt(cause)` / `InterruptQueue.push` -/
def pyInterrupt (w : World τ) (p : Nat) (cause : Int) : World τ :=
  let pr := w.pyProc p
  if (w.pyEv pr.event).value.isSome then w
  else
    let w := w.setPyProc p (fun x => { x with causes := x.causes ++ [cause] })
    if !(w.eval pr.iflag) then w.flagForceSet pr.iflag else w

/-- what a probe / a receiver reports about a value or failure: `[0, v]`, `[1, code..]`, `[2, members..]` -/
def pyValueCode (w : World τ) (e : Nat) : List Int :=
  match (w.pyEv e).value with
  | none => [3]
  | some (_, some x) => 1 :: w.exnCode1 x
  | some (v, none) =>
    match (w.pyEv e).kind with
    | .condition _ _ => 2 :: (w.pyEv e).cvalue.map (fun (m : Nat) => (m : Int))
    | _ => [0, v]

/-- `Condition._flatten_values` -/
def pyFlatten (w : World τ) : Nat → List Nat → List Nat
  | 0, _ => []
  | fuel + 1, events => events.flatMap (fun e =>
      match (w.pyEv e).kind with
      | .condition _ ms => pyFlatten w fuel ms
      | _ => match (w.pyEv e).value with
        | some (_, none) => [e]
        | _ => [])

/-- one synchronous SimPy API call made by code with trace label `lbl`; `some cls` = it raises -/
def pySync (w : World τ) (a : ActId) (lbl : Int) : PyInstr τ → World τ × Option ExnCls
  | .log k => (w.emitAs a lbl "log" [k], none)
  | .newEvent x =>
    let (w, e) := w.pyNewEvent .plain
    ((w.pyBind x e).emitAs a lbl "pynew" [(e : Int), (x : Int), 0], none)
  | .newTimeout x d v =>
    if lt d (zero : τ) then (w, some .valueError)
    else
      let (w, e) := w.pyNewEvent .timeout
      let w := w.emitAs a lbl "pynew" ([(e : Int), (x : Int), 1] ++ tArgs d ++ [v])
      let (w, ok) := w.pySchedule [.pySleep d, .pyTimeoutFire e v] none
      (w.pyBind x e, if ok then none else some .scopeClosed)
  | .newProc x code =>
    let p := w.py.procs.size
    let (w, e) := w.pyNewEvent (.process p)
    let (w, f) := w.newFlag
    let w := { w with py := { w.py with procs := w.py.procs.push { event := e, code := code, iflag := f } },
                      flagIds := w.flagIds ++ [(200000 + p, f)] }
    let w := w.emitAs a lbl "pynew" [(e : Int), (x : Int), 2, (p : Int)]
    let (w, ok) := w.pySchedule [.pyRunPayload p] none
    (w.pyBind x e, if ok then none else some .scopeClosed)
  | .newCond x isAll members =>
    match members.mapM (fun m => lookup w.py.names m) with
    | none => (w, some .nameError)
    | some ms =>
      let (w, e) := w.pyNewEvent (.condition isAll ms)
      let w := w.emitAs a lbl "pynew" ([(e : Int), (x : Int), if isAll then 3 else 4] ++ ms.map (fun (m : Nat) => (m : Int)))
      let (w, ok) := w.pySchedule [.pyCheckEvents e] none
      (w.pyBind x e, if ok then none else some .scopeClosed)
  | .succeed x v =>
    match lookup w.py.names x with
    | none => (w, some .nameError)
    | some e =>
      match w.pySetValue e (v, none) with
      | (w, some .pyTriggeredTwice) => (w.emitAs a lbl "twice" [x], none)
      | (w, none) => (w.emitAs a lbl "pytrig" [(e : Int), 1, v], none)
      | r => r
  | .fail x cls =>
    match lookup w.py.names x with
    | none => (w, some .nameError)
    | some e =>
      if (w.pyEv e).value.isSome then (w.emitAs a lbl "twice" [x], none)
      else
        let (w, exn) := w.newExn (.user cls w.userRaises)
        let (w, r) := ({ w with userRaises := w.userRaises + 1 }).pySetValue e (0, some exn)
        match r with
        | none => (w.emitAs a lbl "pytrig" ([(e : Int), 0] ++ w.exnCode1 exn), none)
        | some cls => (w, some cls)
  | .trigger x y =>
    match lookup w.py.names x, lookup w.py.names y with
    | some e, some src =>
      -- `assert self._value is None`; `self._value = event._value`; `self._trigger()`
      if (w.pyEv e).value.isSome then (w, some (.assertion 9))
      else match (w.pyEv src).value with
        | some val => w.pySetValue e val (w.pyEv src).cvalue
        | none =>
          -- (copies `None`: the event counts as triggered without a value)
          let (w, ok) := w.pyTrigger e
          (w, if ok then none else some .scopeClosed)
    | _, _ => (w, some .nameError)
  | .interrupt x cause =>
    match lookup w.py.names x with
    | none => (w, some .nameError)
    | some e =>
      match (w.pyEv e).kind with
      | .process p => ((w.pyInterrupt p cause).emitAs a lbl "pyintr" [(p : Int), cause], none)
      | _ => (w, some .nameError)
  | .addCallback x k =>
    match lookup w.py.names x with
    | none => (w, some .nameError)
    | some e =>
      match (w.pyEv e).callbacks with
      | some cbs => ((w.setPyEv e (fun ev => { ev with callbacks := some (cbs ++ [.log k]) })).emitAs a lbl "addcb" [(e : Int), k], none)
      | none => (w.emitAs a lbl "latecb" [x, k], none)
  | .probe x =>
    match lookup w.py.names x with
    | none => (w, some .nameError)
    | some e =>
      let ev := w.pyEv e
      (w.emitAs a lbl "pystate" ([(x : Int), if w.eval ev.flag then 1 else 0, if ev.callbacks.isNone then 1 else 0,
        if (match ev.value with | some (_, none) => true | _ => false) then 1 else 0] ++ w.pyValueCode e), none)
  | _ => (w, none)

/-- `Process._wait_interruptible(event, interrupts)` for an `Event` (events.py:456-478) -/
def pyWaitInterruptible (w : World τ) (a : ActId) (fs : List (Frame τ)) (p : Nat) (e : Nat) : World τ :=
  let ev := w.pyEv e
  if ev.callbacks.isSome then
    -- `if not event.processed: await (event.__usimpy_flag__ | interrupts.__usimpy_flag__)`
    let (w, c) := w.newCond (.any [ev.flag, (w.pyProc p).iflag])
    w.doCondAwait a (.pyWaited p e :: fs) c
  else w.retTo a (.pyWaited p e :: fs) .unit

/-- resume the generator of process `p`: `send(value)` / `throw(exception)`; the generator logs what it gets -/
def pyResume (w : World τ) (a : ActId) (fs : List (Frame τ)) (p : Nat) (what : List Int) (exn : Option ExnId) : World τ :=
  let pr := w.pyProc p
  let w := w.emitAs a (5000 + (p : Int)) "recv" ((pr.step : Int) :: what)
  match exn with
  | none => w.retTo a (.pyGen p :: fs) .unit
  | some x => if pr.catching then w.retTo a (.pyGen p :: fs) .unit else w.raiseTo a fs x

/-- the loop of `Condition._check_events` from its `while` on -/
def pyCheckContinue (w : World τ) (a : ActId) (fs : List (Frame τ)) (e : Nat) (unobserved : List Nat) (observed : Nat) : World τ :=
  match (w.pyEv e).kind with
  | .condition isAll members =>
    let evaluate : Bool := if isAll then members.length == observed else (observed != 0 || members.isEmpty)
    if !unobserved.isEmpty && !evaluate then
      let (w, c) := w.newCond (.any (unobserved.map (fun m => (w.pyEv m).flag)))
      w.doCondAwait a (.pyCheckLoop e unobserved observed :: fs) c
    else if evaluate then
      match w.pySetValue e (0, none) (w.pyFlatten 64 members) with
      | (w, some cls) => w.raiseNew a fs cls
      | (w, none) => w.retTo a fs .unit
    else w.retTo a fs .unit
  | _ => w.retTo a fs .unit

/-- scan of the events that may have triggered (both passes of `_check_events` share it): the
remaining unobserved events and count, or the failed event that makes the condition fail -/
def pyScan (w : World τ) : List Nat → List Nat → Nat → (List Nat × Nat) ⊕ Nat
  | [], un, obs => .inl (un.reverse, obs)
  | m :: ms, un, obs =>
    if !(w.eval (w.pyEv m).flag) then pyScan w ms (m :: un) obs
    else match (w.pyEv m).value with
      | some (_, none) => pyScan w ms un (obs + 1)
      | _ => .inr m

/-- a member failed: `event.defused = True; self.fail(event.value)` -/
def pyCondFail (w : World τ) (a : ActId) (fs : List (Frame τ)) (e : Nat) (m : Nat) : World τ :=
  let w := w.setPyEv m (fun x => { x with defused := true })
  match (w.pyEv m).value with
  | some (_, some x) =>
    (match w.pySetValue e (0, some x) with
     | (w, some cls) => w.raiseNew a fs cls
     | (w, none) => w.retTo a fs .unit)
  | _ =>
    -- triggered without a value (`trigger` of an untriggered event): `event.ok` is False, `event.value` raises
    w.raiseNew a fs .nameError

/-- run the generator of process `p` up to its next `yield` / end (frames `fs` = the caller in `_run_payload`) -/
def pyGenStep (w : World τ) (a : ActId) (fs : List (Frame τ)) (p : Nat) : World τ :=
  let pr := w.pyProc p
  let lbl : Int := 5000 + (p : Int)
  match pr.code with
  | [] => w.raiseNew a fs (.stopIteration (-9))                        -- falls off the end: `None` (written -9)
  | i :: rest =>
    let w := w.setPyProc p (fun x => { x with code := rest })
    match i with
    | .ret v => w.raiseNew a fs (.stopIteration v)
    | .raise cls => ({ w with userRaises := w.userRaises + 1 }).raiseNew a fs (.user cls w.userRaises)
    | .yieldEv x catching =>
      (match lookup w.py.names x with
       | none => w.raiseNew a fs .nameError
       | some e =>
         ((w.setPyProc p (fun y => { y with catching := catching, step := y.step + 1 })).emitAs a lbl "pyyield"
           [(pr.step + 1 : Nat), (e : Int), 0, 0]).retTo a fs (.int e))
    | .yieldTimeout d v catching =>
      if lt d (zero : τ) then w.raiseNew a fs .valueError
      else
        let (w, e) := w.pyNewEvent .timeout
        let w := w.emitAs a lbl "pynew" ([(e : Int), -1, 1] ++ tArgs d ++ [v])
        let (w, ok) := w.pySchedule [.pySleep d, .pyTimeoutFire e v] none
        if ok then
          ((w.setPyProc p (fun y => { y with catching := catching, step := y.step + 1 })).emitAs a lbl "pyyield"
            [(pr.step + 1 : Nat), (e : Int), 0, 0]).retTo a fs (.int e)
        else w.raiseNew a fs .scopeClosed
    | .yieldNative n catching =>
      let w := w.setPyProc p (fun y =>
        { y with catching := catching, step := y.step + 1, native := some n, nativeCoro := none, nativeDone := false, nativeExn := none })
      (w.emitAs a lbl "pyyield" [(pr.step + 1 : Nat), -1, 0, 0]).retTo a fs .unit
    | .yieldCoro d v failCls catching =>
      let w := w.setPyProc p (fun y =>
        { y with catching := catching, step := y.step + 1, native := none, nativeCoro := some (d, v, failCls), nativeDone := false, nativeExn := none })
      (w.emitAs a lbl "pyyield" ([((pr.step + 1 : Nat) : Int), -2, v, if failCls.isSome then 1 else 0] ++ tArgs d)).retTo a fs .unit
    | i =>
      match w.pySync a lbl i with
      | (w, none) => w.retTo a (.pyGen p :: fs) .unit
      | (w, some cls) => w.raiseNew a fs cls


/-- what an `until(..)` scope listens to, for traces: 0 plain scope, 1 delay, 2 `>=`, 3 `==`, 4 `<`,
5 flag, 6 inverted flag, 9 anything else -/
def untilDesc : Option (NExpr τ) → List Int
  | none => [0, 0, 1]
  | some (.delay d) => 1 :: tArgs d
  | some (.cond (.after t)) => 2 :: tArgs t
  | some (.cond (.moment t)) => 3 :: tArgs t
  | some (.cond (.before t)) => 4 :: tArgs t
  | some (.cond (.flag f)) => [5, f, 1]
  | some (.cond (.inv (.flag f))) => [6, f, 1]
  | some (.cond (.any [.flag f, .flag g])) => [7, f, g]
  | some (.cond (.all [.flag f, .flag g])) => [8, f, g]
  | some (.cond _) => [9, 0, 1]

def truthy (x : Option τ) : Bool :=
  match x with
  | some v => !(beq v (zero : τ))
  | none => false

/-- execute one program statement of activity `a`; `fs` is the frame stack with the rest of the
current block (`seq rest`) already on top -/
def execStmt (w : World τ) (a : ActId) (fs : List (Frame τ)) : Stmt τ → World τ
  | .log k => (w.emit a "log" [k]).retTo a fs .unit
  | .logNow => (w.emit a "now" []).retTo a fs .unit
  | .sleep d =>
    let w := w.emit a "abegin" (0 :: tArgs d)
    let fs := .sleepMark :: fs
    if lt d (zero : τ) then w.raiseNew a fs (.assertion 3)          -- Time.__add__: delay must be >= 0
    else if beq d (zero : τ) then w.doPostpone a fs                  -- Instant
    else
      let (w, c) := w.newCond (.delay d)
      w.doNotifAwait a fs c
  | .awaitC c =>
    let desc : List Int := match c with
      | .after t => 1 :: tArgs t
      | .moment t => 2 :: tArgs t
      | .before t => 3 :: tArgs t
      | .eternity => [4, 0, 1]
      | .instant => [5, 0, 1]
      | .ref n => (match (lookup w.condNames n).map (fun c => (w.cond c).kind) with
        | some (.delay d) => 0 :: tArgs d            -- a kept `time + d` object: a delay from now
        | some (.after d _) => 1 :: tArgs d          -- a kept `time >= d` / `time == d` / `time < d` object
        | some (.moment d _) => 2 :: tArgs d
        | some (.before d) => 3 :: tArgs d
        | _ => [9, 0, 1])
      | _ => [9, 0, 1]
    match w.buildCond c with
    | some (w, cid) => (w.emit a "abegin" desc).doCondAwait a (.awaitMark cid :: fs) cid
    | none => w.raiseNew a fs .notImplemented
  | .defCond n c =>
    (match w.buildCond c with
     | some (w, cid) => ({ w with condNames := (n, cid) :: w.condNames.filter (·.1 != n) }).retTo a fs .unit
     | none => w.raiseNew a fs .notImplemented)
  | .logCond c =>
    match w.buildCond c with
    | some (w, cid) => (w.emit a "alg" [if w.eval cid then 1 else 0, if w.evalSpec c then 1 else 0]).retTo a fs .unit
    | none => w.raiseNew a fs .notImplemented
  | .setFlag f b =>                                                   -- flag.py Flag.set
    match lookup w.flagIds f with
    | none => (w.emit a "unbound" []).retTo a fs .unit
    | some c =>
      let w := w.emit a "setflag" [f, if b then 1 else 0]
      match (w.cond c).kind with
      | .flag v inv =>
        let w :=
          if b && !v then (w.setCond c (fun x => { x with kind := .flag true inv })).awakeAll c
          else if v && !b then (w.setCond c (fun x => { x with kind := .flag false inv })).awakeAll inv
          else w
        w.doPostpone a fs
      | _ => w.retTo a fs .unit
  | .scope name untilN body =>
    -- the notification expression is evaluated before `until(...)` is called
    let built : Option (World τ × Option CondId) :=
      match untilN with
      | none => some (w, none)
      | some (.cond c) => (w.buildCond c).map (fun (w, cid) => (w, some cid))
      | some (.delay d) =>
        if beq d (zero : τ) then let (w, c) := w.newCond .instant; some (w, some c)
        else let (w, c) := w.newCond (.delay d); some (w, some c)
    match built with
    | none => w.raiseNew a fs .notImplemented
    | some (w, notif) =>
      let sid := w.scopes.size
      let bd := w.conds.size
      let (w, _) := w.newCond (.flag false (bd + 1))
      let (w, _) := w.newCond (.invFlag bd)
      let (w, cs) := w.newSig (.cancelSelf sid)
      let (w, intr) := match notif with
        | some _ => let (w, i) := w.newSig (.scopeInterrupt sid); (w, some i)
        | none => (w, none)
      let sc : Scope := { bodyDone := bd, cancelSelf := cs, activity := some a, notification := notif, interrupt := intr,
                          name := name, inst := w.scopeInsts, silent := name ≥ 100000 }
      let w := { w with scopes := w.scopes.push sc, scopeInsts := if name ≥ 100000 then w.scopeInsts else w.scopeInsts + 1,
                        scopeNames := (name, sid) :: w.scopeNames.filter (·.1 != name) }
      -- InterruptScope.__aenter__: subscribe the interrupt
      let w' := match notif, intr with
        | some n, some i => w.subscribe n a i
        | _, _ => some w
      match w' with
      | some w => (w.emitScope a sid "senter" ([(name : Int), ((w.scope sid).inst : Int)] ++ untilDesc untilN)).retTo a (.seq body :: .scopeBody sid :: fs) .unit
      | none => w.raiseNew a fs (.assertion 1)
  | .spawn scope task prog after at_ volatile =>                       -- context.py Scope.do
    match lookup w.scopeNames scope with
    | none => (w.emit a "unbound" []).retTo a fs .unit
    | some sid =>
      if !(w.scope sid).interruptable then w.raiseNew a fs .scopeClosed
      else
        let after := match after with
          | some d => if beq d (zero : τ) then none else some d
          | none => none
        let at_ := match at_ with
          | some t => if beq t w.time then none else some t
          | none => none
        let bad := (match after with | some d => !(gt d (zero : τ)) | none => false) ||
                   (match at_ with | some t => !(gt t w.time) | none => false)
        if bad && w.cfg.debug then w.raiseNew a fs (.assertion 2)
        else
          let tid := w.tasks.size
          let dc := w.conds.size
          let (w, _) := w.newCond (.done tid false (dc + 1))
          let (w, _) := w.newCond (.notDone dc)
          let (w, r) := w.newAct [.taskStart tid after at_ prog, .coroutineEnd] false (1000 + tid)
          let tk : Task := { runner := r, parent := sid, volatile := volatile, done := dc }
          let w := { w with tasks := w.tasks.push tk,
                            taskNames := (task, tid) :: w.taskNames.filter (·.1 != task) }
          let w := w.scheduleNow r none
          let w := if volatile then w.setScope sid (fun x => { x with volatileChildren := x.volatileChildren ++ [tid] })
                   else w.setScope sid (fun x => { x with children := x.children ++ [tid] })
          (w.emitScope a sid "spawn" (([((w.scope sid).inst : Int), 1000 + (tid : Int), if volatile then 1 else 0] : List Int) ++
            (match after, at_ with
             | some d, _ => 1 :: tArgs d
             | none, some t => 2 :: tArgs t
             | none, none => [0, 0, 1]))).retTo a fs .unit
  | .spawnRoot scope idx prog =>                                       -- usim/__init__.py run(): `scope.do(activity)`
    match lookup w.scopeNames scope with
    | none => w.retTo a fs .unit
    | some sid =>
      if !(w.scope sid).interruptable then w.raiseNew a fs .scopeClosed   -- `Scope.do` (context.py:173)
      else
        let tid := w.tasks.size
        let dc := w.conds.size
        let (w, _) := w.newCond (.done tid false (dc + 1))
        let (w, _) := w.newCond (.notDone dc)
        let (w, r) := w.newAct [.taskStart tid none none prog, .coroutineEnd] true (idx : Int)
        let tk : Task := { runner := r, parent := sid, volatile := false, done := dc, quiet := true }
        let w := { w with tasks := w.tasks.push tk }
        let w := w.scheduleNow r none
        (w.setScope sid (fun x => { x with children := x.children ++ [tid] })).retTo a fs .unit
  | .cancel task tok =>                                                -- task.py Task.cancel
    match lookup w.taskNames task with
    | none => (w.emit a "unbound" []).retTo a fs .unit
    | some t =>
      let w := w.emit a "cancel" [1000 + t, w.statusCode t, tok]
      if (w.task t).result.isSome then w.retTo a fs .unit
      else if (w.act (w.task t).runner).status == .created then
        let (w, e) := w.newExn (.taskCancelled t tok)
        let w := w.setTask t (fun x => { x with result := some (0, some e) })
        (w.setDone t).retTo a fs .unit
      else
        let (w, s) := w.newSig (.cancelTask t tok)
        let w := w.setTask t (fun x => { x with cancellations := x.cancellations ++ [s] })
        (w.scheduleNow (w.task t).runner (some s)).retTo a fs .unit
  | .awaitTask task =>
    match lookup w.taskNames task with
    | none => (w.emit a "unbound" []).retTo a fs .unit
    | some t => w.doCondAwait a (.taskResult t false :: fs) (w.task t).done
  | .awaitScope scope =>
    match lookup w.scopeNames scope with
    | none => (w.emit a "unbound" []).retTo a fs .unit
    | some s => w.doCondAwait a fs (w.scope s).bodyDone
  | .logStatus task =>
    match lookup w.taskNames task with
    | none => (w.emit a "unbound" []).retTo a fs .unit
    | some t => (w.emit a "status" [1000 + t, w.statusCode t]).retTo a fs .unit
  | .raise cls =>
    let (w, e) := w.newExn (.user cls w.userRaises)
    { w with userRaises := w.userRaises + 1 }.raiseTo a fs e
  | .tryCatch body handlers => w.retTo a (.seq body :: .tryBlock handlers :: fs) .unit
  | .tryFinally body cleanup => w.retTo a (.seq body :: .finallyBlock cleanup :: fs) .unit
  | .ret v =>
    let w := w.emit a "ret" [v]
    match fs with
    | _ :: below => w.retTo a (.retVal v :: below) .unit
    | [] => w.retTo a fs (.int v)
  | .withLock l body => (w.emit a "lreq" [l]).acquireLock a fs l (.body body)
  | .logAvail l =>
    let lk := w.locks.getD l default
    let av := match lk.owner with
      | none => true
      | some o => o == a
    (w.emit a "avail" [l, if av then 1 else 0]).retTo a fs .unit
  | .qPut q v =>                                                       -- streams.py Queue.put
    let qu := w.queues.getD q default
    let v := v * 1000 + w.putCount
    let w := { w with putCount := w.putCount + 1 }
    let w := w.emit a "putreq" [q, v]
    if qu.closed then (w.emit a "putrej" [q, v]).raiseNew a fs .streamClosed
    else
      let w := { w with queues := w.queues.modify q (fun x => { x with buffer := x.buffer ++ [v] }) }
      let (w, _) := w.awakeNext qu.notif
      w.doPostpone a fs
  | .qGet q => (w.emit a "getreq" [q]).acquireLock a (.gotValue :: fs) (w.queues.getD q default).mutex (.queueGet q)
  | .qClose q =>
    let qu := w.queues.getD q default
    let w := w.emit a "qclose" [q]
    let w := if !qu.closed then
        ({ w with queues := w.queues.modify q (fun x => { x with closed := true }) }).awakeAll qu.notif
      else w
    w.doPostpone a fs
  | .qIter q n body => w.retTo a (.qIterNext q n body :: fs) .unit
  | .cPut c v =>                                                       -- streams.py Channel.put
    let ch := w.chans.getD c default
    let v := v * 1000 + w.putCount
    let w := { w with putCount := w.putCount + 1 }
    let w := w.emit a "cputreq" [c, v]
    if ch.closed then (w.emit a "cputrej" [c, v]).raiseNew a fs .streamClosed
    else
      let w := { w with chans := w.chans.modify c (fun x => { x with buffers := x.buffers.map (fun (b : Nat × List Int) => (b.1, b.2 ++ [v])) }) }
      (w.awakeAll ch.notif).doPostpone a fs
  | .cGet c =>                                                         -- streams.py Channel.__await__
    let ch := w.chans.getD c default
    if ch.closed then (w.emit a "csub" [c, 0, -1]).raiseNew a fs .streamClosed
    else
      let key := ch.nextKey
      let w := w.emit a "csub" [c, 0, key]
      let w := { w with chans := w.chans.modify c (fun x => { x with buffers := x.buffers ++ [(key, [])], nextKey := key + 1 }) }
      w.doNotifAwait a (.cGetWait c key :: .cGotValue c key :: fs) ch.notif
  | .cClose c =>
    let ch := w.chans.getD c default
    let w := w.emit a "cclose" [c]
    let w := if !ch.closed then
        ({ w with chans := w.chans.modify c (fun x => { x with closed := true }) }).awakeAll ch.notif
      else w
    w.doPostpone a fs
  | .cIter c n body =>
    let ch := w.chans.getD c default
    let key := ch.nextKey
    let w := w.emit a "csub" [c, 1, key]
    let w := { w with chans := w.chans.modify c (fun x => { x with buffers := x.buffers ++ [(key, [])], nextKey := key + 1 }) }
    w.retTo a (.cIterLoop c key n body :: fs) .unit
  | .setTracked x v => (w.setTrackedValue x v).doPostpone a fs
  | .addTracked x v => (w.setTrackedValue x ((w.tracked.getD x default).value + v)).doPostpone a fs
  | .borrow r amounts bind body => (w.emit a "breq" ((r : Int) :: 0 :: amounts)).borrowEnter a (.borrowMark r :: fs) r amounts bind body false
  | .claim r amounts bind body => (w.emit a "breq" ((r : Int) :: 1 :: amounts)).borrowEnter a (.borrowMark r :: fs) r amounts bind body true
  | .resChange r kind amounts =>                                       -- resource.py Resources.set/increase/decrease
    match lookup w.resNames r with
    | none => (w.emit a "unbound" []).retTo a fs .unit
    | some rid =>
      let w := w.emit a "reschange" ((r : Int) :: (kind : Int) :: amounts)
      let levels := (w.res.getD rid default).levels
      if w.cfg.debug && amounts.any (fun x => x < 0 && !(kind == 2 && x == -1)) then (w.emit a "resrej" [r]).raiseNew a fs (.assertion 4)
      else match kind with
        | 0 => (w.setLevels rid (vecAdd levels amounts)).doPostpone a fs
        | 1 =>
          if w.cfg.debug && (vecSub levels amounts).any (· < 0) then (w.emit a "resrej" [r]).raiseNew a fs (.assertion 4)
          else (w.setLevels rid (vecSub levels amounts)).doPostpone a fs
        | _ => (w.setLevels rid ((levels.zip amounts).map (fun p => if p.2 == -1 then p.1 else p.2))).doPostpone a fs
  | .resPool order =>
    -- `ResourceLevels` are specialised with their field names sorted (`_resource_level.py`): iteration follows the names, not the spelling
    (w.emit a "lvorder" ((List.range order.length).map (fun (i : Nat) => (i : Int)))).retTo a fs .unit
  | .logLevels r =>
    match lookup w.resNames r with
    | none => (w.emit a "unbound" []).retTo a fs .unit
    | some rid => (w.emit a "levels" (w.res.getD rid default).levels).retTo a fs .unit
  | .transfer p total throughput =>                                    -- pipe.py Pipe.transfer / UnboundedPipe.transfer
    let pp := w.pipes.getD p default
    let fs := .transferDone p :: fs
    let w := w.emit a "tstart" (([(p : Int), if throughput.isSome then 1 else 0] : List Int) ++ tArgs total ++
      (match throughput with | some t => tArgs t | none => [0, 1]))
    if w.cfg.debug && (lt total (zero : τ) || (match throughput with | some t => !(gt t (zero : τ)) | none => false)) then
      w.raiseNew a fs (.assertion 5)
    else match pp.throughput with
      | none =>
        match throughput with
        | none => w.doPostpone a fs
        | some t =>
          let delay := div total t
          if gt delay (zero : τ) then w.doSuspend a fs (.delay delay) else w.doPostpone a fs
      | some pthr =>
        if beq total (zero : τ) then w.doPostpone a fs
        else
          let thr := throughput.getD pthr
          let ident := pp.nextId
          let w := { w with pipes := w.pipes.modify p (fun x => { x with subs := x.subs ++ [(ident, thr)], nextId := ident + 1 }) }
          let w := w.throttle p
          if lt (zero : τ) total then w.pipeWindowStart a fs p ident total thr (zero : τ)
          else (w.pipeFinish p ident).retTo a fs .unit
  | .interval period n body =>
    let w := w.emit a "tbegin" (1 :: tArgs period ++ [(n : Int)])
    if lt period (zero : τ) then w.raiseNew a fs .valueError
    else w.tickNext a fs true period w.time n body
  | .delayIter period n body =>
    let w := w.emit a "tbegin" (0 :: tArgs period ++ [(n : Int)])
    if lt period (zero : τ) then w.raiseNew a fs .valueError
    else w.tickNext a fs false period w.time n body
  | .collect progs =>                                                  -- _concurrent/basics.py collect
    let w := w.emit a "cbegin" [(progs.length : Int), 1000 + (w.tasks.size : Int)]
    let base := w.freshName
    let names := (List.range progs.length).map (· + base + 1)
    let spawns := (progs.zip names).map (fun p => Stmt.spawn base p.2 p.1 none none false)
    let w := { w with freshName := base + progs.length + 1 }
    w.retTo a (.seq [.scope base none spawns] :: .collectAwait names [] :: fs) .unit
  | .pyUntil initial untilWhat setup =>                               -- core.py Environment.until
    let envName := w.freshName
    let w := { w with freshName := envName + 1, py := { w.py with initial := some initial, scopeName := envName } }
    let w := w.emit a "pyuntil" ((match untilWhat with
      | .none => [0, 0, 1]
      | .time t => 1 :: tArgs t
      | .event x => [2, x, 1]) ++ tArgs initial)
    w.retTo a (.pyCode setup :: .seq [.scope envName none [.pyStartup, .pyUntilBody untilWhat]] :: .pyUntilEnd :: fs) .unit
  | .pyWith initial setup body =>                                      -- `async with env:`
    let envName := w.freshName
    let w := { w with freshName := envName + 1, py := { w.py with initial := some initial, scopeName := envName } }
    let w := w.emit a "pyuntil" ([3, 0, 1] ++ tArgs initial)
    w.retTo a (.pyCode setup :: .seq [.scope envName none (.pyStartup :: body)] :: .pyWithEnd :: fs) .unit
  | .pyStartup =>                                                      -- core.py Environment.__aenter__ (after `_scope.__aenter__`)
    match lookup w.scopeNames w.py.scopeName with
    | none => w.retTo a fs .unit
    | some sid =>
      let w := w.setScope sid (fun x => { x with env := true })
      let w := { w with py := { w.py with scope := some sid } }
      let spawnAll (w : World τ) : World τ :=
        let st := w.py.startup
        let w := { w with py := { w.py with startup := [] } }
        st.foldl (fun w (pd : List (Stmt τ) × Option τ) => (w.pyScopeDo sid pd.1 pd.2).1) w
      match w.py.initial with
      | some t0 =>
        if lt w.time t0 then
          match w.buildCond (.moment t0) with
          | some (w, c) => w.doCondAwait a (.seq [.pyStartup] :: fs) c
          | none => w.retTo a fs .unit
        else (spawnAll w).retTo a fs .unit
      | none => (spawnAll w).retTo a fs .unit
  | .pyUntilBody untilWhat =>
    match untilWhat with
    | .none => w.retTo a fs .unit
    | .event x =>
      match lookup w.py.names x with
      | none => w.raiseNew a fs .nameError
      | some e => w.doCondAwait a (.raiseStop :: fs) (w.pyEv e).flag
    | .time t =>
      if lt t w.time then w.raiseNew a fs .valueError
      else match w.buildCond (.after t) with
        | some (w, c) => w.doCondAwait a (.raiseStop :: fs) c
        | none => w.retTo a fs .unit
  | .pyDo i =>
    let lbl := (w.acts.getD a default).label
    (match w.pySync a lbl i with
     | (w, none) => w.retTo a fs .unit
     | (w, some cls) => w.raiseNew a fs cls)
  | .pyAwait x =>                                                      -- events.py Event.__await__
    match lookup w.py.names x with
    | none => w.raiseNew a fs .nameError
    | some e => w.doCondAwait a (.pyAwaited e :: fs) (w.pyEv e).flag
  | .pyRunPayload p =>                                                 -- events.py Process._run_payload: `generator.send(None)`
    w.retTo a (.pyGen p :: .pyPayloadStart p :: fs) .unit
  | .pySleep d =>
    if lt d (zero : τ) then w.raiseNew a fs (.assertion 3)
    else if beq d (zero : τ) then w.doPostpone a fs
    else
      let (w, c) := w.newCond (.delay d)
      w.doNotifAwait a fs c
  | .pyTimeoutFire e v =>
    (match w.pySetValue e (v, none) with
     | (w, none) => w.retTo a fs .unit
     | (w, some cls) => w.raiseNew a fs cls)
  | .pyInvokeCallbacks e =>                                            -- events.py Event._invoke_callbacks
    let ev := w.pyEv e
    match ev.value, ev.callbacks with
    | some (_, exn), some cbs =>
      let w := w.setPyEv e (fun x => { x with callbacks := none })
      let w := cbs.foldl (fun w cb => match cb with
        | .log k => w.emitAs a (4000 + (e : Int)) "cb" [k]) w
      (match exn with
       | some x => if (w.pyEv e).defused then w.retTo a fs .unit else w.raiseTo a fs x
       | none => w.retTo a fs .unit)
    | _, _ => if w.cfg.debug then w.raiseNew a fs (.assertion 10) else w.retTo a fs .unit
  | .pyNativeAwait n =>
    (match n with
     | .delay d =>
       if lt d (zero : τ) then w.raiseNew a fs (.assertion 3)
       else if beq d (zero : τ) then w.doPostpone a fs
       else
         let (w, c) := w.newCond (.delay d)
         w.doNotifAwait a fs c
     | .cond c =>
       match w.buildCond c with
       | some (w, cid) => w.doCondAwait a fs cid
       | none => w.raiseNew a fs .notImplemented)
  | .pyNativeDone p => (w.setPyProc p (fun x => { x with nativeDone := true })).retTo a fs .unit
  | .pyNativeFail p cls =>
    let (w, x) := w.newExn (.user cls w.userRaises)
    (({ w with userRaises := w.userRaises + 1 }).setPyProc p (fun y => { y with nativeDone := true, nativeExn := some x })).retTo a fs .unit
  | .pyCheckEvents e =>                                                -- events.py Condition._check_events
    (match (w.pyEv e).kind with
     | .condition _ members =>
       (match w.pyScan members [] 0 with
        | .inl (un, obs) => w.pyCheckContinue a fs e un obs
        | .inr m => w.pyCondFail a fs e m)
     | _ => w.retTo a fs .unit)
  | .nestedRun progs start =>                                          -- usim.run(...) inside an activity
    let sv : Saved τ := { time := w.time, turn := w.turn, pending := w.pending, queue := w.queue, ctl := w.ctl }
    let w := w.setFrames a (.nestedRun :: fs)
    let (w, acts) := progs.foldl (fun (p : World τ × List Activation) prog =>
      let (w, x) := p.1.newAct [.seq prog, .coroutineEnd] true (10000 + 100 * p.1.nestedRuns + p.2.length)
      (w, p.2 ++ [{ target := x, signal := none }])) (w, [])
    { w with saved := sv :: w.saved, time := start, turn := 0, pending := [], queue := [(start, acts)], ctl := [],
             nestedRuns := w.nestedRuns + 1 }
  | .first progs count brk body =>                                     -- _concurrent/basics.py first (an async generator)
    let n := progs.length
    let cnt := count.getD n
    let w := w.emit a "fbegin" [(n : Int), (cnt : Int), (match brk with | some b => (b : Int) | none => -1),
      if cnt > n then -1 else 1000 + (w.tasks.size : Int)]
    -- the generator's code runs at the first `__anext__`
    if cnt > n then w.raiseNew a (.firstEnd false none :: fs) .valueError
    else
      let base := w.freshName
      let names := (List.range n).map (· + base + 1)
      let w := { w with freshName := base + n + 1 }
      -- `results = Queue()`
      let (w, qn) := w.newCond .plain
      let (w, qm) := w.newCond .plain
      let l := w.locks.size
      let q := w.queues.size
      let w := { w with locks := w.locks.push { notif := qm }, queues := w.queues.push { notif := qn, mutex := l } }
      let spawns := (progs.zip names).map (fun p => Stmt.spawn base p.2 [.monitor p.1 q] none none true)
      w.retTo a (.seq [.scope base none (spawns ++ [.firstLoop q cnt brk body])] :: .firstEnd false none :: fs) .unit
  | .monitor prog q =>                                                 -- `result = await contestant`
    let w := match w.tasks.toList.findIdx? (·.runner == a) with
      | some t => w.setTask t (fun x => { x with quiet := true })
      | none => w
    w.retTo a (.seq prog :: .firstMonitor q :: fs) .unit
  | .firstLoop q cnt brk body => w.retTo a (.firstNext q cnt brk body :: fs) .unit   -- `async for winner in a.islice(results, count)`

/-- deliver a normal return value `v` to the top frame `f` of activity `a` (`fs` = frames below) -/
def stepRet (w : World τ) (a : ActId) (f : Frame τ) (fs : List (Frame τ)) (v : Val) : World τ :=
  match f with
  | .seq [] => w.retTo a fs .unit
  | .retVal r => w.retTo a fs (.int r)
  | .seq (s :: ss) => w.execStmt a (.seq ss :: fs) s
  | .wakeHib wake => (w.revoke wake).retTo a fs .unit
  | .notifHib c wake =>
    let (w, ok) := w.unsubscribe c a wake
    if ok then w.retTo a fs .unit else w.raiseNew a fs .valueError
  | .foreverHib => w.retTo a fs .unit
  | .condLoop c =>
    if w.eval c then w.retTo a fs (.bool true) else w.doNotifAwait a (.condLoop c :: fs) c
  | .connStart c =>                                                    -- condition.py:117-127
    if w.eval c then w.retTo a fs (.bool true)
    else
      let children := match (w.cond c).kind with
        | .all cs | .any cs => cs
        | _ => []
      -- subscribe to every child that is not true yet
      let rec sub (w : World τ) (acc : List (CondId × SigId)) : List CondId → Option (World τ × List (CondId × SigId))
        | [] => some (w, acc.reverse)
        | ch :: rest =>
          if w.eval ch then sub w acc rest
          else
            let (w, wake) := w.newSig .wake
            match w.subscribe ch a wake with
            | some w => sub w ((ch, wake) :: acc) rest
            | none => none
      match sub w [] children with
      | some (w, subs) => w.hibernate a (.connHib c subs :: fs)
      | none => w.raiseNew a fs (.assertion 1)
  | .connHib c subs =>
    let w := subs.reverse.foldl (fun w (p : CondId × SigId) => (w.unsubscribe p.1 a p.2).1) w
    w.retTo a (.connStart c :: fs) .unit
  | .retTrue => w.retTo a fs (.bool true)
  | .awaitMark c => (w.emit a "awaited" [if w.eval c then 1 else 0]).retTo a fs .unit
  | .sleepMark => (w.emit a "awaited" [1]).retTo a fs .unit
  | .tickEnd => (w.emit a "tbodyend" []).retTo a fs .unit
  | .taskResult t quiet =>
    match (w.task t).result with
    | some (v, none) => (if quiet then w else w.emit a "taskret" [1000 + t, v]).retTo a fs (.int v)
    | some (_, some e) => w.raiseTo a fs e
    | none => w.retTo a fs .unit
  | .taskStart t delay at_ prog =>                                     -- task.py payload_wrapper
    if (w.task t).result.isSome then (w.childFinished t false).retTo a fs .unit
    else if delay.isSome || at_.isSome then
      let when : When τ := match delay, at_ with
        | some d, _ => .delay d
        | none, some x => .at_ x
        | none, none => .now
      w.doSuspend a (.taskDelay t prog :: fs) when
    else w.retTo a (.seq prog :: .taskPayload t :: fs) .unit
  | .taskDelay t prog => w.retTo a (.seq prog :: .taskPayload t :: fs) .unit
  | .taskPayload t =>
    let w := if (w.task t).quiet then w else w.emit a "tfin" [0]
    let w := w.setTask t (fun x => { x with result := some (valInt v, none) })
    ((w.childFinished t false).taskFinalize t).retTo a fs .unit
  | .scopeBody s =>                                                    -- context.py __aexit__, exc_type None
    let bd := (w.scope s).bodyDone
    let w := match (w.cond bd).kind with
      | .flag false inv => (w.setCond bd (fun x => { x with kind := .flag true inv })).awakeAll bd
      | _ => w
    w.doPostpone a (.scopeExitSet s :: fs)
  | .scopeExitSet s => w.retTo a (.scopeExitWait s [] :: fs) .unit
  | .scopeExitWait s snap =>
    match snap with
    | [] =>
      if (w.scope s).children.isEmpty then w.beginClose a fs s none true
      else w.retTo a (.scopeExitWait s (w.scope s).children :: fs) .unit
    | c :: rest => w.doCondAwait a (.scopeExitWait s rest :: fs) (w.task c).done
  | .scopeClose s todo reason volDone orig graceful => w.continueClose a fs s todo reason volDone orig graceful
  | .tryBlock _ => w.retTo a fs .unit
  | .finallyBlock cleanup => (w.emit a "cleanup" [0]).retTo a (.seq cleanup :: fs) .unit
  | .reraise e => w.raiseTo a fs e
  | .closeResume => w.raiseNew a fs .genExit
  | .lockWait l cont => w.lockAcquired a fs l cont
  | .lockBody l user =>                                                -- locks.py Lock.__aexit__
    let w := if user then w.emit a "lexit" [l] else w
    let w := { w with locks := w.locks.modify l (fun x => { x with depth := x.depth - 1 }) }
    let w := if (w.locks.getD l default).depth == 0 then w.lockRelease l else w
    w.retTo a fs v
  | .qGetPop q =>                                                      -- streams.py:158,163-167
    match (w.queues.getD q default).buffer with
    | x :: rest =>
      ({ w with queues := w.queues.modify q (fun y => { y with buffer := rest }) }).retTo a fs (.int x)
    | [] =>
      if (w.queues.getD q default).closed then w.raiseNew a fs .streamClosed
      else w.raiseNew a fs (.assertion 6)
  | .gotValue => (w.emit a "got" [valInt v]).retTo a fs .unit
  | .cGotValue c key => (w.emit a "got" [valInt v, c, key]).retTo a fs .unit
  | .qIterNext q rem body =>
    if rem == 0 then w.retTo a fs .unit
    else (w.emit a "getreq" [q]).acquireLock a (.qIterGot q rem body :: fs) (w.queues.getD q default).mutex (.queueGet q)
  | .qIterGot q rem body =>
    (w.emit a "got" [valInt v]).retTo a (.seq body :: .qIterNext q (rem - 1) body :: fs) .unit
  | .cGetWait c key =>                                                 -- streams.py Channel.__await__
    let ch := w.chans.getD c default
    let buf := ((ch.buffers.find? (·.1 == key)).map (·.2)).getD []
    let w := { w with chans := w.chans.modify c (fun x => { x with buffers := x.buffers.filter (·.1 != key) }) }
    match buf with
    | x :: _ => w.retTo a fs (.int x)
    | [] => if ch.closed then w.raiseNew a fs .streamClosed else w.raiseNew a fs .valueError
  | .cIterLoop c key rem body =>                                       -- streams.py Channel.__aiter__
    let ch := w.chans.getD c default
    let dereg (w : World τ) : World τ :=
      { w with chans := w.chans.modify c (fun x => { x with buffers := x.buffers.filter (·.1 != key) }) }
    if rem == 0 then ((dereg w).emit a "cleave" [c, key]).retTo a fs .unit
    else
      match ((ch.buffers.find? (·.1 == key)).map (·.2)).getD [] with
      | x :: rest =>
        let w := { w with chans := w.chans.modify c (fun y => { y with buffers := y.buffers.map (fun (b : Nat × List Int) => if b.1 == key then (b.1, rest) else b) }) }
        (w.emit a "got" [x, c, key]).retTo a (.seq body :: .cIterNext c key (rem - 1) :: .cIterLoop c key (rem - 1) body :: fs) .unit
      | [] =>
        if ch.closed then ((dereg w).emit a "cend" [c, key]).retTo a fs .unit
        else w.doNotifAwait a (.cIterWait c key rem body :: fs) ch.notif
  | .cIterWait c key rem body => w.retTo a (.cIterLoop c key rem body :: fs) .unit
  | .cIterNext c key rem => (if rem > 0 then w.emit a "cnext" [c, key] else w).retTo a fs .unit
  | .borrowWait r b body =>
    let rs := w.res.getD r default
    let debits := (w.res.getD b default).debits
    (w.setLevels r (vecSub rs.levels debits)).doPostpone a (.borrowRemoved r b body :: fs)
  | .borrowRemoved r b body =>
    let bs := w.res.getD b default
    (w.setLevels b (vecAdd bs.levels bs.debits)).doPostpone a (.borrowInserted r b body :: fs)
  | .borrowInserted r b body => (w.emit a "benter" (w.res.getD b default).debits).retTo a (.seq body :: .borrowBody r b :: fs) .unit
  | .borrowBody r b =>                                                 -- BorrowedResources.__aexit__, no exception
    let w := w.emit a "bbody" [0]
    let bs := w.res.getD b default
    (w.setLevels b (vecSub bs.levels bs.debits)).doPostpone a (.borrowExit1 r b none :: fs)
  | .borrowExit1 r b orig =>
    let rs := w.res.getD r default
    (w.setLevels r (vecAdd rs.levels (w.res.getD b default).debits)).doPostpone a (.borrowExit2 orig :: fs)
  | .borrowExit2 orig =>
    match orig with
    | some e => w.raiseTo a fs e
    | none => w.retTo a fs .unit
  | .resAdjust r amounts insert =>
    let rs := w.res.getD r default
    (w.setLevels r (if insert then vecAdd rs.levels amounts else vecSub rs.levels amounts)).doPostpone a fs
  | .pipeWindow p ident total thr _ wStart wThr cw =>
    -- suspend/postpone returned normally: `transferred = total`, leave the subscription
    let (w, _) := w.plainUnsubscribe (w.pipes.getD p default).congested a cw
    let transferred := add total (mul (sub w.time wStart) wThr)
    if lt transferred total then w.pipeWindowStart a fs p ident total thr transferred
    else (w.pipeFinish p ident).retTo a fs .unit
  | .tickWait isInt period _ rem body =>
    (w.emit a "tick" []).retTo a (.seq body :: .tickEnd :: .tickBody isInt period w.time (rem - 1) body :: fs) .unit
  | .tickBody isInt period last rem body => w.tickNext a fs isInt period last rem body
  | .firstMonitor q =>                                                 -- `await queue.put(result)`
    let w := w.emit a "tfin" [0]
    let qu := w.queues.getD q default
    if qu.closed then w.raiseNew a fs .streamClosed                    -- `Queue.put` (streams.py): refused when closed
    else
      let w := { w with queues := w.queues.modify q (fun x => { x with buffer := x.buffer ++ [valInt v] }) }
      let (w, _) := w.awakeNext qu.notif
      w.doPostpone a fs
  | .firstNext q rem brk body =>
    -- `islice`: after `count` results (or at once for `count == 0`) the iteration is over
    if rem == 0 then w.retTo a fs .unit
    else w.acquireLock a (.firstGot q rem brk body :: fs) (w.queues.getD q default).mutex (.queueGet q)
  | .firstGot q rem brk body =>                                        -- `yield winner`: the consumer's body runs
    (w.emit a "got" [valInt v]).retTo a (.seq body :: .firstYield q (rem - 1) (brk.map (· - 1)) body :: fs) .unit
  | .firstYield q rem brk body =>
    if brk == some 0 then
      -- `break`: the generator is dropped, CPython finalises it at once: GeneratorExit at the `yield`
      let (w, g) := w.newExn .genExit
      w.raiseTo a (markClosing fs none) g
    else w.retTo a (.firstNext q rem brk body :: fs) .unit
  | .firstEnd closing pending =>
    match closing, pending with
    | true, some e => (w.emit a "fabort" []).raiseTo a fs e
    | _, _ => (w.emit a "fend" []).retTo a fs .unit
  | .raiseStop => w.raiseNew a fs .stopSimulation
  | .pyCode code =>
    (match code with
     | [] => w.retTo a fs .unit
     | i :: rest =>
       match w.pySync a (w.acts.getD a default).label i with
       | (w, none) => w.retTo a (.pyCode rest :: fs) .unit
       | (w, some cls) => w.raiseNew a fs cls)
  | .pyGen p => w.pyGenStep a fs p
  | .pyPayloadStart p | .pyPayloadLoop p =>                            -- `self.target = event = generator.send(..)`
    (match v with
     | .int e =>
       let e := e.toNat
       (w.setPyProc p (fun x => { x with target := some e })).pyWaitInterruptible a fs p e
     | _ =>
       -- an awaitable that is not an Event: `AwaitableEvent(event).wait_interruptible(interrupts.__usimpy_flag__)`
       let sc := w.freshName
       match (w.pyProc p).native, (w.pyProc p).nativeCoro with
       | some n, _ =>
         let w := { w with freshName := sc + 1 }
         w.retTo a (.seq [.scope sc (some (.cond (.flag (200000 + p)))) [.pyNativeAwait n, .pyNativeDone p]] :: .pyNativeWaited p :: fs) .unit
       | none, some (d, _, failCls) =>
         let w := { w with freshName := sc + 1 }
         w.retTo a (.seq [.scope sc (some (.cond (.flag (200000 + p))))
           [.pySleep d, match failCls with | some c => .pyNativeFail p c | none => .pyNativeDone p]] :: .pyNativeWaited p :: fs) .unit
       | none, none => w.raiseNew a fs (.assertion 11))
  | .pyWaited p e =>                                                   -- events.py:472-478, 436-449
    let pr := w.pyProc p
    (match pr.causes with
     | cause :: rest =>
       -- `event = interrupts; self.target = None`; `interrupts.ok` is False: `generator.throw(Interrupt(pop()))`
       let w := w.setPyProc p (fun x => { x with causes := rest, target := none })
       let w := if rest.isEmpty then
           w.setCond pr.iflag (fun x => match x.kind with
             | .flag _ inv => { x with kind := .flag false inv }
             | _ => x)
         else w
       let (w, x) := w.newExn (.pyInterrupt cause)
       w.pyResume a (.pyPayloadLoop p :: fs) p [1, 16, cause] (some x)
     | [] =>
       match (w.pyEv e).value with
       | some (_, none) => w.pyResume a (.pyPayloadLoop p :: fs) p (w.pyValueCode e) none
       | some (_, some x) =>
         (w.setPyEv e (fun y => { y with defused := true })).pyResume a (.pyPayloadLoop p :: fs) p (1 :: w.exnCode1 x) (some x)
       | none => w.raiseNew a (.pyPayloadLoop p :: fs) .nameError)
  | .pyNativeWaited p =>
    let pr := w.pyProc p
    if pr.nativeDone then
      -- `event.ok`: `generator.send(event.value)` - a Delay gives None (-9), conditions and Instant give True
      let res : Int := match pr.native, pr.nativeCoro with
        | some (.delay d), _ => if gt d (zero : τ) then -9 else 1
        | none, some (_, v, _) => v
        | _, _ => 1
      match pr.nativeExn with
      | some x => w.pyResume a (.pyPayloadLoop p :: fs) p (1 :: w.exnCode1 x) (some x)
      | none => w.pyResume a (.pyPayloadLoop p :: fs) p [0, res] none
    else
      match pr.causes with
      | cause :: rest =>
        let w := w.setPyProc p (fun x => { x with causes := rest })
        let w := if rest.isEmpty then
            w.setCond pr.iflag (fun x => match x.kind with
              | .flag _ inv => { x with kind := .flag false inv }
              | _ => x)
          else w
        let (w, x) := w.newExn (.pyInterrupt cause)
        w.pyResume a (.pyPayloadLoop p :: fs) p [1, 16, cause] (some x)
      | [] => w.raiseNew a (.pyPayloadLoop p :: fs) (.assertion 12)
  | .pyUntilEnd | .pyWithEnd => (w.emit a "pydone" []).retTo a fs .unit
  | .pyAwaited e =>
    (match (w.pyEv e).value with
     | some (_, none) => (w.emit a "pygot" (w.pyValueCode e)).retTo a fs .unit
     | some (_, some x) =>
       ((w.setPyEv e (fun y => { y with defused := true })).emit a "pygot" (1 :: w.exnCode1 x)).retTo a fs .unit
     | none => w.raiseNew a fs .nameError)
  | .pyCheckLoop e unobserved observed =>
    (match w.pyScan unobserved [] observed with
     | .inl (un, obs) => w.pyCheckContinue a fs e un obs
     | .inr m => w.pyCondFail a fs e m)
  | .collectAwait todo acc =>
    let acc := match v with
      | .int i => acc ++ [i]
      | _ => acc
    match todo with
    | [] => (w.emit a "collected" acc).retTo a fs .unit
    | n :: rest =>
      match lookup w.taskNames n with
      | some t => w.doCondAwait a (.taskResult t true :: .collectAwait rest acc :: fs) (w.task t).done
      | none => w.retTo a (.collectAwait rest acc :: fs) .unit
  | .nestedRun => w.retTo a fs .unit
  | .transferDone p => (w.emit a "tdone" [p]).retTo a fs .unit
  | .borrowMark r => (w.emit a "bexit" [r, 0]).retTo a fs .unit
  | .asyncTrigger c => (w.awakeAll c).retTo a fs .unit
  | .coroutineEnd => w.finishAct a (.ret v)

/-- deliver exception `e` to the top frame `f` of activity `a` -/
def stepRaise (w : World τ) (a : ActId) (f : Frame τ) (fs : List (Frame τ)) (e : ExnId) : World τ :=
  match f with
  | .seq _ | .retVal _ => w.raiseTo a fs e
  | .wakeHib wake =>                                                   -- notification.py:27-35
    let w := w.revoke wake
    if (w.sig wake).exn == e then w.retTo a fs .unit else w.raiseTo a fs e
  | .notifHib c wake =>                                                -- notification.py:112-126
    let (w, ok) := w.unsubscribe c a wake
    if !ok then w.raiseNew a fs .valueError
    else if (w.sig wake).exn == e then w.retTo a fs .unit else w.raiseTo a fs e
  | .foreverHib => w.raiseTo a fs e
  | .condLoop _ => w.raiseTo a fs e
  | .connStart _ => w.raiseTo a fs e
  | .connHib c subs =>
    -- ExitStack unwinding: last subscription first; the one whose wake-up arrived swallows it
    let (w, swallowed) := subs.reverse.foldl (fun (p : World τ × Bool) (q : CondId × SigId) =>
        let (w, sw) := p
        let sw := sw || (w.sig q.2).exn == e
        ((w.unsubscribe q.1 a q.2).1, sw)) (w, false)
    if swallowed then w.retTo a (.connStart c :: fs) .unit else w.raiseTo a fs e
  | .retTrue | .awaitMark _ | .sleepMark | .tickEnd => w.raiseTo a fs e
  | .taskResult _ _ => w.raiseTo a fs e
  | .taskStart t _ _ _ | .taskDelay t _ | .taskPayload t =>            -- task.py:137-157
    let started := match f with
      | .taskPayload _ => true
      | _ => false
    let w := if !started || (w.task t).quiet then w else match w.exn e with
      | .genExit => w.emit a "tfin" [2]
      | .sig sg => (match (w.sig sg).kind with
        | .cancelTask _ _ => w.emit a "tfin" [1]
        | _ => w.emit a "tfin" (3 :: w.exnCode1 e))
      | _ => w.emit a "tfin" (3 :: w.exnCode1 e)
    match w.exn e with
    | .genExit => ((w.childFinished t false).taskFinalize t).retTo a fs .unit
    | cls =>
      let cancelOf : Option Int := match cls with
        | .sig sg => match (w.sig sg).kind with
          | .cancelTask t' tok => if t' == t then some tok else none
          | _ => none
        | _ => none
      match cancelOf with
      | some tok =>
        let (w, tc) := w.newExn (.taskCancelled t tok)
        let w := w.setTask t (fun x => { x with result := some (0, some tc) })
        ((w.childFinished t false).taskFinalize t).retTo a fs .unit
      | none =>
        let w := w.setTask t (fun x => { x with result := some (0, some e) })
        ((w.childFinished t true).taskFinalize t).retTo a fs .unit
  | .scopeBody s =>                                                    -- context.py __aexit__, exception in body
    let bd := (w.scope s).bodyDone
    let w := match (w.cond bd).kind with
      | .flag _ inv => (w.setCond bd (fun x => { x with kind := .flag true inv })).awakeAll bd
      | _ => w
    w.beginClose a fs s (some e) false
  | .scopeExitSet s | .scopeExitWait s _ => w.beginClose a fs s (some e) true
  | .scopeClose s .. => (w.emitScope a s "sexit" [(w.scope s).name, (w.scope s).inst, 1, w.notDone s]).raiseTo a fs e
  | .tryBlock handlers =>
    let isCancel : Bool := match w.exn e with
      | .sig sg => (match (w.sig sg).kind with | .cancelTask .. => true | _ => false)
      | _ => false
    match handlers.find? (fun h => h.1.any (fun p => patMatches p (w.exn e) || (p == .cancelTask && isCancel))) with
    | some h =>
      -- being closed synchronously (`__runner__.close()` by the activity below on the control stack): every
      -- statement of the program is its own coroutine level, and `close()` raises GeneratorExit at each level
      -- whose sub-coroutine ended without an error
      let closing := match w.ctl with
        | (a', _) :: _ :: _ => a' == a
        | _ => false
      (w.emit a "caught" (w.exnCode e)).retTo a (.seq h.2 :: (if closing then .closeResume :: fs else fs)) .unit
    | none => w.raiseTo a fs e
  | .finallyBlock cleanup => (w.emit a "cleanup" (1 :: w.exnCode1 e)).retTo a (.seq cleanup :: .reraise e :: fs) .unit
  | .reraise _ | .closeResume => w.raiseTo a fs e
  | .lockWait l _ =>                                                   -- locks.py:66-71
    let w := if (w.locks.getD l default).owner == some a then w.lockRelease l else w
    w.raiseTo a fs e
  | .lockBody l user =>
    let w := if user then w.emit a "lexit" [l] else w
    let w := { w with locks := w.locks.modify l (fun x => { x with depth := x.depth - 1 }) }
    let w := if (w.locks.getD l default).depth == 0 then w.lockRelease l else w
    w.raiseTo a fs e
  | .qGetPop _ | .gotValue | .cGotValue .. | .qIterNext .. | .cIterWait .. | .cIterNext .. =>
    match f with
    | .cIterWait c key _ _ =>
      ({ w with chans := w.chans.modify c (fun x => { x with buffers := x.buffers.filter (·.1 != key) }) }).raiseTo a fs e
    | _ => w.raiseTo a fs e
  | .qIterGot .. =>
    -- Queue.__aiter__: `except StreamClosed: break`
    if w.exn e == .streamClosed then w.retTo a fs .unit else w.raiseTo a fs e
  | .cGetWait c key | .cIterLoop c key _ _ =>
    ({ w with chans := w.chans.modify c (fun x => { x with buffers := x.buffers.filter (·.1 != key) }) }).raiseTo a fs e
  | .borrowWait .. | .borrowRemoved .. | .borrowInserted .. | .borrowExit1 .. | .borrowExit2 _
  | .resAdjust .. | .tickWait .. | .tickBody .. | .collectAwait .. | .nestedRun => w.raiseTo a fs e
  | .transferDone p => (w.emit a "tabort" [p]).raiseTo a fs e
  | .firstMonitor _ =>                                                 -- the contestant failed / was closed
    let w := match w.exn e with
      | .genExit => w.emit a "tfin" [2]
      | .sig sg => (match (w.sig sg).kind with
        | .cancelTask _ _ => w.emit a "tfin" [1]
        | _ => w.emit a "tfin" (3 :: w.exnCode1 e))
      | _ => w.emit a "tfin" (3 :: w.exnCode1 e)
    w.raiseTo a fs e
  | .firstNext .. | .firstGot .. => w.raiseTo a fs e                   -- raised inside the generator
  | .firstYield .. =>
    -- raised by the consumer's body: the abandoned generator is finalised (GeneratorExit at its
    -- `yield`), whatever that raises is dropped, then the exception goes on in the consumer
    let (w, g) := w.newExn .genExit
    w.raiseTo a (markClosing fs (some e)) g
  | .firstEnd closing pending =>
    if closing then
      match pending with
      | some e' => (w.emit a "fabort" []).raiseTo a fs e'
      | none => (w.emit a "fend" []).retTo a fs .unit
    else (w.emit a "fabort" []).raiseTo a fs e
  | .raiseStop | .pyCode _ | .pyGen _ | .pyWaited .. | .pyNativeWaited _ | .pyAwaited _ | .pyCheckLoop .. | .pyWithEnd => w.raiseTo a fs e
  | .pyPayloadStart p | .pyPayloadLoop p =>
    -- (the first `generator.send(None)` has the same handlers as the loop's `try`: finding F15, repaired)
    let ev := (w.pyProc p).event
    let w := w.emitAs a (5000 + (p : Int)) "pyend" (match w.exn e with
      | .stopIteration v => [0, v]
      | _ => 1 :: w.exnCode1 e)
    (match w.exn e with
     | .stopIteration v =>                                             -- `self.succeed(value)`; `break`
       (match w.pySetValue ev (v, none) with
        | (w, none) => w.retTo a fs .unit
        | (w, some cls) => w.raiseNew a fs cls)
     | _ =>                                                            -- `self.fail(err)`; `break`
       (match w.pySetValue ev (0, some e) with
        | (w, none) => w.retTo a fs .unit
        | (w, some cls) => w.raiseNew a fs cls))
  | .pyUntilEnd =>                                                     -- core.py:137-140
    (match w.exn e with
     | .concurrent (c :: _) => w.raiseTo a fs c
     | .stopSimulation => (w.emit a "pydone" []).retTo a fs .unit
     | _ => w.raiseTo a fs e)
  | .borrowMark r => (w.emit a "bexit" [r, 1]).raiseTo a fs e
  | .borrowBody r b =>                                                 -- BorrowedResources.__aexit__ with an exception
    let w := w.emit a "bbody" [1]
    let bs := w.res.getD b default
    if w.exn e == .genExit then
      -- forcefully closed: dispatch two new activities that give the resources back
      let (w, a1) := w.newAct [.resAdjust b bs.debits false, .coroutineEnd]
      let w := w.scheduleNow a1 none
      let (w, a2) := w.newAct [.resAdjust r bs.debits true, .coroutineEnd]
      let w := w.scheduleNow a2 none
      w.raiseTo a fs e
    else (w.setLevels b (vecSub bs.levels bs.debits)).doPostpone a (.borrowExit1 r b (some e) :: fs)
  | .pipeWindow p ident total thr transferred wStart wThr cw =>
    let (w, _) := w.plainUnsubscribe (w.pipes.getD p default).congested a cw
    if (w.sig cw).exn == e then
      -- the congestion notification: re-plan with the new scale
      let transferred := add transferred (mul (sub w.time wStart) wThr)
      if lt transferred total then w.pipeWindowStart a fs p ident total thr transferred
      else (w.pipeFinish p ident).retTo a fs .unit
    else (w.pipeFinish p ident).raiseTo a fs e
  | .asyncTrigger _ => w.raiseTo a fs e
  | .coroutineEnd =>
    -- (trace only: what escapes a root activity is what `run()` has to report)
    let w := if (w.act a).isRoot && !(w.exn e == .genExit) then w.emit a "rootexc" (w.exnCode e) else w
    w.finishAct a (.raise e)

/-- one transition of the running activity -/
def microStep (w : World τ) : World τ :=
  match w.ctl with
  | [] => w
  | (a, mode) :: _ =>
    match (w.act a).frames with
    | [] => w.finishAct a mode
    | f :: fs =>
      match mode with
      | .ret v => w.stepRet a f fs v
      | .raise e => w.stepRaise a f fs e

/-- `Loop._run_coroutine(target, signal)` -/
def activate (w : World τ) (target : ActId) (signal : Option SigId) : World τ :=
  let st := (w.act target).status
  match st, signal with
  | .created, none =>
    { (w.setAct target (fun x => { x with status := .running })) with ctl := [(target, .ret .unit)] }
  | .created, some s =>
    -- `throw()` into a coroutine that never started: it is finished, the signal escapes the loop
    { (w.setAct target (fun x => { x with status := .finished, frames := [] })) with crashed := some (w.sig s).exn }
  | .suspended, some s =>
    { (w.setAct target (fun x => { x with status := .running })) with ctl := [(target, .raise (w.sig s).exn)] }
  | .suspended, none =>
    { (w.setAct target (fun x => { x with status := .running })) with ctl := [(target, .ret .unit)] }
  | _, _ =>
    -- RuntimeError: cannot reuse already awaited coroutine
    let (w, e) := w.newExn .reuse
    { w with crashed := some e }

/-- the innermost `run()` returns: to the caller activity of an enclosing simulation, if any -/
def nestedReturn (w : World τ) : Option (World τ) :=
  match w.saved with
  | [] => none
  | sv :: rest =>
    let w := { w with saved := rest, time := sv.time, turn := sv.turn, pending := sv.pending, queue := sv.queue, ctl := sv.ctl }
    match w.crashed with
    | some e => some ({ w with crashed := none }.setMode (.raise e))
    | none => some (w.setMode (.ret .unit))

/-- `Loop._run_events`: next activation of the current time step, or the next bucket;
`none` = `run()` returns (quiescence or an escaped exception) -/
def kernelStep (w : World τ) : Option (World τ) :=
  if w.crashed.isSome then w.nestedReturn
  else
    match w.pending with
    | act :: rest =>
      let w := { w with pending := rest }
      let valid := match act.signal with
        | none => true
        | some s => !(w.sig s).revoked
      if valid then some ({ w with turn := w.turn + 1 }.activate act.target act.signal) else some w
    | [] =>
      match w.queue with
      | (t, bucket) :: q => some { w with time := t, turn := 0, pending := bucket, queue := q }
      | [] => w.nestedReturn

def step (w : World τ) : Option (World τ) :=
  match w.ctl with
  | [] => w.kernelStep
  | _ => some w.microStep

/-- run until `run()` would return, or the fuel is exhausted (reported as `false`) -/
def runFuel : Nat → World τ → World τ × Bool
  | 0, w => (w, false)
  | n+1, w =>
    match w.step with
    | none => (w, true)
    | some w' => runFuel n w'

end World

/-- declarations of the program's global objects -/
structure Decls (τ : Type) where
  flags : Nat := 0
  locks : Nat := 0
  queues : Nat := 0
  chans : Nat := 0
  tracked : List Int := []
  resources : List (List Int × Bool) := []
  pipes : List (Option τ) := []

/-- the world with the program's global objects, before any activity exists -/
def initDecls (cfg : Config) (start : τ) (d : Decls τ) : World τ :=
  let w : World τ := { cfg := cfg, time := start }
  -- flags: each `Flag()` creates its `InverseFlag`
  let w := (List.range d.flags).foldl (fun (w : World τ) f =>
    let c := w.conds.size
    let (w, _) := w.newCond (.flag false (c + 1))
    let (w, _) := w.newCond (.invFlag c)
    { w with flagIds := w.flagIds ++ [(f, c)] }) w
  let w := (List.range d.locks).foldl (fun (w : World τ) _ =>
    let (w, n) := w.newCond .plain
    { w with locks := w.locks.push { notif := n } }) w
  let w := d.tracked.foldl (fun (w : World τ) v => { w with tracked := w.tracked.push { value := v } }) w
  let w := (List.range d.queues).foldl (fun (w : World τ) _ =>
    let (w, n) := w.newCond .plain
    let (w, m) := w.newCond .plain
    let l := w.locks.size
    { w with locks := w.locks.push { notif := m }, queues := w.queues.push { notif := n, mutex := l } }) w
  let w := (List.range d.chans).foldl (fun (w : World τ) _ =>
    let (w, n) := w.newCond .plain
    { w with chans := w.chans.push { notif := n } }) w
  let w := d.resources.foldl (fun (w : World τ) (r : List Int × Bool) =>
    let rid := w.res.size
    if r.2 then
      -- Capacities: a borrowed share of a hidden Resources supply
      let w := { w with res := w.res.push { levels := r.1.map (fun _ => 0) } }
      { w with res := w.res.push { levels := r.1, parent := some rid, debits := r.1 },
               resNames := w.resNames ++ [(w.resNames.length, rid + 1)] }
    else
      { w with res := w.res.push { levels := r.1 }, resNames := w.resNames ++ [(w.resNames.length, rid)] }) w
  let w := d.pipes.foldl (fun (w : World τ) (t : Option τ) =>
    let (w, n) := w.newCond .plain
    { w with pipes := w.pipes.push { throughput := t, scale := TimeLike.ofInt 1, congested := n } }) w
  w

def initWorld (cfg : Config) (start : τ) (d : Decls τ) (roots : List (Prog τ)) (till : Option τ := none) : World τ :=
  let w := initDecls cfg start d
  -- root activities are pushed into the time queue at `start` (loop.py:131-132)
  match till with
  | none =>
    let (w, acts) := roots.foldl (fun (p : World τ × List Activation) prog =>
      let (w, a) := p.1.newAct [.seq prog, .coroutineEnd] true p.2.length
      (w, p.2 ++ [{ target := a, signal := none }])) (w, [])
    { w with queue := [(start, acts)] }
  | some t =>
    -- `run(.., till=t)` (usim/__init__.py): one hidden root activity
    -- `async with until(time == t) as scope: for activity in activities: scope.do(activity)`
    let h := w.freshName
    let w := { w with freshName := h + 1 }
    let spawns := (roots.zipIdx).map (fun (pi : Prog τ × Nat) => Stmt.spawnRoot h pi.2 pi.1)
    let (w, a) := w.newAct [.seq [.scope h (some (.cond (.moment t))) spawns], .coroutineEnd] false (-1)
    { w with queue := [(start, [{ target := a, signal := none }])] }

end USim.Machine
