import USimModel.Machine.Kernel
/-
Small-step semantics of the machine: `microStep` advances the activity on top of the control stack
by one frame transition; `kernelStep` selects the next activation when no activity is running.
Each frame transition mirrors one control state of the corresponding usim coroutine
(source locations are given next to each case).
-/
namespace USim.Machine
open TimeLike

variable {τ : Type} [TimeLike τ]

namespace World

/-! ### small helpers -/

def lookup (l : List (Name × Nat)) (n : Name) : Option Nat := (l.find? (·.1 == n)).map (·.2)

def curAct (w : World τ) : ActId := (w.ctl.head?.map (·.1)).getD 0

def setMode (w : World τ) (m : Mode) : World τ :=
  match w.ctl with
  | [] => w
  | (a, _) :: rest => { w with ctl := (a, m) :: rest }

def setFrames (w : World τ) (a : ActId) (fs : List (Frame τ)) : World τ :=
  w.setAct a (fun x => { x with frames := fs })

/-- continue activity `a` with frames `fs`, delivering value `v` to the top frame -/
def retTo (w : World τ) (a : ActId) (fs : List (Frame τ)) (v : Val) : World τ :=
  (w.setFrames a fs).setMode (.ret v)

def raiseTo (w : World τ) (a : ActId) (fs : List (Frame τ)) (e : ExnId) : World τ :=
  (w.setFrames a fs).setMode (.raise e)

def raiseNew (w : World τ) (a : ActId) (fs : List (Frame τ)) (cls : ExnCls) : World τ :=
  let (w, e) := w.newExn cls
  w.raiseTo a fs e

/-- the running activity yields `Hibernate`: it is suspended; if somebody was closing it
synchronously, that closer sees "coroutine ignored GeneratorExit" -/
def hibernate (w : World τ) (a : ActId) (fs : List (Frame τ)) : World τ :=
  let w := w.setAct a (fun x => { x with frames := fs, status := .suspended })
  match w.ctl with
  | _ :: [] => { w with ctl := [] }
  | _ :: (b, _) :: rest =>
    let (w, e) := w.newExn .ignoredExit
    { w with ctl := (b, .raise e) :: rest }
  | [] => w

/-- the running activity's coroutine ended (returned `v` / raised `e`) -/
def finishAct (w : World τ) (a : ActId) (out : Mode) : World τ :=
  let w := w.setAct a (fun x => { x with frames := [], status := .finished })
  match w.ctl with
  | _ :: [] =>
    -- back in `Loop._run_coroutine`
    match out with
    | .ret .unit => { w with ctl := [] }
    | .ret _ => let (w, e) := w.newExn .activityLeak; { w with ctl := [], crashed := some e }
    | .raise e => { w with ctl := [], crashed := some e }
  | _ :: (b, _) :: rest =>
    -- `coroutine.close()` returns to the closer
    match out with
    | .ret _ => { w with ctl := (b, .ret .unit) :: rest }
    | .raise e =>
      if w.exn e == .genExit then { w with ctl := (b, .ret .unit) :: rest }
      else { w with ctl := (b, .raise e) :: rest }
  | [] => w

/-! ### conditions -/

def cmpOp (op : Nat) (a b : Int) : Bool :=
  match op with
  | 0 => a < b | 1 => a ≤ b | 2 => a == b | 3 => a != b | 4 => a ≥ b | _ => a > b

/-- elementwise comparison of level vectors (`_resource_level.py`): every pair must satisfy the
operator; `!=` is `not ==` -/
def vecCmp (op : Nat) (a b : List Int) : Bool :=
  match op with
  | 3 => !((a.zip b).all (fun p => p.1 == p.2))
  | _ => (a.zip b).all (fun p => cmpOp op p.1 p.2)

/-- `bool(condition)` (`fuel` bounds the nesting depth of connectives) -/
def evalCond (w : World τ) : Nat → CondId → Bool
  | 0, _ => false
  | fuel+1, c =>
    match (w.cond c).kind with
    | .flag v _ => v
    | .invFlag f => !(evalCond w fuel f)
    | .after d _ => ge w.time d
    | .before d => lt w.time d
    | .moment d _ => beq w.time d
    | .eternity => false
    | .instant => true
    | .all cs => cs.all (evalCond w fuel)
    | .any cs => cs.any (evalCond w fuel)
    | .done _ v _ => v
    | .notDone d => !(evalCond w fuel d)
    | .cmp x op v => cmpOp op (w.tracked.getD x default).value v
    | .cmp2 x op y => cmpOp op (w.tracked.getD x default).value (w.tracked.getD y default).value
    | .resCmp r op amounts => vecCmp op (w.res.getD r default).levels amounts
    | .delay _ => true
    | .plain => true

def eval (w : World τ) (c : CondId) : Bool := evalCond w (w.conds.size + 1) c

/-- `Notification.__awake_all__` / `Condition.__trigger__` (notification.py:92-98) -/
def awakeAll (w : World τ) (c : CondId) : World τ :=
  let waiting := (w.cond c).waiting
  let w := w.setCond c (fun x => { x with waiting := [] })
  waiting.foldl (fun w (p : ActId × SigId) => w.scheduleNow p.1 (some p.2)) w

/-- `Notification.__awake_next__` (notification.py:81-90): wake the oldest waiter -/
def awakeNext (w : World τ) (c : CondId) : World τ × Option ActId :=
  match (w.cond c).waiting with
  | [] => (w, none)
  | (a, s) :: rest =>
    let w := w.setCond c (fun x => { x with waiting := rest })
    (w.scheduleNow a (some s), some a)

/-- `After._ensure_trigger` (timing.py:46-49): schedule a helper coroutine that triggers at `date` -/
def ensureTrigger (w : World τ) (c : CondId) : Option (World τ) :=
  match (w.cond c).kind with
  | .after d false =>
    let w := w.setCond c (fun x => { x with kind := .after d true })
    let (w, a) := w.newAct [.asyncTrigger c, .coroutineEnd]
    w.schedule a none (.at_ d)
  | _ => some w

/-- `Condition.__subscribe__` (condition.py:92-99) -/
def condSubscribe (w : World τ) (c : CondId) (waiter : ActId) (s : SigId) : World τ :=
  if w.eval c then w.scheduleNow waiter (some s)
  else w.setCond c (fun x => { x with waiting := x.waiting ++ [(waiter, s)] })

/-- `<notification>.__subscribe__`, dispatched on the class; `none` = a usage assertion failed -/
def subscribe (w : World τ) (c : CondId) (waiter : ActId) (s : SigId) : Option (World τ) :=
  match (w.cond c).kind with
  | .plain => some (w.setCond c (fun x => { x with waiting := x.waiting ++ [(waiter, s)] }))
  | .delay d =>                                                  -- timing.py Delay.__subscribe__
    (w.setSig s (fun x => { x with scheduled := true })).schedule waiter (some s) (.delay d)
  | .after _ _ =>                                                -- timing.py After.__subscribe__
    if w.eval c then some (w.condSubscribe c waiter s)
    else (w.ensureTrigger c).map (fun w => w.condSubscribe c waiter s)
  | .moment d tr =>                                              -- timing.py Moment.__subscribe__
    if gt w.time d then some (w.setCond c (fun x => { x with waiting := x.waiting ++ [(waiter, s)] }))
    else if w.eval tr then some (w.condSubscribe tr waiter s)
    else (w.ensureTrigger tr).map (fun w => w.condSubscribe tr waiter s)
  | _ => some (w.condSubscribe c waiter s)

/-- `Notification.__unsubscribe__` (notification.py:105-110); `false` = ValueError (not subscribed) -/
def plainUnsubscribe (w : World τ) (c : CondId) (waiter : ActId) (s : SigId) : World τ × Bool :=
  if (w.sig s).scheduled then (w.revoke s, true)
  else
    let waiting := (w.cond c).waiting
    if waiting.contains (waiter, s) then
      (w.setCond c (fun x => { x with waiting := x.waiting.erase (waiter, s) }), true)
    else (w, false)

def unsubscribe (w : World τ) (c : CondId) (waiter : ActId) (s : SigId) : World τ × Bool :=
  match (w.cond c).kind with
  | .moment _ tr =>
    if (w.cond c).waiting.contains (waiter, s) then w.plainUnsubscribe c waiter s
    else w.plainUnsubscribe tr waiter s
  | _ => w.plainUnsubscribe c waiter s

mutual
/-- `~c` for an already built (= normalised) condition, exactly like the `__invert__` methods:
`All -> Any of inverses`, `After <-> Before`, `Eternity <-> Instant`, `Flag <-> InverseFlag`,
comparison -> inverse operator; `Moment` raises NotImplementedError (= `none`) -/
def invertNorm : CExpr τ → Option (CExpr τ)
  | .flag f => some (.inv (.flag f))
  | .done t => some (.inv (.done t))
  | .inv (.flag f) => some (.flag f)
  | .inv (.done t) => some (.done t)
  | .inv _ => none
  | .after t => some (.before t)
  | .before t => some (.after t)
  | .moment _ => none
  | .eternity => some .instant
  | .instant => some .eternity
  | .all cs => (invertNorms cs).map .any
  | .any cs => (invertNorms cs).map .all
  | .tracked x op v => some (.tracked x (match op with | 0 => 4 | 4 => 0 | 5 => 1 | 1 => 5 | 2 => 3 | _ => 2) v)
  | .resLevel r op v => some (.resLevel r (match op with | 0 => 4 | 4 => 0 | 5 => 1 | 1 => 5 | 2 => 3 | _ => 2) v)
  | .tracked2 x op y => some (.tracked2 x (match op with | 0 => 4 | 4 => 0 | 5 => 1 | 1 => 5 | 2 => 3 | _ => 2) y)
  | .ref _ => none
  | .delay _ => none
  | .andOp .. => none
  | .orOp .. => none
def invertNorms : List (CExpr τ) → Option (List (CExpr τ))
  | [] => some []
  | c :: cs => (invertNorm c).bind (fun c' => (invertNorms cs).map (c' :: ·))
end

mutual
/-- normal form (`inv` only directly around `flag` / `done`), computed bottom-up like Python
evaluates the expression: the operand of `~` is built first, then inverted -/
def normExpr : CExpr τ → Option (CExpr τ)
  | .inv c => (normExpr c).bind invertNorm
  | .all cs => (normExprs cs).map .all
  | .any cs => (normExprs cs).map .any
  | .andOp a b => (normExpr a).bind (fun a' => (normExpr b).map (fun b' => .andOp a' b'))
  | .orOp a b => (normExpr a).bind (fun a' => (normExpr b).map (fun b' => .orOp a' b'))
  | c => some c
def normExprs : List (CExpr τ) → Option (List (CExpr τ))
  | [] => some []
  | c :: cs => (normExpr c).bind (fun c' => (normExprs cs).map (c' :: ·))
end

mutual
/-- build the condition objects of a *normalised* expression (`time >= t` creates a new `After`) -/
def buildNorm (w : World τ) : CExpr τ → Option (World τ × CondId)
  | .flag f => (lookup w.flagIds f).map (fun c => (w, c))
  | .inv (.flag f) => (lookup w.flagIds f).map (fun c =>
      match (w.cond c).kind with
      | .flag _ inv => (w, inv)
      | _ => (w, c))
  | .inv (.done t) => (lookup w.taskNames t).map (fun tid =>
      match (w.cond (w.task tid).done).kind with
      | .done _ _ inv => (w, inv)
      | _ => (w, (w.task tid).done))
  | .inv _ => none
  | .after t => some (w.newCond (.after t false))
  | .before t => some (w.newCond (.before t))
  | .moment t =>
    let (w, tr) := w.newCond (.after t false)
    some (w.newCond (.moment t tr))
  | .eternity => some (w.newCond .eternity)
  | .instant => some (w.newCond .instant)
  | .ref n => (lookup w.condNames n).map (fun c => (w, c))
  | .done t => (lookup w.taskNames t).map (fun tid => (w, (w.task tid).done))
  | .all cs => (buildNorms w cs).map (fun (w, ids) => w.newCond (.all ids))
  | .any cs => (buildNorms w cs).map (fun (w, ids) => w.newCond (.any ids))
  | .tracked x op v =>
    let (w, c) := w.newCond (.cmp x op v)
    some ({ w with tracked := w.tracked.modify x (fun t => { t with listeners := t.listeners ++ [c] }) }, c)
  | .resLevel r op v =>
    (lookup w.resNames r).map (fun rid =>
      let (w, c) := w.newCond (.resCmp rid op v)
      ({ w with res := w.res.modify rid (fun t => { t with listeners := t.listeners ++ [c] }) }, c))
  | .tracked2 x op y =>
    -- AsyncComparison.__init__: `right.__add_listener__(self)` then `left.__add_listener__(self)`
    let (w, c) := w.newCond (.cmp2 x op y)
    let w := { w with tracked := w.tracked.modify y (fun t => { t with listeners := t.listeners ++ [c] }) }
    some ({ w with tracked := w.tracked.modify x (fun t => if t.listeners.contains c then t else { t with listeners := t.listeners ++ [c] }) }, c)
  | .delay d => some (w.newCond (.delay d))
  -- `a & b`: `All.__and__` spreads the children of an `All` on either side, `Condition.__and__` keeps a non-`All` left
  -- operand as it is; the result is always a new object (condition.py:67-75, 139-142)
  | .andOp a b =>
    (buildNorm w a).bind (fun (p : World τ × CondId) => (buildNorm p.1 b).map (fun (q : World τ × CondId) =>
      let ka := match (q.1.cond p.2).kind with | .all cs => cs | _ => [p.2]
      let kb := match (q.1.cond q.2).kind with | .all cs => cs | _ => [q.2]
      q.1.newCond (.all (ka ++ kb))))
  | .orOp a b =>
    (buildNorm w a).bind (fun (p : World τ × CondId) => (buildNorm p.1 b).map (fun (q : World τ × CondId) =>
      let ka := match (q.1.cond p.2).kind with | .any cs => cs | _ => [p.2]
      let kb := match (q.1.cond q.2).kind with | .any cs => cs | _ => [q.2]
      q.1.newCond (.any (ka ++ kb))))
def buildNorms (w : World τ) : List (CExpr τ) → Option (World τ × List CondId)
  | [] => some (w, [])
  | c :: cs => (buildNorm w c).bind (fun (w, i) => (buildNorms w cs).map (fun (w, is) => (w, i :: is)))
end

mutual
/-- the boolean-algebra reading of an expression: atoms by their current values, `&`/`|`/`~` as
and/or/not (this is the *specification* side of C08's algebra clause) -/
def evalSpec (w : World τ) : CExpr τ → Bool
  | .flag f => match lookup w.flagIds f with
    | some c => w.eval c
    | none => false
  | .after t => ge w.time t
  | .before t => lt w.time t
  | .moment t => beq w.time t
  | .eternity => false
  | .instant => true
  | .done t => match lookup w.taskNames t with
    | some tid => (w.task tid).result.isSome && w.eval (w.task tid).done
    | none => false
  | .all cs => evalSpecAll w cs
  | .any cs => evalSpecAny w cs
  | .inv c => !(evalSpec w c)
  | .tracked x op v => cmpOp op (w.tracked.getD x default).value v
  | .tracked2 x op y => cmpOp op (w.tracked.getD x default).value (w.tracked.getD y default).value
  | .resLevel r op v => match lookup w.resNames r with
    | some rid => vecCmp op (w.res.getD rid default).levels v
    | none => false
  | .ref n => match lookup w.condNames n with
    | some c => w.eval c
    | none => false
  | .delay _ => true
  | .andOp a b => evalSpec w a && evalSpec w b
  | .orOp a b => evalSpec w a || evalSpec w b
def evalSpecAll (w : World τ) : List (CExpr τ) → Bool
  | [] => true
  | c :: cs => evalSpec w c && evalSpecAll w cs
def evalSpecAny (w : World τ) : List (CExpr τ) → Bool
  | [] => false
  | c :: cs => evalSpec w c || evalSpecAny w cs
end

/-- `none` = the expression cannot be built (inverting a `Moment`, unknown name) -/
def buildCond (w : World τ) (c : CExpr τ) : Option (World τ × CondId) :=
  (normExpr c).bind (buildNorm w)

/-! ### primitives as frame pushes -/

/-- `postpone()` (notification.py:15-35) up to its `await __HIBERNATE__` -/
def doPostpone (w : World τ) (a : ActId) (fs : List (Frame τ)) : World τ :=
  let (w, wake) := w.newSig .wake
  let w := w.scheduleNow a (some wake)
  w.hibernate a (.wakeHib wake :: fs)

/-- `suspend(delay=.., until=..)` (notification.py:38-60) -/
def doSuspend (w : World τ) (a : ActId) (fs : List (Frame τ)) (when : When τ) : World τ :=
  let (w, wake) := w.newSig .wake
  match w.schedule a (some wake) when with
  | some w => w.hibernate a (.wakeHib wake :: fs)
  | none => w.raiseNew a fs (.assertion 1)

/-- `Notification.__await__` (notification.py:77-79): subscribe, hibernate -/
def doNotifAwait (w : World τ) (a : ActId) (fs : List (Frame τ)) (c : CondId) : World τ :=
  let (w, wake) := w.newSig .wake
  match w.subscribe c a wake with
  | some w => w.hibernate a (.notifHib c wake :: fs)
  | none => w.raiseNew a fs (.assertion 1)

/-- `await <condition object>`: `__await__` of every condition class -/
def doCondAwait (w : World τ) (a : ActId) (fs : List (Frame τ)) (c : CondId) : World τ :=
  match (w.cond c).kind with
  | .after _ _ =>                                   -- timing.py After.__await__
    if w.eval c then w.doPostpone a (.retTrue :: fs)
    else match w.ensureTrigger c with
      | some w =>
        -- `Notification.__await__(self)`: subscription through After.__subscribe__
        w.doNotifAwait a (.retTrue :: fs) c
      | none => w.raiseNew a fs (.assertion 1)
  | .before _ =>                                    -- timing.py Before.__await__
    if w.eval c then w.doPostpone a (.retTrue :: fs) else w.hibernate a (.foreverHib :: .retTrue :: fs)
  | .moment d tr =>                                 -- timing.py Moment.__await__
    if beq w.time d then w.doPostpone a (.retTrue :: fs)
    else if !(w.eval tr) then
      match w.ensureTrigger tr with
      | some w => w.doNotifAwait a (.retTrue :: .retTrue :: fs) tr
      | none => w.raiseNew a fs (.assertion 1)
    else w.hibernate a (.foreverHib :: .retTrue :: fs)
  | .eternity => w.hibernate a (.foreverHib :: .retTrue :: fs)
  | .instant => w.doPostpone a (.retTrue :: fs)
  | .all _ | .any _ =>                              -- condition.py Connective.__await_children__
    w.doPostpone a (.connStart c :: fs)
  | .delay _ | .plain => w.doNotifAwait a fs c
  | _ =>                                            -- condition.py Condition.__await__
    if w.eval c then w.doPostpone a (.condLoop c :: fs)
    else w.retTo a (.condLoop c :: fs) .unit

/-- `Done.__set_done__` (task.py) -/
def setDone (w : World τ) (t : TaskId) : World τ :=
  let d := (w.task t).done
  let w := w.setCond d (fun x => match x.kind with
    | .done tk _ inv => { x with kind := .done tk true inv }
    | _ => x)
  w.awakeAll d

/-- `Scope.__cancel__` + bookkeeping of `__child_finished__` (context.py:186-199) -/
def childFinished (w : World τ) (t : TaskId) (failed : Bool) : World τ :=
  let tk := w.task t
  let s := tk.parent
  let w :=
    if failed then
      let sc := w.scope s
      let w := if sc.interruptable then
          match sc.activity with
          | some act => w.scheduleNow act (some sc.cancelSelf)
          | none => w
        else w
      let e := match tk.result with
        | some (_, some e) => e
        | _ => 0
      w.setScope s (fun x => { x with failures := x.failures ++ [e] })
    else w
  if tk.volatile then w.setScope s (fun x => { x with volatileChildren := x.volatileChildren.erase t })
  else w.setScope s (fun x => { x with children := x.children.erase t })

/-- tail of `payload_wrapper` (task.py:158-161): revoke pending cancellations, set done -/
def taskFinalize (w : World τ) (t : TaskId) : World τ :=
  let w := (w.task t).cancellations.foldl (fun w s => w.revoke s) w
  w.setDone t

/-- `Scope._collect_exceptions` (context.py:269-296): `(privileged, concurrent children)` -/
def collectExceptions (w : World τ) (failures : List ExnId) (env : Bool := false) : Option ExnId × List ExnId :=
  let rec go : List ExnId → List ExnId → Option ExnId × List ExnId
    | [], acc => (none, acc.reverse)
    | e :: es, acc =>
      if isPrivilegedCls (w.exn e) || (env && w.exn e == .stopSimulation) then (some e, [])
      else if isCancellationOrClosure (w.exn e) then go es acc
      else go es (e :: acc)
  go failures []

inductive Propagate where
  | swallow | reraise | raiseOther (e : ExnId)

/-- `Concurrent(*children)` (concurrent_exception.py:299-306): the object specialises itself by its
children's types, and `MetaConcurrent.__getitem__` asserts that these are `Exception` (or
`Concurrent`) subclasses - a child task that died of a leaked `Interrupt` makes the construction
itself fail -/
def newConcurrent (w : World τ) (conc : List ExnId) : World τ × ExnId :=
  let accepted (c : ExnId) : Bool := match w.exn c with
    | .concurrent _ => true
    | cls => isExceptionSubclass cls
  if w.cfg.debug && !conc.all accepted then w.newExn (.assertion 8)
  else w.newExn (.concurrent conc)

/-- `Scope._propagate_exceptions` (context.py:298-317) for the exception `exc` (or none) that
`__aexit__` is handling; may allocate the `Concurrent` object -/
def propagateExceptions (w : World τ) (s : ScopeId) (exc : Option ExnId) : World τ × Propagate :=
  let sc := w.scope s
  -- `EnvironmentScope` (usim/py/core.py): StopSimulation joins PROMOTE_CONCURRENT and `_is_suppressed`
  let promoted : Bool := match exc with
    | some e => isPrivilegedCls (w.exn e) || (sc.env && w.exn e == .stopSimulation)
    | none => false
  if promoted then (w, .reraise)
  else
    let suppressed := match exc with
      | none => true
      | some e => match w.exn e with
        | .sig sg => sg == sc.cancelSelf || some sg == sc.interrupt
        | _ => false
    let (priv, conc) := w.collectExceptions sc.failures sc.env
    if suppressed then
      match priv with
      | some p => (w, .raiseOther p)
      | none =>
        if conc.isEmpty then (w, .swallow)
        else let (w, e) := w.newConcurrent conc; (w, .raiseOther e)
    else
      -- (the code still builds the Concurrent object here; it is dropped - unless building it fails)
      match priv with
      | some p => (w, .raiseOther p)
      | none =>
        if conc.isEmpty then (w, .reraise)
        else
          let (w, e) := w.newConcurrent conc
          match w.exn e with
          | .assertion _ => (w, .raiseOther e)
          | _ => (w, .reraise)

end World
end USim.Machine
