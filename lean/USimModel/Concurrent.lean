/-
Model of `usim/_primitives/concurrent_exception.py` (property C17).

Exception types form a tree: a leaf is an ordinary exception class (identified by a number;
the class hierarchy is an arbitrary relation `sub d c` = "class d is a subclass of class c"),
a `conc` node is a specialisation `Concurrent[...]`.

* `RTy` - type of a *raised* failure: `Concurrent(*children)` always specialises itself to the
  exclusive class of its children's types (`Concurrent.__new__`).
* `HTy` - a *handler* type as written in `except`/`isinstance`/`issubclass`:
  a plain class, bare `Concurrent`, or `Concurrent[h1, .., hn]` with or without `...`.
-/
namespace USim.Concurrent

inductive RTy where
  | leaf (c : Nat)
  | conc (children : List RTy)
  deriving Repr, Inhabited

inductive HTy where
  | leaf (c : Nat)
  | bare
  | conc (specs : List HTy) (inclusive : Bool)
  deriving Repr, Inhabited

/-- The documented one-level matching rule, for an arbitrary child-level relation `m`
(`m r h` = "child type r is matched by listed type h").  This is the *specification*:
every listed type is matched by some child, and (unless `...`) every child matches some listed type. -/
def matchSpec {α β : Type} (m : α → β → Bool) (rs : List α) (hs : List β) (inclusive : Bool) : Prop :=
  (∀ h ∈ hs, ∃ r ∈ rs, m r h = true) ∧ (inclusive = true ∨ ∀ r ∈ rs, ∃ h ∈ hs, m r h = true)

/-- Executable form of the rule (hand written, independent of the code). -/
def matchRule {α β : Type} (m : α → β → Bool) (rs : List α) (hs : List β) (inclusive : Bool) : Bool :=
  hs.all (fun h => rs.any (fun r => m r h)) && (inclusive || rs.all (fun r => hs.any (fun h => m r h)))

/-- Environment of plain classes: `sub d c` is `issubclass(d, c)` for ordinary classes,
`concBelow c` says whether the ordinary class `c` is a base of `Concurrent` (BaseException, object). -/
structure Hier where
  sub : Nat → Nat → Bool
  concBelow : Nat → Bool

/-- `issubclass(R, H)` for a raised type `R` and a handler type `H`: the full, nested rule.
Mirrors `MetaConcurrent.__subclasscheck__`/`_subclasscheck_specialisation` (the generated
definitions in `Gen/Concurrent.lean` are proved equal to the one-level rule used here). -/
def matchesT (hi : Hier) : RTy → HTy → Bool
  | .leaf d, .leaf c => hi.sub d c
  | .conc _, .leaf c => hi.concBelow c
  | .leaf _, .bare => false
  | .leaf _, .conc _ _ => false
  | .conc _, .bare => true
  | .conc rs, .conc hs incl =>
      hs.attach.all (fun h => rs.attach.any (fun r => matchesT hi r.1 h.1))
      && (incl || rs.attach.all (fun r => hs.attach.any (fun h => matchesT hi r.1 h.1)))
termination_by r h => sizeOf r + sizeOf h
decreasing_by
  all_goals simp_wf
  all_goals
    have h1 := List.sizeOf_lt_of_mem r.2
    have h2 := List.sizeOf_lt_of_mem h.2
    omega

/-- The handler type that is *identical* (as a class object) to a raised type:
`Concurrent(*children)` is an instance of exactly `Concurrent[types of children]`. -/
def RTy.asHandler : RTy → HTy
  | .leaf c => .leaf c
  | .conc cs => .conc (cs.attach.map (fun c => c.1.asHandler)) false
termination_by r => sizeOf r
decreasing_by
  simp_wf
  have := List.sizeOf_lt_of_mem c.2
  omega

/-- CPython's `except H:` clause does not consult `__subclasscheck__`; it walks the real MRO of
the raised class (`PyType_IsSubtype`).  The MRO of `Concurrent[a, b]` is
`[Concurrent[a, b], Concurrent, BaseException, object]`.  `sameClass` is class identity:
specialisations are cached by the *set* of their parameters. -/
def sameSet {α} (eq : α → α → Bool) (xs ys : List α) : Bool :=
  xs.all (fun x => ys.any (fun y => eq x y)) && ys.all (fun y => xs.any (fun x => eq x y))

def sameClass : HTy → HTy → Bool
  | .leaf a, .leaf b => a == b
  | .bare, .bare => true
  | .conc xs i, .conc ys j =>
      (i == j) &&
      xs.attach.all (fun x => ys.attach.any (fun y => sameClass x.1 y.1)) &&
      ys.attach.all (fun y => xs.attach.any (fun x => sameClass x.1 y.1))
  | _, _ => false
termination_by a b => sizeOf a + sizeOf b
decreasing_by
  all_goals simp_wf
  all_goals
    have h1 := List.sizeOf_lt_of_mem x.2
    have h2 := List.sizeOf_lt_of_mem y.2
    omega

def exceptMatches (hi : Hier) (r : RTy) (h : HTy) : Bool :=
  match r, h with
  | .leaf d, .leaf c => hi.sub d c
  | .conc _, .leaf c => hi.concBelow c
  | .leaf _, _ => false
  | .conc _, .bare => true
  | .conc cs, .conc hs incl => sameClass (RTy.asHandler (.conc cs)) (.conc hs incl)

/-! ### flattened() -/

/-- a failure object: leaf exceptions are identified by numbers -/
inductive Exn where
  | leaf (id : Nat)
  | conc (children : List Exn)
  deriving Repr, Inhabited, BEq

mutual
/-- leaf exceptions of a failure, in order -/
def Exn.leaves : Exn → List Nat
  | .leaf i => [i]
  | .conc cs => leavesL cs
def leavesL : List Exn → List Nat
  | [] => []
  | c :: cs => c.leaves ++ leavesL cs
end

def Exn.isConc : Exn → Bool
  | .conc _ => true
  | _ => false

def Exn.children : Exn → List Exn
  | .leaf _ => []
  | .conc cs => cs

mutual
/-- all leaves of a failure as a flat list of exception objects -/
def Exn.flatChildren : Exn → List Exn
  | .leaf i => [.leaf i]
  | .conc cs => flatChildrenL cs
def flatChildrenL : List Exn → List Exn
  | [] => []
  | c :: cs => c.flatChildren ++ flatChildrenL cs
end

/-- `Concurrent.flattened` (hand-written model; the generated one is proved equal to it) -/
def Exn.flattened : Exn → Exn
  | .leaf i => .leaf i
  | .conc cs => if cs.any Exn.isConc then .conc (flatChildrenL cs) else .conc cs

/-! ### specialisation cache (`_get_specialisation`) -/

/-- the cache maps a *set* of parameters (`frozenset(item)`; here a list compared by the
relation `same`) to a class (identified by a number) -/
structure Cache (α : Type) where
  entries : List (List α × Nat)
  next : Nat

def Cache.lookup {α} (same : List α → List α → Bool) (c : Cache α) (item : List α) : Option Nat :=
  (c.entries.find? (fun e => same e.1 item)).map (·.2)

/-- `cls[item]`: return the cached class or create a new one -/
def Cache.get {α} (same : List α → List α → Bool) (c : Cache α) (item : List α) : Nat × Cache α :=
  match c.lookup same item with
  | some k => (k, c)
  | none => (c.next, { entries := c.entries ++ [(item, c.next)], next := c.next + 1 })

end USim.Concurrent
