import USimModel.Lemmas.SStepFrames
/-!
# One transition of the running activity only adds signals and never un-revokes one

Same structure as `KStep.lean` / `PStep.lean`, for the signal table (`SExt`); the statement that starts a nested
`run()` does not touch the table at all (signals are global, like all objects of the program).
-/
set_option linter.unusedVariables false
set_option linter.unusedSimpArgs false
namespace USim.Machine
open TimeLike USim.Prim.Kernel
namespace World
variable (w : World Rat)

theorem execStmt_scope_sext {s0 : Array Sig} (a : ActId) (fs : List (Frame Rat)) (name : Name) (untilN : Option (NExpr Rat))
    (body : List (Stmt Rat)) (h0 : SExt s0 w.sigs) : SExt s0 (w.execStmt a fs (.scope name untilN body)).sigs := by
  simp only [execStmt]
  split
  · sx h0
  · rename_i w1 notif hb
    have h1 : w1.sigs = w.sigs := by
      split at hb
      · cases hb; rfl
      · simp only [Option.map_eq_some_iff, Prod.exists, Prod.mk.injEq] at hb
        obtain ⟨w2, c2, hb, rfl, _⟩ := hb
        exact sv_buildCond hb
      · split at hb <;> (cases hb; rfl)
    have h0' : SExt s0 w1.sigs := by rw [h1]; exact h0
    clear hb
    cases notif <;> sx h0'

theorem execStmt_callbacks_sext {s0 : Array Sig} (a : ActId) (fs : List (Frame Rat)) (e : Nat) (h0 : SExt s0 w.sigs) :
    SExt s0 (w.execStmt a fs (.pyInvokeCallbacks e)).sigs := by
  simp only [execStmt]
  split
  · rename_i v exn cbs hv hc
    have h1 := sext_foldl (s0 := s0) (fun (w : World Rat) (cb : PyCb) => match cb with
        | .log k => w.emitAs a (4000 + (e : Int)) "cb" [k]) (by intro w x h; cases x; simpa using h) cbs
        (w.setPyEv e (fun x => { x with callbacks := none })) (by sx h0)
    cases exn <;> sx h1
  · sx h0

set_option maxHeartbeats 1600000 in
theorem execStmt_sext {s0 : Array Sig} (a : ActId) (fs : List (Frame Rat)) (s : Stmt Rat)
    (hs : ∀ progs start, s ≠ .nestedRun progs start) (h0 : SExt s0 w.sigs) : SExt s0 (w.execStmt a fs s).sigs := by
  cases s
  case scope name untilN body => exact execStmt_scope_sext w a fs name untilN body h0
  case nestedRun progs start => exact (hs _ _ rfl).elim
  case pyInvokeCallbacks e => exact execStmt_callbacks_sext w a fs e h0
  all_goals (simp only [execStmt]; sx h0)

theorem stepRet_sub_sext {s0 : Array Sig} (a : ActId) (l : List CondId) : ∀ (w : World Rat) (acc : List (CondId × SigId)) w' subs,
    World.stepRet.sub a w acc l = some (w', subs) → SExt s0 w.sigs → SExt s0 w'.sigs := by
  induction l with
  | nil => intro w acc w' subs h h0; simp only [stepRet.sub, Option.some.injEq, Prod.mk.injEq] at h; obtain ⟨rfl, _⟩ := h; exact h0
  | cons ch rest ih =>
    intro w acc w' subs h h0
    simp only [stepRet.sub] at h
    split at h
    · exact ih _ _ _ _ h h0
    · split at h
      · rename_i w1 hs
        exact ih _ _ _ _ h (subscribe_sext hs (by sx h0))
      · cases h

theorem stepRetS_connStart {s0 : Array Sig} (a : ActId) (fs : List (Frame Rat)) (v : Val) (c : CondId) (h0 : SExt s0 w.sigs) :
    SExt s0 (w.stepRet a (.connStart c) fs v).sigs := by
  simp only [stepRet]
  split
  · sx h0
  · split
    · rename_i w1 subs hs
      have h2 := stepRet_sub_sext a _ _ _ _ _ hs h0
      sx h2
    · sx h0

theorem stepRetS_connHib {s0 : Array Sig} (a : ActId) (fs : List (Frame Rat)) (v : Val) (c : CondId) (subs : List (CondId × SigId))
    (h0 : SExt s0 w.sigs) : SExt s0 (w.stepRet a (.connHib c subs) fs v).sigs := by
  simp only [stepRet]
  have h1 := sext_foldl (s0 := s0) (fun (w : World Rat) (p : CondId × SigId) => (w.unsubscribe p.1 a p.2).1)
    (by intro w x h; exact unsubscribe_sext w _ _ _ h) subs.reverse w h0
  sx h1

theorem stepRaiseS_connHib {s0 : Array Sig} (a : ActId) (fs : List (Frame Rat)) (e : ExnId) (c : CondId) (subs : List (CondId × SigId))
    (h0 : SExt s0 w.sigs) : SExt s0 (w.stepRaise a (.connHib c subs) fs e).sigs := by
  simp only [stepRaise]
  have h1 := sext_foldl_pair (s0 := s0) (fun (p : World Rat × Bool) (q : CondId × SigId) =>
        let (w, sw) := p
        let sw := sw || (w.sig q.2).exn == e
        ((w.unsubscribe q.1 a q.2).1, sw)) (by intro p x h; exact unsubscribe_sext _ _ _ _ h) subs.reverse (w, false) h0
  split <;> sx h1

/-! ### the two case analyses -/

theorem stepRet_sext {s0 : Array Sig} (a : ActId) (f : Frame Rat) (fs : List (Frame Rat)) (v : Val)
    (hf : ∀ progs start ss, f ≠ .seq (.nestedRun progs start :: ss)) (h0 : SExt s0 w.sigs) : SExt s0 (w.stepRet a f fs v).sigs := by
  cases f with
  | seq l =>
    cases l with
    | nil => simp only [stepRet]; sx h0
    | cons s ss =>
      simp only [stepRet]
      exact execStmt_sext w a _ s (fun p st h => hf p st ss (by rw [h])) h0
  | connStart c => exact stepRetS_connStart w a fs v c h0
  | connHib c subs => exact stepRetS_connHib w a fs v c subs h0
  | wakeHib x0 => exact stepRetS_wakeHib w a fs v x0 h0
  | notifHib x0 x1 => exact stepRetS_notifHib w a fs v x0 x1 h0
  | foreverHib  => exact stepRetS_foreverHib w a fs v  h0
  | awaitMark x0 => exact stepRetS_awaitMark w a fs v x0 h0
  | sleepMark  => exact stepRetS_sleepMark w a fs v  h0
  | tickEnd  => exact stepRetS_tickEnd w a fs v  h0
  | condLoop x0 => exact stepRetS_condLoop w a fs v x0 h0
  | retVal x0 => exact stepRetS_retVal w a fs v x0 h0
  | retTrue  => exact stepRetS_retTrue w a fs v  h0
  | taskResult x0 x1 => exact stepRetS_taskResult w a fs v x0 x1 h0
  | taskStart x0 x1 x2 x3 => exact stepRetS_taskStart w a fs v x0 x1 x2 x3 h0
  | taskPayload x0 => exact stepRetS_taskPayload w a fs v x0 h0
  | scopeBody x0 => exact stepRetS_scopeBody w a fs v x0 h0
  | scopeExitSet x0 => exact stepRetS_scopeExitSet w a fs v x0 h0
  | scopeExitWait x0 x1 => exact stepRetS_scopeExitWait w a fs v x0 x1 h0
  | tryBlock x0 => exact stepRetS_tryBlock w a fs v x0 h0
  | finallyBlock x0 => exact stepRetS_finallyBlock w a fs v x0 h0
  | reraise x0 => exact stepRetS_reraise w a fs v x0 h0
  | closeResume  => exact stepRetS_closeResume w a fs v  h0
  | lockWait x0 x1 => exact stepRetS_lockWait w a fs v x0 x1 h0
  | lockBody x0 x1 => exact stepRetS_lockBody w a fs v x0 x1 h0
  | qGetPop x0 => exact stepRetS_qGetPop w a fs v x0 h0
  | gotValue  => exact stepRetS_gotValue w a fs v  h0
  | cGotValue x0 x1 => exact stepRetS_cGotValue w a fs v x0 x1 h0
  | qIterNext x0 x1 x2 => exact stepRetS_qIterNext w a fs v x0 x1 x2 h0
  | qIterGot x0 x1 x2 => exact stepRetS_qIterGot w a fs v x0 x1 x2 h0
  | cGetWait x0 x1 => exact stepRetS_cGetWait w a fs v x0 x1 h0
  | cIterLoop x0 x1 x2 x3 => exact stepRetS_cIterLoop w a fs v x0 x1 x2 x3 h0
  | cIterWait x0 x1 x2 x3 => exact stepRetS_cIterWait w a fs v x0 x1 x2 x3 h0
  | cIterNext x0 x1 x2 => exact stepRetS_cIterNext w a fs v x0 x1 x2 h0
  | borrowWait x0 x1 x2 => exact stepRetS_borrowWait w a fs v x0 x1 x2 h0
  | borrowRemoved x0 x1 x2 => exact stepRetS_borrowRemoved w a fs v x0 x1 x2 h0
  | borrowInserted x0 x1 x2 => exact stepRetS_borrowInserted w a fs v x0 x1 x2 h0
  | borrowBody x0 x1 => exact stepRetS_borrowBody w a fs v x0 x1 h0
  | borrowExit1 x0 x1 x2 => exact stepRetS_borrowExit1 w a fs v x0 x1 x2 h0
  | borrowExit2 x0 => exact stepRetS_borrowExit2 w a fs v x0 h0
  | resAdjust x0 x1 x2 => exact stepRetS_resAdjust w a fs v x0 x1 x2 h0
  | pipeWindow x0 x1 x2 x3 x4 x5 x6 x7 => exact stepRetS_pipeWindow w a fs v x0 x1 x2 x3 x4 x5 x6 x7 h0
  | tickWait x0 x1 x2 x3 x4 => exact stepRetS_tickWait w a fs v x0 x1 x2 x3 x4 h0
  | tickBody x0 x1 x2 x3 x4 => exact stepRetS_tickBody w a fs v x0 x1 x2 x3 x4 h0
  | collectAwait x0 x1 => exact stepRetS_collectAwait w a fs v x0 x1 h0
  | firstMonitor x0 => exact stepRetS_firstMonitor w a fs v x0 h0
  | firstNext x0 x1 x2 x3 => exact stepRetS_firstNext w a fs v x0 x1 x2 x3 h0
  | firstGot x0 x1 x2 x3 => exact stepRetS_firstGot w a fs v x0 x1 x2 x3 h0
  | firstYield x0 x1 x2 x3 => exact stepRetS_firstYield w a fs v x0 x1 x2 x3 h0
  | firstEnd x0 x1 => exact stepRetS_firstEnd w a fs v x0 x1 h0
  | pyGen x0 => exact stepRetS_pyGen w a fs v x0 h0
  | pyPayloadStart x0 => exact stepRetS_pyPayloadStart w a fs v x0 h0
  | pyPayloadLoop x0 => exact stepRetS_pyPayloadLoop w a fs v x0 h0
  | pyWaited x0 x1 => exact stepRetS_pyWaited w a fs v x0 x1 h0
  | pyNativeWaited x0 => exact stepRetS_pyNativeWaited w a fs v x0 h0
  | pyUntilEnd  => exact stepRetS_pyUntilEnd w a fs v  h0
  | pyWithEnd  => exact stepRetS_pyWithEnd w a fs v  h0
  | pyAwaited x0 => exact stepRetS_pyAwaited w a fs v x0 h0
  | pyCheckLoop x0 x1 x2 => exact stepRetS_pyCheckLoop w a fs v x0 x1 x2 h0
  | pyCode x0 => exact stepRetS_pyCode w a fs v x0 h0
  | raiseStop  => exact stepRetS_raiseStop w a fs v  h0
  | transferDone x0 => exact stepRetS_transferDone w a fs v x0 h0
  | borrowMark x0 => exact stepRetS_borrowMark w a fs v x0 h0
  | nestedRun  => exact stepRetS_nestedRun w a fs v  h0
  | taskDelay x0 x1 => exact stepRetS_taskDelay w a fs v x0 x1 h0
  | scopeClose x0 x1 x2 x3 x4 x5 => exact stepRetS_scopeClose w a fs v x0 x1 x2 x3 x4 x5 h0
  | asyncTrigger x0 => exact stepRetS_asyncTrigger w a fs v x0 h0
  | coroutineEnd  => exact stepRetS_coroutineEnd w a fs v  h0

theorem stepRaise_sext {s0 : Array Sig} (a : ActId) (f : Frame Rat) (fs : List (Frame Rat)) (e : ExnId) (h0 : SExt s0 w.sigs) :
    SExt s0 (w.stepRaise a f fs e).sigs := by
  cases f with
  | connHib c subs => exact stepRaiseS_connHib w a fs e c subs h0
  | seq x0 => exact stepRaiseS_seq w a fs e x0 h0
  | wakeHib x0 => exact stepRaiseS_wakeHib w a fs e x0 h0
  | notifHib x0 x1 => exact stepRaiseS_notifHib w a fs e x0 x1 h0
  | foreverHib  => exact stepRaiseS_foreverHib w a fs e  h0
  | awaitMark x0 => exact stepRaiseS_awaitMark w a fs e x0 h0
  | sleepMark  => exact stepRaiseS_sleepMark w a fs e  h0
  | tickEnd  => exact stepRaiseS_tickEnd w a fs e  h0
  | condLoop x0 => exact stepRaiseS_condLoop w a fs e x0 h0
  | connStart x0 => exact stepRaiseS_connStart w a fs e x0 h0
  | retVal x0 => exact stepRaiseS_retVal w a fs e x0 h0
  | retTrue  => exact stepRaiseS_retTrue w a fs e  h0
  | taskResult x0 x1 => exact stepRaiseS_taskResult w a fs e x0 x1 h0
  | taskStart x0 x1 x2 x3 => exact stepRaiseS_taskStart w a fs e x0 x1 x2 x3 h0
  | taskPayload x0 => exact stepRaiseS_taskPayload w a fs e x0 h0
  | scopeBody x0 => exact stepRaiseS_scopeBody w a fs e x0 h0
  | scopeExitSet x0 => exact stepRaiseS_scopeExitSet w a fs e x0 h0
  | scopeExitWait x0 x1 => exact stepRaiseS_scopeExitWait w a fs e x0 x1 h0
  | tryBlock x0 => exact stepRaiseS_tryBlock w a fs e x0 h0
  | finallyBlock x0 => exact stepRaiseS_finallyBlock w a fs e x0 h0
  | reraise x0 => exact stepRaiseS_reraise w a fs e x0 h0
  | closeResume  => exact stepRaiseS_closeResume w a fs e  h0
  | lockWait x0 x1 => exact stepRaiseS_lockWait w a fs e x0 x1 h0
  | lockBody x0 x1 => exact stepRaiseS_lockBody w a fs e x0 x1 h0
  | qGetPop x0 => exact stepRaiseS_qGetPop w a fs e x0 h0
  | gotValue  => exact stepRaiseS_gotValue w a fs e  h0
  | cGotValue x0 x1 => exact stepRaiseS_cGotValue w a fs e x0 x1 h0
  | qIterNext x0 x1 x2 => exact stepRaiseS_qIterNext w a fs e x0 x1 x2 h0
  | qIterGot x0 x1 x2 => exact stepRaiseS_qIterGot w a fs e x0 x1 x2 h0
  | cGetWait x0 x1 => exact stepRaiseS_cGetWait w a fs e x0 x1 h0
  | cIterLoop x0 x1 x2 x3 => exact stepRaiseS_cIterLoop w a fs e x0 x1 x2 x3 h0
  | cIterWait x0 x1 x2 x3 => exact stepRaiseS_cIterWait w a fs e x0 x1 x2 x3 h0
  | cIterNext x0 x1 x2 => exact stepRaiseS_cIterNext w a fs e x0 x1 x2 h0
  | borrowWait x0 x1 x2 => exact stepRaiseS_borrowWait w a fs e x0 x1 x2 h0
  | borrowRemoved x0 x1 x2 => exact stepRaiseS_borrowRemoved w a fs e x0 x1 x2 h0
  | borrowInserted x0 x1 x2 => exact stepRaiseS_borrowInserted w a fs e x0 x1 x2 h0
  | borrowBody x0 x1 => exact stepRaiseS_borrowBody w a fs e x0 x1 h0
  | borrowExit1 x0 x1 x2 => exact stepRaiseS_borrowExit1 w a fs e x0 x1 x2 h0
  | borrowExit2 x0 => exact stepRaiseS_borrowExit2 w a fs e x0 h0
  | resAdjust x0 x1 x2 => exact stepRaiseS_resAdjust w a fs e x0 x1 x2 h0
  | pipeWindow x0 x1 x2 x3 x4 x5 x6 x7 => exact stepRaiseS_pipeWindow w a fs e x0 x1 x2 x3 x4 x5 x6 x7 h0
  | tickWait x0 x1 x2 x3 x4 => exact stepRaiseS_tickWait w a fs e x0 x1 x2 x3 x4 h0
  | tickBody x0 x1 x2 x3 x4 => exact stepRaiseS_tickBody w a fs e x0 x1 x2 x3 x4 h0
  | collectAwait x0 x1 => exact stepRaiseS_collectAwait w a fs e x0 x1 h0
  | firstMonitor x0 => exact stepRaiseS_firstMonitor w a fs e x0 h0
  | firstNext x0 x1 x2 x3 => exact stepRaiseS_firstNext w a fs e x0 x1 x2 x3 h0
  | firstGot x0 x1 x2 x3 => exact stepRaiseS_firstGot w a fs e x0 x1 x2 x3 h0
  | firstYield x0 x1 x2 x3 => exact stepRaiseS_firstYield w a fs e x0 x1 x2 x3 h0
  | firstEnd x0 x1 => exact stepRaiseS_firstEnd w a fs e x0 x1 h0
  | pyGen x0 => exact stepRaiseS_pyGen w a fs e x0 h0
  | pyPayloadStart x0 => exact stepRaiseS_pyPayloadStart w a fs e x0 h0
  | pyPayloadLoop x0 => exact stepRaiseS_pyPayloadLoop w a fs e x0 h0
  | pyWaited x0 x1 => exact stepRaiseS_pyWaited w a fs e x0 x1 h0
  | pyNativeWaited x0 => exact stepRaiseS_pyNativeWaited w a fs e x0 h0
  | pyUntilEnd  => exact stepRaiseS_pyUntilEnd w a fs e  h0
  | pyWithEnd  => exact stepRaiseS_pyWithEnd w a fs e  h0
  | pyAwaited x0 => exact stepRaiseS_pyAwaited w a fs e x0 h0
  | pyCheckLoop x0 x1 x2 => exact stepRaiseS_pyCheckLoop w a fs e x0 x1 x2 h0
  | pyCode x0 => exact stepRaiseS_pyCode w a fs e x0 h0
  | raiseStop  => exact stepRaiseS_raiseStop w a fs e  h0
  | transferDone x0 => exact stepRaiseS_transferDone w a fs e x0 h0
  | borrowMark x0 => exact stepRaiseS_borrowMark w a fs e x0 h0
  | nestedRun  => exact stepRaiseS_nestedRun w a fs e  h0
  | taskDelay x0 x1 => exact stepRaiseS_taskDelay w a fs e x0 x1 h0
  | scopeClose x0 x1 x2 x3 x4 x5 => exact stepRaiseS_scopeClose w a fs e x0 x1 x2 x3 x4 x5 h0
  | asyncTrigger x0 => exact stepRaiseS_asyncTrigger w a fs e x0 h0
  | coroutineEnd  => exact stepRaiseS_coroutineEnd w a fs e  h0

end World
end USim.Machine
