import USimModel.Prim.KernelModel
/-!
Lemmas about `pushBucket` (the sorted-dict view of `WaitQueue.push`) shared by the kernel theorems of
`Props/C01.lean` and the whole-machine theorems of `Props/Machine.lean`.  No generated definitions are imported here.
-/
namespace USim.Prim.Kernel
open USim.Machine

theorem beq_rat (a b : Rat) : (TimeLike.beq a b) = (a == b) := rfl
theorem lt_rat (a b : Rat) : (TimeLike.lt a b) = decide (a < b) := rfl

theorem mem_keys_pushBucket (key : Rat) (a : Activation) (q : List (Rat × List Activation)) (t : Rat) :
    t ∈ keys (pushBucket key a q) ↔ t = key ∨ t ∈ keys q := by
  induction q with
  | nil => simp [pushBucket, keys]
  | cons p ps ih =>
    obtain ⟨k, b⟩ := p
    simp only [pushBucket, beq_rat, lt_rat]
    split
    · rename_i h
      simp only [beq_iff_eq] at h
      simp [keys, h]
    · split
      · simp [keys]
      · simp only [keys, List.map_cons, List.mem_cons] at ih ⊢
        rw [ih]
        constructor
        · rintro (h | h | h) <;> simp [h]
        · rintro (h | h | h) <;> simp [h]

theorem pushBucket_sorted (key : Rat) (a : Activation) (q : List (Rat × List Activation))
    (h : (keys q).Pairwise (· < ·)) : (keys (pushBucket key a q)).Pairwise (· < ·) := by
  induction q with
  | nil => simp [pushBucket, keys]
  | cons p ps ih =>
    obtain ⟨k, b⟩ := p
    simp only [keys, List.map_cons, List.pairwise_cons] at h
    simp only [pushBucket, beq_rat, lt_rat]
    split
    · simpa [keys] using h
    · rename_i hne
      split
      · rename_i hlt
        simp only [decide_eq_true_eq] at hlt
        simp only [keys, List.map_cons, List.pairwise_cons]
        refine ⟨?_, h⟩
        intro t ht
        simp only [List.mem_cons] at ht
        rcases ht with rfl | ht
        · exact hlt
        · have := h.1 t ht; grind
      · rename_i hge
        simp only [decide_eq_true_eq, Rat.not_lt] at hge
        simp only [beq_iff_eq] at hne
        have hlt : k < key := by grind
        have := ih h.2
        simp only [keys, List.map_cons, List.pairwise_cons]
        refine ⟨?_, this⟩
        intro t ht
        rcases (mem_keys_pushBucket key a ps t).mp ht with rfl | ht
        · exact hlt
        · exact h.1 t ht

end USim.Prim.Kernel
