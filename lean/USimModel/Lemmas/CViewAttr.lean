import Lean
/-- lemmas `(f w ..).conds = w.conds`, `.tracked`, `.res`, `.locks`, `.pipes`: code that touches none of the tables of the
seventh view (see `Lemmas/CView.lean`) -/
register_simp_attr cvsimp
