import USimModel.Lemmas.KView
/-!
# The task view of the whole machine: a task never goes back

`w.tasks` is the table of `Task` objects, `w.acts` the table of coroutines (a task's `__runner__` is one of them).
Function by function (the inventory of `Lemmas/KView.lean` a fifth time) this file shows that code inside an
activation only **adds** tasks and activities, never changes what a task is (runner, parent scope, volatility, `done`
condition), never takes a stored result away again, and never puts a coroutine back into the state "not started"
(`QExt`).  `Props/MachineTasks.lean` lifts this to every run: the status of a task only moves forward
(created, running, finished) - C06.
-/
set_option linter.unusedVariables false
set_option linter.unusedSimpArgs false
namespace USim.Machine
open TimeLike USim.Prim.Kernel Lean

/-- both tables only grew; every old task is the same task and keeps having a result once it has one; every old
coroutine that was started stays started -/
structure QExt (t0 : Array Task) (a0 : Array (Activity Rat)) (t : Array Task) (a : Array (Activity Rat)) : Prop where
  tsize : t0.size ≤ t.size
  tkeep : ∀ i, i < t0.size → (t.getD i default).runner = (t0.getD i default).runner ∧
    (t.getD i default).parent = (t0.getD i default).parent ∧ (t.getD i default).volatile = (t0.getD i default).volatile ∧
    (t.getD i default).done = (t0.getD i default).done ∧
    ((t0.getD i default).result.isSome = true → (t.getD i default).result.isSome = true)
  asize : a0.size ≤ a.size
  akeep : ∀ i, i < a0.size → (a0.getD i default).status ≠ .created → (a.getD i default).status ≠ .created

theorem QExt.refl (t : Array Task) (a : Array (Activity Rat)) : QExt t a t a :=
  ⟨Nat.le_refl _, fun _ _ => ⟨rfl, rfl, rfl, rfl, id⟩, Nat.le_refl _, fun _ _ h => h⟩

theorem QExt.trans {t0 t1 t2 : Array Task} {a0 a1 a2 : Array (Activity Rat)} (h1 : QExt t0 a0 t1 a1) (h2 : QExt t1 a1 t2 a2) :
    QExt t0 a0 t2 a2 := by
  refine ⟨Nat.le_trans h1.tsize h2.tsize, ?_, Nat.le_trans h1.asize h2.asize, ?_⟩
  · intro i hi
    have k1 := h1.tkeep i hi
    have k2 := h2.tkeep i (Nat.lt_of_lt_of_le hi h1.tsize)
    exact ⟨k2.1.trans k1.1, k2.2.1.trans k1.2.1, k2.2.2.1.trans k1.2.2.1, k2.2.2.2.1.trans k1.2.2.2.1,
      fun h => k2.2.2.2.2 (k1.2.2.2.2 h)⟩
  · intro i hi h
    exact h2.akeep i (Nat.lt_of_lt_of_le hi h1.asize) (h1.akeep i hi h)

theorem QExt.pushTask {t0 : Array Task} {a0 : Array (Activity Rat)} {t : Array Task} {a : Array (Activity Rat)} (x : Task)
    (h : QExt t0 a0 t a) : QExt t0 a0 (t.push x) a := by
  refine ⟨Nat.le_trans h.tsize (by simp), ?_, h.asize, h.akeep⟩
  intro i hi
  have : (t.push x).getD i default = t.getD i default := by
    rw [Array.getD_eq_getD_getElem?, Array.getD_eq_getD_getElem?, Array.getElem?_push]
    simp [Nat.ne_of_lt (Nat.lt_of_lt_of_le hi h.tsize)]
  rw [this]; exact h.tkeep i hi

theorem QExt.pushAct {t0 : Array Task} {a0 : Array (Activity Rat)} {t : Array Task} {a : Array (Activity Rat)} (x : Activity Rat)
    (h : QExt t0 a0 t a) : QExt t0 a0 t (a.push x) := by
  refine ⟨h.tsize, h.tkeep, Nat.le_trans h.asize (by simp), ?_⟩
  intro i hi
  have : (a.push x).getD i default = a.getD i default := by
    rw [Array.getD_eq_getD_getElem?, Array.getD_eq_getD_getElem?, Array.getElem?_push]
    simp [Nat.ne_of_lt (Nat.lt_of_lt_of_le hi h.asize)]
  rw [this]; exact h.akeep i hi

theorem QExt.modifyTask {t0 : Array Task} {a0 : Array (Activity Rat)} {t : Array Task} {a : Array (Activity Rat)} (j : Nat)
    (f : Task → Task)
    (hf : ∀ x, (f x).runner = x.runner ∧ (f x).parent = x.parent ∧ (f x).volatile = x.volatile ∧ (f x).done = x.done ∧
      (x.result.isSome = true → (f x).result.isSome = true))
    (h : QExt t0 a0 t a) : QExt t0 a0 (t.modify j f) a := by
  refine ⟨by simpa using h.tsize, ?_, h.asize, h.akeep⟩
  intro i hi
  have k := h.tkeep i hi
  by_cases hij : j = i
  · subst hij
    have : (t.modify j f).getD j default = f (t.getD j default) := by
      rw [Array.getD_eq_getD_getElem?, Array.getD_eq_getD_getElem?, Array.getElem?_modify]
      simp [Nat.lt_of_lt_of_le hi h.tsize]
    rw [this]
    have q := hf (t.getD j default)
    exact ⟨q.1.trans k.1, q.2.1.trans k.2.1, q.2.2.1.trans k.2.2.1, q.2.2.2.1.trans k.2.2.2.1, fun h => q.2.2.2.2 (k.2.2.2.2 h)⟩
  · have : (t.modify j f).getD i default = t.getD i default := by
      rw [Array.getD_eq_getD_getElem?, Array.getD_eq_getD_getElem?, Array.getElem?_modify]
      simp [hij]
    rw [this]; exact k

theorem QExt.modifyAct {t0 : Array Task} {a0 : Array (Activity Rat)} {t : Array Task} {a : Array (Activity Rat)} (j : Nat)
    (f : Activity Rat → Activity Rat) (hf : ∀ x, x.status ≠ .created → (f x).status ≠ .created)
    (h : QExt t0 a0 t a) : QExt t0 a0 t (a.modify j f) := by
  refine ⟨h.tsize, h.tkeep, by simpa using h.asize, ?_⟩
  intro i hi hs
  have k := h.akeep i hi hs
  by_cases hij : j = i
  · subst hij
    have : (a.modify j f).getD j default = f (a.getD j default) := by
      rw [Array.getD_eq_getD_getElem?, Array.getD_eq_getD_getElem?, Array.getElem?_modify]
      simp [Nat.lt_of_lt_of_le hi h.asize]
    rw [this]; exact hf _ k
  · have : (a.modify j f).getD i default = a.getD i default := by
      rw [Array.getD_eq_getD_getElem?, Array.getD_eq_getD_getElem?, Array.getElem?_modify]
      simp [hij]
    rw [this]; exact k

namespace World
variable (w : World Rat)

/-- the two tables as one value (for the induction over `buildNorm`) -/
def ta (w : World Rat) : Array Task × Array (Activity Rat) := (w.tasks, w.acts)
@[simp] theorem ta_newCond (k : CondKind Rat) : ((w.newCond k).1).ta = w.ta := rfl

/-- `qvlemma name binders : T` states that `T` has the tasks and activities of `w` (two simp lemmas, by `rfl`) -/
syntax "qvlemma " ident bracketedBinder* " : " term : command
macro_rules
  | `(qvlemma $n:ident $bs:bracketedBinder* : $t:term) => do
    let nT := mkIdent (n.getId.appendAfter "_tasks")
    let nA := mkIdent (n.getId.appendAfter "_acts")
    let w := mkIdent `w
    `(@[simp, qvsimp] theorem $nT $bs:bracketedBinder* : ($t).tasks = ($w).tasks := rfl
      @[simp, qvsimp] theorem $nA $bs:bracketedBinder* : ($t).acts = ($w).acts := rfl)

/-! ### primitives that touch neither table -/
qvlemma qv_setSig (s : SigId) (f : Sig → Sig) : w.setSig s f
qvlemma qv_setCond (s : CondId) (f : Cond Rat → Cond Rat) : w.setCond s f
qvlemma qv_setScope (s : ScopeId) (f : Scope → Scope) : w.setScope s f
qvlemma qv_newExn (c : ExnCls) : (w.newExn c).1
qvlemma qv_newSig (k : SigKind) : (w.newSig k).1
qvlemma qv_newCond (k : CondKind Rat) : (w.newCond k).1
qvlemma qv_revoke (s : SigId) : w.revoke s
qvlemma qv_emit (a : ActId) (t : String) (l : List Int) : w.emit a t l
qvlemma qv_emitAs (a : ActId) (lb : Int) (t : String) (l : List Int) : w.emitAs a lb t l
qvlemma qv_setPyEv (e : Nat) (f : PyEvent → PyEvent) : w.setPyEv e f
qvlemma qv_setPyProc (e : Nat) (f : PyProc Rat → PyProc Rat) : w.setPyProc e f
qvlemma qv_pyBind (x : Name) (e : Nat) : w.pyBind x e
qvlemma qv_newFlag : w.newFlag.1
qvlemma qv_pyNewEvent (k : PyKind) : (w.pyNewEvent k).1
theorem qv_setAct_tasks (s : ActId) (f : Activity Rat → Activity Rat) : (w.setAct s f).tasks = w.tasks := rfl
theorem qv_setFrames_tasks (a : ActId) (fs : List (Frame Rat)) : (w.setFrames a fs).tasks = w.tasks := rfl
theorem qv_newAct_tasks (fs : List (Frame Rat)) (r : Bool) (l : Int) : ((w.newAct fs r l).1).tasks = w.tasks := rfl
theorem qv_setTask_acts (s : TaskId) (f : Task → Task) : (w.setTask s f).acts = w.acts := rfl
@[simp, qvsimp] theorem qv_setMode_tasks (m : Mode) : (w.setMode m).tasks = w.tasks := by unfold setMode; split <;> rfl
@[simp, qvsimp] theorem qv_setMode_acts (m : Mode) : (w.setMode m).acts = w.acts := by unfold setMode; split <;> rfl
@[simp, qvsimp] theorem qv_emitScope_tasks (a : ActId) (s : ScopeId) (t : String) (l : List Int) : (w.emitScope a s t l).tasks = w.tasks := by
  unfold emitScope; split <;> rfl
@[simp, qvsimp] theorem qv_emitScope_acts (a : ActId) (s : ScopeId) (t : String) (l : List Int) : (w.emitScope a s t l).acts = w.acts := by
  unfold emitScope; split <;> rfl
@[simp, qvsimp] theorem qv_scheduleNow_tasks (a : ActId) (s : Option SigId) : (w.scheduleNow a s).tasks = w.tasks := by
  unfold scheduleNow; split <;> rfl
@[simp, qvsimp] theorem qv_scheduleNow_acts (a : ActId) (s : Option SigId) : (w.scheduleNow a s).acts = w.acts := by
  unfold scheduleNow; split <;> rfl

theorem qext_foldl {α} {t0 : Array Task} {a0 : Array (Activity Rat)} (f : World Rat → α → World Rat)
    (h : ∀ w x, QExt t0 a0 w.tasks w.acts → QExt t0 a0 (f w x).tasks (f w x).acts) (l : List α) :
    ∀ (w : World Rat), QExt t0 a0 w.tasks w.acts → QExt t0 a0 (l.foldl f w).tasks (l.foldl f w).acts := by
  induction l with
  | nil => intro w h0; exact h0
  | cons x xs ih => intro w h0; exact ih _ (h w x h0)

theorem qext_foldl_pair {α β} {t0 : Array Task} {a0 : Array (Activity Rat)} (f : World Rat × β → α → World Rat × β)
    (h : ∀ p x, QExt t0 a0 p.1.tasks p.1.acts → QExt t0 a0 (f p x).1.tasks (f p x).1.acts) (l : List α) :
    ∀ (p : World Rat × β), QExt t0 a0 p.1.tasks p.1.acts → QExt t0 a0 (l.foldl f p).1.tasks (l.foldl f p).1.acts := by
  induction l with
  | nil => intro w h0; exact h0
  | cons x xs ih => intro w h0; exact ih _ (h w x h0)

/-- one backward step: the lemma `f_qext` of the function at the head of the world term (folds over worlds included) -/
elab "qx_apply" : tactic => do
  let g ← Lean.Elab.Tactic.getMainGoal
  let t := (← Lean.instantiateMVars (← g.getType)).cleanupAnnotations
  let some x := t.getAppArgs.back? | throwError "qx_apply: not an application"
  let some x := x.cleanupAnnotations.getAppArgs.back? | throwError "qx_apply: no world term"
  let x := x.cleanupAnnotations
  let x := if x.isAppOf ``Prod.fst then (x.getAppArgs.back?.getD x).cleanupAnnotations else x
  match x.getAppFn with
  | .const n _ =>
    if n == ``List.foldl then
      Lean.Elab.Tactic.evalTactic (← `(tactic| (refine qext_foldl _ (fun w x h => ?_) _ _ ?_ <;> try (dsimp only))))
      return
    let lem := n.appendAfter "_qext"
    if (← Lean.getEnv).contains lem then
      Lean.Elab.Tactic.evalTactic (← `(tactic| apply $(Lean.mkIdent lem)))
    else throwError "qx_apply: no lemma {lem}"
  | _ => throwError "qx_apply: head is not a constant"

/-! ### the writers of the two tables -/
theorem setTask_qext {t0 : Array Task} {a0 : Array (Activity Rat)} (t : TaskId) (f : Task → Task)
    (hf : ∀ x, (f x).runner = x.runner ∧ (f x).parent = x.parent ∧ (f x).volatile = x.volatile ∧ (f x).done = x.done ∧
      (x.result.isSome = true → (f x).result.isSome = true))
    (h0 : QExt t0 a0 w.tasks w.acts) : QExt t0 a0 (w.setTask t f).tasks (w.setTask t f).acts :=
  QExt.modifyTask t f hf h0

theorem setAct_qext {t0 : Array Task} {a0 : Array (Activity Rat)} (a : ActId) (f : Activity Rat → Activity Rat)
    (hf : ∀ x, x.status ≠ .created → (f x).status ≠ .created)
    (h0 : QExt t0 a0 w.tasks w.acts) : QExt t0 a0 (w.setAct a f).tasks (w.setAct a f).acts :=
  QExt.modifyAct a f hf h0

theorem setFrames_qext {t0 : Array Task} {a0 : Array (Activity Rat)} (a : ActId) (fs : List (Frame Rat))
    (h0 : QExt t0 a0 w.tasks w.acts) : QExt t0 a0 (w.setFrames a fs).tasks (w.setFrames a fs).acts :=
  QExt.modifyAct a (fun x => { x with frames := fs }) (fun _ h => h) h0

theorem newAct_qext {t0 : Array Task} {a0 : Array (Activity Rat)} (fs : List (Frame Rat)) (r : Bool) (l : Int)
    (h0 : QExt t0 a0 w.tasks w.acts) : QExt t0 a0 ((w.newAct fs r l).1).tasks ((w.newAct fs r l).1).acts :=
  QExt.pushAct _ h0

theorem schedule_qv {a : ActId} {s : Option SigId} {wh : When Rat} {w w' : World Rat}
    (h : w.schedule a s wh = some w') : w'.tasks = w.tasks ∧ w'.acts = w.acts := by
  have hm : ∀ (w1 : World Rat), w1.tasks = w.tasks ∧ w1.acts = w.acts → (match s with
      | some s => w1.setSig s (fun x => { x with scheduled := true })
      | none => w1).tasks = w.tasks ∧ (match s with
      | some s => w1.setSig s (fun x => { x with scheduled := true })
      | none => w1).acts = w.acts := by
    intro w1 h1
    cases s with
    | none => exact h1
    | some s => exact h1
  unfold schedule at h
  cases wh with
  | now => simp only [Option.some.injEq] at h; subst h; exact hm _ ⟨rfl, rfl⟩
  | delay d =>
    simp only at h
    split at h
    · exact absurd h (by simp)
    · simp only [Option.some.injEq] at h; subst h; exact hm _ ⟨rfl, rfl⟩
  | at_ t =>
    simp only at h
    split at h
    · exact absurd h (by simp)
    · simp only [Option.some.injEq] at h; subst h; exact hm _ ⟨rfl, rfl⟩

theorem schedule_qext {t0 : Array Task} {a0 : Array (Activity Rat)} {a : ActId} {s : Option SigId} {wh : When Rat} {w w' : World Rat}
    (h : w.schedule a s wh = some w') (h0 : QExt t0 a0 w.tasks w.acts) : QExt t0 a0 w'.tasks w'.acts := by
  rw [(schedule_qv h).1, (schedule_qv h).2]; exact h0

theorem qv_buildNorm_both :
    (∀ (w : World Rat) (c : CExpr Rat), ∀ w' i, w.buildNorm c = some (w', i) → w'.ta = w.ta) ∧
    (∀ (w : World Rat) (cs : List (CExpr Rat)), ∀ w' is, w.buildNorms cs = some (w', is) → w'.ta = w.ta) := by
  apply World.buildNorm.mutual_induct
  case case4 =>
    intro w c h1 h2 w' i h
    cases c <;> first | (exact (h1 _ rfl).elim) | (exact (h2 _ rfl).elim) | (simp [buildNorm] at h)
  case case12 =>
    intro w cs ih w' i h
    simp only [buildNorm, Option.map_eq_some_iff, Prod.exists] at h
    obtain ⟨w1, ids, h1, h2⟩ := h
    have := ih w1 ids h1
    have e : w' = (w1.newCond (.all ids)).1 := by rw [h2]
    rw [e, ta_newCond, this]
  case case13 =>
    intro w cs ih w' i h
    simp only [buildNorm, Option.map_eq_some_iff, Prod.exists] at h
    obtain ⟨w1, ids, h1, h2⟩ := h
    have := ih w1 ids h1
    have e : w' = (w1.newCond (.any ids)).1 := by rw [h2]
    rw [e, ta_newCond, this]
  case case18 =>
    intro w a b iha ihb w' i h
    simp only [buildNorm, Option.bind_eq_some_iff, Option.map_eq_some_iff, Prod.exists] at h
    obtain ⟨w1, ia, h1, w2, ib, h2, h3⟩ := h
    have e := congrArg Prod.fst h3
    simp only at e
    rw [← e, ta_newCond, ihb (w1, ia) w2 ib h2, iha w1 ia h1]
  case case19 =>
    intro w a b iha ihb w' i h
    simp only [buildNorm, Option.bind_eq_some_iff, Option.map_eq_some_iff, Prod.exists] at h
    obtain ⟨w1, ia, h1, w2, ib, h2, h3⟩ := h
    have e := congrArg Prod.fst h3
    simp only at e
    rw [← e, ta_newCond, ihb (w1, ia) w2 ib h2, iha w1 ia h1]
  case case21 =>
    intro w c cs ih2 ih1 w' is h
    simp only [buildNorms, Option.bind_eq_some_iff, Option.map_eq_some_iff, Prod.exists, Prod.mk.injEq] at h
    obtain ⟨w1, i1, h1, w2, is2, h2, rfl, _⟩ := h
    rw [ih1 w1 w2 is2 h2, ih2 w1 i1 h1]
  all_goals intros
  all_goals rename_i h
  all_goals (simp only [buildNorm, buildNorms, Option.map_eq_some_iff, Option.some.injEq, Prod.mk.injEq] at h)
  all_goals (try obtain ⟨_, _, h⟩ := h)
  all_goals (try split at h)
  all_goals (try simp only [Prod.mk.injEq] at h)
  all_goals (try (obtain ⟨rfl, _⟩ := h; rfl))
  all_goals (first | rfl | (subst_vars; rfl))

theorem ta_buildCond {w w' : World Rat} {c : CExpr Rat} {i : CondId} (h : w.buildCond c = some (w', i)) : w'.ta = w.ta := by
  unfold buildCond at h
  simp only [Option.bind_eq_some_iff] at h
  obtain ⟨_, _, h⟩ := h
  exact qv_buildNorm_both.1 _ _ _ _ h

theorem qv_buildCond {w w' : World Rat} {c : CExpr Rat} {i : CondId} (h : w.buildCond c = some (w', i)) :
    w'.tasks = w.tasks ∧ w'.acts = w.acts :=
  ⟨congrArg Prod.fst (ta_buildCond h), congrArg Prod.snd (ta_buildCond h)⟩

/-- lemmas of functions that return `Option (World _)`: applied to a hypothesis `_ = some w'` (rules added below) -/
syntax "qx_hyp" : tactic
macro_rules | `(tactic| qx_hyp) => `(tactic| fail "no hypothesis lemma applies")

/-- backward chaining for goals `QExt t0 a0 (f w ..).tasks (f w ..).acts` from a hypothesis `h : QExt t0 a0 w.tasks w.acts` -/
syntax "qx " ident : tactic
macro_rules
  | `(tactic| qx $h:ident) => `(tactic| (repeat' (first
      | (with_reducible exact $h)
      | (with_reducible assumption)
      | (intro x; exact ⟨rfl, rfl, rfl, rfl, id⟩)
      | (intro x; exact ⟨rfl, rfl, rfl, rfl, fun _ => rfl⟩)
      | (intro x hx; exact hx)
      | (intro x hx hc; cases hc)
      | (simp only [qvsimp, ite_self]; with_reducible exact $h)
      | (simp only [qvsimp, ite_self]; with_reducible assumption)
      | (have hb := qv_buildCond ‹_ = some (_, _)›; simp only [qvsimp, hb.1, hb.2]; with_reducible exact $h)
      | (have hb := qv_buildCond ‹_ = some (_, _)›; rw [hb.1, hb.2]; with_reducible exact $h)
      | (simp only [qvsimp, ite_self])
      | (have hfst := congrArg Prod.fst ‹_ = (_, _)›; dsimp only at hfst; subst hfst)
      | (refine schedule_qext ‹_ = some _› ?_)
      | qx_hyp
      | (with_reducible refine QExt.pushTask _ ?_)
      | (with_reducible refine QExt.pushAct _ ?_)
      | qx_apply
      | split
      | (dsimp only; split))))

theorem retTo_qext {t0 : Array Task} {a0 : Array (Activity Rat)} (a : ActId) (fs : List (Frame Rat)) (v : Val) (h0 : QExt t0 a0 w.tasks w.acts) :
    QExt t0 a0 (w.retTo a fs v).tasks (w.retTo a fs v).acts := by unfold retTo; qx h0
theorem raiseTo_qext {t0 : Array Task} {a0 : Array (Activity Rat)} (a : ActId) (fs : List (Frame Rat)) (e : ExnId) (h0 : QExt t0 a0 w.tasks w.acts) :
    QExt t0 a0 (w.raiseTo a fs e).tasks (w.raiseTo a fs e).acts := by unfold raiseTo; qx h0
theorem raiseNew_qext {t0 : Array Task} {a0 : Array (Activity Rat)} (a : ActId) (fs : List (Frame Rat)) (c : ExnCls) (h0 : QExt t0 a0 w.tasks w.acts) :
    QExt t0 a0 (w.raiseNew a fs c).tasks (w.raiseNew a fs c).acts := by unfold raiseNew; qx h0
theorem hibernate_qext {t0 : Array Task} {a0 : Array (Activity Rat)} (a : ActId) (fs : List (Frame Rat)) (h0 : QExt t0 a0 w.tasks w.acts) :
    QExt t0 a0 (w.hibernate a fs).tasks (w.hibernate a fs).acts := by unfold hibernate; qx h0
theorem finishAct_qext {t0 : Array Task} {a0 : Array (Activity Rat)} (a : ActId) (m : Mode) (h0 : QExt t0 a0 w.tasks w.acts) :
    QExt t0 a0 (w.finishAct a m).tasks (w.finishAct a m).acts := by unfold finishAct; qx h0
theorem awakeAll_qext {t0 : Array Task} {a0 : Array (Activity Rat)} (c : CondId) (h0 : QExt t0 a0 w.tasks w.acts) :
    QExt t0 a0 (w.awakeAll c).tasks (w.awakeAll c).acts := by unfold awakeAll; qx h0
theorem awakeNext_qext {t0 : Array Task} {a0 : Array (Activity Rat)} (c : CondId) (h0 : QExt t0 a0 w.tasks w.acts) :
    QExt t0 a0 ((w.awakeNext c).1).tasks ((w.awakeNext c).1).acts := by unfold awakeNext; qx h0
theorem setDone_qext {t0 : Array Task} {a0 : Array (Activity Rat)} (t : TaskId) (h0 : QExt t0 a0 w.tasks w.acts) :
    QExt t0 a0 (w.setDone t).tasks (w.setDone t).acts := by unfold setDone; qx h0
theorem childFinished_qext {t0 : Array Task} {a0 : Array (Activity Rat)} (t : TaskId) (f : Bool) (h0 : QExt t0 a0 w.tasks w.acts) :
    QExt t0 a0 (w.childFinished t f).tasks (w.childFinished t f).acts := by unfold childFinished; qx h0
theorem taskFinalize_qext {t0 : Array Task} {a0 : Array (Activity Rat)} (t : TaskId) (h0 : QExt t0 a0 w.tasks w.acts) :
    QExt t0 a0 (w.taskFinalize t).tasks (w.taskFinalize t).acts := by unfold taskFinalize; qx h0
theorem newConcurrent_qext {t0 : Array Task} {a0 : Array (Activity Rat)} (c : List ExnId) (h0 : QExt t0 a0 w.tasks w.acts) :
    QExt t0 a0 ((w.newConcurrent c).1).tasks ((w.newConcurrent c).1).acts := by unfold newConcurrent; qx h0
theorem propagateExceptions_qext {t0 : Array Task} {a0 : Array (Activity Rat)} (s : ScopeId) (e : Option ExnId) (h0 : QExt t0 a0 w.tasks w.acts) :
    QExt t0 a0 ((w.propagateExceptions s e).1).tasks ((w.propagateExceptions s e).1).acts := by unfold propagateExceptions; qx h0
theorem condSubscribe_qext {t0 : Array Task} {a0 : Array (Activity Rat)} (c : CondId) (a : ActId) (s : SigId) (h0 : QExt t0 a0 w.tasks w.acts) :
    QExt t0 a0 (w.condSubscribe c a s).tasks (w.condSubscribe c a s).acts := by unfold condSubscribe; qx h0
theorem plainUnsubscribe_qext {t0 : Array Task} {a0 : Array (Activity Rat)} (c : CondId) (a : ActId) (s : SigId) (h0 : QExt t0 a0 w.tasks w.acts) :
    QExt t0 a0 ((w.plainUnsubscribe c a s).1).tasks ((w.plainUnsubscribe c a s).1).acts := by unfold plainUnsubscribe; qx h0
theorem unsubscribe_qext {t0 : Array Task} {a0 : Array (Activity Rat)} (c : CondId) (a : ActId) (s : SigId) (h0 : QExt t0 a0 w.tasks w.acts) :
    QExt t0 a0 ((w.unsubscribe c a s).1).tasks ((w.unsubscribe c a s).1).acts := by unfold unsubscribe; qx h0
theorem doPostpone_qext {t0 : Array Task} {a0 : Array (Activity Rat)} (a : ActId) (fs : List (Frame Rat)) (h0 : QExt t0 a0 w.tasks w.acts) :
    QExt t0 a0 (w.doPostpone a fs).tasks (w.doPostpone a fs).acts := by unfold doPostpone; qx h0

theorem ensureTrigger_qext {t0 : Array Task} {a0 : Array (Activity Rat)} {c : CondId} {w w' : World Rat} (h : w.ensureTrigger c = some w')
    (h0 : QExt t0 a0 w.tasks w.acts) : QExt t0 a0 w'.tasks w'.acts := by
  unfold ensureTrigger at h
  split at h
  · exact schedule_qext h (by qx h0)
  · cases h; exact h0
macro_rules | `(tactic| qx_hyp) => `(tactic| refine ensureTrigger_qext ‹_ = some _› ?_)

theorem subscribe_qext {t0 : Array Task} {a0 : Array (Activity Rat)} {c : CondId} {a : ActId} {s : SigId} {w w' : World Rat} (h : w.subscribe c a s = some w')
    (h0 : QExt t0 a0 w.tasks w.acts) : QExt t0 a0 w'.tasks w'.acts := by
  unfold subscribe at h
  split at h
  · cases h; qx h0
  · exact schedule_qext h (by qx h0)
  · split at h
    · cases h; qx h0
    · simp only [Option.map_eq_some_iff] at h
      obtain ⟨w1, h1, rfl⟩ := h
      have h2 := ensureTrigger_qext h1 h0
      qx h2
  · split at h
    · cases h; qx h0
    · split at h
      · cases h; qx h0
      · simp only [Option.map_eq_some_iff] at h
        obtain ⟨w1, h1, rfl⟩ := h
        have h2 := ensureTrigger_qext h1 h0
        qx h2
  · cases h; qx h0
macro_rules | `(tactic| qx_hyp) => `(tactic| refine subscribe_qext ‹_ = some _› ?_)

theorem doSuspend_qext {t0 : Array Task} {a0 : Array (Activity Rat)} (a : ActId) (fs : List (Frame Rat)) (wh : When Rat) (h0 : QExt t0 a0 w.tasks w.acts) :
    QExt t0 a0 (w.doSuspend a fs wh).tasks (w.doSuspend a fs wh).acts := by unfold doSuspend; qx h0
theorem doNotifAwait_qext {t0 : Array Task} {a0 : Array (Activity Rat)} (a : ActId) (fs : List (Frame Rat)) (c : CondId) (h0 : QExt t0 a0 w.tasks w.acts) :
    QExt t0 a0 (w.doNotifAwait a fs c).tasks (w.doNotifAwait a fs c).acts := by unfold doNotifAwait; qx h0
theorem doCondAwait_qext {t0 : Array Task} {a0 : Array (Activity Rat)} (a : ActId) (fs : List (Frame Rat)) (c : CondId) (h0 : QExt t0 a0 w.tasks w.acts) :
    QExt t0 a0 (w.doCondAwait a fs c).tasks (w.doCondAwait a fs c).acts := by unfold doCondAwait; qx h0
theorem lockRelease_qext {t0 : Array Task} {a0 : Array (Activity Rat)} (l : Name) (h0 : QExt t0 a0 w.tasks w.acts) :
    QExt t0 a0 (w.lockRelease l).tasks (w.lockRelease l).acts := by unfold lockRelease; qx h0
theorem beginClose_qext {t0 : Array Task} {a0 : Array (Activity Rat)} (a : ActId) (fs : List (Frame Rat)) (s : ScopeId) (o : Option ExnId) (g : Bool) (h0 : QExt t0 a0 w.tasks w.acts) :
    QExt t0 a0 (w.beginClose a fs s o g).tasks (w.beginClose a fs s o g).acts := by unfold beginClose; qx h0
theorem continueClose_qext {t0 : Array Task} {a0 : Array (Activity Rat)} (a : ActId) (fs : List (Frame Rat)) (s : ScopeId) (todo : List TaskId) (r : ExnId) (v : Bool) (o : Option ExnId) (g : Bool) (h0 : QExt t0 a0 w.tasks w.acts) :
    QExt t0 a0 (w.continueClose a fs s todo r v o g).tasks (w.continueClose a fs s todo r v o g).acts := by unfold continueClose; qx h0
theorem queueGetEnter_qext {t0 : Array Task} {a0 : Array (Activity Rat)} (a : ActId) (fs : List (Frame Rat)) (q : Name) (h0 : QExt t0 a0 w.tasks w.acts) :
    QExt t0 a0 (w.queueGetEnter a fs q).tasks (w.queueGetEnter a fs q).acts := by unfold queueGetEnter; qx h0
theorem lockAcquired_qext {t0 : Array Task} {a0 : Array (Activity Rat)} (a : ActId) (fs : List (Frame Rat)) (l : Name) (c : LockCont Rat) (h0 : QExt t0 a0 w.tasks w.acts) :
    QExt t0 a0 (w.lockAcquired a fs l c).tasks (w.lockAcquired a fs l c).acts := by unfold lockAcquired; qx h0
theorem acquireLock_qext {t0 : Array Task} {a0 : Array (Activity Rat)} (a : ActId) (fs : List (Frame Rat)) (l : Name) (c : LockCont Rat) (h0 : QExt t0 a0 w.tasks w.acts) :
    QExt t0 a0 (w.acquireLock a fs l c).tasks (w.acquireLock a fs l c).acts := by unfold acquireLock; qx h0
theorem setLevels_qext {t0 : Array Task} {a0 : Array (Activity Rat)} (r : Name) (lv : List Int) (h0 : QExt t0 a0 w.tasks w.acts) :
    QExt t0 a0 (w.setLevels r lv).tasks (w.setLevels r lv).acts := by unfold setLevels; qx h0
theorem setTrackedValue_qext {t0 : Array Task} {a0 : Array (Activity Rat)} (x : Name) (v : Int) (h0 : QExt t0 a0 w.tasks w.acts) :
    QExt t0 a0 (w.setTrackedValue x v).tasks (w.setTrackedValue x v).acts := by unfold setTrackedValue; qx h0
theorem throttle_qext {t0 : Array Task} {a0 : Array (Activity Rat)} (p : Name) (h0 : QExt t0 a0 w.tasks w.acts) :
    QExt t0 a0 (w.throttle p).tasks (w.throttle p).acts := by unfold throttle; qx h0
theorem pipeFinish_qext {t0 : Array Task} {a0 : Array (Activity Rat)} (p : Name) (i : Nat) (h0 : QExt t0 a0 w.tasks w.acts) :
    QExt t0 a0 (w.pipeFinish p i).tasks (w.pipeFinish p i).acts := by unfold pipeFinish; qx h0
theorem pipeWindowStart_qext {t0 : Array Task} {a0 : Array (Activity Rat)} (a : ActId) (fs : List (Frame Rat)) (p : Name) (i : Nat) (t1 t2 t3 : Rat) (h0 : QExt t0 a0 w.tasks w.acts) :
    QExt t0 a0 (w.pipeWindowStart a fs p i t1 t2 t3).tasks (w.pipeWindowStart a fs p i t1 t2 t3).acts := by unfold pipeWindowStart; qx h0
theorem tickNext_qext {t0 : Array Task} {a0 : Array (Activity Rat)} (a : ActId) (fs : List (Frame Rat)) (b : Bool) (p l : Rat) (n : Nat) (body : List (Stmt Rat)) (h0 : QExt t0 a0 w.tasks w.acts) :
    QExt t0 a0 (w.tickNext a fs b p l n body).tasks (w.tickNext a fs b p l n body).acts := by unfold tickNext; qx h0
theorem borrowEnter_qext {t0 : Array Task} {a0 : Array (Activity Rat)} (a : ActId) (fs : List (Frame Rat)) (r : Name) (am : List Int) (bind : Name) (body : List (Stmt Rat)) (c : Bool) (h0 : QExt t0 a0 w.tasks w.acts) :
    QExt t0 a0 (w.borrowEnter a fs r am bind body c).tasks (w.borrowEnter a fs r am bind body c).acts := by unfold borrowEnter; qx h0
theorem flagForceSet_qext {t0 : Array Task} {a0 : Array (Activity Rat)} (c : CondId) (h0 : QExt t0 a0 w.tasks w.acts) :
    QExt t0 a0 (w.flagForceSet c).tasks (w.flagForceSet c).acts := by unfold flagForceSet; qx h0
theorem pyScopeDo_qext {t0 : Array Task} {a0 : Array (Activity Rat)} (sid : ScopeId) (prog : List (Stmt Rat)) (after : Option Rat) (h0 : QExt t0 a0 w.tasks w.acts) :
    QExt t0 a0 ((w.pyScopeDo sid prog after).1).tasks ((w.pyScopeDo sid prog after).1).acts := by unfold pyScopeDo; qx h0
theorem pySchedule_qext {t0 : Array Task} {a0 : Array (Activity Rat)} (prog : List (Stmt Rat)) (d : Option Rat) (h0 : QExt t0 a0 w.tasks w.acts) :
    QExt t0 a0 ((w.pySchedule prog d).1).tasks ((w.pySchedule prog d).1).acts := by unfold pySchedule; qx h0
theorem pyTrigger_qext {t0 : Array Task} {a0 : Array (Activity Rat)} (e : Nat) (h0 : QExt t0 a0 w.tasks w.acts) :
    QExt t0 a0 ((w.pyTrigger e).1).tasks ((w.pyTrigger e).1).acts := by unfold pyTrigger; qx h0
theorem pySetValue_qext {t0 : Array Task} {a0 : Array (Activity Rat)} (e : Nat) (v : Int × Option ExnId) (cv : List Nat) (h0 : QExt t0 a0 w.tasks w.acts) :
    QExt t0 a0 ((w.pySetValue e v cv).1).tasks ((w.pySetValue e v cv).1).acts := by unfold pySetValue; qx h0
theorem pyInterrupt_qext {t0 : Array Task} {a0 : Array (Activity Rat)} (p : Nat) (c : Int) (h0 : QExt t0 a0 w.tasks w.acts) :
    QExt t0 a0 (w.pyInterrupt p c).tasks (w.pyInterrupt p c).acts := by unfold pyInterrupt; qx h0
theorem pySync_qext {t0 : Array Task} {a0 : Array (Activity Rat)} (a : ActId) (lbl : Int) (i : PyInstr Rat) (h0 : QExt t0 a0 w.tasks w.acts) :
    QExt t0 a0 ((w.pySync a lbl i).1).tasks ((w.pySync a lbl i).1).acts := by unfold pySync; qx h0
theorem pyWaitInterruptible_qext {t0 : Array Task} {a0 : Array (Activity Rat)} (a : ActId) (fs : List (Frame Rat)) (p e : Nat) (h0 : QExt t0 a0 w.tasks w.acts) :
    QExt t0 a0 (w.pyWaitInterruptible a fs p e).tasks (w.pyWaitInterruptible a fs p e).acts := by unfold pyWaitInterruptible; qx h0
theorem pyResume_qext {t0 : Array Task} {a0 : Array (Activity Rat)} (a : ActId) (fs : List (Frame Rat)) (p : Nat) (what : List Int) (e : Option ExnId) (h0 : QExt t0 a0 w.tasks w.acts) :
    QExt t0 a0 (w.pyResume a fs p what e).tasks (w.pyResume a fs p what e).acts := by unfold pyResume; qx h0
theorem pyCheckContinue_qext {t0 : Array Task} {a0 : Array (Activity Rat)} (a : ActId) (fs : List (Frame Rat)) (e : Nat) (un : List Nat) (obs : Nat) (h0 : QExt t0 a0 w.tasks w.acts) :
    QExt t0 a0 (w.pyCheckContinue a fs e un obs).tasks (w.pyCheckContinue a fs e un obs).acts := by unfold pyCheckContinue; qx h0
theorem pyCondFail_qext {t0 : Array Task} {a0 : Array (Activity Rat)} (a : ActId) (fs : List (Frame Rat)) (e m : Nat) (h0 : QExt t0 a0 w.tasks w.acts) :
    QExt t0 a0 (w.pyCondFail a fs e m).tasks (w.pyCondFail a fs e m).acts := by unfold pyCondFail; qx h0
theorem pyGenStep_qext {t0 : Array Task} {a0 : Array (Activity Rat)} (a : ActId) (fs : List (Frame Rat)) (p : Nat) (h0 : QExt t0 a0 w.tasks w.acts) :
    QExt t0 a0 (w.pyGenStep a fs p).tasks (w.pyGenStep a fs p).acts := by unfold pyGenStep; qx h0

end World
end USim.Machine
