import USimModel.Lemmas.PStepFrames
/-!
# One transition of the running activity only appends to the pending list

Every statement, every frame that gets a value or an exception only appends to `pending` (`PExt`) - except the
statement that starts a nested `run()` (which saves the list and starts an empty one).  Same structure as `KStep.lean`.
-/
set_option linter.unusedVariables false
set_option linter.unusedSimpArgs false
namespace USim.Machine
open TimeLike USim.Prim.Kernel
namespace World
variable (w : World Rat)

theorem execStmt_scope_pext {p0 : List Activation} (a : ActId) (fs : List (Frame Rat)) (name : Name) (untilN : Option (NExpr Rat))
    (body : List (Stmt Rat)) (h0 : PExt p0 w.pending) : PExt p0 (w.execStmt a fs (.scope name untilN body)).pending := by
  simp only [execStmt]
  split
  · px h0
  · rename_i w1 notif hb
    have h1 : w1.pending = w.pending := by
      split at hb
      · cases hb; rfl
      · simp only [Option.map_eq_some_iff, Prod.exists, Prod.mk.injEq] at hb
        obtain ⟨w2, c2, hb, rfl, _⟩ := hb
        exact pv_buildCond hb
      · split at hb <;> (cases hb; rfl)
    have h0' : PExt p0 w1.pending := by rw [h1]; exact h0
    clear hb
    cases notif <;> px h0'

theorem execStmt_callbacks_pext {p0 : List Activation} (a : ActId) (fs : List (Frame Rat)) (e : Nat) (h0 : PExt p0 w.pending) :
    PExt p0 (w.execStmt a fs (.pyInvokeCallbacks e)).pending := by
  simp only [execStmt]
  split
  · rename_i v exn cbs hv hc
    have h1 := pext_foldl (p0 := p0) (fun (w : World Rat) (cb : PyCb) => match cb with
        | .log k => w.emitAs a (4000 + (e : Int)) "cb" [k]) (by intro w x h; cases x; simpa using h) cbs
        (w.setPyEv e (fun x => { x with callbacks := none })) (by px h0)
    cases exn <;> px h1
  · px h0

set_option maxHeartbeats 1600000 in
theorem execStmt_pext {p0 : List Activation} (a : ActId) (fs : List (Frame Rat)) (s : Stmt Rat)
    (hs : ∀ progs start, s ≠ .nestedRun progs start) (h0 : PExt p0 w.pending) : PExt p0 (w.execStmt a fs s).pending := by
  cases s
  case scope name untilN body => exact execStmt_scope_pext w a fs name untilN body h0
  case nestedRun progs start => exact (hs _ _ rfl).elim
  case pyInvokeCallbacks e => exact execStmt_callbacks_pext w a fs e h0
  all_goals (simp only [execStmt]; px h0)

theorem stepRet_sub_pext {p0 : List Activation} (a : ActId) (l : List CondId) : ∀ (w : World Rat) (acc : List (CondId × SigId)) w' subs,
    World.stepRet.sub a w acc l = some (w', subs) → PExt p0 w.pending → PExt p0 w'.pending := by
  induction l with
  | nil => intro w acc w' subs h h0; simp only [stepRet.sub, Option.some.injEq, Prod.mk.injEq] at h; obtain ⟨rfl, _⟩ := h; exact h0
  | cons ch rest ih =>
    intro w acc w' subs h h0
    simp only [stepRet.sub] at h
    split at h
    · exact ih _ _ _ _ h h0
    · split at h
      · rename_i w1 hs
        exact ih _ _ _ _ h (subscribe_pext hs (by px h0))
      · cases h

theorem stepRetP_connStart {p0 : List Activation} (a : ActId) (fs : List (Frame Rat)) (v : Val) (c : CondId) (h0 : PExt p0 w.pending) :
    PExt p0 (w.stepRet a (.connStart c) fs v).pending := by
  simp only [stepRet]
  split
  · px h0
  · split
    · rename_i w1 subs hs
      have h2 := stepRet_sub_pext a _ _ _ _ _ hs h0
      px h2
    · px h0

theorem stepRetP_connHib {p0 : List Activation} (a : ActId) (fs : List (Frame Rat)) (v : Val) (c : CondId) (subs : List (CondId × SigId))
    (h0 : PExt p0 w.pending) : PExt p0 (w.stepRet a (.connHib c subs) fs v).pending := by
  simp only [stepRet]
  have h1 := pext_foldl (p0 := p0) (fun (w : World Rat) (p : CondId × SigId) => (w.unsubscribe p.1 a p.2).1)
    (by intro w x h; exact unsubscribe_pext w _ _ _ h) subs.reverse w h0
  px h1

theorem stepRaiseP_connHib {p0 : List Activation} (a : ActId) (fs : List (Frame Rat)) (e : ExnId) (c : CondId) (subs : List (CondId × SigId))
    (h0 : PExt p0 w.pending) : PExt p0 (w.stepRaise a (.connHib c subs) fs e).pending := by
  simp only [stepRaise]
  have h1 := pext_foldl_pair (p0 := p0) (fun (p : World Rat × Bool) (q : CondId × SigId) =>
        let (w, sw) := p
        let sw := sw || (w.sig q.2).exn == e
        ((w.unsubscribe q.1 a q.2).1, sw)) (by intro p x h; exact unsubscribe_pext _ _ _ _ h) subs.reverse (w, false) h0
  split <;> px h1

/-! ### the two case analyses -/

theorem stepRet_pext {p0 : List Activation} (a : ActId) (f : Frame Rat) (fs : List (Frame Rat)) (v : Val)
    (hf : ∀ progs start ss, f ≠ .seq (.nestedRun progs start :: ss)) (h0 : PExt p0 w.pending) : PExt p0 (w.stepRet a f fs v).pending := by
  cases f with
  | seq l =>
    cases l with
    | nil => simp only [stepRet]; px h0
    | cons s ss =>
      simp only [stepRet]
      exact execStmt_pext w a _ s (fun p st h => hf p st ss (by rw [h])) h0
  | connStart c => exact stepRetP_connStart w a fs v c h0
  | connHib c subs => exact stepRetP_connHib w a fs v c subs h0
  | wakeHib x0 => exact stepRetP_wakeHib w a fs v x0 h0
  | notifHib x0 x1 => exact stepRetP_notifHib w a fs v x0 x1 h0
  | foreverHib  => exact stepRetP_foreverHib w a fs v  h0
  | awaitMark x0 => exact stepRetP_awaitMark w a fs v x0 h0
  | sleepMark  => exact stepRetP_sleepMark w a fs v  h0
  | tickEnd  => exact stepRetP_tickEnd w a fs v  h0
  | condLoop x0 => exact stepRetP_condLoop w a fs v x0 h0
  | retVal x0 => exact stepRetP_retVal w a fs v x0 h0
  | retTrue  => exact stepRetP_retTrue w a fs v  h0
  | taskResult x0 x1 => exact stepRetP_taskResult w a fs v x0 x1 h0
  | taskStart x0 x1 x2 x3 => exact stepRetP_taskStart w a fs v x0 x1 x2 x3 h0
  | taskPayload x0 => exact stepRetP_taskPayload w a fs v x0 h0
  | scopeBody x0 => exact stepRetP_scopeBody w a fs v x0 h0
  | scopeExitSet x0 => exact stepRetP_scopeExitSet w a fs v x0 h0
  | scopeExitWait x0 x1 => exact stepRetP_scopeExitWait w a fs v x0 x1 h0
  | tryBlock x0 => exact stepRetP_tryBlock w a fs v x0 h0
  | finallyBlock x0 => exact stepRetP_finallyBlock w a fs v x0 h0
  | reraise x0 => exact stepRetP_reraise w a fs v x0 h0
  | closeResume  => exact stepRetP_closeResume w a fs v  h0
  | lockWait x0 x1 => exact stepRetP_lockWait w a fs v x0 x1 h0
  | lockBody x0 x1 => exact stepRetP_lockBody w a fs v x0 x1 h0
  | qGetPop x0 => exact stepRetP_qGetPop w a fs v x0 h0
  | gotValue  => exact stepRetP_gotValue w a fs v  h0
  | cGotValue x0 x1 => exact stepRetP_cGotValue w a fs v x0 x1 h0
  | qIterNext x0 x1 x2 => exact stepRetP_qIterNext w a fs v x0 x1 x2 h0
  | qIterGot x0 x1 x2 => exact stepRetP_qIterGot w a fs v x0 x1 x2 h0
  | cGetWait x0 x1 => exact stepRetP_cGetWait w a fs v x0 x1 h0
  | cIterLoop x0 x1 x2 x3 => exact stepRetP_cIterLoop w a fs v x0 x1 x2 x3 h0
  | cIterWait x0 x1 x2 x3 => exact stepRetP_cIterWait w a fs v x0 x1 x2 x3 h0
  | cIterNext x0 x1 x2 => exact stepRetP_cIterNext w a fs v x0 x1 x2 h0
  | borrowWait x0 x1 x2 => exact stepRetP_borrowWait w a fs v x0 x1 x2 h0
  | borrowRemoved x0 x1 x2 => exact stepRetP_borrowRemoved w a fs v x0 x1 x2 h0
  | borrowInserted x0 x1 x2 => exact stepRetP_borrowInserted w a fs v x0 x1 x2 h0
  | borrowBody x0 x1 => exact stepRetP_borrowBody w a fs v x0 x1 h0
  | borrowExit1 x0 x1 x2 => exact stepRetP_borrowExit1 w a fs v x0 x1 x2 h0
  | borrowExit2 x0 => exact stepRetP_borrowExit2 w a fs v x0 h0
  | resAdjust x0 x1 x2 => exact stepRetP_resAdjust w a fs v x0 x1 x2 h0
  | pipeWindow x0 x1 x2 x3 x4 x5 x6 x7 => exact stepRetP_pipeWindow w a fs v x0 x1 x2 x3 x4 x5 x6 x7 h0
  | tickWait x0 x1 x2 x3 x4 => exact stepRetP_tickWait w a fs v x0 x1 x2 x3 x4 h0
  | tickBody x0 x1 x2 x3 x4 => exact stepRetP_tickBody w a fs v x0 x1 x2 x3 x4 h0
  | collectAwait x0 x1 => exact stepRetP_collectAwait w a fs v x0 x1 h0
  | firstMonitor x0 => exact stepRetP_firstMonitor w a fs v x0 h0
  | firstNext x0 x1 x2 x3 => exact stepRetP_firstNext w a fs v x0 x1 x2 x3 h0
  | firstGot x0 x1 x2 x3 => exact stepRetP_firstGot w a fs v x0 x1 x2 x3 h0
  | firstYield x0 x1 x2 x3 => exact stepRetP_firstYield w a fs v x0 x1 x2 x3 h0
  | firstEnd x0 x1 => exact stepRetP_firstEnd w a fs v x0 x1 h0
  | pyGen x0 => exact stepRetP_pyGen w a fs v x0 h0
  | pyPayloadStart x0 => exact stepRetP_pyPayloadStart w a fs v x0 h0
  | pyPayloadLoop x0 => exact stepRetP_pyPayloadLoop w a fs v x0 h0
  | pyWaited x0 x1 => exact stepRetP_pyWaited w a fs v x0 x1 h0
  | pyNativeWaited x0 => exact stepRetP_pyNativeWaited w a fs v x0 h0
  | pyUntilEnd  => exact stepRetP_pyUntilEnd w a fs v  h0
  | pyWithEnd  => exact stepRetP_pyWithEnd w a fs v  h0
  | pyAwaited x0 => exact stepRetP_pyAwaited w a fs v x0 h0
  | pyCheckLoop x0 x1 x2 => exact stepRetP_pyCheckLoop w a fs v x0 x1 x2 h0
  | pyCode x0 => exact stepRetP_pyCode w a fs v x0 h0
  | raiseStop  => exact stepRetP_raiseStop w a fs v  h0
  | transferDone x0 => exact stepRetP_transferDone w a fs v x0 h0
  | borrowMark x0 => exact stepRetP_borrowMark w a fs v x0 h0
  | nestedRun  => exact stepRetP_nestedRun w a fs v  h0
  | taskDelay x0 x1 => exact stepRetP_taskDelay w a fs v x0 x1 h0
  | scopeClose x0 x1 x2 x3 x4 x5 => exact stepRetP_scopeClose w a fs v x0 x1 x2 x3 x4 x5 h0
  | asyncTrigger x0 => exact stepRetP_asyncTrigger w a fs v x0 h0
  | coroutineEnd  => exact stepRetP_coroutineEnd w a fs v  h0

theorem stepRaise_pext {p0 : List Activation} (a : ActId) (f : Frame Rat) (fs : List (Frame Rat)) (e : ExnId) (h0 : PExt p0 w.pending) :
    PExt p0 (w.stepRaise a f fs e).pending := by
  cases f with
  | connHib c subs => exact stepRaiseP_connHib w a fs e c subs h0
  | seq x0 => exact stepRaiseP_seq w a fs e x0 h0
  | wakeHib x0 => exact stepRaiseP_wakeHib w a fs e x0 h0
  | notifHib x0 x1 => exact stepRaiseP_notifHib w a fs e x0 x1 h0
  | foreverHib  => exact stepRaiseP_foreverHib w a fs e  h0
  | awaitMark x0 => exact stepRaiseP_awaitMark w a fs e x0 h0
  | sleepMark  => exact stepRaiseP_sleepMark w a fs e  h0
  | tickEnd  => exact stepRaiseP_tickEnd w a fs e  h0
  | condLoop x0 => exact stepRaiseP_condLoop w a fs e x0 h0
  | connStart x0 => exact stepRaiseP_connStart w a fs e x0 h0
  | retVal x0 => exact stepRaiseP_retVal w a fs e x0 h0
  | retTrue  => exact stepRaiseP_retTrue w a fs e  h0
  | taskResult x0 x1 => exact stepRaiseP_taskResult w a fs e x0 x1 h0
  | taskStart x0 x1 x2 x3 => exact stepRaiseP_taskStart w a fs e x0 x1 x2 x3 h0
  | taskPayload x0 => exact stepRaiseP_taskPayload w a fs e x0 h0
  | scopeBody x0 => exact stepRaiseP_scopeBody w a fs e x0 h0
  | scopeExitSet x0 => exact stepRaiseP_scopeExitSet w a fs e x0 h0
  | scopeExitWait x0 x1 => exact stepRaiseP_scopeExitWait w a fs e x0 x1 h0
  | tryBlock x0 => exact stepRaiseP_tryBlock w a fs e x0 h0
  | finallyBlock x0 => exact stepRaiseP_finallyBlock w a fs e x0 h0
  | reraise x0 => exact stepRaiseP_reraise w a fs e x0 h0
  | closeResume  => exact stepRaiseP_closeResume w a fs e  h0
  | lockWait x0 x1 => exact stepRaiseP_lockWait w a fs e x0 x1 h0
  | lockBody x0 x1 => exact stepRaiseP_lockBody w a fs e x0 x1 h0
  | qGetPop x0 => exact stepRaiseP_qGetPop w a fs e x0 h0
  | gotValue  => exact stepRaiseP_gotValue w a fs e  h0
  | cGotValue x0 x1 => exact stepRaiseP_cGotValue w a fs e x0 x1 h0
  | qIterNext x0 x1 x2 => exact stepRaiseP_qIterNext w a fs e x0 x1 x2 h0
  | qIterGot x0 x1 x2 => exact stepRaiseP_qIterGot w a fs e x0 x1 x2 h0
  | cGetWait x0 x1 => exact stepRaiseP_cGetWait w a fs e x0 x1 h0
  | cIterLoop x0 x1 x2 x3 => exact stepRaiseP_cIterLoop w a fs e x0 x1 x2 x3 h0
  | cIterWait x0 x1 x2 x3 => exact stepRaiseP_cIterWait w a fs e x0 x1 x2 x3 h0
  | cIterNext x0 x1 x2 => exact stepRaiseP_cIterNext w a fs e x0 x1 x2 h0
  | borrowWait x0 x1 x2 => exact stepRaiseP_borrowWait w a fs e x0 x1 x2 h0
  | borrowRemoved x0 x1 x2 => exact stepRaiseP_borrowRemoved w a fs e x0 x1 x2 h0
  | borrowInserted x0 x1 x2 => exact stepRaiseP_borrowInserted w a fs e x0 x1 x2 h0
  | borrowBody x0 x1 => exact stepRaiseP_borrowBody w a fs e x0 x1 h0
  | borrowExit1 x0 x1 x2 => exact stepRaiseP_borrowExit1 w a fs e x0 x1 x2 h0
  | borrowExit2 x0 => exact stepRaiseP_borrowExit2 w a fs e x0 h0
  | resAdjust x0 x1 x2 => exact stepRaiseP_resAdjust w a fs e x0 x1 x2 h0
  | pipeWindow x0 x1 x2 x3 x4 x5 x6 x7 => exact stepRaiseP_pipeWindow w a fs e x0 x1 x2 x3 x4 x5 x6 x7 h0
  | tickWait x0 x1 x2 x3 x4 => exact stepRaiseP_tickWait w a fs e x0 x1 x2 x3 x4 h0
  | tickBody x0 x1 x2 x3 x4 => exact stepRaiseP_tickBody w a fs e x0 x1 x2 x3 x4 h0
  | collectAwait x0 x1 => exact stepRaiseP_collectAwait w a fs e x0 x1 h0
  | firstMonitor x0 => exact stepRaiseP_firstMonitor w a fs e x0 h0
  | firstNext x0 x1 x2 x3 => exact stepRaiseP_firstNext w a fs e x0 x1 x2 x3 h0
  | firstGot x0 x1 x2 x3 => exact stepRaiseP_firstGot w a fs e x0 x1 x2 x3 h0
  | firstYield x0 x1 x2 x3 => exact stepRaiseP_firstYield w a fs e x0 x1 x2 x3 h0
  | firstEnd x0 x1 => exact stepRaiseP_firstEnd w a fs e x0 x1 h0
  | pyGen x0 => exact stepRaiseP_pyGen w a fs e x0 h0
  | pyPayloadStart x0 => exact stepRaiseP_pyPayloadStart w a fs e x0 h0
  | pyPayloadLoop x0 => exact stepRaiseP_pyPayloadLoop w a fs e x0 h0
  | pyWaited x0 x1 => exact stepRaiseP_pyWaited w a fs e x0 x1 h0
  | pyNativeWaited x0 => exact stepRaiseP_pyNativeWaited w a fs e x0 h0
  | pyUntilEnd  => exact stepRaiseP_pyUntilEnd w a fs e  h0
  | pyWithEnd  => exact stepRaiseP_pyWithEnd w a fs e  h0
  | pyAwaited x0 => exact stepRaiseP_pyAwaited w a fs e x0 h0
  | pyCheckLoop x0 x1 x2 => exact stepRaiseP_pyCheckLoop w a fs e x0 x1 x2 h0
  | pyCode x0 => exact stepRaiseP_pyCode w a fs e x0 h0
  | raiseStop  => exact stepRaiseP_raiseStop w a fs e  h0
  | transferDone x0 => exact stepRaiseP_transferDone w a fs e x0 h0
  | borrowMark x0 => exact stepRaiseP_borrowMark w a fs e x0 h0
  | nestedRun  => exact stepRaiseP_nestedRun w a fs e  h0
  | taskDelay x0 x1 => exact stepRaiseP_taskDelay w a fs e x0 x1 h0
  | scopeClose x0 x1 x2 x3 x4 x5 => exact stepRaiseP_scopeClose w a fs e x0 x1 x2 x3 x4 x5 h0
  | asyncTrigger x0 => exact stepRaiseP_asyncTrigger w a fs e x0 h0
  | coroutineEnd  => exact stepRaiseP_coroutineEnd w a fs e  h0

end World
end USim.Machine
