import Lean
/-- lemmas `(f w ..).exns = w.exns`, `.scopes`, `.queues`, `.chans`, `.py.events`: code that touches none of the object
tables of the sixth view (see `Lemmas/OView.lean`) -/
register_simp_attr ovsimp
