import USimModel.Lemmas.CStepFrames
/-!
# One transition of the running activity keeps the shape of every condition and only adds listeners

Same structure as `OStep.lean`, for the five structure tables (`CExt`).
-/
set_option linter.unusedVariables false
set_option linter.unusedSimpArgs false
namespace USim.Machine
open TimeLike USim.Prim.Kernel
namespace World
variable (w : World Rat)

theorem execStmt_scope_cext {o0 : CV} (a : ActId) (fs : List (Frame Rat)) (name : Name) (untilN : Option (NExpr Rat))
    (body : List (Stmt Rat)) (h0 : CX(o0, w)) : CX(o0, (w.execStmt a fs (.scope name untilN body))) := by
  simp only [execStmt]
  split
  · cx h0
  · rename_i w1 notif hb
    have h0' : CX(o0, w1) := by
      split at hb
      · cases hb; exact h0
      · simp only [Option.map_eq_some_iff, Prod.exists, Prod.mk.injEq] at hb
        obtain ⟨w2, c2, hb, rfl, _⟩ := hb
        exact buildCond_cext hb h0
      · split at hb <;> (cases hb; cx h0)
    clear hb
    cases notif <;> cx h0'

theorem execStmt_callbacks_cext {o0 : CV} (a : ActId) (fs : List (Frame Rat)) (e : Nat) (h0 : CX(o0, w)) :
    CX(o0, (w.execStmt a fs (.pyInvokeCallbacks e))) := by
  simp only [execStmt]
  split
  · rename_i v exn cbs hv hc
    have h1 := cext_foldl (o0 := o0) (fun (w : World Rat) (cb : PyCb) => match cb with
        | .log k => w.emitAs a (4000 + (e : Int)) "cb" [k]) (by intro w x h; cases x; simpa using h) cbs
        (w.setPyEv e (fun x => { x with callbacks := none })) (by cx h0)
    cases exn <;> cx h1
  · cx h0

set_option maxHeartbeats 1600000 in
theorem execStmt_cext {o0 : CV} (a : ActId) (fs : List (Frame Rat)) (s : Stmt Rat)
    (hs : ∀ progs start, s ≠ .nestedRun progs start) (h0 : CX(o0, w)) : CX(o0, (w.execStmt a fs s)) := by
  cases s
  case scope name untilN body => exact execStmt_scope_cext w a fs name untilN body h0
  case nestedRun progs start => exact (hs _ _ rfl).elim
  case pyInvokeCallbacks e => exact execStmt_callbacks_cext w a fs e h0
  case resChange r kind amounts =>
    simp only [execStmt]
    split
    · cx h0
    · split
      · cx h0
      · split
        · cx h0
        · split <;> cx h0
        · cx h0
  all_goals (simp only [execStmt]; cx h0)

theorem stepRet_sub_cext {o0 : CV} (a : ActId) (l : List CondId) : ∀ (w : World Rat) (acc : List (CondId × SigId)) w' subs,
    World.stepRet.sub a w acc l = some (w', subs) → CX(o0, w) → CX(o0, w') := by
  induction l with
  | nil => intro w acc w' subs h h0; simp only [stepRet.sub, Option.some.injEq, Prod.mk.injEq] at h; obtain ⟨rfl, _⟩ := h; exact h0
  | cons ch rest ih =>
    intro w acc w' subs h h0
    simp only [stepRet.sub] at h
    split at h
    · exact ih _ _ _ _ h h0
    · split at h
      · rename_i w1 hs
        exact ih _ _ _ _ h (subscribe_cext hs (by cx h0))
      · cases h

theorem stepRetC_connStart {o0 : CV} (a : ActId) (fs : List (Frame Rat)) (v : Val) (c : CondId) (h0 : CX(o0, w)) :
    CX(o0, (w.stepRet a (.connStart c) fs v)) := by
  simp only [stepRet]
  split
  · cx h0
  · split
    · rename_i w1 subs hs
      have h2 := stepRet_sub_cext a _ _ _ _ _ hs h0
      cx h2
    · cx h0

theorem stepRetC_connHib {o0 : CV} (a : ActId) (fs : List (Frame Rat)) (v : Val) (c : CondId) (subs : List (CondId × SigId))
    (h0 : CX(o0, w)) : CX(o0, (w.stepRet a (.connHib c subs) fs v)) := by
  simp only [stepRet]
  have h1 := cext_foldl (o0 := o0) (fun (w : World Rat) (p : CondId × SigId) => (w.unsubscribe p.1 a p.2).1)
    (by intro w x h; exact unsubscribe_cext w _ _ _ h) subs.reverse w h0
  cx h1

theorem stepRaiseC_connHib {o0 : CV} (a : ActId) (fs : List (Frame Rat)) (e : ExnId) (c : CondId) (subs : List (CondId × SigId))
    (h0 : CX(o0, w)) : CX(o0, (w.stepRaise a (.connHib c subs) fs e)) := by
  simp only [stepRaise]
  have h1 := cext_foldl_pair (o0 := o0) (fun (p : World Rat × Bool) (q : CondId × SigId) =>
        let (w, sw) := p
        let sw := sw || (w.sig q.2).exn == e
        ((w.unsubscribe q.1 a q.2).1, sw)) (by intro p x h; exact unsubscribe_cext _ _ _ _ h) subs.reverse (w, false) h0
  split <;> cx h1

theorem stepRetC_lockBody {o0 : CV} (a : ActId) (fs : List (Frame Rat)) (v : Val) (l : Name) (user : Bool) (h0 : CX(o0, w)) :
    CX(o0, (w.stepRet a (.lockBody l user) fs v)) := by
  cases user <;> simp only [stepRet, ↓reduceIte, Bool.false_eq_true] <;> split <;> cx h0

theorem stepRaiseC_lockBody {o0 : CV} (a : ActId) (fs : List (Frame Rat)) (e : ExnId) (l : Name) (user : Bool) (h0 : CX(o0, w)) :
    CX(o0, (w.stepRaise a (.lockBody l user) fs e)) := by
  cases user <;> simp only [stepRaise, ↓reduceIte, Bool.false_eq_true] <;> split <;> cx h0

/-! ### the two case analyses -/

theorem stepRet_cext {o0 : CV} (a : ActId) (f : Frame Rat) (fs : List (Frame Rat)) (v : Val)
    (hf : ∀ progs start ss, f ≠ .seq (.nestedRun progs start :: ss)) (h0 : CX(o0, w)) : CX(o0, (w.stepRet a f fs v)) := by
  cases f with
  | seq l =>
    cases l with
    | nil => simp only [stepRet]; cx h0
    | cons s ss =>
      simp only [stepRet]
      exact execStmt_cext w a _ s (fun p st h => hf p st ss (by rw [h])) h0
  | connStart c => exact stepRetC_connStart w a fs v c h0
  | connHib c subs => exact stepRetC_connHib w a fs v c subs h0
  | wakeHib x0 => exact stepRetC_wakeHib w a fs v x0 h0
  | notifHib x0 x1 => exact stepRetC_notifHib w a fs v x0 x1 h0
  | foreverHib  => exact stepRetC_foreverHib w a fs v  h0
  | awaitMark x0 => exact stepRetC_awaitMark w a fs v x0 h0
  | sleepMark  => exact stepRetC_sleepMark w a fs v  h0
  | tickEnd  => exact stepRetC_tickEnd w a fs v  h0
  | condLoop x0 => exact stepRetC_condLoop w a fs v x0 h0
  | retVal x0 => exact stepRetC_retVal w a fs v x0 h0
  | retTrue  => exact stepRetC_retTrue w a fs v  h0
  | taskResult x0 x1 => exact stepRetC_taskResult w a fs v x0 x1 h0
  | taskStart x0 x1 x2 x3 => exact stepRetC_taskStart w a fs v x0 x1 x2 x3 h0
  | taskPayload x0 => exact stepRetC_taskPayload w a fs v x0 h0
  | scopeBody x0 => exact stepRetC_scopeBody w a fs v x0 h0
  | scopeExitSet x0 => exact stepRetC_scopeExitSet w a fs v x0 h0
  | scopeExitWait x0 x1 => exact stepRetC_scopeExitWait w a fs v x0 x1 h0
  | tryBlock x0 => exact stepRetC_tryBlock w a fs v x0 h0
  | finallyBlock x0 => exact stepRetC_finallyBlock w a fs v x0 h0
  | reraise x0 => exact stepRetC_reraise w a fs v x0 h0
  | closeResume  => exact stepRetC_closeResume w a fs v  h0
  | lockWait x0 x1 => exact stepRetC_lockWait w a fs v x0 x1 h0
  | lockBody x0 x1 => exact stepRetC_lockBody w a fs v x0 x1 h0
  | qGetPop x0 => exact stepRetC_qGetPop w a fs v x0 h0
  | gotValue  => exact stepRetC_gotValue w a fs v  h0
  | cGotValue x0 x1 => exact stepRetC_cGotValue w a fs v x0 x1 h0
  | qIterNext x0 x1 x2 => exact stepRetC_qIterNext w a fs v x0 x1 x2 h0
  | qIterGot x0 x1 x2 => exact stepRetC_qIterGot w a fs v x0 x1 x2 h0
  | cGetWait x0 x1 => exact stepRetC_cGetWait w a fs v x0 x1 h0
  | cIterLoop x0 x1 x2 x3 => exact stepRetC_cIterLoop w a fs v x0 x1 x2 x3 h0
  | cIterWait x0 x1 x2 x3 => exact stepRetC_cIterWait w a fs v x0 x1 x2 x3 h0
  | cIterNext x0 x1 x2 => exact stepRetC_cIterNext w a fs v x0 x1 x2 h0
  | borrowWait x0 x1 x2 => exact stepRetC_borrowWait w a fs v x0 x1 x2 h0
  | borrowRemoved x0 x1 x2 => exact stepRetC_borrowRemoved w a fs v x0 x1 x2 h0
  | borrowInserted x0 x1 x2 => exact stepRetC_borrowInserted w a fs v x0 x1 x2 h0
  | borrowBody x0 x1 => exact stepRetC_borrowBody w a fs v x0 x1 h0
  | borrowExit1 x0 x1 x2 => exact stepRetC_borrowExit1 w a fs v x0 x1 x2 h0
  | borrowExit2 x0 => exact stepRetC_borrowExit2 w a fs v x0 h0
  | resAdjust x0 x1 x2 => exact stepRetC_resAdjust w a fs v x0 x1 x2 h0
  | pipeWindow x0 x1 x2 x3 x4 x5 x6 x7 => exact stepRetC_pipeWindow w a fs v x0 x1 x2 x3 x4 x5 x6 x7 h0
  | tickWait x0 x1 x2 x3 x4 => exact stepRetC_tickWait w a fs v x0 x1 x2 x3 x4 h0
  | tickBody x0 x1 x2 x3 x4 => exact stepRetC_tickBody w a fs v x0 x1 x2 x3 x4 h0
  | collectAwait x0 x1 => exact stepRetC_collectAwait w a fs v x0 x1 h0
  | firstMonitor x0 => exact stepRetC_firstMonitor w a fs v x0 h0
  | firstNext x0 x1 x2 x3 => exact stepRetC_firstNext w a fs v x0 x1 x2 x3 h0
  | firstGot x0 x1 x2 x3 => exact stepRetC_firstGot w a fs v x0 x1 x2 x3 h0
  | firstYield x0 x1 x2 x3 => exact stepRetC_firstYield w a fs v x0 x1 x2 x3 h0
  | firstEnd x0 x1 => exact stepRetC_firstEnd w a fs v x0 x1 h0
  | pyGen x0 => exact stepRetC_pyGen w a fs v x0 h0
  | pyPayloadStart x0 => exact stepRetC_pyPayloadStart w a fs v x0 h0
  | pyPayloadLoop x0 => exact stepRetC_pyPayloadLoop w a fs v x0 h0
  | pyWaited x0 x1 => exact stepRetC_pyWaited w a fs v x0 x1 h0
  | pyNativeWaited x0 => exact stepRetC_pyNativeWaited w a fs v x0 h0
  | pyUntilEnd  => exact stepRetC_pyUntilEnd w a fs v  h0
  | pyWithEnd  => exact stepRetC_pyWithEnd w a fs v  h0
  | pyAwaited x0 => exact stepRetC_pyAwaited w a fs v x0 h0
  | pyCheckLoop x0 x1 x2 => exact stepRetC_pyCheckLoop w a fs v x0 x1 x2 h0
  | pyCode x0 => exact stepRetC_pyCode w a fs v x0 h0
  | raiseStop  => exact stepRetC_raiseStop w a fs v  h0
  | transferDone x0 => exact stepRetC_transferDone w a fs v x0 h0
  | borrowMark x0 => exact stepRetC_borrowMark w a fs v x0 h0
  | nestedRun  => exact stepRetC_nestedRun w a fs v  h0
  | taskDelay x0 x1 => exact stepRetC_taskDelay w a fs v x0 x1 h0
  | scopeClose x0 x1 x2 x3 x4 x5 => exact stepRetC_scopeClose w a fs v x0 x1 x2 x3 x4 x5 h0
  | asyncTrigger x0 => exact stepRetC_asyncTrigger w a fs v x0 h0
  | coroutineEnd  => exact stepRetC_coroutineEnd w a fs v  h0

theorem stepRaise_cext {o0 : CV} (a : ActId) (f : Frame Rat) (fs : List (Frame Rat)) (e : ExnId) (h0 : CX(o0, w)) :
    CX(o0, (w.stepRaise a f fs e)) := by
  cases f with
  | connHib c subs => exact stepRaiseC_connHib w a fs e c subs h0
  | seq x0 => exact stepRaiseC_seq w a fs e x0 h0
  | wakeHib x0 => exact stepRaiseC_wakeHib w a fs e x0 h0
  | notifHib x0 x1 => exact stepRaiseC_notifHib w a fs e x0 x1 h0
  | foreverHib  => exact stepRaiseC_foreverHib w a fs e  h0
  | awaitMark x0 => exact stepRaiseC_awaitMark w a fs e x0 h0
  | sleepMark  => exact stepRaiseC_sleepMark w a fs e  h0
  | tickEnd  => exact stepRaiseC_tickEnd w a fs e  h0
  | condLoop x0 => exact stepRaiseC_condLoop w a fs e x0 h0
  | connStart x0 => exact stepRaiseC_connStart w a fs e x0 h0
  | retVal x0 => exact stepRaiseC_retVal w a fs e x0 h0
  | retTrue  => exact stepRaiseC_retTrue w a fs e  h0
  | taskResult x0 x1 => exact stepRaiseC_taskResult w a fs e x0 x1 h0
  | taskStart x0 x1 x2 x3 => exact stepRaiseC_taskStart w a fs e x0 x1 x2 x3 h0
  | taskPayload x0 => exact stepRaiseC_taskPayload w a fs e x0 h0
  | scopeBody x0 => exact stepRaiseC_scopeBody w a fs e x0 h0
  | scopeExitSet x0 => exact stepRaiseC_scopeExitSet w a fs e x0 h0
  | scopeExitWait x0 x1 => exact stepRaiseC_scopeExitWait w a fs e x0 x1 h0
  | tryBlock x0 => exact stepRaiseC_tryBlock w a fs e x0 h0
  | finallyBlock x0 => exact stepRaiseC_finallyBlock w a fs e x0 h0
  | reraise x0 => exact stepRaiseC_reraise w a fs e x0 h0
  | closeResume  => exact stepRaiseC_closeResume w a fs e  h0
  | lockWait x0 x1 => exact stepRaiseC_lockWait w a fs e x0 x1 h0
  | lockBody x0 x1 => exact stepRaiseC_lockBody w a fs e x0 x1 h0
  | qGetPop x0 => exact stepRaiseC_qGetPop w a fs e x0 h0
  | gotValue  => exact stepRaiseC_gotValue w a fs e  h0
  | cGotValue x0 x1 => exact stepRaiseC_cGotValue w a fs e x0 x1 h0
  | qIterNext x0 x1 x2 => exact stepRaiseC_qIterNext w a fs e x0 x1 x2 h0
  | qIterGot x0 x1 x2 => exact stepRaiseC_qIterGot w a fs e x0 x1 x2 h0
  | cGetWait x0 x1 => exact stepRaiseC_cGetWait w a fs e x0 x1 h0
  | cIterLoop x0 x1 x2 x3 => exact stepRaiseC_cIterLoop w a fs e x0 x1 x2 x3 h0
  | cIterWait x0 x1 x2 x3 => exact stepRaiseC_cIterWait w a fs e x0 x1 x2 x3 h0
  | cIterNext x0 x1 x2 => exact stepRaiseC_cIterNext w a fs e x0 x1 x2 h0
  | borrowWait x0 x1 x2 => exact stepRaiseC_borrowWait w a fs e x0 x1 x2 h0
  | borrowRemoved x0 x1 x2 => exact stepRaiseC_borrowRemoved w a fs e x0 x1 x2 h0
  | borrowInserted x0 x1 x2 => exact stepRaiseC_borrowInserted w a fs e x0 x1 x2 h0
  | borrowBody x0 x1 => exact stepRaiseC_borrowBody w a fs e x0 x1 h0
  | borrowExit1 x0 x1 x2 => exact stepRaiseC_borrowExit1 w a fs e x0 x1 x2 h0
  | borrowExit2 x0 => exact stepRaiseC_borrowExit2 w a fs e x0 h0
  | resAdjust x0 x1 x2 => exact stepRaiseC_resAdjust w a fs e x0 x1 x2 h0
  | pipeWindow x0 x1 x2 x3 x4 x5 x6 x7 => exact stepRaiseC_pipeWindow w a fs e x0 x1 x2 x3 x4 x5 x6 x7 h0
  | tickWait x0 x1 x2 x3 x4 => exact stepRaiseC_tickWait w a fs e x0 x1 x2 x3 x4 h0
  | tickBody x0 x1 x2 x3 x4 => exact stepRaiseC_tickBody w a fs e x0 x1 x2 x3 x4 h0
  | collectAwait x0 x1 => exact stepRaiseC_collectAwait w a fs e x0 x1 h0
  | firstMonitor x0 => exact stepRaiseC_firstMonitor w a fs e x0 h0
  | firstNext x0 x1 x2 x3 => exact stepRaiseC_firstNext w a fs e x0 x1 x2 x3 h0
  | firstGot x0 x1 x2 x3 => exact stepRaiseC_firstGot w a fs e x0 x1 x2 x3 h0
  | firstYield x0 x1 x2 x3 => exact stepRaiseC_firstYield w a fs e x0 x1 x2 x3 h0
  | firstEnd x0 x1 => exact stepRaiseC_firstEnd w a fs e x0 x1 h0
  | pyGen x0 => exact stepRaiseC_pyGen w a fs e x0 h0
  | pyPayloadStart x0 => exact stepRaiseC_pyPayloadStart w a fs e x0 h0
  | pyPayloadLoop x0 => exact stepRaiseC_pyPayloadLoop w a fs e x0 h0
  | pyWaited x0 x1 => exact stepRaiseC_pyWaited w a fs e x0 x1 h0
  | pyNativeWaited x0 => exact stepRaiseC_pyNativeWaited w a fs e x0 h0
  | pyUntilEnd  => exact stepRaiseC_pyUntilEnd w a fs e  h0
  | pyWithEnd  => exact stepRaiseC_pyWithEnd w a fs e  h0
  | pyAwaited x0 => exact stepRaiseC_pyAwaited w a fs e x0 h0
  | pyCheckLoop x0 x1 x2 => exact stepRaiseC_pyCheckLoop w a fs e x0 x1 x2 h0
  | pyCode x0 => exact stepRaiseC_pyCode w a fs e x0 h0
  | raiseStop  => exact stepRaiseC_raiseStop w a fs e  h0
  | transferDone x0 => exact stepRaiseC_transferDone w a fs e x0 h0
  | borrowMark x0 => exact stepRaiseC_borrowMark w a fs e x0 h0
  | nestedRun  => exact stepRaiseC_nestedRun w a fs e  h0
  | taskDelay x0 x1 => exact stepRaiseC_taskDelay w a fs e x0 x1 h0
  | scopeClose x0 x1 x2 x3 x4 x5 => exact stepRaiseC_scopeClose w a fs e x0 x1 x2 x3 x4 x5 h0
  | asyncTrigger x0 => exact stepRaiseC_asyncTrigger w a fs e x0 h0
  | coroutineEnd  => exact stepRaiseC_coroutineEnd w a fs e  h0

end World
end USim.Machine
